// Shim for running rust-subprocess's `cfg(windows)` pure functions on Linux.
// The text between the EXTRACTED markers is copied verbatim from /repo/src/popen.rs on every run.
#![allow(dead_code, unused_imports, unused_mut, unused_variables)]
use std::io::{self, BufRead, Write};
// module names the extracted functions may refer to through `use` lines of their own module (those lines are not extracted)
use std::{char, cmp, iter, mem, ptr, slice};

mod osshim {
    /// stand-in for both `OsString` and `OsStr` on Windows: a vector of UTF-16 code units
    #[derive(Clone, Debug, PartialEq, Eq, Hash)]
    pub struct WStr(pub Vec<u16>);
    impl WStr {
        pub fn encode_wide(&self) -> impl Iterator<Item = u16> + '_ {
            self.0.iter().cloned()
        }
        pub fn is_empty(&self) -> bool {
            self.0.is_empty()
        }
        pub fn from_wide(w: &[u16]) -> WStr {
            WStr(w.to_vec())
        }
        /// what `OsStr::len` answers on Windows: the length of the WTF-8 form in BYTES, not the number of UTF-16 units
        pub fn len(&self) -> usize {
            let u = &self.0;
            let (mut i, mut n) = (0, 0);
            while i < u.len() {
                let c = u[i];
                if c < 0x80 {
                    n += 1;
                } else if c < 0x800 {
                    n += 2;
                } else if (0xd800..0xdc00).contains(&c) && i + 1 < u.len() && (0xdc00..0xe000).contains(&u[i + 1]) {
                    n += 4;
                    i += 1;
                } else {
                    n += 3;
                }
                i += 1;
            }
            n
        }
    }
    impl AsRef<WStr> for WStr {
        fn as_ref(&self) -> &WStr {
            self
        }
    }
}
type OsString = osshim::WStr;
type OsStr = osshim::WStr;
mod win32 {
    pub const ERROR_BAD_PATHNAME: u32 = 161;
}

// ---- EXTRACTED BEGIN ----
//@EXTRACTED@
// ---- EXTRACTED END ----

const SP: u16 = 0x20;
const TAB: u16 = 0x09;
const QT: u16 = 0x22;
const BS: u16 = 0x5c;

/// Harness-side oracle: Microsoft argument rule (post-2008 `""` variant when `crt2008`),
/// written independently of the Lean model as a direct loop with look-ahead.
fn ms_parse_args(s: &[u16], crt2008: bool) -> Vec<Vec<u16>> {
    let mut out = vec![];
    let mut i = 0;
    let n = s.len();
    loop {
        while i < n && (s[i] == SP || s[i] == TAB) {
            i += 1;
        }
        if i >= n {
            break;
        }
        let mut cur = vec![];
        let mut in_q = false;
        loop {
            let mut nbs = 0;
            while i < n && s[i] == BS {
                i += 1;
                nbs += 1;
            }
            let mut copy = true;
            if i < n && s[i] == QT {
                if nbs % 2 == 0 {
                    if in_q && i + 1 < n && s[i + 1] == QT {
                        // "" inside quotes: literal quote
                        i += 1;
                        if !crt2008 {
                            in_q = false;
                        }
                    } else {
                        copy = false;
                        in_q = !in_q;
                    }
                }
                nbs /= 2;
            }
            for _ in 0..nbs {
                cur.push(BS);
            }
            if i >= n || (!in_q && (s[i] == SP || s[i] == TAB)) {
                break;
            }
            if copy {
                cur.push(s[i]);
            }
            i += 1;
        }
        out.push(cur);
    }
    out
}

/// program-name rule (UCRT): quotes toggle and are dropped, ends at space/tab outside quotes
fn prog_name(s: &[u16]) -> (Vec<u16>, usize) {
    let mut q = false;
    let mut name = vec![];
    let mut i = 0;
    while i < s.len() {
        let c = s[i];
        i += 1;
        if c == QT {
            q = !q;
            continue;
        }
        if (c == SP || c == TAB) && !q {
            return (name, i);
        }
        name.push(c);
    }
    (name, i)
}

fn needs_quote(a: &[u16]) -> bool {
    a.is_empty() || a.iter().any(|&c| c == SP || c == TAB || c == 0x0a || c == 0x0b || c == QT)
}

fn prog_ok(p: &[u16]) -> bool {
    !p.contains(&QT) && !(needs_quote(p) && p.last() == Some(&BS))
}

fn hex(v: &[u16]) -> String {
    if v.is_empty() {
        return "-".to_string();
    }
    v.iter().map(|u| format!("{:04x}", u)).collect()
}

fn unhex(s: &str) -> Vec<u16> {
    if s == "-" {
        return vec![];
    }
    let b = s.as_bytes();
    (0..b.len() / 4)
        .map(|i| u16::from_str_radix(std::str::from_utf8(&b[4 * i..4 * i + 4]).unwrap(), 16).unwrap())
        .collect()
}

fn main() {
    std::panic::set_hook(Box::new(|_| {}));
    let stdin = io::stdin();
    let out = io::stdout();
    let mut out = io::BufWriter::new(out.lock());
    for line in stdin.lock().lines() {
        let line = line.unwrap();
        let mut toks = line.split_whitespace();
        if toks.next() != Some("win") {
            writeln!(out, "bad-request").unwrap();
            continue;
        }
        let argv: Vec<Vec<u16>> = toks.map(unhex).collect();
        let input: Vec<osshim::WStr> = argv.iter().map(|a| osshim::WStr(a.clone())).collect();
        let res = match std::panic::catch_unwind(std::panic::AssertUnwindSafe(|| assemble_cmdline(input))) {
            Ok(r) => r,
            Err(_) => {
                // Popen::create would panic in the caller's thread: no command line at all
                writeln!(out, "panic oracle=FAIL").unwrap();
                continue;
            }
        };
        match res {
            Err(e) => {
                let has_nul = argv.iter().any(|a| a.contains(&0));
                let code_ok = e.raw_os_error() == Some(161);
                writeln!(out, "err oracle={}", if has_nul && code_ok { "pass" } else { "FAIL" }).unwrap();
            }
            Ok(t) => {
                let t = t.0;
                // direct oracle on the implementation's own output
                let mut pass = !argv.iter().any(|a| a.contains(&0));
                if !argv.is_empty() {
                    for &v in &[true, false] {
                        // arguments after argv[0]: render them alone is not possible through the API,
                        // so parse the whole line: program name rule, then the argument rule
                        let (p, rest) = prog_name(&t);
                        let args = ms_parse_args(&t[rest..], v);
                        if prog_ok(&argv[0]) {
                            if p != argv[0] {
                                pass = false;
                            }
                            if args != argv[1..] {
                                pass = false;
                            }
                        }
                        // independent of argv[0]'s shape: a leading dummy program name followed by
                        // the text must give back the full vector by the argument rule
                        let mut with_dummy = vec![0x78u16, SP];
                        with_dummy.extend_from_slice(&t);
                        let all = ms_parse_args(&with_dummy[2..], v);
                        if all != argv {
                            pass = false;
                        }
                    }
                } else if !t.is_empty() {
                    pass = false;
                }
                writeln!(out, "ok {} oracle={}", hex(&t), if pass { "pass" } else { "FAIL" }).unwrap();
            }
        }
    }
}

#!/bin/bash
# usage: tools_seedtest.sh <patch.diff> <prop> [<prop> ...]   -- applies the patch to /repo, runs the quick checks, reverts
set -u
patch=$(realpath $1); shift
cd /repo
if ! git apply --check "$patch" 2>/dev/null; then
  if ! git apply --3way "$patch" 2>/dev/null; then echo "PATCH DOES NOT APPLY: $patch"; git checkout -- . ; git reset -q; exit 3; fi
  git reset -q
else
  git apply "$patch"
fi
git diff --stat | tail -1
cd /verif
for p in "$@"; do ./check $p --tier quick 2>&1 | grep -E "VIOLATION|KNOWN|^\[" | cut -c1-250; done
git -C /repo checkout -- .
git -C /repo status --short | head -3

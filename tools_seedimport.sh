#!/bin/bash
# usage: tools_seedimport.sh Cxx  -- copy /tmp/seed/Cxx/out into /verif/seeded/Cxx, rebasing the patch onto /repo's HEAD if needed
id=$1; src=/tmp/seed/$id/out; dst=/verif/seeded/$id
mkdir -p $dst; cp $src/patch.diff $dst/patch.orig.diff; cp $src/seeded_demo.rs $src/run.sh $dst/ 2>/dev/null
cd /repo
if git apply --check $src/patch.diff 2>/dev/null; then cp $src/patch.diff $dst/patch.diff; echo "$id: applies cleanly"; 
elif patch -p1 -s --dry-run < $src/patch.diff >/dev/null 2>&1; then patch -p1 -s < $src/patch.diff; find src -name '*.orig' -delete; git diff -- src > $dst/patch.diff; git checkout -- .; echo "$id: rebased with patch(1)";
else echo "$id: NEEDS MANUAL REBASE"; cp $src/patch.diff $dst/patch.diff; fi
git status --short | head -3

#!/usr/bin/env python3-vt
import json, jsonschema, glob, sys
jsonschema.validate(json.load(open('/verif/MANIFEST.json')), json.load(open('/root/.vp/MANIFEST.schema.json')))
es = json.load(open('/root/.vp/EVIDENCE.schema.json'))
for f in sorted(glob.glob('/verif/evidence/*.json')):
    jsonschema.validate(json.load(open(f)), es)
    print('ok', f)
print('manifest ok')

#!/bin/bash
# usage: tools_seedconfirm.sh Cxx [worktree-root [name-under-seeded]]   -- confirm a seeded change in its scratch worktree /tmp/seed/Cxx, then store it under /verif/seeded/Cxx
#   (1) unchanged src: demo passes   (2) patched src: whole suite passes, demo fails
id=$1; root=${2:-/tmp/seed}; wt=$root/$id; out=$wt/out; dst=/verif/seeded/${3:-$id}
export CARGO_TARGET_DIR=$wt/target CARGO_NET_OFFLINE=true
cd $wt || exit 2
git checkout -q -- src
timeout 300 sh $out/run.sh > $out/confirm_demo_clean.log 2>&1; rc_clean=$?
git apply $out/patch.diff || { echo "$id: patch does not apply"; exit 3; }
# the existing suite only: keep the demonstration out of the way
mkdir -p $wt/.demo_aside; for f in tests/seeded_demo.rs examples/seeded_demo.rs; do [ -f $f ] && mv $f $wt/.demo_aside/$(echo $f | tr / _); done
timeout 600 cargo test --workspace --no-fail-fast --offline > $out/confirm_suite.log 2>&1
[ -f $wt/.demo_aside/tests_seeded_demo.rs ] && mv $wt/.demo_aside/tests_seeded_demo.rs tests/seeded_demo.rs
[ -f $wt/.demo_aside/examples_seeded_demo.rs ] && mv $wt/.demo_aside/examples_seeded_demo.rs examples/seeded_demo.rs
# the demo itself may live in tests/: count only the pre-existing 73
npass=$(grep -E "^test .* ok$" $out/confirm_suite.log | grep -v seeded | wc -l)
nfail=$(grep -E "^test .* FAILED$" $out/confirm_suite.log | grep -v -i seeded | wc -l)
timeout 300 sh $out/run.sh > $out/confirm_demo_patched.log 2>&1; rc_patched=$?
echo "$id: demo_clean_rc=$rc_clean suite_pass=$npass suite_fail=$nfail demo_patched_rc=$rc_patched"
mkdir -p $dst
[ -f $dst/patch.diff ] || cp $out/patch.diff $dst/patch.diff
cp $out/seeded_demo.rs $out/run.sh $dst/ 2>/dev/null
python3 - <<PY
import json
m=json.load(open("$out/meta.json"))
m["confirmed_by_me"]={"worktree":"$wt (removed afterwards)","demo_on_unchanged_src_rc":$rc_clean,"existing_suite_with_change":{"passed":$npass,"failed":$nfail,"cmd":"cargo test --workspace --no-fail-fast --offline"},"demo_with_change_rc":$rc_patched,"ok": ($rc_clean==0 and $nfail==0 and $rc_patched!=0)}
m["breaks_property"]="$id"
import os
if os.path.exists("$dst/meta.json"):
    old=json.load(open("$dst/meta.json"))
    for k in ("detected_by","what_i_ran","rebased"):
        if k in old: m[k]=old[k]
json.dump(m,open("$dst/meta.json","w"),indent=1)
PY

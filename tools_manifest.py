#!/usr/bin/env python3
"""Regenerates MANIFEST.json from checks/manifest_data.py (keeps it valid at all times)."""
import json, os, sys
ROOT = os.path.dirname(os.path.abspath(__file__))
sys.path.insert(0, os.path.join(ROOT, "checks"))
import manifest_data as md
props = [json.loads(l) for l in open(os.path.join(ROOT, "properties.jsonl"))]
checks = []
na = []
for p in props:
    pid = p["id"]
    c = md.CLAIMED.get(pid)
    if c is None:
        na.append({"property_id": pid, "reason": md.NOT_CLAIMED.get(pid, "check not built yet (planned, see DESIGN.md section 6)")})
        continue
    checks.append({
        "property_id": pid,
        "quick_cmd": f"cd /verif && ./check {pid} --tier quick",
        "thorough_cmd": f"cd /verif && ./check {pid} --tier thorough",
        "evidence_file": f"/verif/evidence/{pid}.json",
        "replay_cmd_template": f"cd /verif && ./check {pid} --replay {{path}}",
        "engine": c["engine"],
        "level_claimed": {"category": c.get("category", "proof"), "text": c["text"], "design_ref": c["design_ref"]},
        "level_note": c["note"],
        "technique": c["technique"],
    })
m = {
    "version": 1,
    "setup_cmd": "cd /verif && ./check --setup",
    "hooks": md.HOOKS,
    "engines": md.ENGINES,
    "checks": checks,
    "notes": md.NOTES,
    "not_applicable": na,
}
json.dump(m, open(os.path.join(ROOT, "MANIFEST.json"), "w"), indent=1)
print(f"MANIFEST.json: {len(checks)} checks, {len(na)} not claimed")

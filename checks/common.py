"""Shared machinery for the checks: Lean obligations + axiom audit, harness build, driver I/O,
verdict protocol, evidence files."""
import sys, os, json, time, subprocess, re, fcntl, shutil

ROOT = os.path.dirname(os.path.dirname(os.path.abspath(__file__)))
LEAN = os.path.join(ROOT, "lean")
BUILD = os.path.join(ROOT, ".build")
HARNESS = os.path.join(ROOT, "harness")
REPO = os.environ.get("VERIF_REPO", "/repo")
EVID = os.path.join(ROOT, "evidence")
REPLAYS = os.path.join(ROOT, "replays")
DRIVER = os.path.join(LEAN, ".lake", "build", "bin", "modeldriver")
ALLOWED_AXIOMS = {"propext", "Classical.choice", "Quot.sound"}
FORBIDDEN = ["sorry", "admit", "native_decide", "bv_decide", "implemented_by", "unsafe ",
             "maxHeartbeats 0"]
NCPU = os.cpu_count() or 4

TRUSTED_BASE_COMMON = [
    "Lean 4.33.0 kernel (leanchecker re-check in the thorough tier)",
    "axioms allowed in property theorems: propext, Classical.choice, Quot.sound; no sorry/admit/"
    "native_decide/bv_decide/own axioms (audited on every run)",
    "hand-written Lean model; tie to /repo is the differential correspondence check of this run "
    "(tested on generated histories, not proved)",
    "Rust std, libc/glibc, the Linux kernel and the compiler are outside the model",
]


class Abort(Exception):
    pass


def env_offline():
    e = dict(os.environ)
    e["CARGO_NET_OFFLINE"] = "true"
    e.setdefault("CARGO_TARGET_DIR", os.path.join(BUILD, "target"))
    return e


def run(cmd, cwd=None, timeout=None, input=None, env=None):
    p = subprocess.run(cmd, cwd=cwd, timeout=timeout, input=input, env=env,
                       stdout=subprocess.PIPE, stderr=subprocess.STDOUT, text=isinstance(input, str) or input is None)
    return p.returncode, p.stdout


class Lock:
    def __init__(self, name):
        os.makedirs(BUILD, exist_ok=True)
        self.path = os.path.join(BUILD, name + ".lock")

    def __enter__(self):
        self.f = open(self.path, "w")
        fcntl.flock(self.f, fcntl.LOCK_EX)

    def __exit__(self, *a):
        fcntl.flock(self.f, fcntl.LOCK_UN)
        self.f.close()


def strip_comments(src):
    # remove /- ... -/ (nested) and -- ... comments
    out = []
    i, depth, n = 0, 0, len(src)
    while i < n:
        if src.startswith("/-", i):
            depth += 1
            i += 2
        elif depth and src.startswith("-/", i):
            depth -= 1
            i += 2
        elif depth:
            i += 1
        elif src.startswith("--", i):
            while i < n and src[i] != "\n":
                i += 1
        else:
            out.append(src[i])
            i += 1
    return "".join(out)


def lean_sources():
    res = []
    for d in ("Model", "Proofs", "Props"):
        for r, _, fs in os.walk(os.path.join(LEAN, d)):
            for f in fs:
                if f.endswith(".lean"):
                    res.append(os.path.join(r, f))
    res.append(os.path.join(LEAN, "Driver.lean"))
    return sorted(res)


def forbidden_scan():
    hits = []
    for p in lean_sources():
        src = strip_comments(open(p).read())
        for tok in FORBIDDEN:
            if tok in src:
                hits.append(f"{os.path.relpath(p, LEAN)}: {tok.strip()}")
        if re.search(r"^\s*axiom\s", src, re.M):
            hits.append(f"{os.path.relpath(p, LEAN)}: axiom")
    return hits


def theorems_of(prop):
    """Fully qualified names of the theorems declared in Props/<prop>.lean."""
    path = os.path.join(LEAN, "Props", prop + ".lean")
    src = strip_comments(open(path).read())
    names, ns = [], []
    for line in src.splitlines():
        m = re.match(r"\s*namespace\s+(\S+)", line)
        if m:
            ns.append(m.group(1))
            continue
        m = re.match(r"\s*end\s+(\S+)", line)
        if m and ns and ns[-1] == m.group(1):
            ns.pop()
            continue
        m = re.match(r"\s*(?:private\s+|protected\s+)?theorem\s+(\S+)", line)
        if m:
            names.append(".".join(ns + [m.group(1)]))
    return names


def setup():
    t0 = time.time()
    os.makedirs(BUILD, exist_ok=True)
    with Lock("lake"):
        rc, out = run(["lake", "build"], cwd=LEAN)
    print(out[-3000:])
    if rc != 0:
        print("setup: lake build failed")
        return 1
    if os.path.exists(os.path.join(HARNESS, "Cargo.toml")):
        with Lock("cargo"):
            rc, out = run(["cargo", "build", "--release", "--offline"], cwd=HARNESS, env=env_offline())
        print(out[-3000:])
        if rc != 0:
            print("setup: cargo build failed")
            return 1
    print(f"setup ok in {time.time() - t0:.1f}s")
    return 0


class Ctx:
    def __init__(self, prop, tier, seed, replay=None):
        self.prop, self.tier, self.seed, self.replay = prop, tier, seed, replay
        self.t0 = time.time()
        self.cov = {"obligations": 0, "discharged": 0, "checker_cmd": "", "trusted_base": list(TRUSTED_BASE_COMMON),
                    "evaluations": 0, "distinct_nontrivial": 0, "rule": "", "samples": [],
                    "traces_validated_against_impl": 0}
        self.assumptions = []
        self.violations = []        # (replay_path, found_input: bool)
        self.known = []             # printed KNOWN-FINDING lines
        self.broken = []            # descriptions of broken obligations / correspondences without input
        self.level = "proof"
        os.makedirs(EVID, exist_ok=True)
        os.makedirs(REPLAYS, exist_ok=True)
        os.makedirs(BUILD, exist_ok=True)
        self.kf = load_known_findings()
        for f in os.listdir(REPLAYS):
            if f.startswith(self.prop + "-") and not replay:
                os.remove(os.path.join(REPLAYS, f))
        # remove stale evidence so that a crash cannot leave an old file behind
        try:
            os.remove(self.evidence_path())
        except FileNotFoundError:
            pass

    def evidence_path(self):
        return os.path.join(EVID, self.prop + ".json")

    def log(self, *a):
        print(*a, flush=True)

    # ---------------------------------------------------------------- Lean obligations
    def lean_obligations(self, extra_modules=()):
        """Build Props.<prop>, scan for forbidden tokens, audit axioms of every property theorem.
        Returns True iff every obligation is discharged."""
        prop = self.prop
        mods = [f"Props.{prop}"] + list(extra_modules)
        self.cov["checker_cmd"] = (f"cd lean && lake build {' '.join(mods)} modeldriver && "
                                   f"lake env lean .audit/{prop}.lean  (#print axioms of every theorem)")
        thms = theorems_of(prop)
        self.cov["obligations"] = len(thms) + 1          # + the forbidden-token scan
        self.cov["theorems"] = thms
        with Lock("lake"):
            rc, out = run(["lake", "build"] + mods + ["modeldriver"], cwd=LEAN)
        if rc != 0:
            failing = sorted(set(re.findall(r"error: (\S+\.lean:\d+)", out)))
            self.broken.append({"kind": "proof-obligation", "what": f"lake build {' '.join(mods)} failed",
                                "where": failing, "log_tail": out[-4000:]})
            self.log("LEAN BUILD FAILED:\n" + out[-2000:])
            return False
        hits = forbidden_scan()
        ok = True
        if hits:
            self.broken.append({"kind": "proof-obligation", "what": "forbidden token in Lean sources", "where": hits})
            ok = False
        else:
            self.cov["discharged"] += 1
        # axiom audit
        adir = os.path.join(LEAN, ".audit")
        os.makedirs(adir, exist_ok=True)
        apath = os.path.join(adir, prop + ".lean")
        with open(apath, "w") as f:
            f.write(f"import Props.{prop}\n")
            for t in thms:
                f.write(f"#print axioms {t}\n")
        with Lock("lake"):
            rc, out = run(["lake", "env", "lean", apath], cwd=LEAN)
        if rc != 0:
            self.broken.append({"kind": "proof-obligation", "what": "axiom audit failed to run", "log_tail": out[-3000:]})
            return False
        axioms_seen = set()
        per = {}
        # output: "'name' depends on axioms: [a, b]"  or "'name' does not depend on any axioms"
        for m in re.finditer(r"'([^']+)' (does not depend on any axioms|depends on axioms: \[([^\]]*)\])", out, re.S):
            name = m.group(1)
            axs = [a.strip() for a in (m.group(3) or "").replace("\n", " ").split(",") if a.strip()]
            per[name] = axs
            axioms_seen.update(axs)
        for t in thms:
            if t not in per:
                self.broken.append({"kind": "proof-obligation", "what": f"no axiom report for theorem {t}"})
                ok = False
            elif set(per[t]) - ALLOWED_AXIOMS:
                self.broken.append({"kind": "proof-obligation", "what": f"theorem {t} depends on non-standard axioms",
                                    "where": sorted(set(per[t]) - ALLOWED_AXIOMS)})
                ok = False
            else:
                self.cov["discharged"] += 1
        self.cov["axioms_seen"] = sorted(axioms_seen)
        if self.tier == "thorough":
            with Lock("lake"):
                rc, out = run(["lake", "env", "leanchecker"] + mods, cwd=LEAN)
            self.cov["leanchecker"] = "ok" if rc == 0 else "FAILED"
            if rc != 0:
                self.broken.append({"kind": "proof-obligation", "what": "leanchecker rejected the modules", "log_tail": out[-2000:]})
                ok = False
        return ok

    # ---------------------------------------------------------------- harness
    def cargo_build(self):
        with Lock("cargo"):
            rc, out = run(["cargo", "build", "--release", "--offline"], cwd=HARNESS, env=env_offline())
        if rc != 0:
            self.broken.append({"kind": "correspondence", "what": "harness does not build against /repo's working tree",
                                "log_tail": out[-4000:]})
            self.log("HARNESS BUILD FAILED:\n" + out[-3000:])
            return False
        return True

    def harness_bin(self, name="harness"):
        return os.path.join(env_offline()["CARGO_TARGET_DIR"], "release", name)

    def run_driver(self, text):
        """Feed request lines to the Lean model driver; returns the list of answer lines."""
        def big_stack():
            import resource
            try:
                resource.setrlimit(resource.RLIMIT_STACK, (resource.RLIM_INFINITY, resource.RLIM_INFINITY))
            except (ValueError, OSError):
                pass
        lines = text.splitlines()
        # one request per line, each answered on its own: large batches are split over several driver processes
        nchunk = 1 if len(text) < 4_000_000 else min(12, max(1, len(lines) // 8))
        size = (len(lines) + nchunk - 1) // nchunk if lines else 0
        chunks = [lines[i:i + size] for i in range(0, len(lines), size)] if lines else [[]]

        def one(chunk):
            return subprocess.run([DRIVER], input=("\n".join(chunk) + "\n").encode() if chunk else b"",
                                  stdout=subprocess.PIPE, stderr=subprocess.PIPE, preexec_fn=big_stack)
        if len(chunks) == 1:
            results = [one(chunks[0])]
        else:
            from concurrent.futures import ThreadPoolExecutor
            with ThreadPoolExecutor(max_workers=len(chunks)) as ex:
                results = list(ex.map(one, chunks))
        out = []
        for p, chunk in zip(results, chunks):
            if p.returncode != 0:
                self.broken.append({"kind": "correspondence", "what": "modeldriver crashed", "log_tail": p.stderr.decode()[-2000:]})
                raise Abort()
            ans = p.stdout.decode().splitlines()
            if len(ans) != len(chunk):
                self.broken.append({"kind": "correspondence", "what": f"modeldriver answered {len(ans)} of {len(chunk)} requests",
                                    "log_tail": p.stderr.decode()[-2000:]})
                raise Abort()
            out += ans
        return out

    # ---------------------------------------------------------------- verdicts
    def write_replay(self, obj, tag):
        path = os.path.join(REPLAYS, f"{self.prop}-{self.seed}-{tag}.json")
        obj = dict(obj)
        obj.setdefault("property", self.prop)
        obj.setdefault("seed", self.seed)
        obj.setdefault("tier", self.tier)
        with open(path, "w") as f:
            json.dump(obj, f, indent=1, default=str)
        return path

    def violation(self, obj, signature=None):
        """A concrete failing input / history against the implementation (direct oracle)."""
        if signature is not None:
            kf = self.kf.get((self.prop, signature))
            if kf is not None and kf.get("status") == "known":
                line = f"KNOWN-FINDING: property={self.prop} {signature}: {kf.get('what', '')}"
                if line not in self.known:
                    self.known.append(line)
                return
        obj = dict(obj)
        obj["kind"] = obj.get("kind", "implementation-violates-property")
        if signature:
            obj["signature"] = signature
        path = self.write_replay(obj, f"v{len(self.violations)}")
        self.violations.append((path, True))

    def broken_correspondence(self, obj):
        """Model and implementation disagree (or an obligation no longer checks) but no failing input is known yet."""
        obj = dict(obj)
        obj.setdefault("kind", "correspondence")
        self.broken.append(obj)

    def finish(self):
        wall = time.time() - self.t0
        found = [v for v in self.violations if v[1]]
        lines = []
        for path, _ in found:
            lines.append(f"VIOLATION property={self.prop} replay={path}")
        if self.broken and not found:
            path = self.write_replay({"kind": "no-failing-input-found", "broken": self.broken,
                                      "note": "a proof obligation or the model/implementation correspondence no longer "
                                              "checks; the oracle search of this run found no failing input"}, "broken")
            lines.append(f"VIOLATION property={self.prop} replay={path} no-failing-input-found")
        elif self.broken:
            # attach the broken obligations to the first replay for the record
            self.write_replay({"kind": "broken-obligations", "broken": self.broken}, "broken")
        cov = self.cov
        cov["known_findings_reported"] = list(self.known)
        if self.broken:
            cov["broken"] = [b.get("what", b.get("kind")) for b in self.broken]
            # an undischarged obligation must be visible in the counts
            if cov["discharged"] >= cov["obligations"] and any(b.get("kind") == "proof-obligation" for b in self.broken):
                cov["discharged"] = max(0, cov["obligations"] - 1)
        ev = {"property_id": self.prop, "tier": self.tier, "seed": self.seed, "level": self.level,
              "coverage": cov, "assumptions": self.assumptions, "wall_s": round(wall, 2),
              "violations": len(lines)}
        with open(self.evidence_path(), "w") as f:
            json.dump(ev, f, indent=1, default=str)
        for k in self.known:
            print(k)
        for l in lines:
            print(l)
        print(f"[{self.prop}] tier={self.tier} seed={self.seed} obligations={cov['discharged']}/{cov['obligations']} "
              f"cases={cov['evaluations']} violations={len(lines)} wall={wall:.1f}s")
        return 1 if lines else 0


def load_known_findings():
    path = os.path.join(ROOT, "known_findings.json")
    res = {}
    try:
        data = json.load(open(path))
    except FileNotFoundError:
        return res
    for e in data.get("findings", []):
        res[(e["property"], e["signature"])] = e
    return res


class SplitMix64:
    def __init__(self, seed):
        self.s = seed & 0xFFFFFFFFFFFFFFFF

    def next(self):
        self.s = (self.s + 0x9E3779B97F4A7C15) & 0xFFFFFFFFFFFFFFFF
        z = self.s
        z = ((z ^ (z >> 30)) * 0xBF58476D1CE4E5B9) & 0xFFFFFFFFFFFFFFFF
        z = ((z ^ (z >> 27)) * 0x94D049BB133111EB) & 0xFFFFFFFFFFFFFFFF
        return z ^ (z >> 31)

    def below(self, n):
        return self.next() % n

    def choice(self, xs):
        return xs[self.below(len(xs))]

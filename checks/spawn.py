"""C05 C06 C07 C08 C15 C17 C18 (engine `spawn`): the real Popen::create in trace mode (libc entry points interposed,
calls of parent and forked child logged through shared memory, k-th call of a kind made to fail, exec intercepted).
Direct oracles on the implementation's own log; the Lean models (Model/Path.lean, Model/Spawn.lean) replay the same
answers."""
import os, re, json, subprocess, stat, itertools
import common
from common import SplitMix64

FS = os.path.join(common.BUILD, "spawnfs")


def hx(b):
    if isinstance(b, str):
        b = b.encode()
    return "-" if not b else b.hex()


def unhx(t):
    return b"" if t in ("-", "") else bytes.fromhex(t)


def make_fs():
    """a small tree for PATH lookups: good/ has an executable `prog`, noexec/ a plain file, isdir/ a directory of that
    name, long/ a 250-character component, plus deep working directories of given lengths"""
    os.makedirs(FS, exist_ok=True)
    def mk(d, kind):
        p = os.path.join(FS, d)
        os.makedirs(p, exist_ok=True)
        t = os.path.join(p, "prog")
        if kind == "exe":
            if not os.path.exists(t):
                with open(t, "w") as f:
                    f.write("#!/bin/sh\nexit 0\n")
            os.chmod(t, 0o755)
        elif kind == "noexec":
            if not os.path.exists(t):
                open(t, "w").write("x")
            os.chmod(t, 0o644)
        elif kind == "dir":
            os.makedirs(t, exist_ok=True)
        return p
    dirs = {"good": mk("good", "exe"), "good2": mk("good2", "exe"), "noexec": mk("noexec", "noexec"),
            "isdir": mk("isdir", "dir"), "empty": mk("empty", None), "long": mk("L" * 250, "exe"),
            "missing": os.path.join(FS, "missing")}
    cw = {}
    for n in (10, 383, 384, 385, 1000, 3000):
        p = FS
        while len(p) < n:
            seg = "d" * min(200, n - len(p) - 1)
            if not seg:
                break
            p = os.path.join(p, seg)
        os.makedirs(p, exist_ok=True)
        cw[n] = p
    return dirs, cw


def startable(path):
    try:
        st = os.stat(path)
    except OSError as e:
        return e.errno
    if not stat.S_ISREG(st.st_mode):
        return 13
    if not os.access(path, os.X_OK):
        return 13
    return 0


# --------------------------------------------------------------------------------------------- parsing
def parse(out):
    cases, cur = [], None
    for l in out.splitlines():
        if l.startswith("CASE "):
            cur = {"index": int(l[5:]), "log": [], "pfd": {}}
            cases.append(cur)
        elif cur is None:
            continue
        elif l.startswith("SPEC "):
            cur["spec"] = l[5:]
            cur["kv"] = dict(t.split("=", 1) for t in l[5:].split() if "=" in t)
        elif l.startswith("OBJ "):
            cur["obj"] = dict(t.split("=", 1) for t in l[4:].split())
        elif l.startswith("RES "):
            cur["res"] = l[4:].split()
        elif l.startswith("PFD "):
            k, _, v = l[4:].partition("=")
            cur["pfd"][k] = {int(e.split(":")[0]): e.split(":", 1)[1] for e in v.split(",") if e}
        elif l.startswith("LOG "):
            cur["log"].append(l[4:])
        elif l.startswith("WINDOW "):
            cur["window"] = dict(t.split("=", 1) for t in l[7:].split())
        elif l.startswith("ALLOC "):
            cur["alloc"] = [int(x) for x in l[6:].split()]
        elif l.startswith("LEFT "):
            cur["left"] = dict(t.split("=", 1) for t in l[5:].split())
        elif l == "END":
            cur["complete"] = True
    return cases


def snapshot(c):
    for l in c["log"]:
        if l.startswith("C snapshot"):
            d = {}
            for t in l.split()[2:]:
                k, _, v = t.partition("=")
                d[k] = v
            return d
    return None


def snapshots(c):
    """the child's state at every exec attempt (the first one is `snapshot(c)`)"""
    out = []
    for l in c["log"]:
        if l.startswith("C snapshot") or l.startswith("C resnapshot"):
            d = {}
            for t in l.split()[2:]:
                k, _, v = t.partition("=")
                d[k] = v
            out.append(d)
    return out


def child_vec(c, label):
    for l in c["log"]:
        if l.startswith("C " + label + " "):
            toks = l.split()[2:]
            if toks == ["inherit"]:
                return None
            if toks == ["none"]:
                return []
            return [unhx(t) for t in toks]
    return "absent"


def execs(c):
    r = []
    for l in c["log"]:
        m = re.match(r"C exec (\S+) -> (\S+)", l)
        if m:
            r.append((unhx(m.group(1)), m.group(2)))
    return r


def forked(c):
    return any(l.startswith("P fork -> K") for l in c["log"])


# --------------------------------------------------------------------------------------------- case generators
TRUE = hx("/bin/true")
KINDS = ["N", "P", "M", "F", "R"]


def triple_spec(i, o, e, share):
    """map kinds to concrete tokens; `share`: RcFile streams use one Rc (True) or distinct ones"""
    fcount, rcount, toks = 0, 0, []
    for k in (i, o, e):
        if k == "F":
            toks.append(f"F{fcount}"); fcount += 1
        elif k == "R":
            toks.append("R0" if share or rcount >= 2 else f"R{rcount}"); rcount += 1
        else:
            toks.append(k)
    return toks


CLOSED_SETS = ["0", "1", "2", "01", "02", "12", "012"]


def gen_c05(ctx):
    cases = []
    for i, o, e in itertools.product(KINDS, repeat=3):
        for share in ((True, False) if [i, o, e].count("R") >= 2 else (True,)):
            a, b, c = triple_spec(i, o, e, share)
            cases.append(f"in={a} out={b} err={c} det=0 argv={TRUE}")
    # spawns from short-lived threads (the thread-local stream cache is dropped at thread exit), merges onto inherited
    for a, b, c in [("N", "M", "N"), ("N", "N", "M"), ("P", "M", "N"), ("N", "P", "M"), ("N", "M", "P")] * 3:
        cases.append(f"in={a} out={b} err={c} det=0 thread=1 argv={TRUE}")
    for a, b, c in [("N", "M", "N"), ("N", "N", "M"), ("N", "N", "N")] * 2:
        cases.append(f"in={a} out={b} err={c} det=0 argv={TRUE}")
    # the caller's own standard descriptors are separate opens of one file (`prog >log 2>log`, or all three): `Merge` must
    # still give the child ONE open file (a shared offset), as `2>&1` does -- the same inode is not the same open file
    for same in ("12", "012", "01", "02"):
        for a, b, c in (("N", "M", "N"), ("N", "N", "M"), ("P", "M", "N"), ("P", "N", "M"), ("N", "N", "N"), ("N", "M", "P"), ("N", "P", "M")):
            cases.append(f"in={a} out={b} err={c} det=0 argv={TRUE} samefile={same}")
    # descriptor exhaustion at each pipe() of a launch with three pipes (and at the fcntl after it)
    for k in range(4):
        cases.append(f"in=P out=P err=P det=0 argv={TRUE} faults=P.pipe.{k}.24")
        cases.append(f"in=N out=P err=M det=0 argv={TRUE} faults=P.pipe.{min(k, 1)}.23")
    cases.append(f"in=P out=P err=P det=0 argv={TRUE} faults=P.fcntl.1.24")
    # options that have nothing to do with redirection must not change the wiring -- also when the caller's own streams are a
    # terminal (an "inherited" stream is the caller's own stream, whatever kind of file that is)
    for tty in ("0", "012", "12"):
        for opt in ("", "pgid=1", "uid=0 gid=0", "det=1x"):
            for i, o, e in (("N", "N", "N"), ("N", "P", "N"), ("P", "N", "M"), ("N", "M", "N")):
                a, b, c = triple_spec(i, o, e, True)
                det = 1 if opt == "det=1x" else 0
                extra = "" if opt in ("", "det=1x") else " " + opt
                cases.append(f"in={a} out={b} err={c} det={det}{extra} argv={TRUE} tty={tty}")
    # the caller's streams (and the files it passes) are in non-blocking mode: that is a property of the open file, shared
    # with the child -- spawning must leave it alone ("never alters the parent's own standard streams")
    for i, o, e in (("N", "N", "N"), ("N", "P", "N"), ("P", "N", "M"), ("N", "M", "N"), ("F", "R", "R"), ("R", "F", "N")):
        a, b, c = triple_spec(i, o, e, True)
        cases.append(f"in={a} out={b} err={c} det=0 argv={TRUE} nonblock=012")
    # a caller that runs daemon-style, with some of its own descriptors 0-2 closed: the library's pipes land there
    kinds = ["N", "P"] if ctx.tier == "quick" else ["N", "P", "F", "R"]
    for closed in CLOSED_SETS:
        for i, o, e in itertools.product(kinds, repeat=3):
            a, b, c = triple_spec(i, o, e, True)
            cases.append(f"in={a} out={b} err={c} det=0 argv={TRUE} closed={closed}")
    return cases


def oracle_c05(c, viol):
    kv, res = c["kv"], c["res"]
    i, o, e = kv["in"], kv["out"], kv["err"]
    invalid = i == "M" or (o == "M" and e == "M")
    if invalid:
        if res[0] != "logic":
            viol(f"invalid combination in={i} out={o} err={e} was not refused with a logic error (result: {' '.join(res)})",
                 "merge-for-both-outputs-accepted" if i != "M" else None)
        if forked(c):
            viol(f"invalid combination in={i} out={o} err={e}: a process was started")
        return
    if kv.get("faults", "-") != "-":
        # a launch that fails part-way (descriptor exhaustion): "spawning never closes or alters the parent's own standard
        # streams" holds for failed attempts too
        for n in range(3):
            if c["pfd"]["dropped"].get(n) != c["pfd"]["before"].get(n):
                viol(f"a failed launch ({kv['faults']}) changed or closed the parent's own fd {n} "
                     f"({c['pfd']['before'].get(n)} -> {c['pfd']['dropped'].get(n)})")
        for l in c["log"]:
            if re.match(r"P (?:close [012] |dup2 \d+ [012] )", l):
                viol(f"a failed launch ({kv['faults']}) touched the parent's own standard stream: {l}")
        return
    if res[0] != "ok":
        viol(f"valid combination in={i} out={o} err={e} failed: {' '.join(res)}")
        return
    fields = dict(t.split("=", 1) for t in res[1:])
    for name, tok in (("in", i), ("out", o), ("err", e)):
        if (fields[name] != "0") != (tok == "P"):
            viol(f"Popen.{name} is {'Some' if fields[name] != '0' else 'None'} for redirection {tok}")
    snap = snapshot(c)
    if snap is not None and "M" in (o, e) and snap.get("shr12") == "0":
        viol(f"redirection Merge (out={o} err={e}): the child's descriptors 1 and 2 are two separate open files on the same inode "
             f"({snap.get('fd1')}, {snap.get('fd2')}), each with an offset of its own, not one open file as `2>&1` gives: what is "
             f"written through one is overwritten through the other")
    if snap is None:
        viol("no exec snapshot of the child")
        return
    def cid(n):
        v = snap.get(f"fd{n}")
        return ":".join(v.split(":")[:2]) if v else None
    def acc(n):
        v = snap.get(f"fd{n}")
        return v.split(":")[2] if v else None
    obj = c["obj"]
    def oid(k):
        return ":".join(obj[k].split(":")[:2])
    closed = [int(ch) for ch in kv.get("closed", "")]
    for n, (name, tok) in enumerate((("in", i), ("out", o), ("err", e))):
        if tok == "N" and n in closed:
            v = snap.get(f"fd{n}")
            if v is not None and v.split(":")[3] != "1":
                viol(f"the parent's fd {n} is closed and the stream is inherited, but the child was started with an open fd {n} ({v})")
        elif tok == "N":
            if cid(n) != oid(f"p{n}"):
                viol(f"child fd {n} is not the parent's own fd {n} (inherit)")
        elif tok == "P":
            pend = fields[name].split("/")[1].split(":")
            if cid(n) != ":".join(pend[:2]):
                viol(f"child fd {n} is not the peer of the pipe end exposed as Popen.{name}")
            elif {acc(n), pend[2]} != {"0", "1"}:
                viol(f"child fd {n} and Popen.{name} are the same end of the pipe")
        elif tok[0] in "FR":
            if cid(n) != oid(tok):
                viol(f"child fd {n} is not the file that was passed ({tok})")
    if e == "M" and cid(2) != cid(1):
        viol("stderr=Merge: child fd 2 is not the same file as child fd 1")
    if o == "M" and cid(1) != cid(2):
        viol("stdout=Merge: child fd 1 is not the same file as child fd 2")
    # the parent's own standard streams
    for n in range(3):
        if c["pfd"]["dropped"].get(n) != c["pfd"]["before"].get(n):
            viol(f"the parent's own fd {n} changed or was closed by the spawn ({c['pfd']['before'].get(n)} -> {c['pfd']['dropped'].get(n)})")
    # ... and every descriptor the caller keeps (shared files) is what it was: same file, same flags
    for fd, v in c["pfd"]["before"].items():
        after = c["pfd"]["dropped"].get(fd)
        if fd > 2 and after is not None and after != v:
            viol(f"the caller's descriptor {fd} changed across the spawn ({v} -> {after})")
    for l in c["log"]:
        m = re.match(r"P (?:close ([012]) |dup2 \d+ ([012]) |fcntl ([012]) SETFD)", l)
        if m and int(m.group(1) or m.group(2) or m.group(3)) not in closed:
            viol(f"the parent touched its own standard stream: {l}")


def gen_c06(ctx):
    rng = SplitMix64(ctx.seed ^ 0xc06)
    n = 150 if ctx.tier == "quick" else 3000
    cases = []
    def rb(maxlen, nul_ok=False):
        ln = rng.choice([0, 1, 1, 3, 8, 40, maxlen])
        b = bytes((rng.below(255) + 1) for _ in range(ln))
        return b
    dirs, cw = make_fs()
    for k in range(n):
        nargs = rng.choice([0, 1, 2, 5, 30]) if k % 50 else 300
        argv = [b"/bin/true" if rng.below(4) else os.path.join(dirs["good"], "prog").encode()] + [rb(20000 if k % 37 == 0 else 60) for _ in range(nargs)]
        spec = f"in=N out=N err=N det=0 argv={','.join(hx(a) for a in argv)}"
        if rng.below(3) == 0:
            argv0 = rb(30) or b"x"
            spec = f"in=N out=N err=N det=0 exe={hx('/bin/true')} argv={','.join(hx(a) for a in [argv0] + argv[1:])}"
        r = rng.below(4)
        if r == 0:
            spec += " env=none"
        elif r in (1, 2):
            keys = [bytes([65 + rng.below(4)]) * (1 + rng.below(2)) for _ in range(rng.choice([1, 3, 8, 200 if k % 41 == 0 else 8]))]
            pairs = [(kk, rb(50).replace(b"=", b"~")) for kk in keys]
            spec += " env=" + ",".join(f"{hx(a)}:{hx(b)}" for a, b in pairs)
        if rng.below(3) == 0:
            spec += f" cwd={hx(cw[10])}"
        if rng.below(5) == 0:
            spec += " pgid=1"
        r = rng.below(8)
        if r == 0:
            spec += " uid=1000"
        elif r == 1:
            spec += " gid=1000"
        elif r == 2:
            spec += " uid=1000 gid=1000"
        if "R" not in spec and rng.below(3) == 0:
            spec += " viaclone=1"
        cases.append(spec)
    # the working directory is entered with the CALLER's credentials (before the identity change): a directory only the
    # caller may search, an identity that may not
    priv = os.path.join(FS, "priv0700")
    os.makedirs(priv, exist_ok=True)
    os.chmod(priv, 0o700)
    cases.append(f"in=N out=N err=N det=0 uid=65534 gid=65533 cwd={hx(priv)} argv={TRUE}")
    cases.append(f"in=N out=N err=N det=0 uid=65534 cwd={hx(priv)} argv={TRUE}")
    cases.append(f"in=N out=N err=N det=0 gid=65533 pgid=1 cwd={hx(priv)} argv={TRUE}")
    # every field of a configuration survives try_clone()
    cases.append(f"in=N out=N err=N det=0 pgid=1 viaclone=1 argv={TRUE}")
    cases.append(f"in=N out=N err=N det=0 uid=1000 gid=1001 pgid=1 cwd={hx(cw[10])} exe={hx('/bin/true')} viaclone=1 argv={hx('zz')} env={hx('A')}:{hx('1')}")
    # NUL bytes must be rejected before anything is started
    cases.append(f"in=P out=P err=P det=0 argv={hx(b'/bin/true')},{hx(b'a' + bytes([0]) + b'b')}")
    cases.append(f"in=N out=P err=N det=0 argv={hx(b'/bin/tr' + bytes([0]) + b'ue')}")
    cases.append(f"in=P out=N err=N det=0 argv={hx(b'/bin/true')} env={hx(b'A')}:{hx(b'x' + bytes([0]))}")
    cases.append(f"in=P out=N err=P det=0 argv={hx(b'/bin/true')} env={hx(b'A' + bytes([0]))}:{hx(b'x')}")
    cases.append(f"in=N out=N err=N det=0 argv=")
    return cases


def format_env_ref(pairs):
    """independent statement of the environment contract: one entry per name, the last value wins, entries keep the
    order of their last occurrence"""
    last = {}
    for idx, (k, v) in enumerate(pairs):
        last[k] = idx
    return [k + b"=" + v for idx, (k, v) in enumerate(pairs) if last[k] == idx]


def oracle_c06(c, viol):
    kv, res = c["kv"], c["res"]
    argv = [unhx(a) for a in kv.get("argv", "").split(",")] if kv.get("argv") else []
    env = kv.get("env", "-")
    pairs = None
    if env == "none":
        pairs = []
    elif env != "-":
        pairs = [tuple(unhx(x) for x in p.split(":")) for p in env.split(",")]
    has_nul = any(b"\0" in a for a in argv) or (pairs is not None and any(b"\0" in k or b"\0" in v for k, v in pairs))
    if not argv:
        if res[0] != "logic" or forked(c):
            viol(f"empty argv was not refused with a logic error: {' '.join(res)}")
        return
    if has_nul:
        if res != ["err", "22"]:
            viol(f"a NUL byte in an argument / name / value was not rejected with EINVAL: {' '.join(res)}")
        if forked(c):
            viol("a NUL byte in an argument: a process was started")
        if c["pfd"]["dropped"] != c["pfd"]["before"]:
            viol("a NUL byte in an argument: descriptors were left open")
        return
    uid, gid = kv.get("uid"), kv.get("gid")
    if res[0] != "ok":
        sig = "setuid-before-setgid" if (uid and gid and res == ["err", "1"]) else None
        viol(f"launch failed: {' '.join(res)} (uid={uid} gid={gid})", sig)
        return
    if child_vec(c, "argv") != argv:
        viol(f"the child's argv differs from the requested vector ({len(argv)} arguments)")
    ev = child_vec(c, "envp")
    if pairs is None:
        if ev is not None:
            viol("env unspecified: the child did not inherit the parent's environment")
    else:
        if ev != format_env_ref(pairs):
            viol(f"the child's environment is not the requested one (got {ev!r:.200}, want {format_env_ref(pairs)!r:.200})")
    ex = execs(c)
    want_prog = unhx(kv["exe"]) if kv.get("exe", "-") != "-" else argv[0]
    if not ex or ex[-1][1] != "OK" or ex[-1][0] != want_prog:
        viol(f"the program started is not {want_prog!r}: {ex[-1:]}")
    snap = snapshot(c) or {}
    if kv.get("cwd", "-") != "-" and unhx(snap.get("cwd", "-")) != os.path.realpath(unhx(kv["cwd"])):
        viol("the child's working directory is not the requested one")
    if uid and (snap.get("uid"), snap.get("euid")) != (uid, uid):
        viol(f"the child's user id is {snap.get('uid')}/{snap.get('euid')}, requested {uid}")
    if gid and (snap.get("gid"), snap.get("egid")) != (gid, gid):
        viol(f"the child's group id is {snap.get('gid')}/{snap.get('egid')}, requested {gid}")
    if kv.get("pgid") == "1" and snap.get("pgid") != snap.get("pid"):
        viol("setpgid requested but the child is not the leader of a fresh process group")


# pthread_sigmask is not injected: it reports failure through a positive return value, which check_err() (num < 0) does not
# see; with a valid `how` it cannot fail, and the property's fault list does not include it (observation in DESIGN.md)
FAULT_ERRNO = {"pipe": 24, "fcntl": 22, "fork": 11, "chdir": 2, "dup2": 24, "signal": 22, "setuid": 1,
               "setgid": 1, "setpgid": 1, "exec": 13}


def gen_c07(ctx, probe_results=None):
    dirs, cw = make_fs()
    base = []
    triples = [("N", "N", "N"), ("P", "P", "P"), ("P", "N", "M"), ("F0", "P", "R0"), ("N", "M", "P"), ("R0", "R0", "R0")]
    if ctx.tier != "quick":
        triples = [tuple(triple_spec(i, o, e, True)) for i, o, e in itertools.product(KINDS, repeat=3)
                   if i != "M" and not (o == "M" and e == "M")]
    for (a, b, c) in triples:
        for det in (0, 1):
            base.append(f"in={a} out={b} err={c} det={det} cwd={hx(cw[10])} uid=0 gid=0 pgid=1 argv={TRUE}")
    # fault injection with the status pipe on descriptors 0-2 (the relocation's own dup can fail too)
    for closed in ("01", "012", "12"):
        for (a, b, c) in (("P", "P", "P"), ("N", "P", "N")):
            base.append(f"in={a} out={b} err={c} det={len(base) % 2} cwd={hx(cw[10])} uid=0 gid=0 pgid=1 argv={TRUE} closed={closed}")
    if probe_results is None:
        return base
    cases = list(base)          # the fault-free launches themselves
    for spec, pr in zip(base, probe_results):
        counts = {}
        for l in pr["log"]:
            role, kind = l.split()[0], l.split()[1]
            if kind in ("pipe2",):
                kind = "pipe"
            if kind in FAULT_ERRNO:
                counts[(role, kind)] = counts.get((role, kind), 0) + 1
        for (role, kind), n in sorted(counts.items()):
            for k in range(n):
                cases.append(f"{spec} faults={role}.{kind}.{k}.{FAULT_ERRNO[kind]}")
    # causes that are not injected: missing program, non-executable program, bad working directory
    for det in (0, 1):
        cases.append(f"in=P out=P err=P det={det} argv={hx(os.path.join(dirs['missing'], 'prog'))}")
        cases.append(f"in=P out=N err=M det={det} argv={hx(os.path.join(dirs['noexec'], 'prog'))}")
        cases.append(f"in=N out=P err=N det={det} cwd={hx(dirs['missing'])} argv={TRUE}")
        cases.append(f"in=N out=N err=N det={det} argv={hx('prog')} path={hx(dirs['missing'] + ':' + dirs['noexec'])}")
    # an identity the kernel refuses for everybody ((uid_t)-1 is not an id): the launch fails with EINVAL, nothing runs
    for det in (0, 1):
        cases.append(f"in=N out=P err=N det={det} uid=4294967295 argv={TRUE} expect=err22")
        cases.append(f"in=P out=N err=M det={det} gid=4294967295 argv={TRUE} expect=err22")
        cases.append(f"in=N out=N err=N det={det} uid=4294967295 gid=4294967295 argv={TRUE} expect=err22")
    # exec refusing the file, for every errno it can give: one candidate (a path with a slash) means one attempt and that
    # errno as the result -- no retry, no fallback
    for en in (26, 8, 13, 2, 12, 20, 40, 7, 5, 1, 22, 11, 4, 23):
        cases.append(f"in=N out=P err=N det={en % 2} argv={TRUE},{hx('a')} faults=C.exec.0.{en} expect=err{en} attempts=1")
    cases.append(f"in=P out=P err=P det=0 argv={hx('sh')} exe={hx('/bin/sh')} faults=C.exec.0.26 expect=err26 attempts=1")
    # a relative program path is relative to the CHILD's working directory: present there and absent in the caller's (must
    # start), absent there and present in the caller's (must fail with ENOENT) -- also through `executable`
    for det in (0, 1):
        cases.append(f"in=N out=P err=N det={det} argv={hx('good/prog')} cwd={hx(FS)} expect=ok")
        cases.append(f"in=P out=N err=N det={det} argv={hx('./prog')} cwd={hx(dirs['good'])} expect=ok")
        cases.append(f"in=N out=N err=P det={det} argv={hx('name0')} exe={hx('good2/prog')} cwd={hx(FS)} expect=ok")
        cases.append(f"in=N out=N err=N det={det} argv={hx('checks/spawn.py')} cwd={hx(dirs['good'])} expect=err2")
        cases.append(f"in=P out=P err=P det={det} argv={hx('missing/prog')} cwd={hx(FS)} expect=err2")
    # the caller runs with some of its descriptors 0-2 closed: the launch-status pipe lands there and must survive the
    # child's stream set-up
    for closed in CLOSED_SETS:
        for i, o, e in itertools.product(["N", "P"], repeat=3):
            for prog in ([os.path.join(dirs['missing'], 'prog'), "/bin/true"] if ctx.tier == "quick" else
                         [os.path.join(dirs['missing'], 'prog'), os.path.join(dirs['noexec'], 'prog'), "/bin/true"]):
                cases.append(f"in={i} out={o} err={e} det={(len(cases)) % 2} argv={hx(prog)} closed={closed}")
    return cases


def oracle_c07(c, viol):
    kv, res = c["kv"], c["res"]
    if res[0] == "logic" and "PANIC" in " ".join(res):
        viol("Popen::create panicked instead of returning a result")
        return
    if escaped_child(c) is not None:
        viol(f"the forked child of this launch returned from Popen::create instead of reporting its failure and exiting: a child "
             f"of the attempt is left running (as a copy of the caller), and the parent got {' '.join(res)}")
        return
    ex = execs(c)
    started = any(r == "OK" for _, r in ex)
    if res[0] == "ok" and not started:
        viol("Popen::create returned Ok although no program image was started", "path-of-only-empty-entries" if not ex else None)
    # "returns only after that is known", and knows it from end-of-file on the status channel: the started program must
    # not hold a copy of it (create() would block until the program exits, or take what it writes there for an errno)
    snap = snapshot(c)
    status_id = None
    for l in c["log"]:
        m = re.match(r"P pipe -> \d+ \d+ id=(\S+)", l)
        if m:
            status_id = m.group(1)
            break
    if started and snap and status_id:
        for k, v in snap.items():
            if re.match(r"fd\d+$", k) and ":".join(v.split(":")[:2]) == status_id and v.split(":")[3] != "1":
                viol(f"the started program holds the launch-status channel as its descriptor {k[2:]} ({v}): Popen::create sees no "
                     f"end-of-file on it until the program exits, and takes anything the program writes there for an error code")
    if res[0] != "ok" and started:
        viol(f"Popen::create returned {' '.join(res)} although the program was started")
    if kv.get("expect") == "ok" and res[0] != "ok":
        viol(f"every step of this launch succeeds (the program is there, relative to the child's working directory), but "
             f"Popen::create returned {' '.join(res)}")
    m = re.match(r"err(\d+)$", kv.get("expect", ""))
    if m and m.group(1) != "2" and res != ["err", m.group(1)]:
        what = "a step of the launch fails" if "faults" not in kv else "exec failed"
        viol(f"{what} with errno {m.group(1)}: expected that error, got {' '.join(res)}")
    if kv.get("attempts") and len(ex) != int(kv["attempts"]):
        viol(f"{len(ex)} exec attempts were made ({[r for _, r in ex]}); the command names one file, so there is exactly "
             f"{kv['attempts']} attempt -- whatever it fails with is the result")
    if kv.get("expect") == "err2" and res != ["err", "2"]:
        viol(f"the program does not exist relative to the child's working directory: expected ENOENT, got {' '.join(res)}")
    faults = kv.get("faults", "-")
    if faults != "-" and res[0] == "err":
        want = faults.split(".")[3]
        role, kind = faults.split(".")[0], faults.split(".")[1]
        if kind == "exec":
            pass  # one failing attempt among several: the last error is reported (C15)
        elif res[1] != want:
            viol(f"the error of the failing step ({role} {kind} -> errno {want}) was reported as errno {res[1]}")
    if faults != "-" and res[0] == "ok" and faults.split(".")[1] != "exec":
        viol(f"a failing step ({faults}) was ignored: create returned Ok")
    if res[0] != "ok":
        before, after = c["pfd"]["before"], c["pfd"]["dropped"]
        extra = sorted(set(after) - set(before))
        if extra:
            viol(f"descriptors opened by the failed attempt remain open in the parent: {extra}")
        left = c["left"]["errpath"]
        if left != "none":
            viol(f"the failed attempt left a child behind ({left}) when create returned (detached={kv.get('det')})",
                 "detached-failed-launch-leaves-zombie" if kv.get("det") == "1" else None)
    # the result is produced only after the status channel was read
    idx_fork = next((k for k, l in enumerate(c["log"]) if l.startswith("P fork -> K")), None)
    if idx_fork is not None and not any(l.startswith("P read ") for l in c["log"][idx_fork:]):
        viol("create returned without reading the launch-status channel")


def gen_c08(ctx):
    cases = []
    for i, o, e in itertools.product(["N", "P", "F", "R", "M"], repeat=3):
        if i == "M" or (o == "M" and e == "M"):
            continue
        a, b, c = triple_spec(i, o, e, True)
        for live in ((0, 3) if ctx.tier != "quick" or (i, o, e).count("P") >= 1 else (0,)):
            cases.append(f"in={a} out={b} err={c} det=0 live={live} argv={TRUE}")
    # "concurrently with spawns on other threads": an unrelated, complete launch is run at the point right after this
    # launch's k-th pipe() -- exactly what a fork issued there by another thread would inherit (deterministic schedule)
    for i, o, e in (("P", "P", "P"), ("P", "N", "N"), ("N", "P", "N"), ("N", "N", "P")):
        npipes = 1 + (i, o, e).count("P")
        for k in range(1, npipes + 1):
            cases.append(f"in={i} out={o} err={e} det=0 live=0 argv={TRUE} window={k}")
        # ... and while this launch waits for its child's exec (the read of the status channel): by then the parent must hold
        # nothing inheritable any more -- that window is as long as the child's whole pre-exec phase
        cases.append(f"in={i} out={o} err={e} det=0 live=0 argv={TRUE} window=r")
        cases.append(f"in={i} out={o} err={e} det=1 live=0 argv={hx('/nonexistent/prog')} window=r")
    # earlier Popens that are in the middle of a time-limited exchange (their pipe ends live in a Communicator)
    for i, o, e in (("N", "N", "N"), ("P", "P", "P"), ("N", "P", "M")):
        cases.append(f"in={i} out={o} err={e} det=0 live=2 livecomm=1 argv={TRUE}")
    # the caller runs with some of its descriptors 0-2 closed
    for closed in CLOSED_SETS:
        for i, o, e in itertools.product(["N", "P"], repeat=3):
            cases.append(f"in={i} out={o} err={e} det=0 live={(0, 2)[len(cases) % 2]} argv={TRUE} closed={closed}")
    # a configuration holding files is cloned (a template, a retry copy) and the copy stays alive while the original -- or the
    # copy, while the original stays alive -- is launched: the descriptors the clone made are the library's, and must not
    # show up in any child
    for vc in (1, 2):
        for i, o, e in (("F", "F", "F"), ("F", "P", "N"), ("N", "F", "P"), ("P", "N", "F"), ("R", "R", "N"), ("N", "R", "R")):
            if vc == 1 and "F" in (i, o, e):
                continue  # the clone's copies have descriptor numbers of their own, which the request to the model cannot name
            a, b, c = triple_spec(i, o, e, True)
            cases.append(f"in={a} out={b} err={c} det=0 live={(0, 2)[vc - 1]} viaclone={vc} argv={TRUE}")
    # launches whose child fails at one of its own steps, while other Popens are alive: the child must end (it holds a copy of
    # everything the parent had at fork time, whatever the close-on-exec flags say) -- every child-side step that can fail
    for i, o, e in (("N", "N", "N"), ("P", "P", "P")):
        for opt in ("uid=4294967295", "gid=4294967295", "uid=0 gid=4294967295", f"cwd={hx('/nonexistent/dir')}",
                    "uid=0 faults=C.setuid.0.1", "gid=0 faults=C.setgid.0.1", "pgid=1 faults=C.setpgid.0.1",
                    "faults=C.dup2.0.9" if i == "P" else "faults=C.signal.0.22"):
            cases.append(f"in={i} out={o} err={e} det=0 live=2 {opt} argv={TRUE}")
        cases.append(f"in={i} out={o} err={e} det=0 live=2 argv={hx('/nonexistent/prog')}")
    return cases


def oracle_c08_window(c, viol):
    w = c.get("window")
    if not w:
        viol("the window hook did not run")
        return
    parent = dict((int(x.split(":")[0]), x.split(":")[1]) for x in w["parent"].split(",")) if w["parent"] != "-" else {}
    other = dict((int(x.split(":")[0]), x.split(":")[1]) for x in w["other"].split(",")) if w["other"] != "-" else {}
    mine = set()
    for l in c["log"]:
        m = re.match(r"P pipe -> (\d+) (\d+)", l)
        if m:
            for fd in (int(m.group(1)), int(m.group(2))):
                if fd in parent:
                    mine.add(parent[fd])
    leaked = sorted(f"fd {fd}" for fd, ino in other.items() if ino in mine)
    if leaked and c["kv"]["window"] == "r":
        viol(f"a child started by another spawn while this launch was waiting for its own child's exec (the read of the "
             f"launch-status channel, i.e. after this launch's fork) holds pipe ends of this launch ({', '.join(leaked)}): the "
             f"parent still held them inheritable")
    elif leaked:
        viol(f"a child started by another spawn right after this launch's pipe() number {c['kv']['window']} holds pipe ends of "
             f"this launch ({', '.join(leaked)}): they are inheritable until the following fcntl / until this launch's fork "
             f"has closed its child ends", "concurrent-spawn-window")


def escaped_child(c):
    """the descriptor table of a forked child that *returned* from Popen::create (the harness ends such a copy at once)"""
    for l in c["log"]:
        if l.startswith("C escaped"):
            d = {}
            for t in l.split()[2:]:
                k, _, v = t.partition("=")
                d[k] = v
            return d
    return None


def oracle_c08(c, viol):
    esc = escaped_child(c)
    if esc is not None:
        held = sorted(int(k[2:]) for k in esc if re.match(r"fd\d+$", k) and int(k[2:]) > 2)
        viol(f"the forked child of this launch neither started a program nor exited: it returned from Popen::create as a second "
             f"copy of the caller (pid {esc.get('pid')}), holding the caller's descriptors {held} -- the parent's ends of every live "
             f"Popen's pipes among them; close-on-exec does nothing for a child that never execs")
        return
    if "window" in c["kv"]:
        oracle_c08_window(c, viol)
        return
    if c["res"][0] != "ok":
        return
    snap = snapshot(c)
    if snap is None:
        viol("no exec snapshot of the child")
        return
    for k, v in snap.items():
        m = re.match(r"fd(\d+)$", k)
        closed = [int(ch) for ch in c["kv"].get("closed", "")]
        kinds = (c["kv"]["in"], c["kv"]["out"], c["kv"]["err"])
        if m and int(m.group(1)) in closed and kinds[int(m.group(1))] == "N" and v.split(":")[3] != "1":
            viol(f"the parent's fd {m.group(1)} is closed and that stream is inherited, but the child holds an open fd {m.group(1)} "
                 f"({v}) across exec: a descriptor the library created leaks")
        if m and int(m.group(1)) > 2 and v.split(":")[3] != "1":
            viol(f"the child holds descriptor {m.group(1)} ({v}) across exec: it is not close-on-exec "
                 f"(a pipe end of the parent / the status channel / another child's pipe leaks)")
    # every descriptor the library created and left in the parent is close-on-exec
    for fd, v in c["pfd"]["created"].items():
        if fd not in c["pfd"]["before"] and v.split(":")[0] != "1":
            viol(f"library-created descriptor {fd} in the parent is inheritable")


def gen_c15(ctx):
    dirs, cw = make_fs()
    rng = SplitMix64(ctx.seed ^ 0xc15)
    d = dirs
    shapes = [
        [d["good"]], [d["missing"], d["good"]], [d["noexec"], d["good"]], [d["isdir"], d["good"]], [d["empty"], d["good"]],
        [d["good"], d["good2"]], [d["good2"], d["good"]], ["", d["good"]], [d["good"], ""], ["", "", d["good"], "", ""],
        [d["missing"]], [d["noexec"]], [d["isdir"]], [d["missing"], d["noexec"]], [d["noexec"], d["missing"]],
        [d["long"]], [d["missing"], d["long"]], [d["long"], d["good"]], ["x" * 300, d["good"]], ["y" * 5000, d["good"]],
        [""], ["", ""], ["", "", ""], [d["good"], d["good"]], [d["noexec"], d["isdir"], d["missing"], d["empty"], d["good2"]],
    ]
    n = 40 if ctx.tier == "quick" else 1500
    pool = [d["good"], d["good2"], d["missing"], d["noexec"], d["isdir"], d["empty"], d["long"], "", "", "z" * 270]
    for _ in range(n):
        shapes.append([rng.choice(pool) for _ in range(1 + rng.below(8))])
    cases = []
    for sh in shapes:
        cases.append(f"in=N out=N err=N det=0 argv={hx('prog')} path={hx(':'.join(sh))}")
    cases.append(f"in=N out=N err=N det=0 argv={hx('prog')} path=unset")
    # PATH is bytes: entries that are not valid UTF-8 anywhere in it change nothing about the search
    for odd in (b"/opt/caf\xe9/bin", b"\xff\xfe", b"/tmp/\xc3\x28"):
        cases.append(f"in=N out=N err=N det=0 argv={hx('prog')} path={(odd + b':' + d['good'].encode()).hex()}")
        cases.append(f"in=N out=N err=N det=0 argv={hx('prog')} path={(d['missing'].encode() + b':' + d['good2'].encode() + b':' + odd).hex()}")
        cases.append(f"in=N out=N err=N det=0 argv={hx('prog')} cwd={hx(d['good'])} path={(odd + b':' + d['missing'].encode()).hex()}")
    # names with a slash: no search, relative to the child's working directory; explicit executable: same rules
    cases.append(f"in=N out=N err=N det=0 argv={hx('good/prog')} cwd={hx(FS)} path={hx(d['good2'])}")
    cases.append(f"in=N out=N err=N det=0 argv={hx('./prog')} cwd={hx(d['good'])} path={hx(d['good2'])}")
    cases.append(f"in=N out=N err=N det=0 argv={hx('missing/prog')} cwd={hx(FS)} path={hx(d['good'])}")
    cases.append(f"in=N out=N err=N det=0 argv={hx('name0')} exe={hx('prog')} path={hx(d['noexec'] + ':' + d['good'])}")
    cases.append(f"in=N out=N err=N det=0 argv={hx('name0')} exe={hx(d['good'] + '/prog')} path={hx(d['missing'])}")
    for ln in (1, 100, 255):
        cases.append(f"in=N out=N err=N det=0 argv={hx('p' * ln)} path={hx(d['missing'] + ':' + d['good'])}")
    return cases


def oracle_c15(c, viol):
    kv, res = c["kv"], c["res"]
    argv = [unhx(a) for a in kv["argv"].split(",")]
    name = unhx(kv["exe"]) if kv.get("exe", "-") != "-" else argv[0]
    path = kv.get("path", "-")
    cwd = unhx(kv["cwd"]) if kv.get("cwd", "-") != "-" else None
    if b"/" in name or path in ("unset",) or (path not in ("-", "keep") and unhx(path) == b""):
        cands = [name]
    elif path in ("-", "keep"):
        return
    else:
        cands = [e + b"/" + name for e in unhx(path).split(b":") if e]
    def resolve(p):
        return p if p.startswith(b"/") or cwd is None else os.path.join(cwd, p)
    outcomes = [startable(resolve(p)) for p in cands]
    first = next((k for k, r in enumerate(outcomes) if r == 0), None)
    want_attempts = cands if first is None else cands[:first + 1]
    got = execs(c)
    if [p for p, _ in got] != want_attempts:
        viol(f"exec attempts {[p[-40:] for p, _ in got]} differ from the PATH order {[p[-40:] for p in want_attempts]}",
             "path-of-only-empty-entries" if not cands else None)
        return
    if first is not None:
        if res[0] != "ok" or got[-1][1] != "OK":
            viol(f"the first startable candidate {cands[first][-60:]!r} was not the one started: {' '.join(res)}")
    else:
        if res[0] == "ok":
            viol("nothing on PATH can be started but create returned Ok", "path-of-only-empty-entries" if not cands else None)
        elif cands and res[0] == "err" and res[1] != str(outcomes[-1]):
            viol(f"nothing can be started: errno {res[1]} reported, the last attempt failed with {outcomes[-1]}")
        elif not cands and res[0] != "err":
            viol("PATH has only empty entries: expected an OS error", "path-of-only-empty-entries")


def gen_c17(ctx):
    dirs, cw = make_fs()
    d = dirs
    cases = []
    names = ["prog", "p" * 100, "q" * 255]
    paths = [[d["good"]], [d["missing"], d["good"]], [d["missing"], d["long"]], [d["long"], d["missing"]],
             [d["missing"], d["noexec"]], ["x" * 10, "y" * 2000, d["good"]], [d["good"], "z" * 3000], [d["missing"]] * 40 + [d["long"]],
             ["", ""], [""]]
    for nm in names:
        for sh in paths:
            cases.append(f"in=N out=N err=N det=0 argv={hx(nm)} path={hx(':'.join(sh))}")
    cases.append(f"in=N out=N err=N det=0 argv={hx('prog')} path={hx(d['long'])}")
    # PATH entries that are not valid UTF-8 (an `OsStr` is bytes: anything that goes through a string conversion allocates),
    # with and without trailing slashes, before the hit and when nothing is found
    odd = [b"/opt/caf\xe9/bin", b"/\xff\xfe", b"\x80", b"/tmp/\xc3\x28/", b"//"]
    for k, o in enumerate(odd):
        cases.append(f"in=N out=N err=N det=0 argv={hx('prog')} path={(o + b':' + d['good'].encode()).hex()}")
        cases.append(f"in=N out=N err=N det=0 argv={hx('prog')} path={(d['missing'].encode() + b'/:' + o + b':' + o).hex()}")
    cases.append(f"in=P out=P err=P det=0 argv={hx('prog')} path={(b':'.join(odd) + b':' + d['good'].encode() + b'/').hex()}")
    # `PopenConfig::executable`: the name that is looked up differs from argv[0] (shorter, longer, with a slash, missing)
    for a0, exe in [("p", "prog"), ("p", "q" * 255), ("a" * 300, "prog"), ("sh", os.path.join(d["good"], "prog")),
                    ("x", os.path.join(d["missing"], "p" * 200)), ("prog", "nosuchprogram" * 10)]:
        for sh in ([d["good"]], [d["missing"], d["long"]], [d["missing"]] * 3):
            cases.append(f"in=N out=N err=N det=0 argv={hx(a0)} exe={hx(exe)} path={hx(':'.join(sh))}")
    # every valid stream configuration, for a program that starts and for one that does not
    for i, o, e in itertools.product(["N", "P", "F", "R", "M"], repeat=3):
        if i == "M" or (o == "M" and e == "M"):
            continue
        a, b, c = triple_spec(i, o, e, True)
        cases.append(f"in={a} out={b} err={c} det=0 argv={TRUE}")
        if (i, o, e).count("M") or ctx.tier != "quick":
            cases.append(f"in={a} out={b} err={c} det=0 argv={hx(os.path.join(d['missing'], 'prog'))}")
    for n, p in cw.items():
        cases.append(f"in=P out=P err=M det=0 cwd={hx(p)} argv={TRUE}")
        cases.append(f"in=N out=N err=N det=0 cwd={hx(p)} argv={hx(os.path.join(d['missing'], 'prog'))}")
    big = ",".join(hx(b"a" * 3000) for _ in range(20))
    cases.append(f"in=P out=P err=P det=0 argv={TRUE},{big}")
    cases.append(f"in=F0 out=R0 err=R0 det=0 argv={TRUE} env=" + ",".join(f"{hx('K%d' % k)}:{hx('v' * 500)}" for k in range(100)))
    cases.append(f"in=N out=M err=N det=0 uid=0 gid=0 pgid=1 argv={TRUE}")
    cases.append(f"in=P out=P err=P det=0 argv={TRUE} faults=C.dup2.1.24")
    cases.append(f"in=N out=N err=N det=0 argv={TRUE} faults=C.setpgid.0.1 pgid=1")
    # "also when exec fails": every way execve can refuse a file, at the first and at a later attempt of a PATH search
    # (ENOEXEC is what a script without `#!` gives -- execvp-style fallbacks live there)
    for en in (8, 13, 2, 26, 7, 12, 20, 40, 36, 5, 1, 22, 21, 11, 4, 23, 24):
        cases.append(f"in=N out=N err=N det=0 argv={TRUE},{hx('arg1')},{hx('arg2')} faults=C.exec.0.{en}")
        cases.append(f"in=P out=P err=P det=0 argv={hx('prog')},{hx('a')} path={hx(d['good'] + ':' + d['good2'])} faults=C.exec.0.{en}")
        if ctx.tier != "quick" or en in (8, 13, 26):
            cases.append(f"in=N out=P err=N det=0 argv={hx('prog')} path={hx(d['missing'] + ':' + d['good'] + ':' + d['good2'])} "
                         f"env={hx('A')}:{hx('1')} faults=C.exec.1.{en}")
    return cases


def oracle_c17(c, viol):
    kv = c["kv"]
    n, nbytes = c["alloc"]
    if n:
        cwdlen = len(unhx(kv["cwd"])) if kv.get("cwd", "-") != "-" else 0
        sig = None
        if kv.get("path", "-") not in ("-", "keep", "unset") and not [e for e in unhx(kv["path"]).split(b":") if e] and b"/" not in unhx(kv["argv"].split(",")[0]):
            sig = "path-of-only-empty-entries"
        elif cwdlen >= 384:
            sig = "cwd-at-least-384-bytes-allocates"
        viol(f"the forked child performed {n} heap allocation(s) ({nbytes} bytes) between fork and exec/_exit (cwd length {cwdlen})", sig)


def gen_c18(ctx):
    rng = SplitMix64(ctx.seed ^ 0xc18)
    masks = [0, 1 << 13, 1 << 15, 1 << 17, (1 << 2) | (1 << 15), (1 << 64) - 2, 0xfffffffe, 1 << 34, (1 << 40) | (1 << 13)]
    for _ in range(20 if ctx.tier == "quick" else 400):
        masks.append(rng.next() & ((1 << 64) - 2))
    cases = []
    # the signal state must be clean whatever the child's streams are (all inherited included)
    streams = [("N", "N", "N"), ("N", "P", "N"), ("P", "N", "N"), ("N", "N", "P"), ("F0", "N", "N"), ("N", "F0", "M"), ("P", "P", "P")]
    for k, m in enumerate(masks):
        for sp in ("ign", "dfl"):
            for (i, o, e) in (streams if k < 9 else [streams[rng.below(len(streams))]]):
                cases.append(f"in={i} out={o} err={e} det=0 mask={m:x} sigpipe={sp} argv={TRUE}")
    # ... and whatever else is asked of the child between the reset and the exec: identity, process group, working
    # directory, executable override, explicit environment, PATH search, detached
    dirs, cw = make_fs()
    opts = ["uid=0", "gid=0", "uid=0 gid=0", "pgid=1", "uid=0 gid=0 pgid=1", f"cwd={hx(cw[10])}", f"exe={hx('/bin/true')}",
            f"env={hx('A')}:{hx('1')}", "viaclone=1"]
    for k, m in enumerate(masks[:9] if ctx.tier != "quick" else masks[:4]):
        for sp in ("ign", "dfl"):
            for opt in opts:
                (i, o, e) = streams[(k + len(cases)) % len(streams)]
                cases.append(f"in={i} out={o} err={e} det={len(cases) % 2} mask={m:x} sigpipe={sp} {opt} argv={TRUE}")
            cases.append(f"in=N out=N err=N det=0 mask={m:x} sigpipe={sp} argv={hx('prog')} path={hx(dirs['missing'] + ':' + dirs['good'])}")
    # the disposition changes (another thread: SIG_IGN) while the launch is under way, after its k-th pipe(): the child starts
    # with the default disposition whatever the parent's was at any earlier moment
    for (i, o, e) in (("N", "N", "N"), ("P", "P", "P"), ("N", "P", "N")):
        npipes = 1 + (i, o, e).count("P")
        for k in range(1, npipes + 1):
            cases.append(f"in={i} out={o} err={e} det=0 mask=0 sigpipe=dfl sigflip={k} argv={TRUE}")
    return cases


def hist_c18(ctx):
    """Launch histories that start differently from the main run (whose process starts with a launch under SIGPIPE ignored and an
    empty mask): anything the library samples once per process (the disposition, the mask) and reuses for later launches shows up
    only when the first launch of the process saw something else than a later one.  Each list runs in a process of its own."""
    hs = []
    for first in ("in=N out=N err=N det=0 mask=0 sigpipe=dfl", f"in=N out=P err=N det=0 mask={1 << 15:x} sigpipe=dfl",
                  f"in=P out=P err=P det=0 mask={(1 << 64) - 2:x} sigpipe=ign"):
        rest = []
        for sp in ("ign", "dfl", "ign"):
            for m in (0, 1 << 13, (1 << 64) - 2):
                for (i, o, e) in (("N", "N", "N"), ("N", "P", "N")):
                    rest.append(f"in={i} out={o} err={e} det=0 mask={m:x} sigpipe={sp}")
        hs.append([x + f" argv={TRUE}" for x in [first] + rest])
    return hs


HIST = {"C18": hist_c18}


def oracle_c18(c, viol):
    if c["res"][0] != "ok":
        viol(f"launch failed: {' '.join(c['res'])}")
        return
    for k, snap in enumerate(snapshots(c) or [{}]):
        at = "" if k == 0 else f" at exec attempt {k + 1} (after {k} failed attempt(s) of the PATH search)"
        if snap.get("mask") != "0":
            viol(f"the child execs with signal mask {snap.get('mask')} (spawning thread's mask {c['kv'].get('mask')}){at}")
        if snap.get("sigpipe") != "DFL":
            viol(f"the child execs with SIGPIPE disposition {snap.get('sigpipe')}{at}")


def to_request(c):
    """the case as a request for the Lean model: configuration, the parent's and the child's (call=answer) events"""
    kv = c["kv"]
    argv = [unhx(a) for a in kv.get("argv", "").split(",")] if kv.get("argv") else []
    env = kv.get("env", "-")
    pairs = [] if env in ("-", "none") else [tuple(unhx(x) for x in p.split(":")) for p in env.split(",")]
    cwd = unhx(kv["cwd"]) if kv.get("cwd", "-") != "-" else None
    nul = any(b"\0" in a for a in argv) or any(b"\0" in k or b"\0" in v for k, v in pairs) or (cwd is not None and b"\0" in cwd)
    cmd = unhx(kv["exe"]) if kv.get("exe", "-") != "-" else (argv[0] if argv else b"")
    path = kv.get("path", "-")
    if path in ("-", "keep"):
        path = hx(os.environ.get("PATH", "")) if "PATH" in os.environ else "unset"
    cfg = [f"in={kv['in']}", f"out={kv['out']}", f"err={kv['err']}", f"det={kv.get('det', '0')}",
           f"cwd={'1' if cwd is not None else '0'}", f"uid={kv.get('uid', '-')}", f"gid={kv.get('gid', '-')}",
           f"pgid={kv.get('pgid', '0')}", f"argvEmpty={'0' if argv else '1'}", f"nul={'1' if nul else '0'}",
           f"cmd={hx(cmd) if not nul else hx(b'x')}", f"path={path}", f"env={env if not nul else '-'}"]
    for k, v in c["obj"].items():
        if k.endswith("fd"):
            cfg.append(f"{k}={v}")
    pev, cev, expaths, nexec = [], [], [], 0
    for l in c["log"]:
        t = l.split()
        role, kind = t[0], t[1]
        res = t[-1] if "->" in t else None
        def r_ok():
            return "e" + res[1:] if res.startswith("E") else "ok"
        if kind in ("argv", "envp", "snapshot", "resnapshot"):
            continue
        ev = None
        if kind in ("pipe", "pipe2"):
            i = t.index("->")
            ev = "pipe=" + (("e" + t[i + 1][1:]) if t[i + 1].startswith("E") else f"f{t[i + 1]}.{t[i + 2]}")
        elif kind == "fcntl":
            if t[3] == "GETFD":
                ev = f"getfd{t[2]}=" + (("e" + res[1:]) if res.startswith("E") else "v" + res)
            elif t[3] == "DUPFD_CLOEXEC" and t[4] == "3":
                ev = f"dupfd{t[2]}=" + (("e" + res[1:]) if res.startswith("E") else "v" + res)
            elif t[3].startswith("DUPFD"):
                ev = f"unknown-{t[3]}.{t[4]}=ok"      # an inheritable copy, or one allowed below 3: not what the model does
            else:
                ev = f"setfd{t[2]}.{t[4]}=" + r_ok()
        elif kind == "fork":
            ev = "fork=" + (("e" + res[1:]) if res.startswith("E") else "ok")
        elif kind == "close":
            ev = f"close{t[2]}=" + r_ok()
        elif kind == "read":
            i = t.index("->")
            if t[i + 1].startswith("E"):
                ev = f"read{t[2]}=e{t[i + 1][1:]}"
            else:
                n = int(t[i + 1]); data = unhx(t[i + 2])
                ev = f"read{t[2]}=n{n}.{int.from_bytes(data[:4], 'little') if n == 4 else 0}"
        elif kind == "waitpid":
            ev = "waitpid=" + ("ok" if not t[-1].startswith("E") else "e" + t[-1][1:])
        elif kind == "chdir":
            ev = "chdir=" + r_ok()
        elif kind == "dup2":
            ev = f"dup2.{t[2]}.{t[3]}=" + r_ok()
        elif kind == "sigmask":
            ev = "sigmask=" + r_ok()
        elif kind == "signal":
            ev = "signal=" + r_ok()
        elif kind in ("setgid", "setuid"):
            ev = f"{kind}{t[2]}=" + r_ok()
        elif kind == "setpgid":
            ev = "setpgid=" + r_ok()
        elif kind == "exec":
            ev = f"exec{nexec}=" + ("started" if res == "OK" else "e" + res[1:])
            nexec += 1
            expaths.append(t[2])
        elif kind == "write":
            data = unhx(t[4])
            ev = f"write{t[2]}.{int.from_bytes(data[:4], 'little')}=" + r_ok()
        elif kind == "_exit":
            ev = f"exit{t[2]}=ok"
        if ev is None:
            ev = f"unknown-{kind}=ok"
        (pev if role == "P" else cev).append(ev)
    ev = child_vec(c, "envp")
    envs = "skip" if ev == "absent" else ("inherit" if ev is None else " ".join(hx(e) for e in ev))
    return ("spawn " + " ".join(cfg) + " | " + (" ".join(pev) or "-") + " | " + (" ".join(cev) or "-") + " | " +
            (" ".join(expaths) or "-") + " | " + (envs or "-"))


GEN = {"C05": gen_c05, "C06": gen_c06, "C07": gen_c07, "C08": gen_c08, "C15": gen_c15, "C17": gen_c17, "C18": gen_c18}
ORACLE = {"C05": oracle_c05, "C06": oracle_c06, "C07": oracle_c07, "C08": oracle_c08, "C15": oracle_c15,
          "C17": oracle_c17, "C18": oracle_c18}


def run_harness(ctx, specs):
    path = os.path.join(common.BUILD, f"spawn-{ctx.prop}.cases")
    open(path, "w").write("".join(s + "\n" for s in specs))
    p = subprocess.run([ctx.harness_bin("harness"), "spawn", path], stdout=subprocess.PIPE, stderr=subprocess.PIPE,
                       timeout=900 if ctx.tier == "quick" else 7200)
    return parse(p.stdout.decode(errors="replace")), p


def check(ctx):
    prop = ctx.prop
    ctx.lean_obligations()
    cov = ctx.cov
    cov["trusted_base"] += ["OS model axioms A4 (fork/exec/dup2/close-on-exec), A5, A7 (Rust std facts), A8 (credentials) -- "
                            "DESIGN.md section 3", "trace-mode interposer: real kernel, calls of parent and forked child logged "
                            "through shared memory without allocating; exec intercepted (the child's descriptor table, signal state, "
                            "identity and allocation counter are snapshotted; a startable program is simulated by exit(0))"]
    ctx.assumptions += ["the parent has descriptors 0, 1, 2 open and caller-supplied files are >= 3 (WF of DESIGN.md section 6)",
                        "single spawning thread per case (the multi-thread window is the known finding C08:concurrent-spawn-window)"]
    if not ctx.cargo_build():
        return
    if ctx.replay:
        rp = json.load(open(ctx.replay))
        # a violation that needs earlier launches in the same process carries them as its history
        specs = list(rp.get("history", [])) + [rp["spec"]]
    elif prop == "C07":
        probes, _ = run_harness(ctx, gen_c07(ctx))
        specs = gen_c07(ctx, probes)
    else:
        specs = GEN[prop](ctx)
    cases, proc = run_harness(ctx, specs)
    if len(cases) != len(specs) or any(not c.get("complete") for c in cases):
        ctx.broken_correspondence({"what": f"harness ran {len([c for c in cases if c.get('complete')])} of {len(specs)} cases "
                                           f"(rc={proc.returncode})", "stderr": proc.stderr.decode(errors='replace')[-1500:],
                                   "next_spec": specs[len(cases) - 1] if 0 < len(cases) <= len(specs) else None})
        cases = [c for c in cases if c.get("complete")]
    # ---- launch histories in processes of their own (state carried from one launch of a process to the next)
    nhist = 0
    if not ctx.replay and prop in HIST:
        for hspecs in HIST[prop](ctx):
            hcases, _ = run_harness(ctx, hspecs)
            hcases = [c for c in hcases if c.get("complete")]
            for k, c in enumerate(hcases):
                c["history"] = hspecs[:k]
            cases += hcases
            nhist += len(hcases)
    cov["cases_in_launch_histories"] = nhist
    # ---- conformance: the Lean model replays the same answers
    model = ctx.run_driver("".join(to_request(c) + "\n" for c in cases)) if cases else []
    ndiv = 0
    for c, m in zip(cases, model):
        want = {"ok": "ok ok", "logic": "ok logic"}.get(c["res"][0], "ok err" + (c["res"][1] if len(c["res"]) > 1 else "?"))
        if m != want:
            ndiv += 1
            if ndiv == 1:
                ctx.broken_correspondence({"what": "the Lean spawn model and the implementation diverge", "spec": c["spec"],
                                           "model_says": m[:400], "implementation_result": " ".join(c["res"]),
                                           "log": c["log"][:50]})
    cov["model_divergences"] = ndiv
    dist, nontrivial = {}, set()
    for c in cases:
        def viol(msg, sig=None, c=c):
            known = sig is not None and ctx.kf.get((prop, sig), {}).get("status") == "known"
            if len(ctx.violations) < 3 or known:
                v = {"spec": c["spec"], "case_index": c["index"], "what": msg, "result": " ".join(c["res"]),
                     "log": c["log"][:60], "replay_cmd": f"./check {prop} --replay <this file>"}
                if c.get("history"):
                    v["history"] = c["history"]
                    v["what"] += f" (after {len(c['history'])} earlier launch(es) in the same process, listed as history: the first one ran under `{c['history'][0].split(' argv=')[0]}`)"
                ctx.violation(v, sig)
        ORACLE[prop](c, viol)
        key = c["res"][0] + ("" if c["res"][0] != "err" else ":" + c["res"][1])
        dist[key] = dist.get(key, 0) + 1
        if len(c["log"]) >= 6:
            nontrivial.add(c["spec"])
    cov["evaluations"] = len(cases)
    cov["traces_validated_against_impl"] = len(cases)
    cov["distinct_nontrivial"] = len(nontrivial)
    cov["distribution"] = {"results": dist, "forked": sum(1 for c in cases if forked(c)),
                           "with_fault_plan": sum(1 for c in cases if c["kv"].get("faults", "-") != "-")}
    cov["rule"] = {"C05": "all 5x5x5 redirection triples (RcFile shared and distinct), merges onto inherited/piped/file streams, spawns from short-lived threads, the parent's own 0/1/2 re-pointed between spawns",
                   "C06": "random non-NUL byte arguments (0..20000 bytes, up to 300 entries), executable override, environments with duplicate names in every position (up to 200 entries), cwd, uid/gid/both, setpgid; NUL rejection",
                   "C07": "fault enumeration: for each base configuration (quick: 6 stream triples x detached, thorough: all valid triples) every occurrence of every fallible step in parent and child is made to fail in turn; plus missing / non-executable program and bad cwd",
                   "C08": "all valid redirection triples, with 0 or 3 other live Popens holding pipes; the child's whole descriptor table at exec",
                   "C15": "PATH shapes (good/missing/non-executable/directory/empty/duplicate/very long entries, only-empty values, unset), names with slash, explicit executable, name lengths 1..255, random shapes",
                   "C17": "name lengths 4/100/255 x PATH shapes (longest entry first/last/only, 41 entries, only-empty), cwd lengths 10..3000, large argv/env, failing child steps",
                   "C18": "signal masks of the spawning thread (none, SIGPIPE, SIGTERM, SIGCHLD, all, real-time, random subsets) x parent SIGPIPE ignored/default; launch histories in processes of their own whose first launch sees the other disposition / a non-empty mask",
                   }[prop] + "; non-trivial = at least 6 logged system calls; distinct by specification"
    cov["samples"] = [{"spec": c["spec"], "result": " ".join(c["res"]), "log_head": c["log"][:12]} for c in cases[:2] + cases[-1:]]
    if prop == "C08" and not ctx.replay:
        import pipeline
        pipeline.extra_c08(ctx)
    if prop == "C06" and not ctx.replay:
        # the same request made through the builder (`Exec::arg/env/env_extend/env_remove/env_clear/cwd`)
        import builder
        builder.extra_c06(ctx)

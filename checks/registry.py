"""Property id -> check function."""
import c20
import c19
import life

CHECKS = {
    "C20": c20.check,
    "C19": c19.check,
    "C09": life.check,
    "C10": life.check,
    "C11": life.check,
}

"""Property id -> check function."""
import c20
import c19

CHECKS = {
    "C20": c20.check,
    "C19": c19.check,
}

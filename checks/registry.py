"""Property id -> check function."""
import c20
import c19
import life
import comm
import spawn
import builder
import pipeline

CHECKS = {
    "C20": c20.check,
    "C19": c19.check,
    "C01": comm.check,
    "C02": comm.check,
    "C03": comm.check,
    "C04": comm.check,
    "C05": spawn.check,
    "C06": spawn.check,
    "C07": spawn.check,
    "C08": spawn.check,
    "C15": spawn.check,
    "C17": spawn.check,
    "C18": spawn.check,
    "C16": builder.check,
    "C12": pipeline.check,
    "C13": pipeline.check,
    "C14": pipeline.check,
    "C09": life.check,
    "C10": life.check,
    "C11": life.check,
}

"""Property id -> check function."""
import c20

CHECKS = {
    "C20": c20.check,
}

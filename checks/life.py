"""C09 C10 C11 (engine `life`): the real Popen runs generated operation sequences against a scripted child world
(waitpid/kill/clock/sleep interposed, virtual time); the Lean model Life.runOps replays the same answers."""
import os, subprocess, json
import common

PROJ = {
    # which return values and which calls are compared between model and implementation, per property
    "C09": (lambda op: True, lambda c: c.startswith("wp:")),
    "C10": (lambda op: op in ("term", "kill", "drop") or op.startswith("sig:"), lambda c: c.startswith("wp:") or c.startswith("kill:")),
    "C11": (lambda op: op == "poll" or op.startswith("wt:"), lambda c: not c.startswith("kill:")),
}
TEXT = {
    "C09": "exit status truth / finality",
    "C10": "signals only to the live child",
    "C11": "poll never blocks; wait_timeout accuracy and back-off",
}


def project(prop, ops, line):
    rets, _, calls = line.partition(" | ")
    rets, calls = rets.split(), calls.split()
    keep_ret, keep_call = PROJ[prop]
    r = [x for op, x in zip(ops, rets) if keep_ret(op)]
    if len(rets) != len(ops):
        r.append(f"<{len(rets)} results for {len(ops)} ops>")
    return " ".join(r) + " | " + " ".join(c for c in calls if keep_call(c))


def check(ctx):
    prop = ctx.prop
    ctx.lean_obligations()
    cov = ctx.cov
    cov["trusted_base"] += ["OS model axioms A5 (waitpid/kill), A6 (monotonic clock, sleep) -- DESIGN.md section 3",
                            "sim-kernel of the harness (scripted child world, virtual clock) and the libc interposer"]
    ctx.assumptions += ["waitpid/kill/clock_gettime/clock_nanosleep answers come from the scripted world; the real kernel's "
                        "scheduling latency is symbolic (PRNG-chosen) in the runs and universally quantified in the theorems",
                        "EINTR from a blocking waitpid surfaces as Err from wait() (no status reported, state unchanged)"]
    if not ctx.cargo_build():
        return
    n = 4000 if ctx.tier == "quick" else 120000
    cmd = [ctx.harness_bin("harness"), "life", str(ctx.seed), str(n)]
    if ctx.replay:
        rp = json.load(open(ctx.replay))
        cmd = [ctx.harness_bin("harness"), "life", str(rp["seed"]), str(rp["case_index"] + 1), str(rp["case_index"])]
    try:
        proc = subprocess.run(cmd, stdout=subprocess.PIPE, stderr=subprocess.PIPE, timeout=(400 if ctx.tier == "quick" else 4000))
        out = proc.stdout.decode().splitlines()
        ncases = sum(1 for l in out if l.startswith("CASE "))
        if not ctx.replay and (proc.returncode != 0 or ncases != n):
            ctx.broken_correspondence({"what": f"the harness ended early: {ncases} of {n} cases (exit status {proc.returncode})",
                                       "cmd": " ".join(cmd), "stderr": proc.stderr.decode(errors="replace")[:1500]})
    except subprocess.TimeoutExpired as te:
        # the output is flushed case by case: the case after the last finished one is the one that does not end.  Run it alone to
        # make sure, and report it as a concrete replay (an operation on a Popen that never returns under the simulated kernel:
        # poll/wait_timeout must not block, and a wait on a child that exits must end).
        done = [int(l[5:]) for l in (te.stdout or b"").decode(errors="replace").splitlines() if l.startswith("CASE ")]
        idx = (done[-1] + 1) if done else (json.load(open(ctx.replay))["case_index"] if ctx.replay else 0)
        one = [ctx.harness_bin("harness"), "life", str(ctx.seed if not ctx.replay else json.load(open(ctx.replay))["seed"]), str(idx + 1), str(idx)]
        alone = None
        try:
            subprocess.run(one, stdout=subprocess.PIPE, stderr=subprocess.PIPE, timeout=60)
        except subprocess.TimeoutExpired:
            alone = True
        if alone:
            ctx.violation({"seed": ctx.seed, "case_index": idx, "cmd": " ".join(one),
                           "what": "this operation sequence does not end under the simulated kernel: an operation on the Popen hangs or "
                                   "spins (the harness was stopped after 60 s of real time; every simulated call returns at once)",
                           "finished_cases_before_it": len(done)})
        else:
            ctx.broken_correspondence({"what": "the harness did not finish: the library hangs or spins under the simulated kernel",
                                       "cmd": " ".join(cmd), "last_finished_case": done[-1] if done else None})
        return
    cases, cur = [], None
    for l in out:
        if l.startswith("CASE "):
            cur = {"index": int(l[5:]), "oracle": []}
            cases.append(cur)
        elif l.startswith("REQ "):
            cur["req"] = l[4:]
        elif l.startswith("OBS "):
            cur["obs"] = l[4:]
        elif l.startswith("STAT "):
            cur["stat"] = l[5:]
        elif l.startswith("ORACLE "):
            p, _, msg = l[7:].partition(" ")
            cur["oracle"].append((p, msg))
    if not cases or any("obs" not in c for c in cases):
        ctx.broken_correspondence({"what": "harness produced no/incomplete output", "tail": out[-5:]})
        return
    model = ctx.run_driver("".join(c["req"] + "\n" for c in cases))
    if len(model) != len(cases):
        ctx.broken_correspondence({"what": f"answer count mismatch model={len(model)} cases={len(cases)}"})
        return
    seedinfo = ctx.seed if not ctx.replay else json.load(open(ctx.replay))["seed"]
    nontrivial, dist = set(), {"with_status_report": 0, "external_reap": 0, "never_exits": 0, "signals_sent": 0,
                               "backoff_iterations_max": 0, "eintr_or_foreign": 0, "ops_total": 0}
    first_div = None
    for c, m in zip(cases, model):
        ops = c["req"][5:].split(" | ")[0].split()
        a, b = project(prop, ops, c["obs"]), project(prop, ops, m)
        if a != b and first_div is None:
            first_div = {"what": f"model and implementation diverge on the {TEXT[prop]} projection",
                         "seed": seedinfo, "case_index": c["index"], "request": c["req"],
                         "implementation": a, "model": b}
        for p, msg in c["oracle"]:
            if p == prop and len(ctx.violations) < 3:
                ctx.violation({"seed": seedinfo, "case_index": c["index"], "request": c["req"], "observed": c["obs"],
                               "what": msg, "replay_cmd": f"./check {prop} --replay <this file>"})
        st = dict(kv.split("=") for kv in c["stat"].split())
        dist["ops_total"] += int(st["ops"])
        if "st:" in c["obs"].split(" | ")[0]: dist["with_status_report"] += 1
        if st["ext"] == "true": dist["external_reap"] += 1
        if st["exit"] == "false": dist["never_exits"] += 1
        dist["signals_sent"] += int(st["kills"])
        dist["backoff_iterations_max"] = max(dist["backoff_iterations_max"], int(st["sleeps"]))
        if "err:4" in c["req"] or "wp:1001" in c["req"]: dist["eintr_or_foreign"] += 1
        if int(st["calls"]) >= 2:
            nontrivial.add(c["req"])
    if first_div:
        ctx.broken_correspondence(first_div)
    cov["evaluations"] = len(cases)
    cov["traces_validated_against_impl"] = len(cases)
    cov["distinct_nontrivial"] = len(nontrivial)
    cov["distribution"] = dist
    cov["rule"] = ("operation sequences (1-10 ops of poll/wait/wait_timeout/terminate/kill/send_signal/detach/pid/exit_status, "
                   "optional drop) on a real Popen; child world: exit instant before the call / inside each back-off interval / at "
                   "a deadline / never, every low status word (sweep) plus random words, external reaping, EINTR, foreign-pid "
                   "answers, call latencies and sleep jitter; durations 0..30 days.  non-trivial = at least two system calls; "
                   "distinct by (ops, answers)")
    cov["samples"] = [{"request": c["req"], "observed": c["obs"], "model": m}
                      for c, m in list(zip(cases, model))[:3] + list(zip(cases, model))[-1:]]

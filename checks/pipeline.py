"""C12 / C13 / C14: how Exec and Pipeline terminators start commands, connect them and clean up.

The real terminators run with real scripted children (`hplain stage ..`) in trace mode (engine `pipe`).
 (a) correspondence: the parent's log is abstracted to the event summary the Lean model
     (`Pipe.run`, Model/Pipeline.lean) predicts -- per started command its attachments and the stray
     inheritable ends, per wait the pipe ends the parent holds at that moment, the final holdings;
 (b) direct oracles on what the run produced (independent of the model): output = composition of the
     stage transforms, stderr multiset, exit status, leftovers (zombies / running orphans), descriptor
     count, latency, hang (watchdog).
"""
import json
import os
import re
import subprocess

import common

FNV0 = 0xcbf29ce484222325


def fnv(b):
    h = FNV0
    for x in b:
        h ^= x
        h = (h * 0x100000001b3) & 0xFFFFFFFFFFFFFFFF
    return h


# ------------------------------------------------------------------------------------------- parsing
def parse(text):
    cases, cur = [], None
    for l in text.splitlines():
        if l.startswith("CASE "):
            cur = {"index": int(l[5:]), "log": [], "sums": {}}
            cases.append(cur)
        elif l.startswith("HANG "):
            cur = {"index": int(l[5:]), "log": [], "sums": {}, "hang": True}
            cases.append(cur)
        elif cur is None:
            continue
        elif l.startswith("SPEC "):
            cur["spec"] = l[5:]
            cur["kv"] = dict(t.split("=", 1) for t in l[5:].split() if "=" in t)
        elif l.startswith("RES "):
            cur["res"] = l[4:].split()
        elif l.startswith("STAT "):
            cur["stat"] = dict(t.split("=", 1) for t in l[5:].split())
        elif l.startswith("LOG "):
            cur["log"].append(l[4:])
        elif l.split(" ", 1)[0] in ("GOTOUT", "GOTERR", "FILEOUT", "FILEFILE", "FILEERR", "FILEERRTO"):
            k, rest = l.split(" ", 1)
            cur["sums"][k] = dict(t.split("=", 1) for t in rest.split())
        elif l == "END":
            cur["complete"] = True
    return cases


# ------------------------------------------------------------------- abstraction of the parent's log
def abstract(log):
    """-> (tokens, info).  tokens in the format of the Lean driver's `pipe` answer (without R / IO)."""
    # pass 1: which pipes are launch-status pipes (their read end is read with size 4)
    fd2pipe, npipes, status = {}, 0, set()
    await_status = False
    for l in log:
        t = l.split()
        if t[0] != "P":
            continue
        if t[1] == "pipe" and t[2] == "->":
            fd2pipe[int(t[3])] = npipes
            fd2pipe[int(t[4])] = npipes
            npipes += 1
        elif t[1] == "close":
            fd2pipe.pop(int(t[2]), None)
        elif t[1] == "fork":
            await_status = True
        elif t[1] == "read" and await_status:
            await_status = False
            if int(t[2]) in fd2pipe:
                status.add(fd2pipe[int(t[2])])
    # canonical names by creation order among the other pipes
    names, k = {}, 0
    for i in range(npipes):
        if i in status:
            names[i] = "s%d" % i
        else:
            names[i] = "p%d" % k
            k += 1
    # pass 2
    tab = {}       # fd -> [pipe, side, cloexec]
    created = 0
    tokens = []
    pid_stage, failed_pids = {}, set()
    stage = -1
    seg_child = []          # C lines of the spawn in progress
    fork_tab = None
    info = {"forks": 0, "waits": [], "stages": {}}

    def held():
        ends = sorted((p, s) for (p, s, _) in tab.values() if p not in status)
        return "[" + ",".join(names[p] + s for p, s in ends) + "]"

    def finish_spawn(ok):
        nonlocal seg_child, fork_tab
        if fork_tab is None:
            return
        atts = {0: "I", 1: "I", 2: "I"}
        snap = None
        for c in seg_child:
            t = c.split()
            if t[1] == "dup2" and t[-2] == "->" and not t[-1].startswith("E"):
                src, dst = int(t[2]), int(t[3])
                if dst in (0, 1, 2):
                    if src in fork_tab:
                        atts[dst] = names[fork_tab[src][0]]
                        atts[(dst, "end")] = (fork_tab[src][0], fork_tab[src][1])
                    else:
                        atts[dst] = "F"
            elif t[1] == "snapshot":
                snap = {}
                for x in t[2:]:
                    m = re.match(r"fd(\d+)=(\d+):(\d+):(\d+):(\d+)$", x)
                    if m:
                        snap[int(m.group(1))] = (m.group(2) + ":" + m.group(3), int(m.group(5)))
        dirty = []
        if snap is not None:
            for fd, (ident, clo) in sorted(snap.items()):
                if fd in (0, 1, 2) or clo:
                    continue
                if fd in fork_tab:
                    p, s, _ = fork_tab[fd]
                    dirty.append(names[p] + s)
                else:
                    dirty.append("x%d" % fd)
        dirty.sort(key=lambda d: (d[0] != "p", d))
        if ok:
            tokens.append("S%d(%s,%s,%s)![%s]" % (stage, atts[0], atts[1], atts[2], ",".join(dirty)))
        else:
            tokens.append("F%d" % stage)
        info["stages"][stage] = {"ok": ok, "atts": atts, "dirty": dirty}
        seg_child, fork_tab = [], None

    for l in log:
        t = l.split()
        if t[0] == "C":
            seg_child.append(l)
            continue
        if t[1] == "pipe" and t[2] == "->":
            tab[int(t[3])] = [created, "r", 0]
            tab[int(t[4])] = [created, "w", 0]
            created += 1
        elif t[1] == "fcntl" and t[3] == "SETFD" and t[-2] == "->" and t[-1] == "0":
            if int(t[2]) in tab:
                tab[int(t[2])][2] = int(t[4]) & 1
        elif t[1] == "fork" and t[3].startswith("K"):
            stage += 1
            info["forks"] += 1
            pid_stage[t[3]] = stage
            fork_tab = {fd: tuple(v) for fd, v in tab.items()}
            cur_pid = t[3]
        elif t[1] == "close":
            tab.pop(int(t[2]), None)
        elif t[1] == "read" and fork_tab is not None:
            ok = (t[5] == "0")
            if not ok:
                failed_pids.add(cur_pid)
            finish_spawn(ok)
        elif t[1] == "waitpid-enter":
            if t[2] in failed_pids or t[2] not in pid_stage:
                continue
            tokens.append("w%d%s" % (pid_stage[t[2]], held()))
            info["waits"].append(pid_stage[t[2]])
        elif t[1] == "user":
            tokens.append("U")
    finish_spawn(False) if fork_tab is not None else None
    tokens.append("E" + held().replace("[", "[", 1))
    leftover_status = [fd for fd, v in tab.items() if v[0] in status]
    if leftover_status:
        tokens.append("statusfd-left")
    info["pid_stage"] = pid_stage
    info["failed_pids"] = failed_pids
    return tokens, info


def model_tokens(ans):
    toks = ans.split()[1:]
    out = []
    for t in toks:
        if t in ("R0", "R1", "IO"):
            continue
        if t.startswith("W"):
            t = "w" + t[1:]
        out.append(t)
    return out, ("R1" in toks)


def to_request(c):
    kv = c["kv"]
    fail = "-"
    stages = kv["stages"].split(",")
    if "nosuch" in stages:
        fail = str(stages.index("nosuch"))
    # whether the exchange of `capture` failed (EPIPE) is the environment's choice: the model is told what happened
    iofails = "1" if (kv.get("epipe") == "1" and c.get("res") and c["res"][0] == "err" and "BrokenPipe" in " ".join(c["res"])) else "0"
    return "pipe n=%s det=%s in=%s out=%s err=%s errto=%s fail=%s term=%s iofails=%s" % (
        kv["n"], kv["det"], kv["in"], kv["out"], kv.get("err", "I"), kv.get("errto", "0"), fail, kv["term"], iofails)


# ------------------------------------------------------------------------------------------ oracles
def stage_apply(beh, lines):
    """lines in -> (lines out, stderr lines, exit code) for the scripted stage behaviours that end by themselves"""
    if beh.startswith("T"):
        p = beh[1:].split(":")
        tag, code, el = p[0], int(p[1]), int(p[2]) if len(p) > 2 else 0
        return [l + b"|" + tag.encode() for l in lines], [("E%s%d" % (tag, i)).encode() for i in range(min(el, len(lines)))], code
    if beh.startswith("G"):
        p = beh[1:].split(":")
        return [("L%d" % i).encode() for i in range(int(p[0]))], [], int(p[1])
    if beh == "C" or beh.startswith("SS"):
        return list(lines), [], 0
    if beh == "S":
        return [], [], 0
    if beh.startswith("X"):
        return [], [], int(beh[1:] or 0)
    return None


def deterministic(stages):
    return all(stage_apply(b, []) is not None for b in stages) and not any(b.startswith("X") for b in stages[1:]) and \
        not any(b.startswith("G") for b in stages[1:])


def sum_of_lines(lines):
    b = b"".join(l + b"\n" for l in lines)
    return {"len": str(len(b)), "fnv": "%016x" % fnv(b)}


def oracle(c, prop, viol):
    kv = c["kv"]
    stages = kv["stages"].split(",")
    n = int(kv["n"])
    det = [ch == "1" for ch in kv["det"]]
    term = kv["term"]
    if term == "communicate":
        det = [True] * n
    if c.get("hang"):
        viol("the call never returned: " + hang_reason(c), sig=hang_signature(c))
        return
    res = c["res"]
    stat = c["stat"]
    toks, info = c["abs"]
    fail_at = stages.index("nosuch") if "nosuch" in stages else None
    pid_stage = info["pid_stage"]
    left = {}
    for item in (stat["left"].split(",") if stat.get("left") else []):
        pid, _, st = item.partition("=")
        if pid in pid_stage and pid not in info["failed_pids"]:
            left[pid_stage[pid]] = st
        elif pid in info["failed_pids"] and st != "g":
            viol("the child forked for the command that could not be started was not reaped (state %s)" % st)
    # ---- zombies / orphans of non-detached commands once the handle is gone
    for st_idx, st in left.items():
        if not det[st_idx] and st != "g":
            what = {"z": "had exited but was never reaped (zombie)", "l": "was still running", "r": "was still running"}[st]
            viol("command %d (not detached) %s when the call had returned and the handle was dropped" % (st_idx, what))
    # ---- a started command holds exactly its three streams: no stray pipe end of the parent or of another command
    if prop in ("C13", "C08"):
        for st_idx, stg in sorted(info["stages"].items()):
            if stg["dirty"]:
                viol("command %d was started holding stray descriptors %s besides its stdin/stdout/stderr (p<k>r / p<k>w = read / "
                     "write end of the k-th pipe the library created, x<fd> = other descriptor)" % (st_idx, stg["dirty"]))
                break
    if prop == "C08":
        return
    if fail_at is not None:
        # ---- C14
        if "perr" in kv:
            # per-command stream pipes are outside `Pipe.Cfg`; the cleanup is checked against the small model of
            # Props/C14.lean (`cleanupSeq`, c14_cleanup_waits_with_nothing_held): every wait of the cleanup holds nothing
            for t in toks:
                m = re.match(r"w(\d+)\[(.*)\]$", t)
                if m and m.group(2):
                    viol("the cleanup of the failed start waits for command %s while the parent still holds [%s]" % (m.group(1), m.group(2)))
                    break
        if res[0] != "err":
            viol("command %d cannot be started but the terminator returned success" % fail_at)
        if info["forks"] != fail_at + 1:
            viol("%d commands were forked; the start error of command %d must stop the pipeline (expected %d forks)"
                 % (info["forks"], fail_at, fail_at + 1))
        if stat["fds_before"] != stat["fds_after"]:
            viol("descriptors of the attempt remain open in the parent: %s before, %s after" % (stat["fds_before"], stat["fds_after"]))
        if int(stat["ms"]) > 3000:
            viol("the failing start took %s ms to return" % stat["ms"])
        return
    if kv.get("prompt") and res[0] == "ok" and int(stat["ms"]) > int(kv["prompt"]) and kv["term"].startswith("stream_"):
        viol("the reader was dropped with output still coming, and the drop returned only after %s ms%s: the writer was not "
             "ended by closing the pipe (SIGPIPE must be deliverable in the started command)"
             % (stat["ms"], " (the caller has SIGPIPE blocked)" if kv.get("sigblock") == "1" else ""))
    elif kv.get("prompt") and res[0] == "ok" and int(stat["ms"]) > int(kv["prompt"]):
        viol("the last command exited at once, but the call returned only after %s ms: an earlier command went on running "
             "although nobody reads its output any more (it must be ended by SIGPIPE / a broken pipe)" % stat["ms"])
    # ---- success path
    if kv.get("epipe") == "1" and res[0] == "err" and "BrokenPipe" in " ".join(res):
        # the expected failure of the exchange (C02's subject); what was checked above -- nobody left behind -- is the point
        if stat["fds_before"] != stat["fds_after"]:
            viol("descriptors remain open in the parent after the failed call: %s before, %s after" % (stat["fds_before"], stat["fds_after"]))
        return
    if res[0] != "ok":
        viol("all commands exist but the terminator failed: " + " ".join(res))
        return
    if kv.get("epipe") == "1":
        return      # the command happened to drain nothing and still let the write through: nothing more to compare
    if stat["fds_before"] != stat["fds_after"]:
        viol("descriptors remain open in the parent after the handle is gone: %s before, %s after" % (stat["fds_before"], stat["fds_after"]))
    # detached popen: dropping never reaps
    if term == "popen":
        for st_idx, st in left.items():
            if det[st_idx] and st == "g":
                viol("command %d is detached but dropping its Popen reaped it" % st_idx)
    if not deterministic(stages):
        return
    # ---- C13: data
    nlines = int(kv.get("data", 0))
    src = [("L%d" % i).encode() for i in range(nlines)]
    if term == "stream_stdin":
        src = [("L%d" % i).encode() for i in range(int(kv.get("write", 0)))]
    elif kv["in"] == "P":
        src = []
    errs, lines, codes = [], src, []
    for b in stages:
        lines, e, code = stage_apply(b, lines)
        errs += e
        codes.append(code)
    want = sum_of_lines(lines)
    where = None
    if kv["out"] == "P" or term in ("capture", "stream_stdout") or (term == "communicate"):
        if term in ("capture",) or (term in ("stream_stdout", "communicate") and kv.get("read") == "all"):
            where = "GOTOUT"
    elif kv["out"] == "F":
        where = "FILEFILE"
    else:
        where = "FILEOUT"
    if n == 1 and term in ("capture", "communicate") and kv["out"] != "I":
        where = {"P": "GOTOUT", "F": "FILEFILE"}.get(kv["out"], where)
    complete_run = term in ("join", "capture", "popen", "stream_stdin") or kv.get("read") == "all"
    if where and complete_run and all(not d for d in det):
        got = c["sums"].get(where)
        if got is None or got["len"] != want["len"] or got["fnv"] != want["fnv"]:
            viol("the pipeline's output is not the composition of its stages applied in order: expected %s bytes (fnv %s), "
                 "%s has %s" % (want["len"], want["fnv"], where, got))
        # nothing may have gone anywhere else
        for other in ("FILEOUT", "FILEFILE"):
            if other != where and c["sums"].get(other, {}).get("len", "0") != "0":
                viol("output also reached %s (%s bytes), which is not the pipeline's configured output" % (other, c["sums"][other]["len"]))
        # stderr: every stage's lines, none lost
        ewant = sorted(errs)
        eb = b"".join(l + b"\n" for l in ewant)
        if n >= 2:
            ewhere = "GOTERR" if term == "capture" or (term == "communicate" and kv.get("read") == "all") else ("FILEERRTO" if kv.get("errto") == "1" else "FILEERR")
        else:
            ewhere = {"I": "FILEERR", "F": "FILEERRTO", "P": "GOTERR"}[kv.get("err", "I")]
            if term == "stream_stderr":
                ewhere = "GOTERR"
        egot = c["sums"].get(ewhere)
        if egot is None or int(egot["lines"]) != len(ewant) or egot["fnv"] != "%016x" % fnv(eb):
            viol("the standard-error sink %s has %s, the stages wrote %d lines (fnv %016x)" % (ewhere, egot, len(ewant), fnv(eb)))
    # ---- status of the last command
    if term in ("join", "capture") and len(res) > 1:
        if res[1] != "exit%d" % codes[-1]:
            viol("returned status %s, the last command exited with %d (stage exit codes %s)" % (res[1], codes[-1], codes))


def hang_reason(c):
    toks, info = c["abs"]
    blocked = [l for l in c["log"] if l.startswith("P waitpid-enter")]
    done = [l.split()[2] for l in c["log"] if l.startswith("P waitpid K")]
    pending = [l for l in blocked if l.split()[2] not in done]
    if pending:
        pid = pending[-1].split()[2]
        st = info["pid_stage"].get(pid, "?")
        last = [t for t in toks if t.startswith("w%s[" % st)]
        return "the parent waits for command %s while it still holds %s" % (st, last[-1][len("w%s" % st):] if last else "?")
    return "blocked outside waitpid"


def hang_signature(c):
    # no hang is excused any more: the one that was (`capture-start-failure-keeps-stderr-reader-while-waiting`) is repaired
    # (fix F15, known_findings.json); if it returns it is reported like any other violation
    return None


# --------------------------------------------------------------------------------------- generators
def spec(n, stages, det=None, i="I", o="I", e="I", errto=0, shape="L", term="join", data=0, read="0", write=0, errwhen="late", sib=0, pause=0):
    return "n=%d stages=%s det=%s in=%s out=%s err=%s errto=%d errwhen=%s shape=%s term=%s data=%d read=%s write=%d sib=%d pause=%d" % (
        n, ",".join(stages), det or "0" * n, i, o, e, errto, errwhen, shape, term, data, read, write, sib, pause)


def shapes_for(n, rng):
    s = ["L", "I", "J", "K"]     # a|b|c, from a Vec, from an iterator of unknown length, from an unbounded-looking iterator
    for m in range(2, n - 1):
        s += ["P%da" % m, "P%db" % m]
    return s


def filters(n, rng, errl=2):
    tags = "abcdefghij"
    return ["T%s:%d:%d" % (tags[i], (1 + rng.below(200)) if i == n - 1 or rng.below(2) else 0, errl) for i in range(n)]


def gen_c13(ctx):
    rng = common.SplitMix64(ctx.seed)
    quick = ctx.tier == "quick"
    specs = []
    # pipeline | pipeline with everything configured on the operands before composing: the left operand's input
    # (data, file, pipe) and the right operand's output survive; every split point
    for n in (4, 5):
        for m in range(2, n - 1):
            for term, i, o in [("capture", "D", "P"), ("join", "F", "F"), ("stream_stdin", "P", "F"), ("stream_stdout", "F", "P")]:
                st = filters(n, rng)
                specs.append(spec(n, st, i=i, o=o, shape="P%db" % m, term=term, data=100, read="all", write=100 if term == "stream_stdin" else 0))
    sizes = [0, 1, 100, 20000] if quick else [0, 1, 7, 100, 5000, 20000, 120000]
    for n in ([2, 3, 4, 5] if quick else [2, 3, 4, 5, 6, 8]):
        for shape in shapes_for(n, rng):
            for term, i, o in [("join", "F", "F"), ("join", "I", "I"), ("capture", "D", "P"), ("capture", "F", "P"),
                               ("stream_stdout", "F", "P"), ("stream_stdin", "P", "F"), ("popen", "I", "F"), ("join", "F", "I")]:
                if quick and rng.below(3) == 0:
                    continue
                data = sizes[rng.below(len(sizes))]
                st = filters(n, rng)
                if rng.below(4) == 0:
                    st[rng.below(n)] = "C"
                if i in ("I", "F") and rng.below(5) == 0:
                    st[0] = "G%d:0" % data
                errto = rng.below(2)
                # `stderr_to` is a setting of the pipeline: given before further commands are appended it still covers them
                errwhen = "early" if errto and term != "capture" and rng.below(2) else "late"
                specs.append(spec(n, st, i=i, o=o, errto=errto, shape=shape, term=term, data=data,
                                  read="all", write=data if term == "stream_stdin" else 0, errwhen=errwhen))
    return specs


BEH_BEFORE = ["C", "Y", "S", "Ta:0:1", "G5:0", "G200000:0", "X3", "W"]


def gen_c14(ctx):
    rng = common.SplitMix64(ctx.seed + 14)
    quick = ctx.tier == "quick"
    specs = []
    for n in ([2, 3, 4] if quick else [2, 3, 4, 5, 6]):
        for k in range(n):
            for term in ["popen", "join", "capture", "communicate", "stream_stdout", "stream_stdin"]:
                for i in ["I", "P", "F", "D"]:
                    if i == "D" and term not in ("capture", "communicate"):
                        continue
                    if i == "P" and term in ("capture", "communicate"):
                        continue   # refused loudly: "must provide input to redirected stdin"
                    if quick and rng.below(3) == 0:
                        continue
                    for rep in range(1 if quick else 2):
                        st = [BEH_BEFORE[rng.below(len(BEH_BEFORE))] for _ in range(n)]
                        if k > 0 and rng.below(2):
                            st[0] = "C"           # the first command waits for end-of-file on its stdin
                        st[k] = "nosuch"
                        # an unbounded writer feeding a sink that reads for ever never ends, whatever the parent does
                        # (not self-inflicted): keep every command after a `Y` or `W` one that passes the broken pipe back
                        seen_y = False
                        for j in range(k):
                            if st[j] in ("Y", "W"):
                                seen_y = True
                            elif seen_y and st[j] == "S":
                                st[j] = "C"
                        det = "".join("1" if rng.below(5) == 0 else "0" for _ in range(n))
                        if rng.below(8) == 0:
                            det = "1" * n
                        specs.append(spec(n, st, det=det, i=i, o=["I", "P", "F"][rng.below(3)], errto=rng.below(2),
                                          shape=["L", "I"][rng.below(2)], term=term, data=[0, 10, 50000][rng.below(3)],
                                          read="0", write=10))
    # a command with a stderr pipe of its own (its read end sits in that command's Popen) that fills it while a later command
    # cannot be started: the cleanup must not wait for an earlier command while a later Popen still holds that pipe.
    # (Per-command stream settings inside a pipeline are outside the Lean model: these cases are checked by the oracles only.)
    for term in (["popen", "join"] if quick else ["popen", "join", "stream_stdout", "stream_stdin"]):
        specs.append(spec(3, ["Y", "EC200000", "nosuch"], term=term, i="I", o="I") + " perr=1")
        specs.append(spec(4, ["Y", "C", "EC200000", "nosuch"], term=term, i="I", o="I") + " perr=2")
        specs.append(spec(3, ["Y", "EC100", "nosuch"], term=term, i="I", o="I") + " perr=01")
    # the pipeline's own stdin and stdout are the two ends of one pipe (files handed in by the caller): whatever the library
    # still holds of them when it cleans up a failed start keeps the first command from seeing end-of-file.
    # (Caller-made pipes are outside `Pipe.Cfg`: oracle-only, like the perr= cases.)
    for n, k in ((3, 1), (4, 1), (4, 2), (3, 2), (2, 1), (3, 0)):
        for term in ("join", "popen"):
            st = ["C"] * n
            st[k] = "nosuch"
            specs.append(spec(n, st, term=term, i="F", o="F") + " ring=1 perr=-")
    # the known finding: a command writing without bound to the captured stderr while a later one fails to start
    specs.append(spec(2, ["YE", "nosuch"], term="capture", i="I", o="I"))
    if not quick:
        specs.append(spec(3, ["C", "YE", "nosuch"], term="capture", i="I", o="I"))
    return specs


def gen_c12(ctx):
    rng = common.SplitMix64(ctx.seed + 12)
    quick = ctx.tier == "quick"
    specs = []
    reads = ["0", "10", "70000", "all"]
    # single commands
    for beh in ["Y", "G10:0", "G200000:0", "C", "X0", "Ta:0:1"]:
        for rd in reads:
            if beh in ("Y",) and rd == "all":
                continue
            specs.append(spec(1, [beh], i="F", term="stream_stdout", data=50, read=rd))
    for rd in ["0", "10", "70000"]:
        specs.append(spec(1, ["YE"], term="stream_stderr", read=rd))
        specs.append(spec(1, ["Ta:0:5"], i="F", term="stream_stderr", data=50, read=rd))
    for beh in ["C", "S", "X0", "Ta:0:0"]:
        for w in [0, 10, 100000]:
            specs.append(spec(1, [beh], o="F", term="stream_stdin", write=w))
    for beh in ["G10:0", "X7", "G200000:3"]:
        specs.append(spec(1, [beh], term="join"))
        specs.append(spec(1, [beh], term="capture", read="all"))
        specs.append(spec(1, [beh], o="F", term="popen"))
        specs.append(spec(1, [beh], o="F", term="popen", det="1"))
        specs.append(spec(1, [beh], o="F", term="popen", det="1", pause=60))   # dropped after the child has ended: still not reaped
    # an unrelated child started while the handle is alive (and outliving it) must not keep the pipe's other end open
    for rd in ["0", "10"]:
        specs.append(spec(1, ["Y"], term="stream_stdout", read=rd, sib=1))
        specs.append(spec(1, ["YE"], term="stream_stderr", read=rd, sib=1))
        specs.append(spec(2, ["Y", "C"], term="stream_stdout", read=rd, sib=1))
    specs.append(spec(1, ["C"], o="F", term="stream_stdin", write=10, sib=1))
    specs.append(spec(1, ["Y"], o="P", term="popen", sib=1))
    # the reader of a pipeline whose stdin is a pipe the caller cannot reach: released by the drop before any wait
    specs.append(spec(2, ["C", "C"], i="P", term="stream_stdout", read="0"))
    specs.append(spec(3, ["C", "C", "C"], i="P", term="stream_stdout", read="0"))
    # detached members are neither waited for nor reaped by an adapter's drop
    specs.append(spec(2, ["Z", "C"], det="11", term="stream_stdout", read="0"))
    specs.append(spec(2, ["Z", "S"], det="11", o="F", term="stream_stdin", write=10))
    specs.append(spec(1, ["Y"], o="P", term="popen", det="1"))      # detached: the drop neither blocks nor reaps
    specs.append(spec(1, ["C"], i="P", o="F", term="popen", det="1"))
    specs.append(spec(1, ["Y"], o="P", term="popen"))                # plain Popen with a pipe: Popen::drop releases it
    specs.append(spec(1, ["C"], i="P", o="F", term="popen"))
    specs.append(spec(1, ["Y"], term="communicate", read="0"))
    specs.append(spec(1, ["C"], i="D", term="capture", data=30000, read="all"))
    # a terminator that FAILS after the start still owns its Popen: input that does not fit a pipe, for a command that exits
    # without reading it -> EPIPE from the exchange; the command must have been waited for when the error comes back
    for beh in ["X0", "X3", "G10:0"]:
        specs.append(spec(1, [beh], i="D", term="capture", data=50000, read="all") + " epipe=1")
    specs.append(spec(2, ["X3", "C"], i="D", term="capture", data=50000, read="all") + " epipe=1")
    specs.append(spec(3, ["G10:0", "C", "C"], i="D", term="capture", data=50000, read="all") + " epipe=1")
    # ... and for a command that closes its stdin but goes on writing: when the exchange has failed, nobody may wait for it
    # while still holding the pipe it writes to
    specs.append(spec(1, ["YC"], i="D", term="capture", data=50000, read="all") + " epipe=1")
    specs.append(spec(2, ["YC", "C"], i="D", term="capture", data=50000, read="all") + " epipe=1")
    # the calling thread has SIGPIPE blocked (worker threads of programs that collect signals in one place): a writer nobody
    # reads any more must still be ended when its handle is dropped (`W`: a shell loop that goes on for 4 s whatever its writes
    # return, and ends at once only through the signal)
    for rd in ("100", "0"):
        specs.append(spec(1, ["W"], term="stream_stdout", read=rd) + " sigblock=1 prompt=2500")
        specs.append(spec(2, ["W", "C"], term="stream_stdout", read=rd) + " sigblock=1 prompt=2500")
        specs.append(spec(2, ["C", "W"], i="P", term="stream_stdout", read=rd) + " sigblock=1 prompt=2500")
    specs.append(spec(1, ["W"], term="stream_stdout", read="100") + " prompt=2500")
    # the handle is dropped by a panic unwinding the caller's frame (caught further up): same obligations as any drop
    for beh in ["G10:0", "G200000:3"]:
        specs.append(spec(1, [beh], o="F", term="popen") + " panic=1")
    specs.append(spec(1, ["C"], i="P", o="F", term="popen") + " panic=1")
    specs.append(spec(3, ["G10:0", "C", "C"], o="F", term="popen") + " panic=1")
    specs.append(spec(2, ["G10:0", "C"], o="F", term="popen", det="11") + " panic=1")
    # a command that is stopped for a while (SIGSTOP ... SIGCONT) and then ends: waiting for it means waiting for its exit
    for term, kw in (("join", {}), ("popen", {"o": "F"}), ("capture", {"read": "all"}), ("stream_stdout", {"read": "all"})):
        specs.append(spec(1, ["SS300"], i="F", term=term, data=3, **kw))
    specs.append(spec(2, ["SS300", "C"], i="F", term="join", data=3))
    specs.append(spec(2, ["C", "SS300"], i="F", term="capture", data=3, read="all"))
    # the failed-launch child is reaped too
    specs.append(spec(1, ["nosuch"], term="join"))
    specs.append(spec(1, ["nosuch"], term="popen", det="1"))
    # pipelines
    for n in ([2, 3] if quick else [2, 3, 4, 6]):
        for rd in reads:
            for first in ["Y", "G200000:0", "G10:0"]:
                if first == "Y" and rd == "all":
                    continue
                st = [first] + [["C", "Tb:0:0"][rng.below(2)] for _ in range(n - 1)]
                specs.append(spec(n, st, term="stream_stdout", read=rd, shape=["L", "I"][rng.below(2)]))
        for w in [0, 10, 100000]:
            for last in ["S", "C", "X0"]:
                st = ["C"] * (n - 1) + [last]
                specs.append(spec(n, st, o="F", term="stream_stdin", write=w))
        specs.append(spec(n, ["G200000:0"] + ["C"] * (n - 1), o="F", term="join"))
        specs.append(spec(n, ["G200000:0"] + ["C"] * (n - 2) + ["X5"], term="join"))        # the last one exits early
        specs.append(spec(n, ["Y"] + ["C"] * (n - 2) + ["X5"], term="join"))
        specs.append(spec(n, ["Y"] + ["C"] * (n - 2) + ["X5"], term="capture", read="all"))
        specs.append(spec(n, ["G10:0"] + ["C"] * (n - 1), o="F", term="popen"))
        specs.append(spec(n, ["G10:0"] + ["C"] * (n - 1), o="F", term="popen", det="1" * n))
        specs.append(spec(n, ["G10:0"] + ["C"] * (n - 1), o="F", term="popen", det="1" * n, pause=60))
        specs.append(spec(n, ["Y"] + ["C"] * (n - 1), term="communicate", read="0"))
        specs.append(spec(n, ["G10:0"] + ["C"] * (n - 2) + ["nosuch"], term="join"))
    return specs


def gen_c08(ctx):
    """pipelines for C08: every terminator, lengths 2..5, all stdin/stdout kinds; only the descriptor tables matter"""
    rng = common.SplitMix64(ctx.seed + 8)
    specs = []
    for n in ([2, 3, 5] if ctx.tier == "quick" else [2, 3, 4, 5, 7]):
        for term, i, o in [("join", "I", "I"), ("join", "F", "F"), ("capture", "D", "P"), ("capture", "I", "P"), ("communicate", "D", "P"),
                           ("stream_stdout", "I", "P"), ("stream_stdin", "P", "F"), ("popen", "P", "P")]:
            st = (["G20:0"] if i in ("I", "F") else ["C"]) + ["C"] * (n - 1)   # a command that ignores a piped stdin gives EPIPE (C02's subject)
            specs.append(spec(n, st, i=i, o=o, errto=rng.below(2), shape=["L", "I"][rng.below(2)], term=term, data=20, read="all", write=5))
    return specs


def gen_c13_empty_data(ctx):
    """input data of zero bytes is input all the same: the first command sees end-of-file at once, not the caller's stdin"""
    specs = []
    rng = common.SplitMix64(ctx.seed + 1313)
    for n in (1, 2, 3):
        for term in ("capture", "communicate"):
            for shape in (["L"] if n == 1 else ["L", "I", "J"]):
                specs.append(spec(n, filters(n, rng, errl=0), i="D", o="P" if n == 1 else "I", term=term, data=0, read="all", shape=shape))
    return specs


def gen_c13_prompt(ctx):
    """an early exit downstream ends the commands upstream (they are connected by pipes and by nothing else, and they start with
    the default SIGPIPE disposition): `join` returns when the last command has exited, not seconds later"""
    specs = []
    for n in (2, 3):
        for last in ("X0", "X3"):
            for shape in ("L", "I"):
                specs.append(spec(n, ["W"] + ["C"] * (n - 2) + [last], term="join", shape=shape) + " prompt=2500")
        specs.append(spec(n, ["W"] + ["C"] * (n - 2) + ["X0"], term="join", errto=1) + " prompt=2500")
    return specs


GEN = {"C12": gen_c12, "C13": lambda ctx: gen_c13(ctx) + gen_c13_prompt(ctx) + gen_c13_empty_data(ctx), "C14": gen_c14, "C08": gen_c08}


def extra_c08(ctx):
    """C08 'as a stage of a pipeline': run pipelines and look at every started command's descriptor table"""
    specs = gen_c08(ctx)
    cases, stderr = run_harness(ctx, specs)
    done = [c for c in cases if c.get("complete")]
    if len(done) != len(specs):
        ctx.broken_correspondence({"what": f"pipe harness ran {len(done)} of {len(specs)} cases", "stderr": stderr.decode(errors='replace')[-800:]})
    for c in done:
        c["abs"] = abstract(c["log"])
        def viol(msg, sig=None, c=c):
            if len(ctx.violations) < 3:
                ctx.violation({"engine": "pipe", "spec": c["spec"], "what": msg, "events": " ".join(c["abs"][0]),
                               "log": c["log"][:120], "replay_cmd": "./check C08 (pipeline part)"}, sig)
        oracle(c, "C08", viol)
    model = ctx.run_driver("".join(to_request(c) + "\n" for c in done)) if done else []
    ndiv = 0
    for c, m in zip(done, model):
        mt, mok = model_tokens(m)
        if mt != c["abs"][0]:
            ndiv += 1
            if ndiv == 1:
                ctx.broken_correspondence({"what": "the Lean pipeline model and the implementation diverge", "spec": c["spec"],
                                           "model_says": " ".join(mt), "implementation": " ".join(c["abs"][0])})
    ctx.cov["pipeline_cases"] = len(done)
    ctx.cov["pipeline_commands_inspected"] = sum(len(c["abs"][1]["stages"]) for c in done)
    ctx.cov["pipeline_model_divergences"] = ndiv


def gen_c01(ctx):
    """C01 against the real kernel: a command that closes its stdout and stderr and lives on (K<ms>).  End-of-file on
    the parent's pipes is all the Communicator waits for, so it must return long before the command ends."""
    specs = []
    for ms in ([2500] if ctx.tier == "quick" else [2000, 2500, 3500]):
        for i, e in [("I", "I"), ("D", "I"), ("D", "P"), ("I", "P")]:
            specs.append(spec(1, ["K%d" % ms], i=i, o="P", e=e, term="communicate", data=20, read="all"))
        for n in (2, 3):
            for i in ("I", "D"):
                # a first command that ignores a piped stdin gives EPIPE (C02's subject): feed a copier
                first = "G3:0" if i == "I" else "C"
                specs.append(spec(n, [first] + ["C"] * (n - 2) + ["K%d" % ms], i=i, o="P", term="communicate", data=20, read="all"))
    # a consumer that exits early while the producer has far more to say than a pipe holds: the producer must be ended by the
    # broken pipe (it holds no reader of its own output), and the exchange with the parent must end
    for n in (2, 3):
        for term in ("capture", "communicate"):
            specs.append(spec(n, ["Y"] + ["C"] * (n - 2) + ["X0"], i="I", o="P", term=term, read="all") + " prompt=2500")
    specs.append(spec(2, ["G200000:0", "X0"], i="I", o="P", term="capture", read="all") + " prompt=2500")
    return specs


def extra_c01(ctx):
    """the exchange ends when the child has closed its streams, whether or not it is still running"""
    specs = gen_c01(ctx)
    cases, stderr = run_harness(ctx, specs)
    done = [c for c in cases if c.get("complete") or c.get("hang")]
    if len(done) != len(specs):
        ctx.broken_correspondence({"what": f"pipe harness ran {len(done)} of {len(specs)} cases", "stderr": stderr.decode(errors='replace')[-800:]})
    n_ok = 0
    for c in done:
        c["abs"] = abstract(c["log"])
        def viol(msg, c=c):
            if len(ctx.violations) < 3:
                ctx.violation({"engine": "pipe", "spec": c["spec"], "what": msg, "events": " ".join(c["abs"][0]),
                               "log": c["log"][:120], "replay_cmd": "./check C01 (real-kernel part)"})
        if c["kv"].get("prompt"):
            if c.get("hang"):
                viol("the exchange never ended although the last command had exited at once: parent and commands are stuck ("
                     + hang_reason(c) + ")")
            elif c["res"][0] != "ok":
                viol("the exchange failed: " + " ".join(c["res"]))
            elif int(c["stat"]["ms"]) > int(c["kv"]["prompt"]):
                viol("the last command exited at once, but the exchange took %s ms" % c["stat"]["ms"])
            else:
                n_ok += 1
            continue
        sleep_ms = int(c["kv"]["stages"].split(",")[-1][1:])
        if c.get("hang"):
            viol("the call never returned although the command had closed its stdout and stderr: " + hang_reason(c))
        elif c["res"][0] != "ok":
            viol("the exchange failed: " + " ".join(c["res"]))
        elif int(c["stat"]["ms"]) > sleep_ms - 700:
            viol("the command closed its stdout and stderr at once and went on running for %d ms; the exchange returned only "
                 "after %s ms, i.e. it waited for the process and not for end-of-file" % (sleep_ms, c["stat"]["ms"]))
        elif c["sums"].get("GOTOUT", {}).get("len") != "2":
            viol("the captured output is %s, the command wrote the 2 bytes 'k\\n'" % c["sums"].get("GOTOUT"))
        else:
            n_ok += 1
    ctx.cov["real_kernel_eof_cases"] = len(done)
    ctx.cov["real_kernel_eof_cases_ok"] = n_ok


def run_harness(ctx, specs):
    """runs all cases; a hang ends the harness process (watchdog), which is restarted after the stuck case"""
    path = os.path.join(common.BUILD, f"pipe-{ctx.prop}.cases")
    open(path, "w").write("".join(s + "\n" for s in specs))
    cases, first, stderr = [], 0, b""
    import shutil
    tmpdir = f"/tmp/verif-pipe-{os.getpid()}-{ctx.prop}"
    env = dict(os.environ)
    env["VERIF_PIPE_DIR"] = tmpdir
    while first < len(specs):
        p = subprocess.run([ctx.harness_bin("harness"), "pipe", path, str(first)], stdin=subprocess.DEVNULL, env=env,
                           stdout=subprocess.PIPE, stderr=subprocess.PIPE, timeout=3600, start_new_session=True)
        stderr += p.stderr[-2000:]
        got = parse(p.stdout.decode(errors="replace"))
        for c in got:
            if c.get("hang"):
                c["spec"] = specs[c["index"]]
                c["kv"] = dict(t.split("=", 1) for t in c["spec"].split() if "=" in t)
        cases += got
        if not got:
            break
        last = got[-1]
        if sum(1 for c in cases if c.get("hang")) >= 6:
            break    # the check has failed many times over; every further hang costs the watchdog's 5 s
        if last.get("hang") or not last.get("complete"):
            first = last["index"] + 1
        else:
            break
    shutil.rmtree(tmpdir, ignore_errors=True)
    return cases, stderr


def check(ctx):
    prop = ctx.prop
    ctx.lean_obligations()
    cov = ctx.cov
    cov["trusted_base"] += ["one Popen::create is atomic in this model (its inside: C05-C08); the scripted children and the "
                            "kernel's pipe semantics (EOF when the last writer closes, EPIPE/SIGPIPE when the last reader closes) "
                            "are outside the model and exercised by the real runs",
                            "trace-mode interposer with real exec: parent's pipe/fcntl/fork/close/waitpid log, each child's "
                            "descriptor snapshot at exec; watchdog (5 s) for hangs"]
    ctx.assumptions += ["commands of a pipeline have no stream settings of their own (the pipeline start refuses those loudly)",
                        "scripted children are responsive: they end at end-of-file on stdin or when their output pipe breaks"]
    if not ctx.cargo_build():
        return
    if ctx.replay:
        specs = [json.load(open(ctx.replay))["spec"]]
    else:
        specs = GEN[prop](ctx)
    cases, stderr = run_harness(ctx, specs)
    done = [c for c in cases if c.get("complete") or c.get("hang")]
    stopped_early = sum(1 for c in done if c.get("hang")) >= 6
    cov["stopped_after_6_hangs"] = stopped_early
    if len(done) != len(specs) and not stopped_early:
        ctx.broken_correspondence({"what": f"harness ran {len(done)} of {len(specs)} cases", "stderr": stderr.decode(errors='replace')[-1500:]})
    cases = done
    for c in cases:
        c["abs"] = abstract(c["log"])
    model = ctx.run_driver("".join(to_request(c) + "\n" for c in cases)) if cases else []
    ndiv = 0
    for c, m in zip(cases, model):
        if c.get("hang") or "perr" in c["kv"]:
            continue
        mt, mok = model_tokens(m)
        if mt != c["abs"][0] or mok != (c["res"][0] == "ok"):
            ndiv += 1
            if ndiv == 1:
                ctx.broken_correspondence({"what": "the Lean pipeline model and the implementation diverge", "spec": c["spec"],
                                           "model_says": " ".join(mt) + (" ok" if mok else " err"),
                                           "implementation": " ".join(c["abs"][0]) + " " + c["res"][0],
                                           "log": [l for l in c["log"] if not l.startswith("C ")][:80]})
    cov["model_divergences"] = ndiv
    dist = {"hang": 0, "ok": 0, "err": 0}
    terms = {}
    for c in cases:
        def viol(msg, sig=None, c=c):
            known = sig is not None and ctx.kf.get((prop, sig), {}).get("status") == "known"
            if len(ctx.violations) < 3 or known:
                ctx.violation({"spec": c["spec"], "case_index": c["index"], "what": msg, "result": " ".join(c.get("res", ["hang"])),
                               "stat": c.get("stat"), "events": " ".join(c["abs"][0]),
                               "log": [l for l in c["log"] if not l.startswith("C ")][:80],
                               "replay_cmd": f"./check {prop} --replay <this file>"}, sig)
        oracle(c, prop, viol)
        dist["hang" if c.get("hang") else c["res"][0]] += 1
        terms[c["kv"]["term"]] = terms.get(c["kv"]["term"], 0) + 1
    cov["evaluations"] = len(cases)
    cov["traces_validated_against_impl"] = len([c for c in cases if not c.get("hang")])
    cov["distinct_nontrivial"] = len({c["spec"] for c in cases if c.get("hang") or len(c["log"]) >= 12})
    cov["distribution"] = {"results": dist, "terminators": terms,
                           "commands_per_case": {str(k): sum(1 for c in cases if c["kv"]["n"] == str(k)) for k in range(1, 9)},
                           "with_failing_command": sum(1 for c in cases if "nosuch" in c["kv"]["stages"]),
                           "with_unbounded_writer": sum(1 for c in cases if re.search(r"\bY|,Y|=Y", c["kv"]["stages"]) is not None)}
    cov["rule"] = {
        "C12": "single commands and pipelines (2..6) x terminators/adapters x child behaviours (unbounded writer to stdout/stderr, "
               "cat waiting for EOF, early exit, 200000-line producer) x drop points (0 / 10 / 70000 bytes / everything read; "
               "0 / 10 / 100000 lines written), detached and not; failed launch",
        "C13": "pipelines of 2..8 tagged line transforms with distinct exit codes x composition shapes (chain, from_exec_iter, "
               "pipeline|pipeline split at every point with settings given before/after composing) x stdin inherit/file/pipe/data "
               "x stdout inherit/file/pipe x join/capture/stream/popen x data sizes 0..120000 lines x stderr_to or inherited",
        "C14": "pipelines of 2..6 x every failing position x all six terminators x stdin inherit/pipe/file/data x children before "
               "the failing one (cat, unbounded writer, sink, filter, producers, early exit) x random detached flags",
    }[prop] + "; non-trivial = at least 12 logged parent calls; distinct by specification"
    cov["samples"] = [{"spec": c["spec"], "result": " ".join(c.get("res", ["hang"])), "events": " ".join(c["abs"][0])}
                      for c in cases[:2] + cases[-1:]]

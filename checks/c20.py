"""C20: Windows command-line assembly.  Lean: Props/C20.lean.  Tie: the cfg(windows) functions are
extracted from /repo/src/popen.rs on every run, compiled against winx/shim.rs and run
differentially against the Lean model; a Rust port of the Microsoft parser is the direct oracle."""
import os, re, itertools, subprocess
import common
from common import SplitMix64

ALPHA = [0x61, 0x20, 0x09, 0x0a, 0x22, 0x5c, 0xe9]


def extract_fn(src, name):
    m = re.search(r"^[ \t]*(?:pub(?:\([a-z]+\))? )?fn " + re.escape(name) + r"\s*\(", src, re.M)
    if not m:
        return None
    i = src.index("{", m.end())
    depth, j, n = 0, i, len(src)
    while j < n:
        c = src[j]
        if c == '"':                      # string literal
            j += 1
            while j < n and src[j] != '"':
                j += 2 if src[j] == "\\" else 1
        elif c == "'":                    # char literal or lifetime
            mm = re.match(r"'(\\.|[^\\'])'", src[j:])
            if mm:
                j += mm.end() - 1
        elif c == "/" and src.startswith("//", j):
            while j < n and src[j] != "\n":
                j += 1
        elif c == "{":
            depth += 1
        elif c == "}":
            depth -= 1
            if depth == 0:
                return src[m.start():j + 1]
        j += 1
    return None


def windows_os_module(src):
    """text of `#[cfg(windows)] mod os { ... }` (the whole file if it cannot be located)"""
    m = re.search(r"#\[cfg\(windows\)\]\s*mod os\s*\{", src)
    if not m:
        return src
    depth, j = 0, m.end() - 1
    while j < len(src):
        if src[j] == "{":
            depth += 1
        elif src[j] == "}":
            depth -= 1
            if depth == 0:
                return src[m.start():j + 1]
        j += 1
    return src


def extract_closure(src, roots):
    """the root functions plus every free function of the windows `mod os` they refer to, transitively
    (so that a refactoring into helper functions does not break the extraction)"""
    mod = windows_os_module(src)
    names = set(re.findall(r"^[ \t]*(?:pub(?:\([a-z]+\))? )?fn (\w+)\s*[(<]", mod, re.M))
    got, todo = {}, list(roots)
    while todo:
        n = todo.pop()
        if n in got:
            continue
        t = extract_fn(mod, n)
        if t is None:
            if n in roots:
                return [None]
            continue
        got[n] = t
        for w in set(re.findall(r"\b(\w+)\s*\(", t)):
            if w in names and w not in got and w not in ("os_start", "os_wait", "os_wait_timeout", "os_terminate", "os_kill"):
                todo.append(w)
    return [got[n] for n in roots] + [got[n] for n in sorted(got) if n not in roots]


def hexu(a):
    return "-" if not a else "".join("%04x" % u for u in a)


def gen_cases(ctx):
    rng = SplitMix64(ctx.seed)
    quick = ctx.tier == "quick"
    l1, l2, l3, nrand = (5, 2, 1, 4000) if quick else (6, 3, 2, 60000)
    def words(maxlen):
        for n in range(maxlen + 1):
            for w in itertools.product(ALPHA, repeat=n):
                yield list(w)
    cases = [[]]
    cases += [[w] for w in words(l1)]
    w2 = list(words(l2))
    cases += [[a, b] for a in w2 for b in w2]
    w3 = list(words(l3))
    cases += [[a, b, c] for a in w3 for b in w3 for c in w3]
    # UTF-16 units whose LOW BYTE is a backslash or a quote (U+305C, U+215C, U+2122, U+0122 ...): a narrowing cast, a byte-wise
    # comparison or a table indexed by the low byte confuses them with the real ones
    lowbyte = [0x20, 0x5c, 0x22, 0x305c, 0x2122]
    def words2(maxlen):
        for n in range(1, maxlen + 1):
            for w in itertools.product(lowbyte, repeat=n):
                yield list(w)
    cases += [[w] for w in words2(4 if quick else 5)]
    cases += [[[0x61], a, b] for a in words2(2) for b in words2(2)]
    exhaustive_n = len(cases)
    alpha2 = ALPHA + [0x0b, 0x41, 0x2f, 0x3a, 0x27, 0xd800, 0xffff, 0x5c, 0x5c, 0x22, 0x305c, 0x215c, 0x015c, 0x5c5c, 0x2122, 0x2022, 0x0122, 0x2222,
                      0x0120, 0x2009, 0x0a0a]
    for _ in range(nrand):
        nargs = 1 + rng.below(6)
        argv = []
        for _ in range(nargs):
            ln = rng.choice([0, 1, 2, 3, 5, 8, 13, 40])
            a = [rng.choice(alpha2) for _ in range(ln)]
            if rng.below(25) == 0 and a:      # malformed stream: NUL somewhere
                a[rng.below(len(a))] = 0
            argv.append(a)
        cases.append(argv)
    return cases, exhaustive_n


def check(ctx):
    proof_ok = ctx.lean_obligations()
    cov = ctx.cov
    cov["trusted_base"] += [
        "reference parser = my transcription of Microsoft's published argv rules (both \"\" variants); no Windows "
        "machine available to run CommandLineToArgvW",
        "winx/shim.rs (OsString as Vec<u16>) and the text extraction of the cfg(windows) functions",
    ]
    ctx.assumptions += ["program-name theorem assumes argv[0] has no '\"' and is not (needs-quoting and ends in '\\') "
                        "-- unrepresentable on Windows by any command line",
                        "helper threads / CreateProcess itself are outside the model"]
    # ---- extraction
    src = open(os.path.join(common.REPO, "src", "popen.rs")).read()
    fns = extract_closure(src, ["assemble_cmdline", "append_quoted"])
    wdir = os.path.join(common.BUILD, "winx")
    os.makedirs(wdir, exist_ok=True)
    if None in fns:
        ctx.broken_correspondence({"what": "could not extract assemble_cmdline/append_quoted from src/popen.rs"})
        return
    shim = open(os.path.join(common.ROOT, "winx", "shim.rs")).read().replace("//@EXTRACTED@", "\n".join(fns))
    mainrs = os.path.join(wdir, "main.rs")
    open(mainrs, "w").write(shim)
    exe = os.path.join(wdir, "winx")
    rc, out = common.run(["rustc", "--edition", "2018", "-O", "-o", exe, mainrs])
    if rc != 0:
        ctx.broken_correspondence({"what": "extracted cfg(windows) functions do not compile against the shim",
                                   "log_tail": out[-3000:]})
        return
    # ---- cases
    if ctx.replay:
        import json
        rp = json.load(open(ctx.replay))
        cases, exhaustive_n = [rp["argv"]], 0
    else:
        cases, exhaustive_n = gen_cases(ctx)
    text = "".join("win " + " ".join(hexu(a) for a in argv) + "\n" for argv in cases)
    p = subprocess.run([exe], input=text.encode(), stdout=subprocess.PIPE)
    impl = p.stdout.decode().splitlines()
    model = ctx.run_driver(text)
    if len(impl) != len(cases) or len(model) != len(cases):
        ctx.broken_correspondence({"what": f"answer count mismatch impl={len(impl)} model={len(model)} cases={len(cases)}"})
        return
    nontrivial = set()
    dist = {"quoted_args": 0, "backslash_before_quote": 0, "trailing_backslash_quoted": 0, "empty_arg": 0,
            "nul_rejected": 0, "plain": 0}
    mism = None
    for argv, a, b in zip(cases, impl, model):
        toks = a.split()
        impl_core = " ".join(t for t in toks if not t.startswith("oracle="))
        oracle = [t for t in toks if t.startswith("oracle=")]
        if oracle and oracle[0] != "oracle=pass":
            ctx.violation({"argv": argv, "impl_output": a, "model_output": b,
                           "what": ("assemble_cmdline panicked: Popen::create gives no command line for this vector"
                                    if a.startswith("panic") else
                                    "assembled command line does not parse back to the argument vector under the "
                                    "Microsoft rules (or a NUL was not rejected with ERROR_BAD_PATHNAME)"),
                           "replay_cmd": f"./check C20 --replay <this file>"})
            if len(ctx.violations) >= 3:
                break
        if impl_core != b and mism is None:
            mism = {"what": "model and implementation disagree on assemble_cmdline", "argv": argv,
                    "impl_output": a, "model_output": b}
        # distribution / non-triviality
        for arg in argv:
            q = (not arg) or any(c in (0x20, 9, 10, 11, 0x22) for c in arg)
            if not arg: dist["empty_arg"] += 1
            if q: dist["quoted_args"] += 1
            else: dist["plain"] += 1
            if any(arg[i] == 0x5c and arg[i + 1] == 0x22 for i in range(len(arg) - 1)): dist["backslash_before_quote"] += 1
            if q and arg and arg[-1] == 0x5c: dist["trailing_backslash_quoted"] += 1
        if a.startswith("err"): dist["nul_rejected"] += 1
        if any((not arg) or any(c in (0x20, 9, 10, 11, 0x22, 0x5c) for c in arg) for arg in argv):
            nontrivial.add(text_key(argv))
    if mism is not None:
        ctx.broken_correspondence(mism)
    cov["evaluations"] = len(cases)
    cov["traces_validated_against_impl"] = len(cases)
    cov["distinct_nontrivial"] = len(nontrivial)
    cov["exhaustive_prefix"] = exhaustive_n
    cov["rule"] = ("argument vectors over {a, space, tab, newline, \", \\, e-acute}: exhaustively all single arguments up to "
                   "length L1, all pairs up to L2, all triples up to L3 (quick 5/2/1, thorough 6/3/2), then random vectors "
                   "(1-6 args, lengths up to 40, extra units VT, NUL, surrogates, ':' '/' \"'\", and units whose low byte is a special ASCII character); plus all words up to length 4/5 over {space, \\, \", U+305C, U+2122}; non-trivial = contains an "
                   "empty argument or a unit that needs quoting or a backslash; distinct by the vector itself")
    cov["distribution"] = dist
    cov["samples"] = [{"argv": cases[i], "impl": impl[i], "model": model[i]} for i in
                      sorted({min(len(cases) - 1, k) for k in (0, 9, 400, exhaustive_n - 1, len(cases) - 1)})]


def text_key(argv):
    return "|".join(hexu(a) for a in argv)

"""C19: printable command line is a faithful shell quoting.  Lean: Props/C19.lean (renderer model + sh lexer spec).
Ties: (A) renderer model vs format!("{:?}") of the real Exec/Pipeline, string for string;
      (B) direct oracle: the real /bin/sh evaluates the implementation's text and must reproduce argv;
      (C) the shell-side specification Sh.parse vs the real /bin/sh on rendered and random lines."""
import os, subprocess, json
import common
from common import SplitMix64

NAMES = ["prog", "a-b", "x.y", "ls", "P_1", "if", "then", "else", "fi", "do", "done", "case", "esac", "while",
         "until", "for", "in", "elif"]
POSIX_RESERVED = {"if", "then", "else", "elif", "fi", "do", "done", "case", "esac", "while", "until", "for", "in"}
BASH_ONLY = {"function", "select", "time", "coproc"}
META = list(" \t\n'\"\\$`*?[]#~=%!{}()<>&;|^@:+") + ["é", " ", " ", "中", "\U0001f600", "\x7f", "\x01", "\x1b", "\ufffd", "\ufeff"]
NICE = list("abzAZ09-_.,/")
# quoting does not hide a builtin utility: sh never looks these up on PATH, however they are written
SH_BUILTIN_NAMES = {".", "..", "hplain"} | set(". : [ alias bg break cd chdir command continue echo eval exec exit export false fg getopts "
                                            "hash jobs kill local printf pwd read readonly return set shift test times trap true "
                                            "type ulimit umask unalias unset wait".split())


def hx(s):
    b = s.encode("utf-8")
    return "-" if not b else b.hex()


def unhx(t):
    return b"" if t == "-" else bytes.fromhex(t)


def rand_arg(rng):
    k = rng.below(10)
    if k == 0:
        return ""
    n = rng.choice([1, 1, 2, 3, 5, 9])
    pool = META if k < 5 else META + NICE * 3
    return "".join(rng.choice(pool) for _ in range(n))


def gen(ctx):
    rng = SplitMix64(ctx.seed)
    quick = ctx.tier == "quick"
    single, pipes = [], []
    # every ASCII character alone, embedded and doubled, as an argument and as the program name
    for c in range(1, 128):
        ch = chr(c)
        single.append(["prog", ch, "a" + ch + "b", ch + ch])
        single.append([ch + "x", "arg"])
        single.append(["a" + ch + "b", "arg"])          # a=b in command position is an assignment unless quoted
        single.append(["A" + ch, ch])
    single.append(["prog", ""])
    single.append(["prog", "x | y", " | ", "a |\n b", "|", " |", "| "])
    # characters that LOOK like the trace of a lossy conversion (U+FFFD) are ordinary valid Unicode
    single.append(["echo", "bad byte shown as \ufffd", "\ufffd"])
    single.append(["pro\ufffdg", "x"])
    single.append(["prog", "", "", "x"])
    single.append(["printf", "%s|", "", "x"])
    single.append(["", "x"])
    for n in NAMES:
        single.append([n, "x"])
        single.append([n])
    if not quick:
        # every Unicode scalar value as a one-character argument, 64 per command line
        cps = [c for c in range(1, 0x110000) if not (0xD800 <= c <= 0xDFFF)]
        for i in range(0, len(cps), 64):
            single.append(["prog"] + [chr(c) for c in cps[i:i + 64]])
    for _ in range(1500 if quick else 20000):
        nargs = rng.below(6)
        name = rng.choice(NAMES[:5]) if rng.below(8) else rand_arg(rng) or "p"
        single.append([name] + [rand_arg(rng) for _ in range(nargs)])
    for _ in range(300 if quick else 4000):
        ns = 2 + rng.below(4)
        st = []
        for _ in range(ns):
            name = rng.choice(NAMES[:5]) if rng.below(10) else rng.choice(NAMES)
            st.append([name] + [rand_arg(rng) for _ in range(rng.below(4))])
        pipes.append(st)
    # arguments that look like the pipeline's own separator
    pipes.append([["prog", "x | y"], ["P_1", " | "]])
    pipes.append([["prog", "\ufffd"], ["ls", "a\ufffdb"]])
    pipes.append([["prog", "a |\n    b", "|"], ["ls", " |", "| "], ["a-b", "'| |'"]])
    return single, pipes


# the environment the rendering process (`hplain sh`) runs in: `to_cmdline_lossy` prints only what differs from it, and prints
# variables of it that the command lacks as `NAME=`
CUR_ENV = [("VERIF_B1", "x"), ("VERIF_OLD", "1"), ("VERIF_KEEP", "keep me")]
ENV_NAMES = ["VERIF_A", "VERIF_B1", "_V", "VERIF_LONG_NAME", "VERIF_OLD", "VERIF_KEEP"]


def gen_env(ctx):
    """commands with environment overrides: printed as NAME=value words in front of the command.  An override is (name, value) for
    `Exec::env` or (name, None) for `Exec::env_remove`"""
    rng = SplitMix64(ctx.seed ^ 0xe19)
    names = ENV_NAMES
    vals = ["two words", "", "x", "a:b", "k=v", "it's", "$HOME", "a\nb", "*", " ", "\\", "'", "\"", "`id`", ";", "#c", "~", "é", "1", "keep me"]
    out = []
    for v in vals:
        out.append(([("VERIF_A", v)], ["prog", "arg", v]))
    # directed: same value as the parent's (not printed), removed variable of the parent (`NAME=`), set twice, set then removed,
    # removed then set, a variable the parent lacks removed (nothing to print)
    out += [([("VERIF_B1", "x")], ["prog"]), ([("VERIF_OLD", None)], ["prog", "a b"]), ([("VERIF_A", "1"), ("VERIF_A", "2 3")], ["prog"]),
            ([("VERIF_A", "1"), ("VERIF_A", None)], ["prog"]), ([("VERIF_OLD", None), ("VERIF_OLD", "new")], ["prog"]),
            ([("VERIF_LONG_NAME", None)], ["prog"]), ([("VERIF_KEEP", None), ("VERIF_B1", None), ("_V", "")], ["prog", ""])]
    for _ in range(80 if ctx.tier == "quick" else 2500):
        env = []
        for _ in range(1 + rng.below(4)):
            n = rng.choice(names)
            env.append((n, None) if rng.below(5) == 0 else (n, rng.choice(vals) if rng.below(2) else rand_arg(rng)))
        out.append((env, [rng.choice(NAMES[:5])] + [rand_arg(rng) for _ in range(rng.below(4))]))
    return out


def rand_fragment(rng, cmd_mode):
    """random text of the supported sh fragment (for validating the specification against dash)"""
    def word(first):
        parts = []
        if first and cmd_mode:
            base = rng.choice(NAMES[:5] + ["if", "for", "done"])
            style = rng.below(4)
            if style == 0: return base
            if style == 1: return "'" + base + "'"
            if style == 2: return "\\" + base
            return base[:1] + "''" + base[1:]
        for _ in range(1 + rng.below(3)):
            k = rng.below(4)
            if k == 0:
                parts.append("".join(rng.choice(NICE) for _ in range(1 + rng.below(3))))
            elif k == 1:
                inner = "".join(rng.choice(META + NICE) for _ in range(rng.below(4))).replace("'", "")
                parts.append("'" + inner + "'")
            elif k == 2:
                parts.append("\\" + rng.choice([c for c in META if c != "\n"] + NICE))
            else:
                parts.append("''")
        return "".join(parts)
    def cmd():
        return " ".join([word(True)] + [word(False) for _ in range(rng.below(4))])
    if cmd_mode:
        t = " | ".join(cmd() for _ in range(1 + rng.below(3)))
    else:
        t = " ".join(word(False) for _ in range(rng.below(5)))
    r = rng.below(30)
    if r == 0: t += " '"          # unterminated quote
    if r == 1 and cmd_mode: t += " |"
    if r == 2: t = "  " + t + "\t "
    return t


def check(ctx):
    proof_ok = ctx.lean_obligations()
    cov = ctx.cov
    cov["trusted_base"] += ["Sh.parse is my model of the POSIX sh fragment; validated against /bin/sh (dash) on every run, not proved",
                            "String::to_string_lossy / format! of Rust std"]
    ctx.assumptions += ["program name is not an sh reserved word (known finding C19:command-is-sh-reserved-word)",
                        "command position is exercised for program names without '/' that are not sh builtins (. : [ printf ...), "
                        "through a PATH of links to an argv dumper",
                        "environment overrides: variable names are shell names (c19_env_roundtrip's hypothesis; a name that is not one cannot be assigned by sh at all)",
                        "arguments are valid Unicode without NUL"]
    if not ctx.cargo_build():
        return
    hplain = ctx.harness_bin("hplain")
    shdir = os.path.join(common.BUILD, "shbin")
    os.makedirs(os.path.join(shdir, "bin"), exist_ok=True)
    def link(n):
        """a program called n on the PATH the real sh is given (an argv dumper); False if no file can have that name"""
        b = n.encode("utf-8")
        if not b or b"/" in b or b"\0" in b or n in SH_BUILTIN_NAMES or len(b) > 200:
            return False
        p = os.path.join(shdir, "bin", n)
        if not os.path.lexists(p):
            os.symlink(hplain, p)
        return True
    for n in NAMES + sorted(BASH_ONLY):
        link(n)
    if ctx.replay:
        rp = json.load(open(ctx.replay))
        single, pipes = ([rp["argv"]] if "argv" in rp else []), ([rp["stages"]] if "stages" in rp else [])
    else:
        single, pipes = gen(ctx)
    envc = [] if ctx.replay else gen_env(ctx)
    # printed while being built, extended with args(), printed again (every 7th vector with at least two words)
    staged = [] if ctx.replay else [(1 + (i % max(1, len(a) - 1)), a) for i, a in enumerate(single) if len(a) >= 2 and i % 7 == 0]
    cases = ([("sh", a) for a in single] + [("shp", st) for st in pipes] + [("she", ec) for ec in envc]
             + [("sha", st) for st in staged])
    def req(kind, c, for_model=False):
        if kind == "sha":
            k, argv = c
            # the model is asked about the finished command: how it was built must not matter
            return ("sh " if for_model else f"sha {k} ") + " ".join(hx(a) for a in argv)
        if kind == "she":
            env, argv = c
            cur = (",".join(f"{hx(k)}:{hx(v)}" for k, v in CUR_ENV) + " ") if for_model else ""
            return "she " + cur + ",".join(f"{hx(k)}:" + ("-" if v is None else hx(v)) for k, v in env) + " " + " ".join(hx(a) for a in argv)
        if kind == "sh":
            return "sh " + " ".join(hx(a) for a in c)
        return "shp " + " / ".join(" ".join(hx(a) for a in st) for st in c)
    text = "".join(req(k, c) + "\n" for k, c in cases)
    # the rendering process gets a small fixed environment: what `to_cmdline_lossy` prints for `env = Some(_)` depends on it
    impl = subprocess.run([hplain, "sh"], input=text.encode(), stdout=subprocess.PIPE, env=dict(CUR_ENV)).stdout.decode().splitlines()
    # environment overrides are part of the Lean renderer model too (`Sh.toCmdlineEnv`, told the parent's environment)
    model_text = "".join(req(k, c, True) + "\n" for k, c in cases)
    model = ctx.run_driver(model_text)
    model += ["missing"] * (len(cases) - len(model))
    cov["env_override_cases"] = len(envc)
    if len(impl) != len(cases) or "missing" in model:
        ctx.broken_correspondence({"what": f"answer count mismatch impl={len(impl)} model={len(model)} cases={len(cases)}"})
        return
    # the pretty Debug form, where it differs from the plain one, rides along as ` alt=<hex>`
    alts = [sorted({t[4:] for t in a.split()[2:] if t.startswith("alt=")}) for a in impl]
    impl = [" ".join(a.split()[:2]) if a.startswith("ok ") else a for a in impl]
    cov["pretty_forms_differing"] = sum(1 for x in alts if x)
    # (A) renderer correspondence
    mism = 0
    for (k, c), a, b in zip(cases, impl, model):
        if b is not None and a != b:
            mism += 1
            if mism == 1:
                ctx.broken_correspondence({"what": "model and implementation render different text", "case": [k, c],
                                           "impl": a, "impl_text": unhx(a.split()[1]).decode("utf8", "replace") if a.startswith("ok ") else a,
                                           "model": b, "model_text": unhx(b.split()[1]).decode("utf8", "replace") if b.startswith("ok ") else b})
    cov["renderer_mismatches"] = mism
    # (A') a rendering that panics prints nothing a shell could read back
    for (k, c), a in zip(cases, impl):
        if a == "panic" and len(ctx.violations) < 3:
            words = c if k in ("sh", "shp") else c[1]
            ctx.violation({"kind": k, "case": c, "what": "to_cmdline_lossy / Debug panicked while rendering this command: there is no "
                           "printable command line at all", "words_text": repr(words)[:400]})
    # (B) direct oracle on the implementation's text + (C) spec validation, both through the real sh
    reqs, meta = [], []
    for ((k, c), a), alt in zip(zip(cases, impl), alts):
        if not a.startswith("ok "):
            continue
        t = a.split()[1]
        for al in alt:
            # a Debug form printed something else than the command line: that text must evaluate to the same command(s)
            if k in ("sh", "sha"):
                reqs.append(f"words {al}"); meta.append(("words", c if k == "sh" else c[1], al))
            elif k == "shp":
                reqs.append(f"cmds {shdir} {al}"); meta.append(("cmds", c, al))
        if k == "sha":
            k, c = "sh", c[1]
        if k == "she":
            # the assignments must stay assignments: sh has to start the program itself, with its arguments
            # and (spec side) the shell must see the printed assignments with their values: `Sh.parseWithEnv` against the real sh
            if link(c[1][0]):
                reqs.append(f"cmdse {shdir} {','.join(ENV_NAMES)} {t}"); meta.append(("cmds-env", [c[1]], t))
            continue
        if k == "sh":
            reqs.append(f"words {t}"); meta.append(("words", c, t))
            if c[0] in NAMES or link(c[0]):
                reqs.append(f"cmds {shdir} {t}"); meta.append(("cmds", [c], t))
        else:
            reqs.append(f"cmds {shdir} {t}"); meta.append(("cmds", c, t))
    rng = SplitMix64(ctx.seed ^ 0x5151)
    nfrag = 1500 if ctx.tier == "quick" else 20000
    for i in range(nfrag):
        cm = i % 2 == 0
        t = hx(rand_fragment(rng, cm))
        if cm:
            reqs.append(f"cmds {shdir} {t}"); meta.append(("frag-cmds", None, t))
        else:
            reqs.append(f"words {t}"); meta.append(("frag-words", None, t))
    rtext = "".join(r + "\n" for r in reqs)
    real = subprocess.run([hplain, "shreal"], input=rtext.encode(), stdout=subprocess.PIPE).stdout.decode().splitlines()
    spec = ctx.run_driver(rtext)
    def canon_cmds(ans):
        if not ans.startswith("some"):
            return ans
        return "some " + " / ".join(sorted(x.strip() for x in ans[4:].strip().split(" / ")))
    dist = {"oracle_words": 0, "oracle_cmds": 0, "spec_vs_sh": 0, "spec_none_agree": 0, "empty_args": 0, "pipelines": len(pipes)}
    spec_mism = 0
    nontrivial = set()
    for (mode, c, t), r, s in zip(meta, real, spec):
        if mode in ("cmds", "frag-cmds", "cmds-env"):
            r, s = canon_cmds(r), canon_cmds(s)
        # (C) spec vs real sh
        skip_spec = False
        if mode == "cmds" and any(st[0] in BASH_ONLY for st in c):
            skip_spec = True
        if not skip_spec and r != "unrepresentable":
            dist["spec_vs_sh"] += 1
            if s == "none" and r == "none":
                dist["spec_none_agree"] += 1
            if r != s:
                spec_mism += 1
                if spec_mism == 1:
                    ctx.broken_correspondence({"what": "shell specification Sh.parse disagrees with /bin/sh", "mode": mode,
                                               "text": unhx(t).decode("utf8", "replace"), "sh": r, "spec": s})
        # (B) oracle
        if mode == "words":
            dist["oracle_words"] += 1
            want = "some" + "".join(" " + hx(a) for a in c)
            if any(a == "" for a in c): dist["empty_args"] += 1
            if any((a == "") or any(ch in META for ch in a) for a in c): nontrivial.add(t)
            if r != want and r != "unrepresentable":
                sig = None
                ctx.violation({"argv": c, "rendered": unhx(t).decode("utf8", "replace"), "sh_result": r, "expected": want,
                               "what": "sh evaluating the printed command line does not reproduce the argument list"}, sig)
        elif mode in ("cmds", "cmds-env"):
            dist["oracle_cmds"] += 1
            want = canon_cmds("some " + " / ".join(" ".join(hx(a) for a in st) for st in c))
            if mode == "cmds-env" and r.startswith("some "):
                # the oracle judges the program and its arguments; the values the program saw for the variables ride behind them
                # (`=NAME=value` items) and are compared with the specification above
                items = r[5:].split(" ")
                n_env = len(items) - len(c[0])
                if n_env >= 0 and all(unhx(x).startswith(b"=") for x in items[len(c[0]):]):
                    dist["env_items_seen_by_program"] = dist.get("env_items_seen_by_program", 0) + n_env
                    r = canon_cmds("some " + " ".join(items[:len(c[0])]))
            if r != want and r != "unrepresentable":
                res = [st[0] for st in c if st[0] in POSIX_RESERVED]
                sig = "command-is-sh-reserved-word" if res else None
                key = "stages" if len(c) > 1 else "argv"
                ctx.violation({key: c if len(c) > 1 else c[0], "rendered": unhx(t).decode("utf8", "replace"), "sh_result": r,
                               "expected": want,
                               "what": "sh running the printed command line does not start the original program(s) with the original arguments"}, sig)
        if len([v for v in ctx.violations]) >= 3:
            break
    cov["spec_mismatches"] = spec_mism
    cov["evaluations"] = len(cases) + len(reqs)
    cov["traces_validated_against_impl"] = len(cases)
    cov["distinct_nontrivial"] = len(nontrivial)
    cov["distribution"] = dist
    cov["rule"] = ("argument vectors: every ASCII char 1..127 alone/embedded/doubled, and as first, inner and last char of the program name; empty "
                   "arguments; reserved-word program names; (thorough) every Unicode scalar value as a one-char argument; random "
                   "metacharacter-rich vectors; pipelines of 2-5 stages.  Each rendering is compared with the Lean renderer and "
                   "evaluated by the real /bin/sh (argument position: set --; command position: PATH of links to an argv dumper). "
                   "non-trivial = a rendered line containing an empty argument or a shell metacharacter, distinct by rendered text")
    cov["samples"] = [{"kind": k, "case": c, "impl_text": unhx(a.split()[1]).decode("utf8", "replace") if a.startswith("ok ") else a}
                      for (k, c), a in [(cases[i], impl[i]) for i in (0, 78, 255, len(single) - 1, len(cases) - 1) if i < len(cases)]]

"""Source of MANIFEST.json (run ../tools_manifest.py after editing)."""
HOOKS = {
    "guard": "hniksic_rust_subprocess_verif",
    "enable": "none needed: the harness interposes libc symbols at link time and uses only the public API; "
              "RUSTFLAGS='--cfg hniksic_rust_subprocess_verif' is reserved should a hook become necessary",
    "baseline_off_cmd": "cd /repo && cargo test --workspace --no-fail-fast --offline",
    "source_commits": [],
    "add_only": True,
}
ENGINES = [
    {"name": "sh", "path": "/verif/harness/src/bin/hplain.rs + /verif/checks/c19.py + /verif/lean/Model/Sh.lean",
     "serves_properties": ["C19"],
     "kind_free_text": "Lean 4 proof over a hand-written renderer model and sh-lexer specification; differential run of the "
                       "real Exec/Pipeline Debug output vs the compiled Lean model; real /bin/sh as oracle"},
    {"name": "win", "path": "/verif/winx + /verif/checks/c20.py + /verif/lean/Model/WinArgv.lean",
     "serves_properties": ["C20"],
     "kind_free_text": "Lean 4 proof over a hand-written model; cfg(windows) source text extracted from /repo on every run, "
                       "compiled against a shim and run differentially against the compiled Lean model"},
]
NOTES = ("Technique family: machine-checked proof in Lean 4 over hand-written executable models, tied to /repo by a "
         "differential correspondence check on every run (DESIGN.md). Properties not yet claimed are listed under "
         "not_applicable with the reason 'check not built yet'; none is considered out of reach of the technique.")
COMMON_NOTE = ("Trusted: Lean kernel; axioms propext/Classical.choice/Quot.sound only (audited each run); the hand-written "
               "model and the correspondence harness (differential, not proved); OS/std behaviour enters as explicit "
               "axioms of the OS model (DESIGN.md section 3). ")
CLAIMED = {
    "C20": {
        "engine": "win", "design_ref": "DESIGN.md section 6, C20",
        "technique": "Lean 4 proof (induction over the argument text) + extraction-based differential correspondence",
        "text": "Round-trip theorems c20_roundtrip_args / c20_roundtrip_cmdline / c20_nul_rejected proved in Lean for every "
                "argument vector of any length over any code units, under both published variants of the Microsoft \"\" rule; "
                "the model is compared on every run with the real assemble_cmdline/append_quoted text extracted from "
                "src/popen.rs (exhaustive short vectors + random), and a Rust port of the Microsoft parser checks the "
                "implementation's own output directly.",
        "note": COMMON_NOTE + "The Microsoft parsing rules are transcribed from the published description; no Windows machine "
                "runs CommandLineToArgvW here. argv[0] theorem assumes a representable program name.",
    },
}
CLAIMED["C19"] = {
    "engine": "sh", "design_ref": "DESIGN.md section 6, C19",
    "technique": "Lean 4 proof (fold invariants over the rendered text) + differential correspondence + /bin/sh oracle",
    "text": "c19_roundtrip / c19_pipeline proved in Lean for every program name and argument vector over all Unicode scalars "
            "(any count, empty arguments and every metacharacter included) and every pipeline length: the rendered text parses, "
            "under a lexer model of the POSIX sh fragment, to exactly the original stages. The renderer model is compared "
            "string-for-string with format!(\"{:?}\") of the real Exec/Pipeline on every run, the real /bin/sh evaluates the "
            "implementation's own text (direct oracle), and the lexer model itself is validated against /bin/sh.",
    "note": COMMON_NOTE + "Sh.parse is a model of sh (validated against dash, not proved); the theorem assumes the program name is "
            "not an sh reserved word (known finding C19:command-is-sh-reserved-word); env=None rendering only.",
}
NOT_CLAIMED = {}

"""Source of MANIFEST.json (run ../tools_manifest.py after editing)."""
HOOKS = {
    "guard": "hniksic_rust_subprocess_verif",
    "enable": "none needed: the harness interposes libc symbols at link time and uses only the public API; "
              "RUSTFLAGS='--cfg hniksic_rust_subprocess_verif' is reserved should a hook become necessary",
    "baseline_off_cmd": "cd /repo && cargo test --workspace --no-fail-fast --offline",
    "source_commits": [],
    "add_only": True,
}
ENGINES = [
    {"name": "win", "path": "/verif/winx + /verif/checks/c20.py + /verif/lean/Model/WinArgv.lean",
     "serves_properties": ["C20"],
     "kind_free_text": "Lean 4 proof over a hand-written model; cfg(windows) source text extracted from /repo on every run, "
                       "compiled against a shim and run differentially against the compiled Lean model"},
]
NOTES = ("Technique family: machine-checked proof in Lean 4 over hand-written executable models, tied to /repo by a "
         "differential correspondence check on every run (DESIGN.md). Properties not yet claimed are listed under "
         "not_applicable with the reason 'check not built yet'; none is considered out of reach of the technique.")
COMMON_NOTE = ("Trusted: Lean kernel; axioms propext/Classical.choice/Quot.sound only (audited each run); the hand-written "
               "model and the correspondence harness (differential, not proved); OS/std behaviour enters as explicit "
               "axioms of the OS model (DESIGN.md section 3). ")
CLAIMED = {
    "C20": {
        "engine": "win", "design_ref": "DESIGN.md section 6, C20",
        "technique": "Lean 4 proof (induction over the argument text) + extraction-based differential correspondence",
        "text": "Round-trip theorems c20_roundtrip_args / c20_roundtrip_cmdline / c20_nul_rejected proved in Lean for every "
                "argument vector of any length over any code units, under both published variants of the Microsoft \"\" rule; "
                "the model is compared on every run with the real assemble_cmdline/append_quoted text extracted from "
                "src/popen.rs (exhaustive short vectors + random), and a Rust port of the Microsoft parser checks the "
                "implementation's own output directly.",
        "note": COMMON_NOTE + "The Microsoft parsing rules are transcribed from the published description; no Windows machine "
                "runs CommandLineToArgvW here. argv[0] theorem assumes a representable program name.",
    },
}
NOT_CLAIMED = {}

"""Source of MANIFEST.json (run ../tools_manifest.py after editing)."""
HOOKS = {
    "guard": "hniksic_rust_subprocess_verif",
    "enable": "none needed: the harness interposes libc symbols at link time and uses only the public API; "
              "RUSTFLAGS='--cfg hniksic_rust_subprocess_verif' is reserved should a hook become necessary",
    "baseline_off_cmd": "cd /repo && cargo test --workspace --no-fail-fast --offline",
    "source_commits": [],
    "add_only": True,
}
ENGINES = [
    {"name": "spawn", "path": "/verif/harness/src/spawn.rs + src/trace.rs + /verif/checks/spawn.py + /verif/lean/Model/{Spawn,Path}.lean",
     "serves_properties": ["C05", "C06", "C07", "C08", "C15", "C17", "C18"],
     "kind_free_text": "real Popen::create on the real kernel in trace mode: libc entry points interposed, calls of parent and forked "
                       "child logged via shared memory without allocating, k-th call of a kind made to fail, exec intercepted with a "
                       "snapshot of the child's table/signals/ids/allocations; the Lean model replays the same answers"},
    {"name": "pipe", "path": "/verif/harness/src/pipe.rs + src/trace.rs + src/bin/hplain.rs (stage program) + /verif/checks/pipeline.py + /verif/lean/Model/Pipeline.lean",
     "serves_properties": ["C12", "C13", "C14", "C08"],
     "kind_free_text": "real Exec/Pipeline terminators with real scripted children (tagged line transforms, cat, unbounded writers, early "
                       "exits, a missing program) in trace mode with real exec; the parent's pipe/fork/close/waitpid log is abstracted "
                       "to the event summary the Lean model Pipe.run predicts (attachments, stray inheritable ends, holdings at every "
                       "wait, final holdings); direct oracles on output, stderr multiset, status, leftovers, descriptor count, hang watchdog"},
    {"name": "builder", "path": "/verif/harness/src/builder.rs + src/trace.rs + /verif/checks/builder.py + /verif/lean/Model/Builder.lean",
     "serves_properties": ["C16"],
     "kind_free_text": "random and exhaustive-small builder call sequences on the real Exec (clone with decoy edits included), "
                       "terminator run in trace mode; execve argv/envp, chdir, stream pipes and panics compared with the Lean "
                       "model Builder.applyAll/terminate and with an independent dict-fold oracle"},
    {"name": "comm", "path": "/verif/harness/src/comm.rs + src/interpose.rs + /verif/checks/comm.py + /verif/lean/Model/Comm.lean",
     "serves_properties": ["C01", "C02", "C03", "C04"],
     "kind_free_text": "real Communicator against virtual pipes / scripted child / virtual clock (poll, read, write, close, "
                       "clock_gettime interposed at link time); the Lean model Comm.step replays the event log call by call and "
                       "re-derives every kernel answer"},
    {"name": "life", "path": "/verif/harness/src/life.rs + src/interpose.rs + /verif/checks/life.py + /verif/lean/Model/Life.lean",
     "serves_properties": ["C09", "C10", "C11"],
     "kind_free_text": "real Popen driven by generated operation sequences; waitpid/kill/clock_gettime/clock_nanosleep interposed at "
                       "link time and answered by a scripted child world on a virtual clock; the Lean model replays the answers"},
    {"name": "sh", "path": "/verif/harness/src/bin/hplain.rs + /verif/checks/c19.py + /verif/lean/Model/Sh.lean",
     "serves_properties": ["C19"],
     "kind_free_text": "Lean 4 proof over a hand-written renderer model and sh-lexer specification; differential run of the "
                       "real Exec/Pipeline Debug output vs the compiled Lean model; real /bin/sh as oracle"},
    {"name": "win", "path": "/verif/winx + /verif/checks/c20.py + /verif/lean/Model/WinArgv.lean",
     "serves_properties": ["C20"],
     "kind_free_text": "Lean 4 proof over a hand-written model; cfg(windows) source text extracted from /repo on every run, "
                       "compiled against a shim and run differentially against the compiled Lean model"},
]
NOTES = ("Technique family: machine-checked proof in Lean 4 over hand-written executable models, tied to /repo by a "
         "differential correspondence check on every run (DESIGN.md, as-built report in section 12). All 20 properties are "
         "claimed; known findings (C08 concurrent-spawn-window, "
         "C19 command-is-sh-reserved-word) are listed in known_findings.json and reported as KNOWN-FINDING lines. Run one check "
         "at a time: checks share /repo's working tree, the cargo target directory and the evidence files.")
COMMON_NOTE = ("Trusted: Lean kernel; axioms propext/Classical.choice/Quot.sound only (audited each run); the hand-written "
               "model and the correspondence harness (differential, not proved); OS/std behaviour enters as explicit "
               "axioms of the OS model (DESIGN.md section 3). ")
CLAIMED = {
    "C20": {
        "engine": "win", "design_ref": "DESIGN.md section 6, C20",
        "technique": "Lean 4 proof (induction over the argument text) + extraction-based differential correspondence",
        "text": "Round-trip theorems c20_roundtrip_args / c20_roundtrip_cmdline / c20_nul_rejected proved in Lean for every "
                "argument vector of any length over any code units, under both published variants of the Microsoft \"\" rule; "
                "the model is compared on every run with the real assemble_cmdline/append_quoted text extracted from "
                "src/popen.rs (exhaustive short vectors + random), and a Rust port of the Microsoft parser checks the "
                "implementation's own output directly.",
        "note": COMMON_NOTE + "The Microsoft parsing rules are transcribed from the published description; no Windows machine "
                "runs CommandLineToArgvW here. argv[0] theorem assumes a representable program name.",
    },
}
CLAIMED["C19"] = {
    "engine": "sh", "design_ref": "DESIGN.md section 6, C19",
    "technique": "Lean 4 proof (fold invariants over the rendered text) + differential correspondence + /bin/sh oracle",
    "text": "c19_roundtrip / c19_pipeline proved in Lean for every program name and argument vector over all Unicode scalars "
            "(any count, empty arguments and every metacharacter included) and every pipeline length: the rendered text parses, "
            "under a lexer model of the POSIX sh fragment, to exactly the original stages. The renderer model is compared "
            "string-for-string with format!(\"{:?}\") of the real Exec/Pipeline on every run, the real /bin/sh evaluates the "
            "implementation's own text (direct oracle), and the lexer model itself is validated against /bin/sh. "
            "c19_env_roundtrip: with environment overrides (NAME=value words in front of the command, names being shell names) the "
            "shell strips exactly the printed assignments, values intact, and still runs exactly the original program and arguments.",
    "note": COMMON_NOTE + "Sh.parse is a model of sh (validated against dash, not proved); the theorem assumes the program name is "
            "not an sh reserved word (known finding C19:command-is-sh-reserved-word); env=None rendering only.",
}
LIFE_NOTE = COMMON_NOTE + ("OS axioms A5 (waitpid/kill semantics, pid recycled only after reaping) and A6 (monotonic clock, sleep "
             "lower bound) are assumed; the sim-kernel (scripted child world on a virtual clock) and the libc interposer are "
             "trusted test apparatus; real scheduler latency is symbolic.")
CLAIMED["C09"] = {
    "engine": "life", "design_ref": "DESIGN.md section 6, C09",
    "technique": "Lean 4 proof (induction over OS answer lists and operation sequences) + sim-kernel trace conformance",
    "text": "decode_exited/decode_signaled (all codes 0..255, all signals 1..126 with/without core flag), c09_truth (a status is "
            "reported only if a waitpid answer carried it; never while the child runs), c09_finished_absorbing (after the first "
            "report every query in any order returns the same value, pid() is None, and NO system call is made), "
            "c09_undetermined, c09_state_forward -- proved for every operation sequence and every list of OS answers. Tied to the "
            "real Popen by running generated operation sequences against a scripted child world (interposed waitpid/kill/clock/"
            "sleep) and replaying the same answers through the Lean model; independent oracles check truth/finality on the "
            "implementation's own log (every low status word swept).",
    "note": LIFE_NOTE,
}
CLAIMED["C10"] = {
    "engine": "life", "design_ref": "DESIGN.md section 6, C10",
    "technique": "Lean 4 proof (log-scan invariant over operation sequences) + sim-kernel trace conformance",
    "text": "c10_exact (every kill goes to the stored pid with exactly the requested signal, at most one per operation) and "
            "c10_never_after_reap (in the call log of ANY operation sequence under ANY OS behaviour no kill follows a waitpid "
            "answer that reaped the child or said ECHILD; drop never signals), c10_after_finished. Conformance and a direct "
            "oracle (intercepted kill log vs the reaping point) on the real Popen.",
    "note": LIFE_NOTE,
}
CLAIMED["C11"] = {
    "engine": "life", "design_ref": "DESIGN.md section 6, C11",
    "technique": "Lean 4 proof (induction on the back-off loop with a potential function) + sim-kernel trace conformance on virtual time",
    "text": "c11_poll / c11_poll_bounded (no error, no blocking waitpid, at most 3 calls, no sleep), c11_already_known, "
            "c11_not_early (Ok(None) only after a clock reading >= start + d), c11_wait_timeout_calls (only WNOHANG waits, every "
            "sleep <= 100 ms), c11_none_only_after_a_status_check (\"still running\" is answered only right after a status check and a clock reading past the deadline: every nap is followed by a check), c11_naps_within_remaining (every nap follows a clock reading before the deadline, is longer than zero and at most deadline - now), c11_not_late (under a per-round latency bound J every clock reading of the call is at most J past the deadline: lateness does not accumulate), c11_no_spin (at most 9 + d/100ms status checks for EVERY d and every exit time under a clock "
            "obeying A6). The real wait_timeout runs on a virtual clock with exit instants placed before the call, inside each "
            "back-off interval, at the deadline and never; sleep arguments, waitpid counts and return times are compared with the "
            "model and checked by direct oracles (not early, bounded lateness, bounded checks).",
    "note": LIFE_NOTE + " Lateness (<= one 100 ms sleep + latencies) is checked by the oracle on virtual time, not proved.",
}
COMM_NOTE = COMMON_NOTE + ("OS axioms A1 (POLLOUT means a write of <= 4096 bytes does not block), A2, A3, A6 are clauses of the Lean OS model "
             "(Comm.answer / Comm.childStep), assumed of the real kernel; the sim-kernel's every answer is re-derived by that model "
             "during replay; unix implementation only (Windows helper-thread communicator not modelled).")
CLAIMED["C01"] = {
    "engine": "comm", "design_ref": "DESIGN.md section 6, C01",
    "technique": "Lean 4 proof (readiness invariant + decreasing measure + progress, over all interleavings) + sim-kernel trace conformance with deadlock/spin oracle",
    "text": "For every script, input, capacity (>= 4096 stdin, >= 1 outputs), piped subset, size limit and interleaving, no time limit: "
            "c01_measure_decreases (a measure on library + pipes + child script that every step of either party strictly decreases), "
            "c01_terminates (number of steps bounded by the measure of the start state), c01_progress (whenever the call has not "
            "returned the pending call is answered or the child can move: in poll and in the blocking read/write of the single-stream "
            "shortcut), c01_maximal_run_has_returned, c01_never_blocks_in_io, c01_polls_all_streams, c01_no_eof_spin. With a time limit "
            "termination is C04's (c04_bounded_overrun). On every run the harness oracle checks the real Communicator under the "
            "simulated kernel (blocked call while the child cannot move, 300 calls without progress, 20 s without a system call); a "
            "real-kernel part runs a command that closes its stdout and stderr and lives on (alone and as the last command of a "
            "pipeline): the exchange must end at end-of-file, not at process exit.",
    "note": COMM_NOTE + " The real-kernel part uses wall-clock thresholds with a wide margin (returns in < sleep - 700 ms).",
}
CLAIMED["C02"] = {
    "engine": "comm", "design_ref": "DESIGN.md section 6, C02",
    "technique": "Lean 4 proof (data-flow invariant by induction over steps and read() calls) + sim-kernel trace conformance",
    "text": "c02_exact: in every reachable state of any session (any script, interleaving, short reads/writes, injected errors): child's "
            "stdout bytes = returned so far ++ collected ++ in the pipe (same for stderr), input = consumed ++ in pipe ++ not yet "
            "written; c02_result_exact, c02_option_shape, c02_eof_immediate / c02_close_only_when_done (close(stdin) is the very next "
            "call after the write that takes the last byte, and only then). The real Communicator is replayed call-by-call against "
            "the model; the harness checks the bytes offered to every write() against the input and every returned vector against "
            "what the scripted child wrote; text API compared with String::from_utf8_lossy.",
    "note": COMM_NOTE + " from_utf8_lossy itself is std's (uninterpreted).",
}
CLAIMED["C03"] = {
    "engine": "comm", "design_ref": "DESIGN.md section 6, C03",
    "technique": "Lean 4 proof (size-limit and end-of-file invariants) + sim-kernel trace conformance",
    "text": "c03_bound (collected bytes never exceed the limit in any reachable state, any limit sequence), c03_consecutive (with "
            "c02_exact: pieces are consecutive, non-overlapping, input continues), c03_empty_means_eof (successful all-empty return "
            "only when stdin is closed and every captured stream's pipe is empty with no writer). Limits {1,2,100,4095,4096,4097,"
            "8191,8192,...} changed between reads, both streams ready at once, chunks cut inside a read.",
    "note": COMM_NOTE,
}
CLAIMED["C04"] = {
    "engine": "comm", "design_ref": "DESIGN.md section 6, C04",
    "technique": "Lean 4 proof (time invariant on a virtual clock) + sim-kernel trace conformance",
    "text": "c04_truthful (TimedOut only with a limit tl set and >= tl - 1 ms elapsed since the call), c04_no_limit_no_timeout, "
            "c04_checked_each_round + c04_bounded_overrun (after the first round the deadline is read at every loop head and an "
            "expired one ends the call there: silent, trickling and flooding children alike), c04_poll_wrapper (clamp to 2^31-1 ms), "
            "c04_resumable. Two genuine defects of the original code (F4 flood never times out, F10 spurious TimedOut through bare "
            "POLLERR) were found by this check and repaired by fix: commits; their reverts are caught with concrete replays.",
    "note": COMM_NOTE + " Real-clock accuracy of the real kernel is outside; Instant + Duration overflow (~2^63 s) not covered.",
}
SPAWN_NOTE = COMMON_NOTE + ("OS axioms A4 (fork copies the table, exec closes close-on-exec descriptors and keeps mask/dispositions, dup2, "
              "close), A7 (std/Rc drop facts), A8 (credentials). Trace-mode interposer on the real kernel; exec is intercepted (a "
              "startable program is simulated by exit(0)). WF: caller files >= 3; the caller's own 0,1,2 are open in most cases and closed "
              "(every non-empty subset) in the closed= cases of C05/C07/C08. The model is uniform in "
              "descriptor numbers (it only compares them with 0/1/2 and passes them back).")
CLAIMED["C05"] = {
    "engine": "spawn", "design_ref": "DESIGN.md section 6, C05",
    "technique": "Lean 4 proof (dup2/close sequence over an arbitrary descriptor table; stage invariant) + trace conformance on all 125 triples",
    "text": "c05_wiring (for every table at the fork and every well-formed triple of child ends, after the child's dup2/close sequence "
            "0/1/2 are exactly the designated objects; merge = same object as the other output), c05_ends_wf (setup_streams' ends are "
            "well-formed for every valid combination), c05_invalid_refused (Merge for stdin / both outputs: never forks), "
            "c05_parent_std_untouched. All 125 triples (+ shared/distinct RcFile, short-lived threads, re-pointed parent streams) are run "
            "on the real code: identity of the child's 0/1/2 at exec (fstat) against the supplied objects, Some/None of the fields.",
    "note": SPAWN_NOTE,
}
CLAIMED["C06"] = {
    "engine": "spawn", "design_ref": "DESIGN.md section 6, C06",
    "technique": "Lean 4 proof (list induction for format_env; call-order and credential model) + trace conformance of argv/envp/exec path",
    "text": "c06_formatEnv_spec / c06_formatEnv_complete (one entry per name, later wins, order kept -- any list), c06_child_order "
            "(chdir, wiring, signal reset, setgid BEFORE setuid, setpgid, then exec), c06_ids (A8: both ids obtained; old order "
            "counterexample), c06_nul_rejected (no fork, everything closed). The argv/envp handed to the intercepted execve are compared "
            "byte for byte with the request and with Path.renderEnv; cwd/uid/gid/pgid read back in the child at exec.",
    "note": SPAWN_NOTE + " Names that are empty or contain '=' are outside the quantifier.",
}
CLAIMED["C07"] = {
    "engine": "spawn", "design_ref": "DESIGN.md section 6, C07",
    "technique": "Lean 4 proof (invariant over the pre-fork steps for every answer list) + fault enumeration on the real code",
    "text": "c07_no_fd_left_before_fork (any pipe/fcntl/fork failing, invalid config, NUL: exactly the owned descriptors -- every pipe() "
            "answer and every file handed in -- are closed, no wait), c07_ok_iff_status_empty, c07_child_reports_iff_failed, "
            "c07_failed_child_is_reaped (also when detached), c07_errno_roundtrip, c07_status_channel_survives_child_setup (at every fork the "
            "status write end is above 2 -- relocated with F_DUPFD_CLOEXEC when pipe() answered 0-2 -- and every dup2 of the child targets "
            "0-2; genuine defect F12 found here and repaired by fix 5fc4fbc), c07_placeholder_released_before_fork. On the real code every occurrence of every fallible "
            "step in parent and child is made to fail in turn (thorough: all valid triples x detached, 3144 plans) and the model must emit "
            "the same calls; oracles: error = injected errno, parent table unchanged, no child left (wait4(-1)).",
    "note": SPAWN_NOTE + " A failing read of the status channel itself and pthread_sigmask failing are outside the property's fault list "
            "(observations in DESIGN.md).",
}
CLAIMED["C08"] = {
    "engine": "spawn", "design_ref": "DESIGN.md section 6, C08",
    "technique": "Lean 4 proof (close-on-exec marking invariant) + trace conformance with the child's full descriptor table at exec",
    "text": "c08_parent_ends_cloexec (at the fork the parent end of every stream pipe has had FD_CLOEXEC set successfully), status_marked, "
            "c08_parent_releases_child_ends, c08_released_before_status_read, c08_child_closes_status_read, c08_child_ends_in_exec_or_exit (the forked child's call "
            "sequence ends in a started exec or in _exit(127), for every list of OS answers: it never returns into the caller); single "
            "spawning thread. On the real code the child's whole "
            "descriptor table at exec must contain nothing but 0,1,2 without close-on-exec, with 0 or 3 other live Popens, also for a "
            "caller whose own descriptors 0-2 are (partly) closed; launches whose child fails at each of its own steps while other "
            "Popens are alive must end the child (a forked child that returns from Popen::create is recorded and ended by the harness).",
    "note": SPAWN_NOTE + " Known finding C08 concurrent-spawn-window: for spawns from several threads the property does not hold "
            "(pipe ends are inheritable between pipe() and fcntl(), child ends until the launch's own fork is over); the check "
            "reproduces every such point deterministically (an unrelated launch run right after the k-th pipe()) and prints "
            "KNOWN-FINDING; c08_concurrent_window_witness is the model-level witness. Pipelines (every terminator, lengths 2..7) "
            "are run by the pipe engine as part of this check: every started command's descriptor table is inspected "
            "(Pipe.SpawnsClean / c13_nothing_else is the theorem).",
}
CLAIMED["C15"] = {
    "engine": "spawn", "design_ref": "DESIGN.md section 6, C15",
    "technique": "Lean 4 proof (list induction over PATH and candidates) + trace conformance of the exec attempts",
    "text": "splitPath_spec, c15_candidates_in_path_order, c15_first_startable (iff: earlier candidates tried in order and failed, nothing "
            "after), c15_slash_no_search, c15_none_startable (last errno, or ENOENT when PATH has only empty entries) for every byte "
            "string and every file-system answer. The paths seen by the intercepted execve/execv are compared with Path.candidates.",
    "note": SPAWN_NOTE,
}
CLAIMED["C17"] = {
    "engine": "spawn", "design_ref": "DESIGN.md section 6, C17",
    "technique": "Lean 4 proof (capacity arithmetic) + counting global allocator armed in the forked child",
    "text": "c17_prealloc_suffices: for every command and PATH value every path assemble_exe builds fits the capacity reserved before "
            "the fork. The complete claim (no allocation event between fork and exec/_exit, success and failure) is measured on the real "
            "code by a counting #[global_allocator] armed in the fork's child branch over name lengths, PATH shapes (longest last), "
            "cwd lengths 10..3000, large argv/env, failing steps.",
    "note": SPAWN_NOTE + " What std/libc do internally is observed by the allocator hook, not proved.",
}
CLAIMED["C18"] = {
    "engine": "spawn", "design_ref": "DESIGN.md section 6, C18",
    "technique": "Lean 4 proof (fold of the child's call sequence over a signal state) + trace conformance with mask/disposition read at exec",
    "text": "c18_clean (for every configuration and every initial mask/disposition, after the pre-exec steps the mask is empty and SIGPIPE "
            "default), c18_exec_only_after_reset. On the real code the child's mask and SIGPIPE disposition are read inside the "
            "intercepted exec for masks none/SIGPIPE/SIGTERM/SIGCHLD/all/real-time/random x parent SIGPIPE ignored/default.",
    "note": SPAWN_NOTE,
}
CLAIMED["C16"] = {
    "engine": "builder", "design_ref": "DESIGN.md section 6, C16",
    "technique": "Lean 4 proof (refinement of the builder's env vector to a finite map edited in order; induction over the call list) "
                 "+ differential run of call sequences on the real Exec",
    "text": "c16_args (argv = command :: concatenation of arg/args payloads in call order), c16_env_refines (for every call sequence "
            "and inherited environment, lookup in the final environment = fold of set/extend/remove/clear over the inherited map; "
            "no edit => inherit), with c06_formatEnv_spec giving one entry per name; c16_shell_single_arg; c16_set_once; "
            "c16_data_refused; c16_late_refusal_iff. Clone independence is a property of Rust values and is checked by decoy edits "
            "after clone() in the differential run, not proved.",
    "note": COMMON_NOTE,
}
PIPE_NOTE = (COMMON_NOTE + " One Popen::create is atomic in this model (its inside is C05-C08's). The kernel's pipe semantics (EOF when "
             "the last writer closes, EPIPE/SIGPIPE when the last reader closes, FIFO delivery) and the children are not modelled: "
             "'no self-inflicted hang' is proved as 'the parent holds no pipe end of the attempt while it waits' and exercised "
             "with real children under a watchdog.")
CLAIMED["C12"] = {
    "engine": "pipe", "design_ref": "DESIGN.md section 6, C12",
    "technique": "Lean 4 proof (induction over the spawn loop and over the dropped Vec<Popen>; holdings as a function End -> Option Bool) "
                 "+ trace conformance with real children and a hang watchdog",
    "text": "c12_every_child_reaped_once (every non-detached command is waited for exactly once, for every terminator and length), "
            "c12_detached_never_waited, c12_communicate_never_waits, c12_capture_holds_nothing_at_waits (both outcomes of the exchange; genuine defect F13 repaired by fix 1494514), c12_adapter_drop_holds_nothing (at every wait of an adapter's drop "
            "the parent holds no pipe end at all: stream_stdout/stderr/stdin of a command, stream_stdout/stdin of pipelines of any "
            "length), c12_popen_drop_holds_nothing, c12_nothing_left_open (no pipe end the library created is held once the handle is gone). Real runs: unbounded writers to stdout/stderr, cat waiting for EOF, early exits, "
            "200000-line producers, drop after 0/10/70000 bytes or everything read, detached or not; zombies via wait4 per child.",
    "note": PIPE_NOTE,
}
CLAIMED["C13"] = {
    "engine": "pipe", "design_ref": "DESIGN.md section 6, C13",
    "technique": "Lean 4 proof (structural induction over composition expressions; induction over the spawn loop; data-flow fold) "
                 "+ differential run of real pipelines of tagged transforms",
    "text": "c13_shape_independent (any expression built from |, from_exec_iter and the pipeline setters yields its leaves in order), "
            "c13_settings_of_composition, c13_wiring (command i writes pipe 2+i, command i+1 and nothing else reads it), c13_composition "
            "(for all stage functions, inputs, lengths, stdin/stdout kinds, terminators: output = f(n-1)(...f0(input))), c13_nothing_else "
            "(no stray inheritable pipe end at any start), c13_status_of_last (the returned status is the last command's, return is the "
            "last action, all non-detached commands waited before). Real runs: 2..8 tagged transforms with distinct exit codes, all "
            "split points of pipeline|pipeline, 0..120000 lines, stderr multiset, wait4 after return.",
    "note": PIPE_NOTE,
}
CLAIMED["C14"] = {
    "engine": "pipe", "design_ref": "DESIGN.md section 6, C14",
    "technique": "Lean 4 proof (induction over the started prefix and the cleanup drops) + trace conformance with real children, "
                 "a missing program at every position, and a hang watchdog",
    "text": "c14_partial_start_cleans_up: for every length n, failing position k < n, terminator, stdin/stdout kind, detached flags -- "
            "the error is returned once, exactly commands 0..k-1 were started, each non-detached one is waited for exactly once, at "
            "every such wait the parent holds no pipe end of the attempt (no exception: the shared-stderr reader of Pipeline::capture, "
            "formerly a known finding, is released first since fix bba93ff; c14_capture_old_order_counterexample keeps the old order as a witness), and nothing of the attempt is "
            "held on return; c14_nothing_held_at_waits, c14_cleanup_waits_with_nothing_held_unstarted (the same with ends still sitting in the commands never started, e.g. the pipeline's own stdout file being a caller-made pipe -- run on the real code as the ring=1 cases), c14_cleanup_waits_with_nothing_held (for arbitrary ends owned by the started Popens, e.g. a command's own stderr pipe: release all, then wait -- genuine defect F14 repaired by fix e678f50); c14_communicate_never_waits.",
    "note": PIPE_NOTE + " The former known finding C14 capture-start-failure-keeps-stderr-reader-while-waiting is repaired (fix bba93ff in /repo; known_findings.json: fixed).",
}
NOT_CLAIMED = {}

"""C01 C02 C03 C04 (engine `comm`): the real Communicator runs against virtual pipes, a scripted child and a virtual
clock (poll/read/write/close/clock_gettime interposed); the Lean model Comm.step replays the same event log."""
import os, re, subprocess, json
import common

TEXT = {"C01": "termination / no deadlock", "C02": "exact byte transfer", "C03": "size limit", "C04": "time limit"}


def classify(msg):
    """which properties does a model/implementation divergence concern? (DESIGN.md section 11, comparison table)"""
    m = re.match(r"diverge@\d+:model-expects-(\S+?)-impl-(?:did|returned)-(\S+)$", msg)
    if not m:
        return {"C01", "C02", "C03", "C04"}
    a, b = m.group(1), m.group(2)
    ka, kb = a.split("/")[0], b.split("/")[0]
    timing = {"clock", "timedout"}
    if ka == "poll" and kb == "poll":
        pa, pb = a.split("/"), b.split("/")
        return {"C04"} if pa[1] == pb[1] else {"C01"}
    if (ka in timing or a.endswith("timedout") or kb in timing or b.endswith("timedout")):
        return {"C04"}
    if ka == "read" and kb == "read" and a.split("/")[1] == b.split("/")[1]:
        return {"C03"}
    if ka == "write" and kb == "write":
        return {"C01", "C02"}
    if "close" in (ka, kb):
        return {"C02", "C01"}
    return {"C01", "C02", "C03", "C04"}


def check(ctx):
    prop = ctx.prop
    ctx.lean_obligations()
    cov = ctx.cov
    cov["trusted_base"] += ["OS model axioms A1 (POLLOUT => a write of <= 4096 bytes does not block), A2 (pipe read/write progress), "
                            "A3 (poll), A6 (clock) -- DESIGN.md section 3; they are clauses of Comm.answer / Comm.childStep",
                            "sim-kernel of the harness (virtual pipes, scripted child, virtual clock) and the libc interposer; "
                            "every answer it gives is re-derived by the Lean OS model during replay (env-violation otherwise)"]
    ctx.assumptions += ["unix implementation only (the Windows thread-based communicator is not modelled)",
                        "child = arbitrary finite script of partial reads / writes / closes / sleeps; descendants folded into it"]
    if not ctx.cargo_build():
        return
    quick = ctx.tier == "quick"
    runs = [("comm", 700 if quick else 8000)] + ([] if quick else [("commbig", 160)])
    cases, hung = [], []
    for mode, n in runs:
        cmd = [ctx.harness_bin("harness"), mode, str(ctx.seed), str(n)]
        if ctx.replay:
            rp = json.load(open(ctx.replay))
            cmd = [ctx.harness_bin("harness"), rp.get("mode", "comm"), str(rp["seed"]), str(rp["case_index"] + 1), str(rp["case_index"])]
        try:
            proc = subprocess.run(cmd, stdout=subprocess.PIPE, stderr=subprocess.PIPE, timeout=(400 if ctx.tier == "quick" else 4000))
            out = proc.stdout.decode().splitlines()
            ncases = sum(1 for l in out if l.startswith("CASE "))
            if not ctx.replay and (proc.returncode not in (0, 3) or (proc.returncode == 0 and ncases != n)):
                ctx.broken_correspondence({"what": f"the harness ended early: {ncases} of {n} cases (exit status {proc.returncode})",
                                           "cmd": " ".join(cmd), "stderr": proc.stderr.decode(errors="replace")[:1500]})
        except subprocess.TimeoutExpired:
            ctx.broken_correspondence({"what": "the harness did not finish: the library hangs under the simulated kernel "
                                               "(a blocking call the sim-kernel does not see) or spins", "cmd": " ".join(cmd)})
            return
        cur = None
        for l in out:
            if l.startswith("CASE "):
                cur = {"index": int(l[5:]), "oracle": [], "mode": mode}
                cases.append(cur)
            elif l.startswith("REQ "):
                cur["req"] = l[4:]
            elif l.startswith("OBS "):
                cur["obs"] = l[4:]
            elif l.startswith("STAT "):
                cur["stat"] = l[5:]
            elif l.startswith("ORACLE "):
                p, _, msg = l[7:].partition(" ")
                cur["oracle"].append((p, msg))
            elif l.startswith("HANG "):
                p, _, msg = l[5:].partition(" ")
                hung.append((cur["index"], mode, p, msg))
                cases.pop()
        if ctx.replay:
            break
    for idx, mode, p, msg in hung:
        # a hang concerns every property of the exchange: nothing is returned at all
        ctx.violation({"mode": mode, "seed": ctx.seed, "case_index": idx, "what": msg,
                       "replay_cmd": f"./check {prop} --replay <this file>"})
    if not cases or any("obs" not in c for c in cases):
        ctx.broken_correspondence({"what": "harness produced no/incomplete output"})
        return
    model = ctx.run_driver("".join(c["req"] + "\n" for c in cases))
    if len(model) != len(cases):
        ctx.broken_correspondence({"what": f"answer count mismatch model={len(model)} cases={len(cases)}"})
        return
    seedinfo = ctx.seed if not ctx.replay else json.load(open(ctx.replay))["seed"]
    dist = {"reads": 0, "with_size_limit": 0, "with_time_limit": 0, "timedout_results": 0, "error_results": 0,
            "string_api": 0, "input_bytes_max": 0, "output_bytes_max": 0, "parent_calls_total": 0, "both_outputs": 0,
            "env_violations": 0}
    nontrivial = set()
    first_div = None

    def same(obs, mod):
        if obs == mod:
            return True
        a, b = obs.split(), mod.split()
        if len(a) != len(b):
            return False
        for x, y in zip(a, b):
            if x.endswith(":?"):           # text API: the error carries no capture
                if x.split(":")[0] != y.split(":")[0]:
                    return False
            elif x != y:
                return False
        return True

    for c, m in zip(cases, model):
        ev = c["req"].rsplit(" | ", 1)[1]
        if m.startswith("envviol"):
            dist["env_violations"] += 1
        if not same(c["obs"], m) and first_div is None:
            props = classify(m) if m.startswith("diverge") else {"C01", "C02", "C03", "C04"}
            if prop in props:
                first_div = {"what": f"model and implementation diverge ({TEXT[prop]})", "mode": c["mode"], "seed": seedinfo,
                             "case_index": c["index"], "model_says": m[:400], "implementation": c["obs"][:400],
                             "events_head": ev[:600]}
        for p, msg in c["oracle"]:
            if p == prop and len(ctx.violations) < 3:
                ctx.violation({"mode": c["mode"], "seed": seedinfo, "case_index": c["index"], "what": msg,
                               "config": c["req"].split(" | ")[0][:300], "events_head": ev[:1500],
                               "replay_cmd": f"./check {prop} --replay <this file>"})
        st = dict(kv.split("=") for kv in c["stat"].split())
        dist["reads"] += int(st["reads"])
        dist["parent_calls_total"] += int(st["calls"])
        dist["input_bytes_max"] = max(dist["input_bytes_max"], int(st["input"]))
        dist["output_bytes_max"] = max(dist["output_bytes_max"], int(st["out"]) + int(st["err"]))
        if int(st["out"]) and int(st["err"]): dist["both_outputs"] += 1
        if re.search(r"\bs:\d+:", ev): dist["with_size_limit"] += 1
        if re.search(r"\bs:[-\d]+:\d+", ev): dist["with_time_limit"] += 1
        dist["timedout_results"] += c["obs"].count("timedout:")
        dist["error_results"] += len(re.findall(r"\be\d+:", c["obs"]))
        if c["obs"].endswith(":?") or "s:-:- " in ev and False: dist["string_api"] += 1
        if int(st["calls"]) >= 4:
            nontrivial.add(c["req"].split(" | ")[0] + "|" + st["events"])
    if first_div:
        ctx.broken_correspondence(first_div)
    if prop == "C01" and not ctx.replay:
        # the sim-kernel folds "descendants holding the pipe" into the child script; whether the library hands the child
        # nothing but fds 0-2 of the pipes (so that end-of-file really follows the child's close) is checked on the real kernel
        import pipeline
        pipeline.extra_c01(ctx)
    cov["evaluations"] = len(cases)
    cov["traces_validated_against_impl"] = len(cases)
    cov["distinct_nontrivial"] = len(nontrivial)
    cov["distribution"] = dist
    cov["rule"] = ("cases = (piped subset, input 0..64K+1 (thorough: up to 1 MiB), pipe capacities 1..100000, child script of "
                   "1-60 actions in 7 styles (cat-like, writer-first, reader-only, flood, early closes, sleepy trickle, mixed), "
                   "session of read() calls with size limits {1,2,100,4095,4096,4097,8191,8192,...} and time limits "
                   "{0,1ns,<1ms,1ms,...,2s,>2^31 ms}, schedule and transfer sizes from one SplitMix64 state, injected EINTR/EIO). "
                   "non-trivial = at least 4 parent system calls; distinct by configuration + event count")
    cov["samples"] = [{"config": c["req"].split(" | ")[0][:200], "script": c["req"].split(" | ")[1][:200],
                       "events_head": c["req"].rsplit(" | ", 1)[1][:400], "observed": c["obs"][:200], "model": m[:200]}
                      for c, m in list(zip(cases, model))[:2] + list(zip(cases, model))[-1:]]

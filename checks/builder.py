"""C16: Exec builder calls compose like edits on a plain command description.

Random builder call sequences run on the real `Exec` (harness engine `builder`, trace mode); what the
terminator hands to execve/chdir, the number of stream pipes and the panics are compared
 (a) with the Lean model `Builder.applyAll / terminate` (correspondence), and
 (b) with an independent oracle written here (dict fold of the environment, list concatenation of the
     arguments, set-once table) -- the oracle is what produces replays.
"""
import json
import os
import re
import subprocess

import common
from spawn import parse, child_vec, hx, unhx, forked

NAMES = [b"A", b"B", b"C", b"D", b"Z", b"PATH", b"LONG_NAME_1"]
VALS = [b"", b"1", b"2", b"x y", b"v=w", b"\xff\x01", b"/usr/bin:/bin", b"0"]
CMDS = ["cmd=" + hx(b"/bin/true"), "cmd=" + hx(b"true"), "cmd=" + hx(b"no-such-program-xyz"),
        "cmd=sh:" + hx(b"true"), "cmd=sh:" + hx(b"exit 3"),
        # a shell command string is bytes like any argument: not valid UTF-8, with quotes and blanks
        "cmd=sh:" + hx(b": caf\xe9 \xff\xfe 'r\xe9sum\xe9.txt'"), "cmd=" + hx(b"/bin/tru\xe9")]
TERMS = ["popen", "join", "stream_stdout", "stream_stderr", "stream_stdin", "capture", "communicate"]
CWDS = [b"/", b"/tmp", b"/no-such-dir-xyz"]


def gen(ctx):
    rng = common.SplitMix64(ctx.seed)
    n = 400 if ctx.tier == "quick" else 6000
    specs = []
    # directed: every ordered pair / triple of environment edits on one name (this is where "ordered edits" bites)
    def edits(name):
        return [f"env:{hx(name)}:{hx(b'one')}", f"ext:{hx(name)}:{hx(b'two')}", f"rm:{hx(name)}", "clear",
                f"ext:{hx(name)}:{hx(b'a')},{hx(name)}:{hx(b'b')}"]
    for name in (b"A", b"N"):   # inherited and not inherited
        e = edits(name)
        for a in e:
            for b in e:
                specs.append(f"{CMDS[0]} {a} {b} term:popen")
                if ctx.tier != "quick" or rng.below(4) == 0:
                    for c in e:
                        specs.append(f"{CMDS[0]} {a} {b} {c} term:join")
    # directed: set-once table for each stream, and the stdin-data x terminator table
    for s in ("in", "out", "err"):
        for a in "NPF0M":
            for b in "NPF0M":
                specs.append(f"{CMDS[0]} {s}:{a} {s}:{b} term:popen")
            for t in TERMS:
                specs.append(f"{CMDS[0]} {s}:{a} term:{t}")
    # input data and clones: the copy that runs must deliver the data while the other copy is still alive
    for ops in ("data:%s clone" % hx(b"hello"), "data:%s clonekeep" % hx(b"hello"), "clone data:%s" % hx(b"hello"),
                "data:%s clone clone clonekeep" % hx(b"x" * 5000)):
        for t in ("capture", "communicate", "join"):
            specs.append(f"{CMDS[0]} {ops} term:{t}")
    for cmd in CMDS[5:]:
        for t in ("popen", "join", "capture"):
            specs.append(f"{cmd} arg:{hx(bytes([0xe9, 0x20, 0xff]))} term:{t}")
            specs.append(f"{cmd} clone env:{hx(b'A')}:{hx(bytes([0xff]))} term:{t}")
    # detached() before and after clone(): every copy keeps the setting it had when it was made
    for ops in ("det clone", "det clonekeep", "clone det", "det clone clone", "det arg:%s clone env:%s:%s" % (hx(b"x"), hx(b"A"), hx(b"1")),
                "clone", "det"):
        for cmd in (CMDS[0], CMDS[3]):
            specs.append(f"{cmd} {ops} term:popen")
    for t in TERMS:
        # zero bytes of input data are still input data: refused loudly by the terminators that cannot deliver it
        specs.append(f"{CMDS[0]} data: term:{t}")
        specs.append(f"{CMDS[0]} data: clone arg:{hx(b'x')} term:{t}")
    for t in TERMS:
        specs.append(f"{CMDS[0]} data:{hx(b'hello')} term:{t}")
        specs.append(f"{CMDS[0]} in:P data:{hx(b'hello')} term:{t}")
        specs.append(f"{CMDS[0]} data:{hx(b'hello')} in:P term:{t}")
    while len(specs) < n:
        ops = []
        k = rng.below(9) if rng.below(5) else rng.below(30)
        streams_done = set()
        for _ in range(k):
            r = rng.below(100)
            nm = NAMES[rng.below(len(NAMES))]
            if r < 12:
                ops.append("arg:" + hx(bytes(rng.below(255) + 1 for _ in range(rng.below(6)))))
            elif r < 20:
                ops.append("args:" + ",".join(hx(bytes(rng.below(255) + 1 for _ in range(1 + rng.below(4)))) for _ in range(rng.below(4))))
            elif r < 38:
                ops.append(f"env:{hx(nm)}:{hx(VALS[rng.below(len(VALS))])}")
            elif r < 54:
                ops.append("ext:" + ",".join(f"{hx(NAMES[rng.below(len(NAMES))])}:{hx(VALS[rng.below(len(VALS))])}"
                                             for _ in range(rng.below(5))))
            elif r < 68:
                ops.append("rm:" + hx(nm))
            elif r < 72:
                ops.append("clear")
            elif r < 77:
                ops.append("cwd:" + hx(CWDS[rng.below(len(CWDS))]))
            elif r < 90:
                s = ("in", "out", "err")[rng.below(3)]
                # mostly legal (one setting per stream), sometimes a second setting
                if s in streams_done and rng.below(3):
                    continue
                streams_done.add(s)
                if s == "in" and rng.below(4) == 0:
                    ops.append("data:" + hx(b"input data"))
                else:
                    pool = "NPF0" if s != "err" else "NPF0M"
                    ops.append(f"{s}:{pool[rng.below(len(pool))]}")
            elif r < 94:
                ops.append("det")
            else:
                ops.append("clone" if rng.below(2) else "clonekeep")
        specs.append(" ".join([CMDS[rng.below(len(CMDS))]] + ops + ["term:" + TERMS[rng.below(len(TERMS))]]))
    return specs


def gen_env(ctx):
    """C06 through the builder: what the child gets as argv / environment / cwd when the request is made with Exec calls"""
    rng = common.SplitMix64(ctx.seed ^ 0xc06b)
    specs = []
    def edits(name):
        return [f"env:{hx(name)}:{hx(b'one')}", f"ext:{hx(name)}:{hx(b'two')}", f"rm:{hx(name)}", "clear",
                f"ext:{hx(name)}:{hx(b'a')},{hx(name)}:{hx(b'b')}", f"env:{hx(name)}:{hx(bytes([0xff, 0xfe, 0x80]))}"]
    for name in (b"A", b"N", bytes([0xc3, 0x28, 0xff])):   # inherited, fresh, not UTF-8
        e = edits(name)
        for a in e:
            for b in e:
                specs.append(f"{CMDS[0]} {a} {b} term:popen")
                if ctx.tier != "quick" or rng.below(3) == 0:
                    for c in e:
                        specs.append(f"{CMDS[0]} {a} {b} {c} term:join")
    for _ in range(60 if ctx.tier == "quick" else 1500):
        ops = []
        for _ in range(1 + rng.below(8)):
            r = rng.below(100)
            nm = NAMES[rng.below(len(NAMES))]
            val = VALS[rng.below(len(VALS))] if rng.below(3) else bytes(rng.below(255) + 1 for _ in range(rng.below(9)))
            if r < 30:
                ops.append(f"env:{hx(nm)}:{hx(val)}")
            elif r < 60:
                ops.append("ext:" + ",".join(f"{hx(NAMES[rng.below(len(NAMES))])}:{hx(VALS[rng.below(len(VALS))])}"
                                             for _ in range(rng.below(5))))
            elif r < 72:
                ops.append("rm:" + hx(nm))
            elif r < 76:
                ops.append("clear")
            elif r < 84:
                ops.append("arg:" + hx(bytes(rng.below(255) + 1 for _ in range(rng.below(12)))))
            elif r < 90:
                ops.append("cwd:" + hx(CWDS[rng.below(2)]))
            else:
                ops.append("clone" if rng.below(2) else "clonekeep")
        specs.append(" ".join([CMDS[rng.below(2)]] + ops + ["term:" + ("popen", "join", "capture")[rng.below(3)]]))
    return specs


def extra_c06(ctx):
    """run by the C06 check: the same property, requested through `Exec` instead of a hand-made PopenConfig"""
    specs = gen_env(ctx)
    cases, proc = run_harness(ctx, specs)
    done = [c for c in cases if c.get("complete")]
    if len(done) != len(specs):
        ctx.broken_correspondence({"what": f"builder harness ran {len(done)} of {len(specs)} cases (rc={proc.returncode})",
                                   "stderr": proc.stderr.decode(errors='replace')[-800:]})
    for c in done:
        base = []
        for kv in (c["base"].split(",") if c["base"] else []):
            a, b = kv.split(":")
            base.append((unhx(a), unhx(b)))
        def viol(msg, sig=None, c=c):
            if len(ctx.violations) < 3:
                ctx.violation({"engine": "builder", "spec": c["spec"], "what": msg, "result": " ".join(c["res"]),
                               "inherited_environment": c["base"], "log": c["log"][:40],
                               "replay_cmd": "./check C06 (builder part)"}, sig)
        oracle(c, base, viol)
    ctx.cov["builder_cases"] = len(done)


# ------------------------------------------------------------------------------------------ oracle
def set_once(cur, new):
    if cur == "N":
        return new
    if cur == "P" and new == "P":
        return "P"
    return None


def expected(spec, base):
    """Independent reading of the property: (panic kind | None, argv, env dict or None, cwd, streams, det)."""
    toks = spec.split()
    if toks[0].startswith("cmd=sh:"):
        argv = [b"sh", b"-c", unhx(toks[0][7:])]
    else:
        argv = [unhx(toks[0][4:])]
    env = None
    cwd = None
    st = {"in": "N", "out": "N", "err": "N"}
    data = False
    det = False
    for t in toks[1:-1]:
        k, _, v = t.partition(":")
        if k == "arg":
            argv.append(unhx(v))
        elif k == "args":
            argv += [unhx(x) for x in v.split(",")] if v else []
        elif k in ("env", "ext", "rm", "clear"):
            if env is None:
                env = dict(base)
            if k == "env":
                a, b = v.split(":")
                env.pop(unhx(a), None)
                env[unhx(a)] = unhx(b)
            elif k == "ext":
                for kv in (v.split(",") if v else []):
                    a, b = kv.split(":")
                    env[unhx(a)] = unhx(b)
            elif k == "rm":
                env.pop(unhx(v), None)
            else:
                env = {}
        elif k == "cwd":
            cwd = unhx(v)
        elif k in ("in", "out", "err"):
            if k == "in" and v == "M":
                return ("panic-build",)
            r = set_once(st[k], v)
            if r is None:
                return ("panic-build",)
            st[k] = r
        elif k == "data":
            if st["in"] != "N":
                return ("panic-build",)
            st["in"] = "P"
            data = True
        elif k == "det":
            det = True
    term = toks[-1][5:]
    if data and term not in ("capture", "communicate"):
        return ("panic-term",)
    if term.startswith("stream_"):
        s = {"stream_stdout": "out", "stream_stderr": "err", "stream_stdin": "in"}[term]
        r = set_once(st[s], "P")
        if r is None:
            return ("panic-term",)
        st[s] = r
    if term in ("capture", "communicate") and st["out"] == "N" and st["err"] == "N":
        st["out"] = "P"
    if term == "communicate":
        det = True
    # communicate(): "must provide input to redirected stdin" -- loud, after the child has started
    late = term in ("capture", "communicate") and st["in"] == "P" and not data
    return (None, argv, env, cwd, st, det, late)


def observed(c):
    argv = child_vec(c, "argv")
    envp = child_vec(c, "envp")
    cwd = None
    for l in c["log"]:
        if l.startswith("C chdir "):
            cwd = unhx(l.split()[2])
    pipes = sum(1 for l in c["log"] if l.startswith("P pipe -> ")) - 1
    started = any(l.startswith("C exec ") and l.endswith("-> OK") for l in c["log"])
    waited = any(l.startswith("P waitpid ") for l in c["log"])
    return argv, envp, cwd, pipes, started, waited


def oracle(c, base, viol):
    exp = expected(c["spec"], base)
    res = c["res"][0]
    if exp[0] is not None:
        if res != exp[0]:
            viol(f"the call sequence must panic ({exp[0]}: a stream configured twice / input data with a terminator "
                 f"that cannot deliver it) but the implementation answered {res}")
        return
    _, argv, env, cwd, st, det, late = exp
    started = any(l.startswith("C exec ") and l.endswith("-> OK") for l in c["log"])
    if res.startswith("panic") and not (late and started and res == "panic-term"):
        viol(f"a legal call sequence panicked ({res})")
        return
    if late and started and res != "panic-term":
        viol("capture/communicate with a piped stdin and no input data must refuse loudly")
    if not forked(c):
        return   # refused before fork (e.g. Merge on stdout): nothing reached a child
    oargv, oenvp, ocwd, pipes, started, waited = observed(c)
    if oargv == "absent":
        if cwd is not None and ocwd == cwd:
            return  # chdir failed before exec
        viol("the child never reached exec")
        return
    if oargv != argv:
        viol(f"arguments handed to the child are {oargv!r}, the calls added {argv!r} in this order")
    if env is None:
        if oenvp is not None:
            viol("no environment edit was made but the child does not simply inherit the environment")
    else:
        if oenvp is None:
            viol("environment edits were made but the child inherits the parent's environment unchanged")
        else:
            want = sorted(k + b"=" + v for k, v in env.items())
            if sorted(oenvp) != want:
                extra = [x for x in oenvp if x not in want]
                missing = [x for x in want if x not in oenvp]
                viol(f"child environment differs from the ordered edits: unexpected {extra!r}, missing {missing!r}")
    if ocwd != cwd:
        viol(f"child working directory request {ocwd!r}, the last cwd() call said {cwd!r}")
    # detached() is part of the description too: the Popen of a detached command is dropped without waiting, any other is waited for
    if started and c["spec"].split()[-1] == "term:popen" and res == "ok" and waited == det:
        viol(f"the command was {'detached' if det else 'not detached'} by the calls, but dropping its Popen "
             f"{'waited for it' if waited else 'did not wait for it'}")
    npipe = sum(1 for s in st.values() if s == "P")
    if pipes != npipe:
        viol(f"{pipes} stream pipes were created, the configuration asks for {npipe}")
    # input data accepted by capture() must actually be offered to the child (not silently dropped)
    toks = c["spec"].split()
    data = [t for t in toks if t.startswith("data:")]
    if data and toks[-1] == "term:capture" and res in ("ok", "err") and started:   # (no start, no exchange)
        want = unhx(data[-1][5:])
        wrote = []
        for l in c["log"]:
            m = re.match(r"P write (\d+) (\d+) (\S*) ->", l)
            if m:
                wrote.append((int(m.group(2)), unhx(m.group(3)) if m.group(3) not in ("", "-") else b""))
        first = wrote[0] if wrote else None
        if want and (first is None or first[0] != min(len(want), 4096) or first[1] != want[:64][:len(first[1])] or not first[1]):
            viol(f"capture() was given {len(want)} bytes of input data but offered {first} to the child's stdin (input silently dropped)")


def run_harness(ctx, specs):
    path = os.path.join(common.BUILD, f"builder-{ctx.prop}.cases")
    open(path, "w").write("".join(s + "\n" for s in specs))
    env = dict(os.environ)
    env["VERIF_QUIET_PANIC"] = "1"
    p = subprocess.run([ctx.harness_bin("harness"), "builder", path], stdin=subprocess.DEVNULL, stdout=subprocess.PIPE,
                       stderr=subprocess.PIPE, timeout=1800, env=env)
    cases = []
    cur = None
    for c in parse("\n".join(l for l in p.stdout.decode(errors="replace").splitlines() if not l.startswith("BASE "))):
        cases.append(c)
    bases = [l[5:] for l in p.stdout.decode(errors="replace").splitlines() if l.startswith("BASE ")]
    for c, b in zip(cases, bases):
        c["base"] = b
    return cases, p


def model_view(c):
    """What the implementation did, rendered the way the model driver renders its answer."""
    res = c["res"][0]
    oargv, oenvp, ocwd, pipes, started, waited = observed(c)
    if not forked(c) or oargv == "absent":
        return res if res.startswith("panic") else None
    return {"argv": ",".join(hx(a) if a else "" for a in oargv),
            "env": "inherit" if oenvp is None else "[" + ",".join(hx(e) for e in oenvp) + "]",
            "cwd": "-" if ocwd is None else "[" + hx(ocwd) + "]", "pipes": pipes}


def check(ctx):
    ctx.lean_obligations()
    cov = ctx.cov
    cov["trusted_base"] += ["trace-mode interposer (what the forked child hands to execve/chdir is logged through shared memory)",
                            "A7: Rust ownership makes a `clone()` a deep copy of Vec/OsString fields; checked by decoy edits after clone()"]
    ctx.assumptions += ["environment variable names in the runs contain no '=' and are non-empty (what std::env can represent)",
                        "delivery of input data by capture/communicate is C02's subject; here only that it is accepted or refused"]
    if not ctx.cargo_build():
        return
    if ctx.replay:
        specs = [json.load(open(ctx.replay))["spec"]]
    else:
        specs = gen(ctx)
    cases, proc = run_harness(ctx, specs)
    if len(cases) != len(specs) or any(not c.get("complete") for c in cases):
        ctx.broken_correspondence({"what": f"harness ran {len([c for c in cases if c.get('complete')])} of {len(specs)} cases "
                                           f"(rc={proc.returncode})", "stderr": proc.stderr.decode(errors='replace')[-1500:]})
        cases = [c for c in cases if c.get("complete")]
    model = ctx.run_driver("".join(f"builder {c['base'] or '-'} {c['spec']}\n" for c in cases)) if cases else []
    ndiv = 0
    dist = {}
    for c, m in zip(cases, model):
        mv = model_view(c)
        ok = True
        if mv is None:
            ok = m.startswith("ok ")
        elif isinstance(mv, str):
            ok = (m == mv)
        else:
            if not m.startswith("ok "):
                ok = False
            else:
                kv = dict(t.split("=", 1) for t in m[3:].split(" "))
                ok = (kv["argv"] == mv["argv"] and kv["env"] == mv["env"] and kv["cwd"] == mv["cwd"]
                      and sum(1 for s in ("in", "out", "err") if kv[s] == "P") == mv["pipes"])
                started0 = observed(c)[4]
                ok = ok and ((c["res"][0] == "panic-term") == (kv["late"] == "1" and started0))
                oargv, oenvp, ocwd, pipes, started, waited = observed(c)
                if ok and started and c["spec"].split()[-1] in ("term:popen", "term:communicate"):
                    ok = (waited == (kv["det"] == "0"))
        if not ok:
            ndiv += 1
            if ndiv == 1:
                ctx.broken_correspondence({"what": "the Lean builder model and the implementation diverge", "spec": c["spec"],
                                           "model_says": m[:600], "implementation": mv, "log": c["log"][:40]})
        key = c["res"][0]
        dist[key] = dist.get(key, 0) + 1
    cov["model_divergences"] = ndiv
    for c in cases:
        base = []
        for kv in (c["base"].split(",") if c["base"] else []):
            a, b = kv.split(":")
            base.append((unhx(a), unhx(b)))
        def viol(msg, sig=None, c=c):
            if len(ctx.violations) < 3:
                ctx.violation({"spec": c["spec"], "case_index": c["index"], "what": msg, "result": " ".join(c["res"]),
                               "inherited_environment": c["base"], "log": c["log"][:40],
                               "replay_cmd": "./check C16 --replay <this file>"}, sig)
        oracle(c, base, viol)
    cov["evaluations"] = len(cases)
    cov["traces_validated_against_impl"] = len(cases)
    cov["distinct_nontrivial"] = len({c["spec"] for c in cases if len(c["spec"].split()) >= 4})
    nops = [len(c["spec"].split()) - 2 for c in cases]
    cov["distribution"] = {"results": dist, "ops_per_sequence": {"min": min(nops), "max": max(nops), "mean": round(sum(nops) / len(nops), 2)},
                           "with_clone": sum(1 for c in cases if "clone" in c["spec"]),
                           "with_env_edit": sum(1 for c in cases if any(t.split(":")[0] in ("env", "ext", "rm", "clear") for t in c["spec"].split())),
                           "terminators": {t: sum(1 for c in cases if c["spec"].endswith("term:" + t)) for t in TERMS}}
    cov["rule"] = ("all ordered pairs (thorough: and triples) of environment edits {set, extend, remove, clear, extend-with-duplicate} on an "
                   "inherited and on a fresh name; the full set-once table per stream (5x5) and stream x terminator; input data x "
                   "terminator; random call sequences (0..30 calls) over arg/args/env/env_extend/env_remove/env_clear/cwd/streams/"
                   "detached/clone with decoy edits, 5 commands (incl. Exec::shell), 7 terminators; non-trivial = at least 2 builder calls")
    cov["samples"] = [{"spec": c["spec"], "result": " ".join(c["res"]), "log_head": c["log"][:8]} for c in cases[:1] + cases[-2:]]

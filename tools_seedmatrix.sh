#!/bin/bash
# runs every seeded change against the check(s) of the property it breaks; prints one line per (seed, check)
# usage: tools_seedmatrix.sh [seed ...]      (sequential: the seeds are applied to /repo's working tree one at a time)
cd /verif
declare -A TARGET=( [F10-revert]="C04" [F4-revert]="C04" [F8a-revert]="C19" [F5F6-revert]="C12" [F5p-revert]="C12" [F9a-revert]="C08 C13" [F12-revert]="C07" [F13-revert]="C12" [F14-revert]="C14" [F15-revert]="C14" [C12]="C12 C07" [C13]="C13 C12" [C12-r2]="C12 C08" )
seeds=${@:-$(ls seeded)}
for s in $seeds; do
  [ -d seeded/$s ] || continue
  base=${s%%-r[0-9]*}
  props=${TARGET[$s]:-$base}
  patch=$(realpath seeded/$s/patch.diff)
  ( cd /repo && git apply --check "$patch" 2>/dev/null ) || { echo "$s: PATCH DOES NOT APPLY"; continue; }
  ( cd /repo && git apply "$patch" )
  for p in $props; do
    out=$(./check $p --tier quick 2>&1)
    nv=$(echo "$out" | grep -c "^VIOLATION")
    nf=$(echo "$out" | grep "^VIOLATION" | grep -vc "no-failing-input-found")
    neut=""; grep -q '"neutralized_by_fix"' seeded/$s/meta.json 2>/dev/null && neut=" [NEUTRALIZED by a later fix: 0 violations is the right answer, see meta.json]"
    echo "$s: check=$p violations=$nv with_replay_input=$nf$neut  $(echo "$out" | tail -1)"
  done
  git -C /repo checkout -- .
done
git -C /repo status --short | head -3

import Model.WinArgv
import Model.Sh
import Model.Life
import Model.Comm
import Model.Path
import Model.Spawn
import Model.Builder
import Model.Pipeline
/-!
  `modeldriver`: one request per input line, one answer per output line.
  The harness runs the implementation on the same requests and diffs the answers.

  Encodings: a byte string is lower-case hex, two digits per byte; a UTF-16 string four digits per
  unit; the empty string is `-`.
-/

namespace Hex

def digit (c : Char) : Option Nat :=
  if '0' ≤ c ∧ c ≤ '9' then some (c.toNat - '0'.toNat)
  else if 'a' ≤ c ∧ c ≤ 'f' then some (c.toNat - 'a'.toNat + 10)
  else none

/-- decode groups of `w` hex digits -/
def decodeW (w : Nat) (s : String) : Option (List Nat) :=
  if s = "-" then some [] else
  let rec go (cs : List Char) (k : Nat) (cur : Nat) (acc : Array Nat) : Option (List Nat) :=
    match cs with
    | [] => if k = 0 then some acc.toList else none
    | c :: cs =>
      match digit c with
      | none => none
      | some d =>
        if k + 1 = w then go cs 0 0 (acc.push (cur * 16 + d)) else go cs (k + 1) (cur * 16 + d) acc
  go s.toList 0 0 #[]

def hexDigit (n : Nat) : Char :=
  if n < 10 then Char.ofNat ('0'.toNat + n) else Char.ofNat ('a'.toNat + n - 10)

def encodeW (w : Nat) (l : List Nat) : String :=
  if l.isEmpty then "-" else
  String.ofList (l.flatMap fun n => (List.range w).reverse.map fun i => hexDigit ((n / 16 ^ i) % 16))

end Hex

def tokens (line : String) : List String :=
  (line.trimAscii.toString.splitOn " ").filter (· ≠ "")

def allSome {α} : List (Option α) → Option (List α)
  | [] => some []
  | none :: _ => none
  | some a :: r => (allSome r).map (a :: ·)

/-- `win <arg>*` → `ok <cmdline>` | `err` -/
def handleWin (args : List String) : String :=
  match allSome (args.map (Hex.decodeW 4)) with
  | none => "bad-request"
  | some argv =>
    match WinArgv.assembleCmdline argv with
    | none => "err"
    | some t => "ok " ++ Hex.encodeW 4 t

def decodeUtf8 (tok : String) : Option (List Char) :=
  match Hex.decodeW 2 tok with
  | none => none
  | some bs => (String.fromUTF8? (ByteArray.mk (bs.map (·.toUInt8)).toArray)).map String.toList

def encodeUtf8 (l : List Char) : String :=
  Hex.encodeW 2 ((String.ofList l).toUTF8.toList.map (·.toNat))

/-- split a token list at "/" -/
def splitStages : List String → List (List String)
  | [] => [[]]
  | t :: ts =>
    match splitStages ts with
    | [] => [[t]]
    | st :: rest => if t = "/" then [] :: st :: rest else (t :: st) :: rest

def showCmds (cs : List (List (List Char))) : String :=
  " / ".intercalate (cs.map fun c => " ".intercalate (c.map encodeUtf8))

/-- `sh <arg>+` → `ok <text>`; `shp <arg>+ / <arg>+ …` → `ok <text>`;
    `words <text>` → what the shell model makes of the text in argument position;
    `cmds <dir> <text>` → the commands the shell model would run -/
def handleSh (kind : String) (args : List String) : String :=
  match kind with
  | "sh" =>
    match allSome (args.map decodeUtf8) with
    | some (c :: r) => "ok " ++ encodeUtf8 (Sh.toCmdline (c :: r))
    | _ => "bad-request"
  | "she" =>
    -- `she <cur k:v,..|-> <ops k:v | k:- ,..> <arg>+`: `Exec::env` / `Exec::env_remove` on top of the parent's environment `cur`
    match args with
    | curT :: opsT :: argT =>
      let pair (t : String) : Option (List Char × Option (List Char)) :=
        match t.splitOn ":" with
        | [k, "-"] => (decodeUtf8 k).map (fun k => (k, none))
        | [k, v] => match decodeUtf8 k, decodeUtf8 v with
          | some k, some v => some (k, some v)
          | _, _ => none
        | _ => none
      let cur? := if curT = "-" then some [] else allSome ((curT.splitOn ",").map pair)
      match cur?, allSome ((opsT.splitOn ",").map pair), allSome (argT.map decodeUtf8) with
      | some cur, some ops, some (c :: r) =>
        let cur := cur.filterMap (fun kv => kv.2.map (fun v => (kv.1, v)))
        let cmdEnv := ops.foldl (fun env op => match op.2 with
          | some v => env ++ [(op.1, v)]
          | none => env.filter (fun kv => kv.1 != op.1)) cur
        "ok " ++ encodeUtf8 (Sh.toCmdlineEnv cur cmdEnv (c :: r))
      | _, _, _ => "bad-request"
    | _ => "bad-request"
  | "cmdse" =>
    match args with
    | [_, namesT, t] =>
      match decodeUtf8 t with
      | none => "bad-request"
      | some text =>
        match Sh.parseWithEnv text with
        | some (as, c :: cs) =>
          -- the first command sees the assignments (the last one to a name wins), reported for the requested names in order
          let items := (namesT.splitOn ",").filterMap fun n =>
            match (as.reverse.find? (fun kv => String.ofList kv.1 == n)) with
            | some kv => some ('=' :: kv.1 ++ '=' :: kv.2)
            | none => none
          "some " ++ showCmds ((c ++ items) :: cs)
        | some (_, []) => "some "
        | none => "none"
    | _ => "bad-request"
  | "shp" =>
    match allSome ((splitStages args).map fun st => allSome (st.map decodeUtf8)) with
    | some stages =>
      if stages.length < 2 || stages.any (·.isEmpty) then "bad-request"
      else "ok " ++ encodeUtf8 (Sh.pipelineText stages)
    | none => "bad-request"
  | "words" =>
    match args with
    | [t] =>
      match decodeUtf8 t with
      | none => "bad-request"
      | some text =>
        match Sh.parse ('x' :: ' ' :: text) with
        | some [_ :: ws] => if ws.isEmpty then "some" else "some " ++ " ".intercalate (ws.map encodeUtf8)
        | _ => "none"
    | _ => "bad-request"
  | "cmds" =>
    match args with
    | [_, t] =>
      match decodeUtf8 t with
      | none => "bad-request"
      | some text =>
        match Sh.parse text with
        | some cs => "some " ++ showCmds cs
        | none => "none"
    | _ => "bad-request"
  | _ => "bad-request"

namespace LifeIO
open Life

def parseOp (t : String) : Option Op :=
  match t.splitOn ":" with
  | ["poll"] => some .poll
  | ["wait"] => some .wait
  | ["wt", d] => d.toNat?.map .waitTimeout
  | ["term"] => some .terminate
  | ["kill"] => some .kill
  | ["sig", n] => n.toNat?.map .sendSignal
  | ["detach"] => some .detach
  | ["pid"] => some .pid
  | ["status"] => some .exitStatus
  | ["drop"] => some .drop
  | _ => none

def parseResp (t : String) : Option Resp :=
  match t.splitOn ":" with
  | ["wp", p, w] => match p.toNat?, w.toNat? with
    | some p, some w => some (.wp p w)
    | _, _ => none
  | ["err", e] => e.toNat?.map .err
  | ["ok"] => some .ok
  | ["t", n] => n.toNat?.map .time
  | _ => none

def showStatus : ExitStatus → String
  | .exited c => s!"st:E{c}"
  | .signaled g => s!"st:S{g}"
  | .other w => s!"st:O{w}"
  | .undetermined => "st:U"

def showRet : Ret → String
  | .none => "none"
  | .status st => showStatus st
  | .err e => s!"err:{e}"
  | .ok => "ok"
  | .pid p => s!"pid:{p}"
  | .stuck => "stuck"

def showCall : Call → String
  | .waitpid p nh => s!"wp:{p}:{if nh then 1 else 0}"
  | .kill p g => s!"kill:{p}:{g}"
  | .clock => "clock"
  | .sleep n => s!"sleep:{n}"

/-- `life <op>* | <resp>*` → `<ret>* | <call>*` ; the Popen starts as `Running{pid = 1000}` -/
def handle (args : List String) : String :=
  let opsT := args.takeWhile (· ≠ "|")
  let respT := (args.dropWhile (· ≠ "|")).drop 1
  match allSome (opsT.map parseOp), allSome (respT.map parseResp) with
  | some ops, some rs =>
    let (_, rets, log) := runOps ⟨.running 1000, false⟩ ops rs
    " ".intercalate (rets.map showRet) ++ " | " ++ " ".intercalate (log.map (showCall ·.1))
  | _, _ => "bad-request"

end LifeIO

namespace CommIO
open Comm

def bytesOf (tok : String) : Option (List UInt8) := (Hex.decodeW 2 tok).map (·.map (·.toUInt8))
def hexOf (l : List UInt8) : String := Hex.encodeW 2 (l.map (·.toNat))

def parseAct (t : String) : Option CAct :=
  match t.toList with
  | 'r' :: ds => (String.ofList ds).toNat?.map .readIn
  | 'w' :: 'o' :: h => (bytesOf (String.ofList h)).map (.write .out)
  | 'w' :: 'e' :: h => (bytesOf (String.ofList h)).map (.write .err)
  | ['c', 'i'] => some .closeIn
  | ['c', 'o'] => some (.close .out)
  | ['c', 'e'] => some (.close .err)
  | ['z'] => some .sleep
  | _ => none

def optNat (t : String) : Option (Option Nat) := if t = "-" then some none else t.toNat?.map some

def showRes : Res → String
  | .ok => "ok"
  | .timedOut => "timedout"
  | .oserr e => s!"e{e}"

def bit (b : Bool) : String := if b then "1" else "0"

def showCall : Call → String
  | .clock => "clock"
  | .poll fi fo fe tmo => s!"poll/{bit fi}{bit fo}{bit fe}/{match tmo with | some m => toString m | none => "-"}"
  | .write n => s!"write/{n}"
  | .closeIn => "close"
  | .read .out n => s!"read/o/{n}"
  | .read .err n => s!"read/e/{n}"
  | .ret r => s!"ret/{showRes r}"

def revNum (r : Rev) : Nat := (if r.pin then 1 else 0) + (if r.pout then 4 else 0) + (if r.perr then 8 else 0) + (if r.phup then 16 else 0)

def showResp : Resp → String
  | .time t => s!"t{t}"
  | .revs i o e => s!"r{revNum i}.{revNum o}.{revNum e}"
  | .n k => s!"n{k}"
  | .err e => s!"e{e}"
  | .ok => "ok"

def showOpt : Option (List UInt8) → String
  | none => "~"
  | some l => hexOf l

structure St where
  p : Par
  w : World
  results : Array String := #[]
  idx : Nat := 0
  bad : Option String := none

def stepEvent (st : St) (ev : String) : St :=
  if st.bad.isSome then st else
  let st := { st with idx := st.idx + 1 }
  match ev.splitOn ":" with
  | ["s", lim, tl] =>
    match optNat lim, optNat tl with
    | some l, some t => { st with p := startRead st.p l t }
    | _, _ => { st with bad := some s!"bad-event@{st.idx}" }
  | ["c", n, dt] =>
    match n.toNat?, dt.toNat? with
    | some n, some dt =>
      match childStep st.p st.w { n := n, dt := dt } with
      | some w' => { st with w := w' }
      | none => { st with bad := some s!"envviol@{st.idx}:child-step-not-enabled" }
    | _, _ => { st with bad := some s!"bad-event@{st.idx}" }
  | ["r", tag] =>
    match st.p.pc with
    | .done r =>
      if showRes r = tag then
        let (o, e) := result st.p
        { st with results := st.results.push s!"{tag}:{showOpt o}:{showOpt e}" }
      else { st with bad := some s!"diverge@{st.idx}:model-returns-{showRes r}-impl-returned-{tag}" }
    | _ => { st with bad := some s!"diverge@{st.idx}:model-expects-{showCall (pendingCall st.p)}-impl-returned-{tag}" }
  | ["p", call, n, dt, rest] =>
    match rest.splitOn "=" with
    | [fault, resp] =>
      match n.toNat?, dt.toNat?, optNat fault with
      | some n, some dt, some f =>
        let mc := pendingCall st.p
        if showCall mc ≠ call then
          { st with bad := some s!"diverge@{st.idx}:model-expects-{showCall mc}-impl-did-{call}" }
        else
          let c : Choice := { n := n, dt := dt, fault := f }
          match answer st.w mc c with
          | none => { st with bad := some s!"envviol@{st.idx}:{call}-blocks-in-the-model" }
          | some (r, _, _) =>
            if showResp r ≠ resp then
              { st with bad := some s!"envviol@{st.idx}:{call}-answered-{resp}-model-says-{showResp r}" }
            else
              match parStep st.p st.w c with
              | some (p', w') => { st with p := p', w := w' }
              | none => { st with bad := some s!"envviol@{st.idx}" }
      | _, _, _ => { st with bad := some s!"bad-event@{st.idx}" }
    | _ => { st with bad := some s!"bad-event@{st.idx}" }
  | _ => { st with bad := some s!"bad-event@{st.idx}:{ev}" }

/-- `comm hi ho he input capIn capOut capErr | script… | events…` -/
def handle (args : List String) : String :=
  let cfg := args.takeWhile (· ≠ "|")
  let rest := (args.dropWhile (· ≠ "|")).drop 1
  let scriptT := rest.takeWhile (· ≠ "|")
  let events := (rest.dropWhile (· ≠ "|")).drop 1
  match cfg with
  | [hi, ho, he, inp, ci, co, ce] =>
    match bytesOf inp, ci.toNat?, co.toNat?, ce.toNat?, allSome (scriptT.map parseAct) with
    | some input, some ci, some co, some ce, some script =>
      let p := mkPar (hi = "1") input (ho = "1") (he = "1")
      let w : World := { capIn := ci, capOut := co, capErr := ce, inBuf := [], outBuf := [], errBuf := [],
                         inRd := true, outWr := true, errWr := true, script := script,
                         now := 1000000000, since := 1000000000, gIn := [], gOut := [], gErr := [] }
      let st := events.foldl stepEvent { p := p, w := w }
      match st.bad with
      | some b => b
      | none => "ok " ++ " ".intercalate st.results.toList
    | _, _, _, _, _ => "bad-request"
  | _ => "bad-request"

end CommIO

namespace SpawnIO
open Spawn

def natList (tok : String) : Option (List Nat) := Hex.decodeW 2 tok

def parseRedir (t : String) (files : List (String × Nat)) : Option Redir :=
  match t with
  | "N" => some .none
  | "P" => some .pipe
  | "M" => some .merge
  | _ =>
    match files.find? (·.1 == t) with
    | some (_, fd) => if t.startsWith "F" then some (.file fd) else some (.rc fd)
    | none => none

def kvOf (toks : List String) : List (String × String) :=
  toks.filterMap fun t => match t.splitOn "=" with
    | [k, v] => some (k, v)
    | _ => none

def get (kv : List (String × String)) (k : String) : String := ((kv.find? (·.1 == k)).map (·.2)).getD "-"

def showCall : SCall → String
  | .pipe => "pipe"
  | .getfd fd => s!"getfd{fd}"
  | .setfd fd fl => s!"setfd{fd}.{fl}"
  | .dupfd fd => s!"dupfd{fd}"
  | .fork => "fork"
  | .close fd => s!"close{fd}"
  | .readStatus fd => s!"read{fd}"
  | .waitpid => "waitpid"
  | .chdir => "chdir"
  | .dup2 a b => s!"dup2.{a}.{b}"
  | .sigmask => "sigmask"
  | .signal => "signal"
  | .setgid g => s!"setgid{g}"
  | .setuid u => s!"setuid{u}"
  | .setpgid => "setpgid"
  | .exec i => s!"exec{i}"
  | .writeStatus fd e => s!"write{fd}.{e}"
  | .exit c => s!"exit{c}"

def parseResp (t : String) : Option SResp :=
  match t.toList with
  | ['o', 'k'] => some .ok
  | 's' :: _ => some .started
  | 'e' :: ds => (String.ofList ds).toNat?.map .err
  | 'v' :: ds => (String.ofList ds).toNat?.map .val
  | 'f' :: ds => match (String.ofList ds).splitOn "." with
    | [a, b] => match a.toNat?, b.toNat? with
      | some a, some b => some (.fds a b)
      | _, _ => none
    | _ => none
  | 'n' :: ds => match (String.ofList ds).splitOn "." with
    | [a, b] => match a.toNat?, b.toNat? with
      | some a, some b => some (.nbytes a b)
      | _, _ => none
    | _ => none
  | _ => none

/-- sort every maximal run of consecutive `close` calls (drop order of a tuple is not compared) -/
def canon (l : List String) : List String :=
  let rec go (l : List String) (run : List String) (acc : Array String) : List String :=
    match l with
    | [] => (acc ++ (run.toArray.qsort (· < ·))).toList
    | x :: xs =>
      if x.startsWith "close" then go xs (x :: run) acc
      else go xs [] ((acc ++ (run.toArray.qsort (· < ·))).push x)
  go l [] #[]

def firstDiff (a b : List String) (i : Nat := 0) : String :=
  match a, b with
  | [], [] => "same"
  | x :: xs, y :: ys => if x = y then firstDiff xs ys (i + 1) else s!"@{i}:model={x},impl={y}"
  | x :: _, [] => s!"@{i}:model={x},impl=<end>"
  | [], y :: _ => s!"@{i}:model=<end>,impl={y}"

/-- `spawn k=v… | <parent events call=resp> | <child events call=resp> | <exec paths> | <envp>` -/
def handle (args : List String) : String :=
  let parts := (" ".intercalate args).splitOn " | "
  match parts with
  | [cfgS, pS, cS, exS, envS] =>
    let kv := kvOf (cfgS.splitOn " ")
    let files : List (String × Nat) := (kv.filter (fun (k, _) => k.endsWith "fd")).filterMap
      (fun (k, v) => v.toNat?.map (fun n => ((k.dropEnd 2).toString, n)))
    match parseRedir (get kv "in") files, parseRedir (get kv "out") files, parseRedir (get kv "err") files,
          natList (get kv "cmd") with
    | some ri, some ro, some re, some cmd =>
      let path : Option (List Nat) := if get kv "path" = "unset" then none else natList (get kv "path")
      let cands := Path.candidates cmd path
      let c : Cfg := { sin := ri, sout := ro, serr := re, detached := get kv "det" = "1", cwd := get kv "cwd" = "1",
                       uid := (get kv "uid").toNat?, gid := (get kv "gid").toNat?, pgid := get kv "pgid" = "1",
                       argvEmpty := get kv "argvEmpty" = "1", nul := get kv "nul" = "1", ncand := cands.length }
      let pev := (pS.splitOn " ").filter (fun t => t ≠ "" && t ≠ "-")
      let cev := (cS.splitOn " ").filter (fun t => t ≠ "" && t ≠ "-")
      let split (e : String) : String × String := match e.splitOn "=" with | [a, b] => (a, b) | _ => (e, "?")
      let pCalls := pev.map (fun e => (split e).1)
      let cCalls := cev.map (fun e => (split e).1)
      match allSome (pev.map (fun e => parseResp (split e).2)), allSome (cev.map (fun e => parseResp (split e).2)) with
      | some pR, some cR =>
        let po := parentRun c pR
        let mP := po.calls.map showCall ++ (if po.res = .ok then (dropOk c po.pipes).map showCall else [])
        let dP := firstDiff (canon mP) (canon pCalls)
        if dP ≠ "same" then s!"diverge parent{dP}" else
        let (sr, sw) := po.status.getD (0, 0)
        let forkedM := po.calls.any (· == .fork) && !(pR.any (fun r => false))
        let (mC, cres) := childRun c po.pipes sr sw cR
        let dC := if cCalls.isEmpty && !(pCalls.any (· == "fork")) then "same" else
                  if cCalls.isEmpty then "same" else firstDiff (canon (mC.map showCall)) (canon cCalls)
        if dC ≠ "same" then s!"diverge child{dC}" else
        -- the paths tried and the environment handed over
        let exObs := (exS.splitOn " ").filter (fun t => t ≠ "" && t ≠ "-")
        let exModel := (cands.take exObs.length).map (Hex.encodeW 2)
        if exObs ≠ exModel then s!"diverge exec-paths model={exModel} impl={exObs}" else
        let envOk :=
          if envS = "skip" ∨ envS = "inherit" then true else
          let pairs := ((get kv "env").splitOn ",").filterMap (fun kvs => match kvs.splitOn ":" with
            | [k, v] => match natList k, natList v with
              | some k, some v => some (k, v)
              | _, _ => none
            | _ => none)
          (Path.renderEnv pairs).map (Hex.encodeW 2) = (envS.splitOn " ").filter (fun t => t ≠ "" && t ≠ "-")
        if !envOk then "diverge envp" else
        let _ := forkedM
        let _ := cres
        "ok " ++ (match po.res with | .ok => "ok" | .err e => s!"err{e}" | .logic => "logic" | .stuck => "stuck")
      | _, _ => "bad-request-resp"
    | _, _, _, _ => "bad-request-cfg"
  | _ => "bad-request-parts"

end SpawnIO

namespace BuilderIO
open Builder

def hexL (tok : String) : Option (List Nat) := if tok = "" then some [] else Hex.decodeW 2 tok

def kvPair (t : String) : Option (B × B) :=
  match t.splitOn ":" with
  | [a, b] => do some ((← hexL a), (← hexL b))
  | _ => none

def kvList (t : String) : Option (List (B × B)) :=
  if t = "" || t = "-" then some [] else allSome ((t.splitOn ",").map kvPair)

def rdOf (t : String) : Option Rd :=
  match t with
  | "N" => some .none | "P" => some .pipe | "M" => some .merge | "F" => some .file | "0" => some .null
  | _ => none

def showRd : Rd → String
  | .none => "N" | .pipe => "P" | .merge => "M" | .file => "F" | .null => "0"

/-- one spec token = a list of model ops (`clone`/`clonekeep` are identity on a value) -/
def parseOp (t : String) : Option (List Op) :=
  match t.splitOn ":" with
  | ["arg", a] => do some [.arg (← hexL a)]
  | ["args", l] => do some [.args (← (if l = "" then some [] else allSome ((l.splitOn ",").map hexL)))]
  | ["env", a, b] => do some [.env (← hexL a) (← hexL b)]
  | "ext" :: _ => do some [.envExtend (← kvList ((t.drop 4).toString))]
  | ["rm", a] => do some [.envRemove (← hexL a)]
  | ["clear"] => some [.envClear]
  | ["cwd", a] => do some [.cwd (← hexL a)]
  | ["in", r] => do some [.stdin (← rdOf r)]
  | ["data", d] => do some [.stdinData (← hexL d)]
  | ["out", r] => do some [.stdout (← rdOf r)]
  | ["err", r] => do some [.stderr (← rdOf r)]
  | ["det"] => some [.detached]
  | ["clone"] => some []
  | ["clonekeep"] => some []
  | _ => none

def termOf (t : String) : Option Term :=
  match t with
  | "term:popen" => some .popen | "term:join" => some .join | "term:stream_stdout" => some .streamStdout
  | "term:stream_stderr" => some .streamStderr | "term:stream_stdin" => some .streamStdin
  | "term:capture" => some .capture | "term:communicate" => some .communicate
  | _ => none

def startOf (t : String) : Option Exec :=
  if t.startsWith "cmd=sh:" then (hexL ((t.drop 7).toString)).map shell
  else if t.startsWith "cmd=" then (hexL ((t.drop 4).toString)).map cmd
  else none

def hexB (b : B) : String := if b.isEmpty then "" else Hex.encodeW 2 b

/-- `builder <base> cmd=.. <ops..> term:..` -/
def handle (args : List String) : String :=
  match args with
  | baseTok :: cmdTok :: rest =>
    match kvList baseTok, startOf cmdTok, rest.getLast?.bind termOf, allSome (rest.dropLast.map parseOp) with
    | some base, some e0, some term, some opss =>
      match applyAll base e0 opss.flatten with
      | none => "panic-build"
      | some e =>
        match terminate e term with
        | none => "panic-term"
        | some e' =>
          let envS := match childEnv e' with
            | none => "inherit"
            | some l => "[" ++ ",".intercalate (l.map hexB) ++ "]"
          "ok argv=" ++ ",".intercalate ((argv e').map hexB) ++ " env=" ++ envS ++
            " cwd=" ++ (match e'.cwd with | none => "-" | some d => "[" ++ hexB d ++ "]") ++
            " in=" ++ showRd e'.sin ++ " out=" ++ showRd e'.sout ++ " err=" ++ showRd e'.serr ++
            " det=" ++ (if e'.detached then "1" else "0") ++ " late=" ++ (if lateRefusal e' term then "1" else "0")
    | _, _, _, _ => "bad-request"
  | _ => "bad-request"
end BuilderIO

namespace PipeIO
open Pipe

def inOf : String → Option InKind
  | "I" => some .inherit | "P" => some .pipe | "F" => some .file | "D" => some .data | _ => none
def outOf : String → Option OutKind
  | "I" => some .inherit | "P" => some .pipe | "F" => some .file | _ => none
def termOf : String → Option Term
  | "popen" => some .popen | "join" => some .join | "stream_stdout" => some .streamStdout
  | "stream_stderr" => some .streamStderr | "stream_stdin" => some .streamStdin
  | "capture" => some .capture | "communicate" => some .communicate | _ => none

/-- canonical pipe names: order of creation -/
def renameMap (acts : List Act) : List Nat :=
  acts.filterMap fun a => match a with | .mk p _ _ => some p | _ => none

def nameOf (ren : List Nat) (p : Nat) : String :=
  match ren.findIdx? (· == p) with
  | some i => "p" ++ toString i
  | none => "q" ++ toString p

def showEnd (ren : List Nat) (e : End) : String :=
  nameOf ren e.pipe ++ (match e.side with | .r => "r" | .w => "w")

def showAtt (ren : List Nat) : Att → String
  | .inherit => "I" | .file => "F" | .pipe p => nameOf ren p

def allEnds (ren : List Nat) : List End :=
  ren.flatMap fun p => [⟨p, .r⟩, ⟨p, .w⟩]

def showHeld (ren : List Nat) (h : Held) : String :=
  "[" ++ ",".intercalate (((allEnds ren).filter fun e => (h e).isSome).map (showEnd ren)) ++ "]"

def summarize (ren : List Nat) : Held → List Act → List String
  | h, [] => ["E" ++ showHeld ren h]
  | h, a :: rest =>
    let h' := stepHeld h a
    let tok : List String := match a with
      | .spawn i a0 a1 a2 =>
        let dirty := (allEnds ren).filter fun e => h e == some false && !(attEnds a0 a1 a2).contains e
        ["S" ++ toString i ++ "(" ++ showAtt ren a0 ++ "," ++ showAtt ren a1 ++ "," ++ showAtt ren a2 ++ ")!" ++
          "[" ++ ",".intercalate (dirty.map (showEnd ren)) ++ "]"]
      | .fail i => ["F" ++ toString i]
      | .wait j => ["w" ++ toString j ++ showHeld ren h]
      | .waitRet j => ["W" ++ toString j ++ showHeld ren h]
      | .io => ["IO"]
      | .ret ok => [if ok then "R1" else "R0"]
      | .user => ["U"]
      | _ => []
    tok ++ summarize ren h' rest

/-- `pipe n=.. det=<bits> in=.. out=.. err=.. errto=.. fail=<k|-> term=..` -/
def handle (args : List String) : String :=
  let kv := SpawnIO.kvOf args
  let g := SpawnIO.get kv
  match (g "n").toNat?, inOf (g "in"), outOf (g "out"), outOf (g "err"), termOf (g "term") with
  | some n, some i, some o, some e, some t =>
    let bits := (g "det").toList
    let c : Cfg := { n := n, det := fun j => bits.getD j '0' == '1', sin := i, sout := o, serr := e,
                     errTo := g "errto" == "1", failAt := (g "fail").toNat?, ioFails := g "iofails" == "1" }
    let acts := run c t
    let ren := renameMap acts
    "ok " ++ " ".intercalate (summarize ren Held.empty acts)
  | _, _, _, _, _ => "bad-request"
end PipeIO

def handle (line : String) : String :=
  match tokens line with
  | "win" :: args => handleWin args
  | "sh" :: args => handleSh "sh" args
  | "shp" :: args => handleSh "shp" args
  | "she" :: args => handleSh "she" args
  | "cmdse" :: args => handleSh "cmdse" args
  | "words" :: args => handleSh "words" args
  | "cmds" :: args => handleSh "cmds" args
  | "life" :: args => LifeIO.handle args
  | "comm" :: args => CommIO.handle args
  | "spawn" :: args => SpawnIO.handle args
  | "builder" :: args => BuilderIO.handle args
  | "pipe" :: args => PipeIO.handle args
  | _ => "bad-request"

partial def loop (h : IO.FS.Stream) (out : IO.FS.Stream) : IO Unit := do
  let line ← h.getLine
  if line.isEmpty then return ()
  out.putStrLn (handle line)
  loop h out

def main : IO Unit := do
  let out ← IO.getStdout
  loop (← IO.getStdin) out
  out.flush

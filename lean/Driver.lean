import Model.WinArgv
/-!
  `modeldriver`: one request per input line, one answer per output line.
  The harness runs the implementation on the same requests and diffs the answers.

  Encodings: a byte string is lower-case hex, two digits per byte; a UTF-16 string four digits per
  unit; the empty string is `-`.
-/

namespace Hex

def digit (c : Char) : Option Nat :=
  if '0' ≤ c ∧ c ≤ '9' then some (c.toNat - '0'.toNat)
  else if 'a' ≤ c ∧ c ≤ 'f' then some (c.toNat - 'a'.toNat + 10)
  else none

/-- decode groups of `w` hex digits -/
def decodeW (w : Nat) (s : String) : Option (List Nat) :=
  if s = "-" then some [] else
  let rec go (cs : List Char) (k : Nat) (cur : Nat) (acc : Array Nat) : Option (List Nat) :=
    match cs with
    | [] => if k = 0 then some acc.toList else none
    | c :: cs =>
      match digit c with
      | none => none
      | some d =>
        if k + 1 = w then go cs 0 0 (acc.push (cur * 16 + d)) else go cs (k + 1) (cur * 16 + d) acc
  go s.toList 0 0 #[]

def hexDigit (n : Nat) : Char :=
  if n < 10 then Char.ofNat ('0'.toNat + n) else Char.ofNat ('a'.toNat + n - 10)

def encodeW (w : Nat) (l : List Nat) : String :=
  if l.isEmpty then "-" else
  String.ofList (l.flatMap fun n => (List.range w).reverse.map fun i => hexDigit ((n / 16 ^ i) % 16))

end Hex

def tokens (line : String) : List String :=
  (line.trimAscii.toString.splitOn " ").filter (· ≠ "")

def allSome {α} : List (Option α) → Option (List α)
  | [] => some []
  | none :: _ => none
  | some a :: r => (allSome r).map (a :: ·)

/-- `win <arg>*` → `ok <cmdline>` | `err` -/
def handleWin (args : List String) : String :=
  match allSome (args.map (Hex.decodeW 4)) with
  | none => "bad-request"
  | some argv =>
    match WinArgv.assembleCmdline argv with
    | none => "err"
    | some t => "ok " ++ Hex.encodeW 4 t

def handle (line : String) : String :=
  match tokens line with
  | "win" :: args => handleWin args
  | _ => "bad-request"

partial def loop (h : IO.FS.Stream) (out : IO.FS.Stream) : IO Unit := do
  let line ← h.getLine
  if line.isEmpty then return ()
  out.putStrLn (handle line)
  loop h out

def main : IO Unit := do
  let out ← IO.getStdout
  loop (← IO.getStdin) out
  out.flush

import Proofs.Life
/-!
# C09  Exit status is the truth, and once known it never changes

Theorems about `Life.runOp` / `Life.runOps`, for **every** list of operating-system answers (every
timing of the child's exit, every external reaping, every injected error) and every operation
sequence.  The model is tied to the real `Popen` by the `life` engine of the correspondence harness.
-/
namespace Life

/-- `decode_exit_status`: every exit code 0..255 -/
theorem decode_exited (c : Nat) (h : c < 256) : decode (256 * c) = .exited c := by
  unfold decode
  have h1 : 256 * c % 128 = 0 := by omega
  have h2 : 256 * c / 256 % 256 = c := by omega
  simp [h1, h]

/-- `decode_exit_status`: every fatal signal 1..126, with or without the core-dump flag -/
theorem decode_signaled (g : Nat) (h1 : 1 ≤ g) (h2 : g ≤ 126) (core : Bool) :
    decode (g + (if core then 128 else 0)) = .signaled g := by
  unfold decode
  cases core <;> simp <;> (split <;> (try omega)) <;> (split <;> (try omega)) <;> (congr 1; omega)

theorem waitTimeout_status (pid : Nat) (det : Bool) (d : Nat) (rs : List Resp) (s : ExitStatus)
    (h : (waitTimeout ⟨.running pid, det⟩ d rs).ret = .status s) :
    (waitTimeout ⟨.running pid, det⟩ d rs).p.st = .finished s ∧
      ∃ e ∈ (waitTimeout ⟨.running pid, det⟩ d rs).log, Justifies pid s e := by
  unfold waitTimeout at h ⊢
  cases rs with
  | nil => simp at h
  | cons r rs =>
    cases r <;> simp only [Out.pre] at h ⊢ <;> (try (simp at h; done))
    obtain ⟨h1, e, he, hj⟩ := wtLoop_status pid det _ _ rs s h
    exact ⟨h1, e, List.mem_append_right _ he, hj⟩

/-- **C09 (truth).**  Whatever the operating system answers, an operation on a still-`Running`
    handle reports status `s` only if a `waitpid` on the child's pid answered with a status word
    that decodes to `s` (or answered `ECHILD`, and then `s = Undetermined`) — in particular never
    while every `waitpid` says "still running" — and the handle is `Finished(s)` afterwards. -/
theorem c09_truth (op : Op) (pid : Nat) (det : Bool) (rs : List Resp) (s : ExitStatus)
    (h : (runOp op ⟨.running pid, det⟩ rs).ret = .status s) :
    (runOp op ⟨.running pid, det⟩ rs).p.st = .finished s ∧
      ∃ e ∈ (runOp op ⟨.running pid, det⟩ rs).log, Justifies pid s e := by
  cases op with
  | poll =>
    simp only [runOp, poll] at h ⊢
    split at h
    · simp at h
    · exact waitTimeout_status pid det 0 rs s h
  | wait => exact osWait_status pid det rs s h
  | waitTimeout d => exact waitTimeout_status pid det d rs s h
  | terminate => simp only [runOp, sendSignal] at h; split at h <;> simp at h
  | kill => simp only [runOp, sendSignal] at h; split at h <;> simp at h
  | sendSignal g => simp only [runOp, sendSignal] at h; split at h <;> simp at h
  | detach => simp [runOp] at h
  | pid => simp [runOp] at h
  | exitStatus => simp [runOp] at h
  | drop => simp only [runOp] at h; split at h <;> simp at h

/-- **C09 (finality).**  Once the handle is `Finished(st)`, every operation sequence whatsoever
    returns `st` from every query (`poll`, `wait`, `wait_timeout`, `exit_status`), `None` from
    `pid()`, `Ok` from the signal senders, leaves the state `Finished(st)` and makes **no**
    system call at all. -/
theorem c09_finished_absorbing (st : ExitStatus) (ops : List Op) (det : Bool) (rs : List Resp) :
    (runOps ⟨.finished st, det⟩ ops rs).2.2 = [] ∧
    (runOps ⟨.finished st, det⟩ ops rs).2.1 = ops.map (retFin · st) ∧
    (runOps ⟨.finished st, det⟩ ops rs).1.st = .finished st := by
  induction ops generalizing det with
  | nil => simp [runOps]
  | cons op ops ih =>
    simp only [runOps, runOp_finished, List.map_cons, List.nil_append]
    obtain ⟨h1, h2, h3⟩ := ih (det || (op == .detach))
    exact ⟨h1, by rw [h2], h3⟩

/-- the state only moves forward: `Running{pid}` stays `Running{pid}` or becomes `Finished` -/
theorem c09_state_forward (op : Op) (pid : Nat) (det : Bool) (rs : List Resp) :
    (runOp op ⟨.running pid, det⟩ rs).p.st = .running pid ∨
      ∃ s, (runOp op ⟨.running pid, det⟩ rs).p.st = .finished s := by
  have hw := osWait_state pid det rs
  have ht : ∀ d, (waitTimeout ⟨.running pid, det⟩ d rs).p.st = .running pid ∨
      ∃ s, (waitTimeout ⟨.running pid, det⟩ d rs).p.st = .finished s := by
    intro d
    unfold waitTimeout
    cases rs with
    | nil => simp
    | cons r rs =>
      cases r <;> simp only [Out.pre] <;> (try (simp; done))
      rcases wtLoop_state pid det (_ + d) (1 * ms) rs with h | ⟨s, h⟩
      · left; rw [h]
      · right; exact ⟨s, by rw [h]⟩
  cases op with
  | poll =>
    simp only [runOp, poll]
    split <;> exact ht 0
  | wait =>
    simp only [runOp, wait]
    rcases hw with h | ⟨s, h⟩
    · left; rw [h]
    · right; exact ⟨s, by rw [h]⟩
  | waitTimeout d => exact ht d
  | terminate => simp only [runOp, sendSignal]; split <;> simp
  | kill => simp only [runOp, sendSignal]; split <;> simp
  | sendSignal g => simp only [runOp, sendSignal]; split <;> simp
  | detach => simp [runOp]
  | pid => simp [runOp]
  | exitStatus => simp [runOp]
  | drop =>
    simp only [runOp]
    cases det
    · simp only [wait]
      rcases hw with h | ⟨s, h⟩
      · left; rw [h]
      · right; exact ⟨s, by rw [h]⟩
    · simp

/-- **C09 (reaped by someone else).**  If the kernel answers `ECHILD`, the query returns
    `Undetermined` — not an error, and `wait` does not loop. -/
theorem c09_undetermined (pid : Nat) (det : Bool) (rs : List Resp) (t0 d : Nat) :
    (runOp .wait ⟨.running pid, det⟩ (.err ECHILD :: rs)).ret = .status .undetermined ∧
    (runOp .wait ⟨.running pid, det⟩ (.err ECHILD :: rs)).log.length = 1 ∧
    (runOp (.waitTimeout d) ⟨.running pid, det⟩ (.time t0 :: .err ECHILD :: rs)).ret = .status .undetermined ∧
    (runOp .poll ⟨.running pid, det⟩ (.time t0 :: .err ECHILD :: rs)).ret = .status .undetermined := by
  refine ⟨?_, ?_, ?_, ?_⟩ <;> simp [runOp, wait, osWait, waitTimeout, wtLoop, poll, Out.pre]

/-! ### Non-vacuity (tests, labelled as tests) -/
example : decode 0 = .exited 0 ∧ decode (256 * 255) = .exited 255 ∧ decode 9 = .signaled 9 ∧ decode (11 + 128) = .signaled 11 := by decide
-- a concrete history in which a status is reported by the third query and is final afterwards
example : (runOps ⟨.running 7, false⟩ [.poll, .poll, .wait, .poll, .terminate, .pid]
    [.time 5, .wp 0 0, .time 6, .time 7, .wp 0 0, .time 8, .wp 7 (256 * 3)]).2.1
    = [.none, .none, .status (.exited 3), .status (.exited 3), .ok, .none] := by decide

end Life

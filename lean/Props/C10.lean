import Proofs.Life
import Props.C09
/-!
# C10  Signals reach only the live child as requested, never after it was reaped

For every operation sequence and every list of operating-system answers.
-/
namespace Life

/-- the signal an operation is supposed to send -/
def opSignal : Op → Option Nat
  | .terminate => some SIGTERM
  | .kill => some SIGKILL
  | .sendSignal g => some g
  | _ => none

theorem waitTimeout_log_nokill (p : Popen) (d : Nat) (rs : List Resp) :
    ∀ e ∈ (waitTimeout p d rs).log, isKill e = false := by
  unfold waitTimeout
  cases hp : p.st with
  | finished st => simp
  | running pid =>
    cases rs with
    | nil => simp [isKill]
    | cons r rs =>
      cases r <;> simp only [Out.pre, List.mem_append, List.mem_singleton] <;> (try (simp [isKill]; done))
      rintro e (rfl | he)
      · rfl
      · rcases wtLoop_log pid p.detached _ (1 * ms) rs (by simp [ms]) e he with h | h | ⟨x, h, _⟩ <;>
          simp [isKill, h]

theorem wait_log_nokill (p : Popen) (rs : List Resp) : ∀ e ∈ (wait p rs).log, isKill e = false := by
  unfold wait
  cases hp : p.st with
  | finished st => simp
  | running pid =>
    intro e he
    have := osWait_log pid p.detached rs e he
    simp [isKill, this]

/-- **C10 (exactness).**  Every `kill` system call issued by any operation goes to the pid stored
    in the handle, carries exactly the signal the operation stands for (SIGTERM for `terminate`,
    SIGKILL for `kill`, the given number for `send_signal`), and an operation issues at most one. -/
theorem c10_exact (op : Op) (p : Popen) (rs : List Resp) :
    (∀ e ∈ (runOp op p rs).log, ∀ q g, e.1 = .kill q g → p.st = .running q ∧ opSignal op = some g) ∧
    ((runOp op p rs).log.filter isKill).length ≤ 1 := by
  have hs : ∀ g, (∀ e ∈ (sendSignal p g rs).log, ∀ q g', e.1 = .kill q g' → p.st = .running q ∧ some g = some g') ∧
      ((sendSignal p g rs).log.filter isKill).length ≤ 1 := by
    intro g
    unfold sendSignal
    cases hp : p.st with
    | finished st => simp
    | running pid =>
      cases rs with
      | nil => simp [List.filter, isKill]
      | cons r rs => cases r <;> simp [List.filter, isKill]
  have nk : ∀ (l : List (Call × Resp)), (∀ e ∈ l, isKill e = false) →
      (∀ e ∈ l, ∀ q g, e.1 = .kill q g → p.st = .running q ∧ opSignal op = some g) ∧ (l.filter isKill).length ≤ 1 := by
    intro l hl
    refine ⟨fun e he q g hk => ?_, ?_⟩
    · have := hl e he; simp [isKill, hk] at this
    · have : l.filter isKill = [] := List.filter_eq_nil_iff.mpr (fun e he => by simp [hl e he])
      simp [this]
  cases op with
  | poll =>
    apply nk
    simp only [runOp, poll]
    split <;> exact waitTimeout_log_nokill p 0 rs
  | wait => exact nk _ (wait_log_nokill p rs)
  | waitTimeout d => exact nk _ (waitTimeout_log_nokill p d rs)
  | terminate =>
    have := hs SIGTERM
    exact ⟨fun e he q g hk => ⟨(this.1 e he q g hk).1, by simpa [opSignal] using (this.1 e he q g hk).2⟩, this.2⟩
  | kill =>
    have := hs SIGKILL
    exact ⟨fun e he q g hk => ⟨(this.1 e he q g hk).1, by simpa [opSignal] using (this.1 e he q g hk).2⟩, this.2⟩
  | sendSignal g0 =>
    have := hs g0
    exact ⟨fun e he q g hk => ⟨(this.1 e he q g hk).1, by simpa [opSignal] using (this.1 e he q g hk).2⟩, this.2⟩
  | detach => simp [runOp]
  | pid => simp [runOp]
  | exitStatus => simp [runOp]
  | drop =>
    apply nk
    simp only [runOp]
    split
    · exact wait_log_nokill p rs
    · simp

/-- scan a call log: `true` iff no `kill` occurs after a reaping `waitpid` answer -/
def scan (pid : Nat) : Bool → List (Call × Resp) → Bool
  | _, [] => true
  | reaped, e :: l => (!(isKill e && reaped)) && scan pid (reaped || reapEntry pid e) l

theorem scan_append (pid : Nat) (b : Bool) (l1 l2 : List (Call × Resp)) :
    scan pid b (l1 ++ l2) = (scan pid b l1 && scan pid (b || l1.any (reapEntry pid)) l2) := by
  induction l1 generalizing b with
  | nil => simp [scan]
  | cons e l ih => simp [scan, ih, Bool.and_assoc, Bool.or_assoc]

theorem scan_true_of_nokill (pid : Nat) (b : Bool) (l : List (Call × Resp)) (h : ∀ e ∈ l, isKill e = false) :
    scan pid b l = true := by
  induction l generalizing b with
  | nil => rfl
  | cons e l ih =>
    simp only [scan, h e (by simp), Bool.false_and, Bool.not_false, Bool.true_and]
    exact ih _ (fun e he => h e (by simp [he]))

theorem scan_false_of_noreap_kills (pid : Nat) (l : List (Call × Resp)) (h : ∀ e ∈ l, reapEntry pid e = false) :
    scan pid false l = true := by
  induction l with
  | nil => rfl
  | cons e l ih =>
    simp only [scan, Bool.and_false, Bool.not_false, Bool.true_and, h e (by simp), Bool.or_false]
    exact ih (fun e he => h e (by simp [he]))

/-- per operation on a running child: its log is fine by itself, and if it contains a reaping
    answer the handle is `Finished` afterwards -/
theorem runOp_scan (op : Op) (pid : Nat) (det : Bool) (rs : List Resp) :
    scan pid false (runOp op ⟨.running pid, det⟩ rs).log = true ∧
    ((runOp op ⟨.running pid, det⟩ rs).log.any (reapEntry pid) = true →
      ∃ s, (runOp op ⟨.running pid, det⟩ rs).p.st = .finished s) := by
  have hw : ∀ e ∈ (wait ⟨.running pid, det⟩ rs).log, reapEntry pid e = true →
      ∃ s, (wait ⟨.running pid, det⟩ rs).p.st = .finished s := osWait_reap pid det rs
  have ht : ∀ d, ∀ e ∈ (waitTimeout ⟨.running pid, det⟩ d rs).log, reapEntry pid e = true →
      ∃ s, (waitTimeout ⟨.running pid, det⟩ d rs).p.st = .finished s := by
    intro d
    unfold waitTimeout
    cases rs with
    | nil => simp [reapEntry]
    | cons r rs =>
      cases r <;> simp only [Out.pre, List.mem_append, List.mem_singleton] <;> (try (simp [reapEntry]; done))
      rintro e (rfl | he) hr
      · simp [reapEntry] at hr
      · exact wtLoop_reap pid det _ _ rs e he hr
  have hsig : ∀ g, scan pid false (sendSignal ⟨.running pid, det⟩ g rs).log = true ∧
      ((sendSignal ⟨.running pid, det⟩ g rs).log.any (reapEntry pid) = true →
        ∃ s, (sendSignal ⟨.running pid, det⟩ g rs).p.st = .finished s) := by
    intro g
    unfold sendSignal
    cases rs with
    | nil => simp [scan, reapEntry, isKill]
    | cons r rs => cases r <;> simp [scan, reapEntry, isKill]
  have fromAny : ∀ (o : Out), (∀ e ∈ o.log, reapEntry pid e = true → ∃ s, o.p.st = .finished s) →
      (o.log.any (reapEntry pid) = true → ∃ s, o.p.st = .finished s) := by
    intro o h ha
    obtain ⟨e, he, hr⟩ := List.any_eq_true.mp ha
    exact h e he hr
  cases op with
  | poll =>
    simp only [runOp, poll]
    split
    · exact ⟨scan_true_of_nokill _ _ _ (waitTimeout_log_nokill _ 0 rs), fromAny ⟨_, _, _, _⟩ (ht 0)⟩
    · exact ⟨scan_true_of_nokill _ _ _ (waitTimeout_log_nokill _ 0 rs), fromAny _ (ht 0)⟩
  | wait => exact ⟨scan_true_of_nokill _ _ _ (wait_log_nokill _ rs), fromAny _ hw⟩
  | waitTimeout d => exact ⟨scan_true_of_nokill _ _ _ (waitTimeout_log_nokill _ d rs), fromAny _ (ht d)⟩
  | terminate => exact hsig SIGTERM
  | kill => exact hsig SIGKILL
  | sendSignal g => exact hsig g
  | detach => simp [runOp, scan]
  | pid => simp [runOp, scan]
  | exitStatus => simp [runOp, scan]
  | drop =>
    simp only [runOp]
    cases det
    · exact ⟨scan_true_of_nokill _ _ _ (wait_log_nokill _ rs), fromAny ⟨_, _, _, _⟩ hw⟩
    · simp [scan]

/-- **C10 (never after the reap).**  In the call log of any operation sequence on a handle that
    starts `Running{pid}`, no `kill` occurs after a `waitpid` answer that carried the pid (the reap)
    or said `ECHILD` — so with A5 (a pid is recycled only after it was reaped) no signal can ever
    hit a recycled pid; `drop` never signals. -/
theorem c10_never_after_reap (pid : Nat) (det : Bool) (ops : List Op) (rs : List Resp) :
    scan pid false (runOps ⟨.running pid, det⟩ ops rs).2.2 = true := by
  induction ops generalizing det rs with
  | nil => simp [runOps, scan]
  | cons op ops ih =>
    simp only [runOps, scan_append, Bool.false_or, Bool.and_eq_true]
    obtain ⟨h1, h2⟩ := runOp_scan op pid det rs
    refine ⟨h1, ?_⟩
    rcases c09_state_forward op pid det rs with hst | ⟨s, hst⟩
    · -- still running: nothing was reaped in this operation's log
      have hnr : (runOp op ⟨.running pid, det⟩ rs).log.any (reapEntry pid) = false := by
        cases hb : (runOp op ⟨.running pid, det⟩ rs).log.any (reapEntry pid) with
        | false => rfl
        | true => obtain ⟨s, hs⟩ := h2 hb; rw [hst] at hs; cases hs
      rw [hnr]
      have hp : (runOp op ⟨.running pid, det⟩ rs).p = ⟨.running pid, (runOp op ⟨.running pid, det⟩ rs).p.detached⟩ := by
        cases hh : (runOp op ⟨.running pid, det⟩ rs).p with
        | mk st d => rw [hh] at hst; simp only at hst; subst hst; rfl
      rw [hp]
      exact ih _ _
    · -- finished: no further system call at all
      have hp : (runOp op ⟨.running pid, det⟩ rs).p = ⟨.finished s, (runOp op ⟨.running pid, det⟩ rs).p.detached⟩ := by
        cases hh : (runOp op ⟨.running pid, det⟩ rs).p with
        | mk st d => rw [hh] at hst; simp only at hst; subst hst; rfl
      rw [hp, (c09_finished_absorbing s ops _ _).1]
      rfl

/-- after the termination has been observed the signal senders return success and send nothing -/
theorem c10_after_finished (st : ExitStatus) (det : Bool) (g : Nat) (rs : List Resp) :
    (runOp .terminate ⟨.finished st, det⟩ rs).ret = .ok ∧ (runOp .terminate ⟨.finished st, det⟩ rs).log = [] ∧
    (runOp .kill ⟨.finished st, det⟩ rs).ret = .ok ∧ (runOp .kill ⟨.finished st, det⟩ rs).log = [] ∧
    (runOp (.sendSignal g) ⟨.finished st, det⟩ rs).ret = .ok ∧ (runOp (.sendSignal g) ⟨.finished st, det⟩ rs).log = [] := by
  simp [runOp_finished, retFin]

/-! ### Non-vacuity (tests, labelled as tests) -/
-- the scanner does reject a signal after the reap …
example : scan 7 false [(.waitpid 7 true, .wp 7 0), (.kill 7 15, .ok)] = false := by decide
-- … and a live child does get exactly the requested signal
example : (runOp .terminate ⟨.running 7, false⟩ [.ok]).log = [(.kill 7 15, .ok)] := by decide
example : (runOps ⟨.running 7, false⟩ [.kill, .wait, .kill, .terminate] [.ok, .wp 7 9]).2.2
    = [(.kill 7 9, .ok), (.waitpid 7 false, .wp 7 9)] := by decide

end Life

import Proofs.Pipeline
/-!
# C12  Handles clean up after themselves: no zombies, no self-inflicted drop hang

Model: `Pipe.run` (Model/Pipeline.lean): for every terminator of `Exec` (n = 1) and `Pipeline`
(n ≥ 2) the parent's pipe creations, starts, closes and waits, including `Popen::drop` (release own
ends, then wait unless detached or already waited for), the adapters' `Drop`, and the order in which
`join` / `capture` wait.  "No zombie" is: every non-detached command is waited for exactly once
before the handle is gone (a wait reaps).  "No self-inflicted hang" is stated as what the parent
controls: at every wait of an adapter's drop it holds no pipe end at all, so a command that ends at
end-of-file on stdin or on a broken output pipe cannot be kept alive by the parent.  The kernel's
EOF / SIGPIPE behaviour and the children are outside the model (real runs with unbounded writers,
`cat`, early exits and a watchdog cover them).
-/
namespace Pipe

theorem count_filter_range (p : Nat → Bool) (n j : Nat) :
    ((List.range n).filter p).count j = if j < n ∧ p j = true then 1 else 0 := by
  induction n with
  | zero => simp
  | succ n ih =>
    rw [List.range_succ, List.filter_append, List.count_append, ih]
    by_cases hj : j = n
    · subst hj
      cases hp : p j <;> simp [hp]
    · have hne : ¬ n = j := fun h => hj h.symm
      have hlt : (j < n + 1) ↔ (j < n) := by omega
      by_cases hp : p n = true <;> simp [hp, hne, hlt]

/-- the waits of a successful run, per terminator -/
theorem waits_ok (c0 : Cfg) (t : Term) (h : AllStart c0) :
    (run c0 t).filterMap waitIdx =
      match t with
      | .join => (c0.n - 1) :: (List.range c0.n).filter (fun j => !(effective c0 t).det j && !decide (j = c0.n - 1))
      | .capture =>
        -- a failed exchange returns before the explicit wait: the Popens' own drops do the waiting
        if c0.ioFails then (List.range c0.n).filter (fun j => !(effective c0 t).det j)
        else (c0.n - 1) :: (List.range c0.n).filter (fun j => !(effective c0 t).det j && !decide (j = c0.n - 1))
      | _ => (List.range c0.n).filter (fun j => !(effective c0 t).det j) := by
  have hn := effective_n c0 t
  have hio : (effective c0 t).ioFails = c0.ioFails := by
    cases t <;> simp only [effective] <;> (repeat' split) <;> rfl
  have w_closes : ∀ es : List End, (es.map Act.close).filterMap waitIdx = [] :=
    fun es => filterMap_closes waitIdx (by simp [waitIdx]) es
  have s9 : ∀ a b c, List.filterMap waitIdx [Act.mk a b c] = [] := fun _ _ _ => rfl
  have s10 : ∀ e, List.filterMap waitIdx [Act.close e] = [] := fun _ => rfl
  have s11 : List.filterMap waitIdx [Act.io] = [] := rfl
  have s12 : ∀ j, List.filterMap waitIdx [Act.waitRet j] = [j] := fun _ => rfl
  have s13 : ∀ b, List.filterMap waitIdx [Act.ret b] = [] := fun _ => rfl
  have s14 : List.filterMap waitIdx [Act.ret true, Act.user] = [] := rfl
  have s15 : ∀ e, List.filterMap waitIdx [Act.ret true, Act.user, Act.close e] = [] := fun _ => rfl
  unfold run
  rw [runEff_ok _ t (effective_allStart c0 t h)]
  simp only [List.filterMap_append, waits_stages]
  cases t <;> (try (cases hc : c0.ioFails)) <;>
    simp only [tail, hio, *, Bool.false_eq_true, if_true, if_false, List.filterMap_append, waits_dropVec, w_closes, s11, s12,
      s13, s14, s15, hn, List.nil_append, List.append_nil] <;>
    cases capPipe (effective c0 _) _ <;> simp [s9, s10, noneWaited]

/-- **C12 (no zombies).**  When all commands start, then by the time the terminator has returned and
    the handle it returned has been dropped, every command that is not detached has been waited
    for exactly once -- for `popen`, `join`, `capture` and the three stream adapters, of single
    commands and of pipelines of any length. -/
theorem c12_every_child_reaped_once (c0 : Cfg) (t : Term) (h : AllStart c0) (j : Nat) (hj : j < c0.n)
    (hd : (effective c0 t).det j = false) : ((run c0 t).filterMap waitIdx).count j = 1 := by
  rw [waits_ok c0 t h]
  cases t <;> (try (cases hc : c0.ioFails)) <;>
    simp only [Bool.false_eq_true, if_true, if_false, List.count_cons, count_filter_range] <;>
    (try by_cases hl : j = c0.n - 1) <;> simp_all <;> omega

/-- **C12 (dropping a detached Popen never reaps).**  A detached command is never waited for by
    `popen` and the stream adapters (`join`/`capture` wait explicitly for the last command only). -/
theorem c12_detached_never_waited (c0 : Cfg) (t : Term) (h : AllStart c0)
    (ht : t = .popen ∨ t = .streamStdout ∨ t = .streamStderr ∨ t = .streamStdin) (j : Nat)
    (hd : c0.det j = true) : ((run c0 t).filterMap waitIdx).count j = 0 := by
  rw [waits_ok c0 t h]
  have hdet : (effective c0 t).det j = true := by
    rcases ht with rfl | rfl | rfl | rfl <;> simpa [effective] using hd
  rcases ht with rfl | rfl | rfl | rfl <;> simp only [count_filter_range] <;> simp_all

/-- `communicate` detaches everything: it never waits -/
theorem c12_communicate_never_waits (c0 : Cfg) (h : AllStart c0) : (run c0 .communicate).filterMap waitIdx = [] := by
  rw [waits_ok c0 .communicate h]
  have hd : ∀ j, (effective c0 .communicate).det j = true := by
    intro j; simp only [effective]; (repeat' split) <;> rfl
  simp [hd]

theorem heldStages_cases (c : Cfg) (e : End) (hn : 0 < c.n) (h : heldStages c Held.empty c.n e ≠ none) :
    (e = ⟨1, .w⟩ ∧ hasInPipe c = true) ∨ (e = ⟨2 + (c.n - 1), .r⟩ ∧ hasOutPipe c (c.n - 1) = true) ∨
    (hasErrPipe c = true ∧ e = ⟨0, .r⟩) := by
  have : ¬ c.n = 0 := by omega
  simp only [heldStages, this, if_false] at h
  by_cases h1 : e = ⟨1, .w⟩ ∧ hasInPipe c = true
  · exact Or.inl h1
  · by_cases h2 : e = ⟨2 + (c.n - 1), .r⟩ ∧ hasOutPipe c (c.n - 1) = true
    · exact Or.inr (Or.inl h2)
    · by_cases h3 : hasErrPipe c = true ∧ e = ⟨0, .r⟩
      · exact Or.inr (Or.inr h3)
      · simp [h1, h2, h3, Held.empty] at h

/-- **C12 (dropping a stream adapter never deadlocks on that very pipe -- nor on any other).**
    For `stream_stdout`, `stream_stderr` and `stream_stdin` of a single command, and `stream_stdout` /
    `stream_stdin` of a pipeline of any length: at every wait performed by the drop of the adapter
    the parent holds no pipe end whatsoever -- the adapter's own end and every other end the handle
    owned were released first.  (For `stream_stdin` of a pipeline the pipeline's stdout must not itself
    be `Pipe`, a configuration in which the caller could never read that output.) -/
theorem c12_adapter_drop_holds_nothing (c0 : Cfg) (t : Term) (h : AllStart c0) (hn : 0 < c0.n)
    (ht : t = .streamStdout ∨ (t = .streamStderr ∧ c0.n = 1) ∨ (t = .streamStdin ∧ (c0.n = 1 ∨ c0.sout ≠ .pipe))) :
    WaitsUnder (fun h => ∀ e, h e = none) Held.empty (run c0 t) := by
  have hA := effective_allStart c0 t h
  have hnn := effective_n c0 t
  have hn' : 0 < (effective c0 t).n := by omega
  have inp : ∀ c : Cfg, hasInPipe c = true → (⟨1, .w⟩ : End) ∈ popenEnds c 0 := by
    intro c hi; simp [popenEnds, hi]
  have errp : ∀ c : Cfg, hasErrPipe c = true → (⟨0, .r⟩ : End) ∈ popenEnds c 0 := by
    intro c hi; simp [popenEnds, hi]
  have outp : ∀ c : Cfg, c.n = 1 → hasOutPipe c 0 = true → (⟨2, .r⟩ : End) ∈ popenEnds c 0 := by
    intro c h1 ho; simp [popenEnds, h1, ho]
  unfold run
  rcases ht with rfl | ⟨rfl, h1⟩ | ⟨rfl, h1⟩
  · apply drop_waits_nothing_held _ _ hA (by simp [capPipe]) [⟨2 + ((effective c0 .streamStdout).n - 1), .r⟩] (by simp [tail])
    intro e he
    rcases heldStages_cases _ e hn' he with ⟨rfl, hi⟩ | ⟨rfl, _⟩ | ⟨hE, rfl⟩
    · exact Or.inr (inp _ hi)
    · exact Or.inl (by simp)
    · exact Or.inr (errp _ hE)
  · apply drop_waits_nothing_held _ _ hA (by simp [capPipe]) [] (by simp [tail])
    intro e he
    have hn1 : (effective c0 .streamStderr).n = 1 := by omega
    rcases heldStages_cases _ e hn' he with ⟨rfl, hi⟩ | ⟨rfl, ho⟩ | ⟨hE, rfl⟩
    · exact Or.inr (inp _ hi)
    · rw [hn1] at ho ⊢; exact Or.inr (outp _ hn1 ho)
    · exact Or.inr (errp _ hE)
  · apply drop_waits_nothing_held _ _ hA (by simp [capPipe]) [⟨1, .w⟩] (by simp [tail])
    intro e he
    rcases heldStages_cases _ e hn' he with ⟨rfl, hi⟩ | ⟨rfl, ho⟩ | ⟨hE, rfl⟩
    · exact Or.inl (by simp)
    · rcases h1 with h1 | h1
      · have hn1 : (effective c0 .streamStdin).n = 1 := by omega
        rw [hn1] at ho ⊢; exact Or.inr (outp _ hn1 ho)
      · exfalso
        have : (effective c0 .streamStdin).sout = c0.sout := by simp [effective]
        simp [hasOutPipe, this, h1] at ho
        omega
    · exact Or.inr (errp _ hE)

/-- **C12 (`capture` never waits for a command while holding one of its pipes -- whether the exchange
    succeeded or failed).**  The Communicator -- with the read ends of the output pipes and, when the
    exchange failed before the input was through, the stdin write end -- is released right after the
    exchange, so every wait of `capture` (the explicit one for the last command and those of the
    `Popen`s' drops, on the error path only the latter) happens with nothing held: a command that went on
    writing after it had closed its stdin gets SIGPIPE instead of blocking on a pipe its own waiter keeps
    open (defect F13 of the original code: `capture()` never returned for such a command). -/
theorem c12_capture_holds_nothing_at_waits (c0 : Cfg) (h : AllStart c0) (hn : 0 < c0.n) :
    WaitsUnder (fun h => ∀ e, h e = none) Held.empty (run c0 .capture) := by
  unfold run
  have hA := effective_allStart c0 .capture h
  have hn' : 0 < (effective c0 .capture).n := by rw [effective_n]; exact hn
  generalize effective c0 .capture = c at hA hn'
  rw [runEff_ok c .capture hA]
  have h0p : ∀ e : End, 1 ≤ e.pipe → capHeld (capPipe c .capture) e = none := by
    intro e he; simp [capHeld]; omega
  have h0e : hasErrPipe c = true → ∀ e, capHeld (capPipe c .capture) e = none := by
    intro h e; simp [capHeld, capPipe_errPipe c .capture h]
  rw [waitsUnder_append, waitsUnder_append, waitsUnder_append]
  refine ⟨⟨⟨?_, ?_⟩, ?_⟩, ?_⟩
  · exact waitsUnder_optAct _ _ _ _ (by simp)
  · exact waitsUnder_noWait _ _ _ (noWait_flatMap _ _ (noWait_stageOk c _))
  · exact waitsUnder_optAct _ _ _ _ (by simp)
  simp only [heldAfter_append, capHeld_pre, stages_held c (att2 c .capture) _ c.n (Nat.le_refl _) h0p h0e, relW_heldStages]
  generalize hH : heldStages c (capHeldR (capPipe c .capture)) c.n = H
  have hcases := fun e (he : H e ≠ none) =>
    heldStagesR_cases c (capPipe c .capture) e hn' (fun h => capPipe_errPipe c .capture h) (by rw [hH]; exact he)
  -- once the Communicator is gone nothing is held
  have hempty : heldAfter H ([Act.io] ++ (commEnds c .capture).map Act.close) = fun _ => none := by
    rw [heldAfter_append, heldAfter_closes]
    funext e
    simp only [heldAfter_cons, heldAfter_nil, stepHeld]
    cases hHe : H e with
    | none => simp
    | some b =>
      rcases hcases e (by simp [hHe]) with ⟨rfl, hi⟩ | ⟨rfl, ho⟩ | ⟨rfl, hE⟩
      · simp [commEnds, commWriteEnds, hi]
      · simp [commEnds, commReadEnds, ho]
      · have : (capPipe c .capture || hasErrPipe c) = true := by rcases hE with hE | hE <;> simp [hE]
        simp [commEnds, commReadEnds, this]
  have hdrop : ∀ w, WaitsUnder (fun h => ∀ e, h e = none) (fun _ => none) (dropVec c (commEnds c .capture) w c.n) := by
    intro w
    apply dropVec_waits
    intro j _ _ e
    simp
  by_cases hio : c.ioFails = true
  · simp only [tail, hio, if_true]
    rw [waitsUnder_append, waitsUnder_append, hempty]
    refine ⟨⟨waitsUnder_noWait _ _ _ ?_, hdrop _⟩, by simp [WaitsUnder]⟩
    intro a ha
    simp only [List.mem_append, List.mem_singleton, List.mem_map] at ha
    rcases ha with rfl | ⟨e, _, rfl⟩ <;> simp
  · simp only [tail, hio, Bool.false_eq_true, if_false]
    rw [waitsUnder_append, waitsUnder_append, waitsUnder_append, hempty]
    refine ⟨⟨⟨waitsUnder_noWait _ _ _ ?_, by simp [WaitsUnder]⟩, ?_⟩, by simp [WaitsUnder]⟩
    · intro a ha
      simp only [List.mem_append, List.mem_singleton, List.mem_map] at ha
      rcases ha with rfl | ⟨e, _, rfl⟩ <;> simp
    · rw [heldAfter_append, hempty]
      simp only [heldAfter_cons, heldAfter_nil, stepHeld]
      exact hdrop _

/-- the same for a plain `Popen` of a single command: `Popen::drop` releases its pipe ends before it waits -/
theorem c12_popen_drop_holds_nothing (c0 : Cfg) (h : AllStart c0) (hn : c0.n = 1) :
    WaitsUnder (fun h => ∀ e, h e = none) Held.empty (run c0 .popen) := by
  have hA := effective_allStart c0 .popen h
  have hn1 : (effective c0 .popen).n = 1 := by rw [effective_n]; exact hn
  unfold run
  apply drop_waits_nothing_held _ _ hA (by simp [capPipe]) [] (by simp [tail])
  intro e he
  rcases heldStages_cases _ e (by omega) he with ⟨rfl, hi⟩ | ⟨rfl, ho⟩ | ⟨hE, rfl⟩
  · exact Or.inr (by simp [popenEnds, hi])
  · rw [hn1] at ho ⊢; exact Or.inr (by simp [popenEnds, hn1, ho])
  · exact Or.inr (by simp [popenEnds, hE])

/-- **C12 (nothing is left open).**  When all commands start, then after the terminator has returned and the
    handle it returned has been dropped the parent holds none of the pipe ends the library created -- for every
    terminator, every length and every stream configuration (the partial-start case is `c14_partial_start_cleans_up`). -/
theorem c12_nothing_left_open (c0 : Cfg) (t : Term) (h : AllStart c0) (hn : 0 < c0.n) :
    heldAfter Held.empty (run c0 t) = Held.empty := by
  unfold run
  exact ok_final_empty _ t (effective_allStart c0 t h) (by rw [effective_n]; exact hn)

/-! Non-vacuity (tests, labelled as tests) -/
example : (run { n := 3, det := fun j => j = 1, sin := .inherit, sout := .inherit, serr := .inherit, errTo := false,
                 failAt := none } .streamStdout).filterMap waitIdx = [0, 2] := by decide
example : AllStart { n := 3, det := fun j => j = 1, sin := .inherit, sout := .inherit, serr := .inherit, errTo := false,
                     failAt := none } := Or.inl rfl

end Pipe

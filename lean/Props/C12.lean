import Model.Pipeline
namespace Pipe
theorem c12_placeholder : stepHeld Held.empty .io = Held.empty := rfl
end Pipe

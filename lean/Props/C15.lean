import Proofs.Path
/-!
# C15  Program lookup follows PATH order and never runs something else

Pure model (`Model/Path.lean`); the file-system answers are an arbitrary function
`fs : path → Option errno`, so every placement of executable / non-executable / missing candidates is
covered.  The candidate list and the attempt order are tied to the paths seen by the intercepted
`execve`/`execv` of the forked child on every run.
-/
namespace Path

/-- `split_path` = split at every colon, drop the empty pieces — for every byte string -/
theorem splitPath_spec (p : List Nat) : splitPath p = (splitAll p []).filter (· ≠ []) :=
  splitGo_spec p []

/-- **C15 (no search for a name with a slash; same rule for an explicit executable).** -/
theorem c15_slash_no_search (cmd : List Nat) (path : Option (List Nat)) (h : SLASH ∈ cmd) :
    candidates cmd path = [cmd] ∧ (execSearch fs cmd path).2 = [cmd] := by
  have hs : searchPath cmd path = none := by
    unfold searchPath
    have : cmd.any (· == SLASH) = true := by simp [List.any_eq_true]; exact h
    simp [this]
  refine ⟨by simp [candidates, hs], ?_⟩
  simp only [execSearch, candidates, hs, searchGo]
  cases fs cmd <;> simp [searchGo]

/-- the candidates are the non-empty PATH entries, in order, each joined with the name -/
theorem c15_candidates_in_path_order (cmd p : List Nat) (h : ¬ SLASH ∈ cmd) (hp : p ≠ []) :
    candidates cmd (some p) = ((splitAll p []).filter (· ≠ [])).map (fun d => d ++ [SLASH] ++ cmd) := by
  have hs : searchPath cmd (some p) = some p := by
    unfold searchPath
    have : cmd.any (· == SLASH) = false := by
      cases hb : cmd.any (· == SLASH) with
      | false => rfl
      | true => simp [List.any_eq_true] at hb; exact absurd hb h
    simp [this, hp]
  simp [candidates, hs, splitPath_spec]

/-- **C15 (first startable candidate runs, earlier ones were tried in order, nothing after it).** -/
theorem c15_first_startable (fs : List Nat → Option Nat) (cs : List (List Nat)) (e : Nat) (c : List Nat) :
    (searchGo fs cs e).1 = .ran c ↔
      ∃ pre post, cs = pre ++ c :: post ∧ (∀ x ∈ pre, fs x ≠ none) ∧ fs c = none ∧ (searchGo fs cs e).2 = pre ++ [c] := by
  induction cs generalizing e with
  | nil => simp [searchGo]
  | cons x xs ih =>
    simp only [searchGo]
    cases hx : fs x with
    | none =>
      simp only [ExecRes.ran.injEq]
      constructor
      · rintro rfl; exact ⟨[], xs, rfl, by simp, hx, rfl⟩
      · rintro ⟨pre, post, hcs, hpre, _, hatt⟩
        cases pre with
        | nil => simp at hcs; exact hcs.1
        | cons y ys =>
          simp only [List.cons_append, List.cons.injEq] at hcs
          exact absurd hx (hcs.1 ▸ hpre y (by simp))
    | some e' =>
      simp only
      rw [ih e']
      constructor
      · rintro ⟨pre, post, hcs, hpre, hc, hatt⟩
        refine ⟨x :: pre, post, by simp [hcs], ?_, hc, by simp [hatt]⟩
        intro y hy; simp only [List.mem_cons] at hy
        rcases hy with rfl | hy
        · rw [hx]; simp
        · exact hpre y hy
      · rintro ⟨pre, post, hcs, hpre, hc, hatt⟩
        cases pre with
        | nil =>
          simp only [List.nil_append, List.cons.injEq] at hcs
          rw [← hcs.1, hx] at hc; cases hc
        | cons y ys =>
          simp only [List.cons_append, List.cons.injEq] at hcs hatt
          exact ⟨ys, post, hcs.2, fun z hz => hpre z (by simp [hz]), hc, hatt.2⟩

/-- **C15 (nothing startable ⇒ an OS error, never Ok).**  If no candidate can be started the
    result is an error: the errno of the last attempt, or `ENOENT` when there is no candidate at
    all (PATH consisting only of empty entries — defect F2 of the original code); every candidate
    was attempted, in order. -/
theorem c15_none_startable (fs : List Nat → Option Nat) (cs : List (List Nat)) (e : Nat)
    (h : ∀ c ∈ cs, fs c ≠ none) :
    (searchGo fs cs e).2 = cs ∧
    (searchGo fs cs e).1 = .err (match cs.getLast? with | some c => (fs c).getD e | none => e) := by
  induction cs generalizing e with
  | nil => simp [searchGo]
  | cons x xs ih =>
    simp only [searchGo]
    cases hx : fs x with
    | none => exact absurd hx (h x (by simp))
    | some e' =>
      obtain ⟨h1, h2⟩ := ih e' (fun c hc => h c (by simp [hc]))
      refine ⟨by simp [h1], ?_⟩
      simp only [h2]
      cases xs with
      | nil => simp [hx]
      | cons y ys =>
        simp only [List.getLast?_cons_cons]
        cases hl : (y :: ys).getLast? with
        | none => simp at hl
        | some c =>
          have hc : c ∈ x :: y :: ys := List.mem_cons_of_mem _ (List.mem_of_getLast? hl)
          cases hfc : fs c with
          | none => exact absurd hfc (h c hc)
          | some v => simp [hfc]

/-! ### Non-vacuity (tests, labelled as tests) -/
def s (x : String) : List Nat := x.toList.map Char.toNat
example : splitPath (s ":a::::b:") = [s "a", s "b"] := by decide
example : splitPath (s ":::") = [] := by decide
example : candidates (s "ls") (some (s "/x::/bin")) = [s "/x/ls", s "/bin/ls"] := by decide
example : (execSearch (fun c => if c = s "/bin/ls" then none else some 13) (s "ls") (some (s "/x:/bin:/y"))) =
    (.ran (s "/bin/ls"), [s "/x/ls", s "/bin/ls"]) := by decide
example : (execSearch (fun _ => some 13) (s "ls") (some (s ":"))).1 = .err ENOENT := by decide

end Path

import Proofs.Spawn
/-!
# C18  Children start with a clean signal state regardless of the parent

The child-side call sequence of the spawn model, interpreted over a signal state (mask of the
thread, disposition of SIGPIPE).  By A4 `exec` keeps the mask and ignored/default dispositions, so
the state at the `exec` call is the state the program starts with.
-/
namespace Spawn

structure SigState where
  mask : List Nat          -- blocked signals
  sigpipeDefault : Bool
  deriving DecidableEq, Repr

/-- effect of a successful child-side call on the signal state: `pthread_sigmask(SIG_SETMASK, ∅)`
    empties the mask, `signal(SIGPIPE, SIG_DFL)` restores the default action, nothing else touches it -/
def sigStep (st : SigState) : SCall → SigState
  | .sigmask => { st with mask := [] }
  | .signal => { st with sigpipeDefault := true }
  | _ => st

/-- **C18.**  For every configuration, every descriptor layout and every initial signal state of
    the forked child (= the spawning thread's mask and the parent's SIGPIPE disposition), once all
    the steps before `exec` have succeeded the mask is empty and SIGPIPE has its default action. -/
theorem c18_clean (c : Cfg) (p : Pipes) (sr : Nat) (st : SigState) :
    (childSteps c p sr).foldl sigStep st = { mask := [], sigpipeDefault := true } := by
  have hq : ∀ (l : List SCall) (st : SigState), (∀ x ∈ l, x ≠ .sigmask ∧ x ≠ .signal) → l.foldl sigStep st = st := by
    intro l
    induction l with
    | nil => intro st _; rfl
    | cons x xs ih =>
      intro st h
      have hx := h x (by simp)
      have : sigStep st x = st := by cases x <;> simp_all [sigStep]
      simp only [List.foldl_cons, this]
      exact ih st (fun y hy => h y (by simp [hy]))
  have hdup : ∀ i e later, ∀ x ∈ dupStep i e later, x ≠ .sigmask ∧ x ≠ .signal := by
    intro i e later x hx
    unfold dupStep at hx
    cases e <;> simp at hx <;> (repeat' split at hx) <;> (try simp_all)
    rcases hx with ⟨_, rfl⟩ | ⟨_, rfl⟩ <;> simp
  unfold childSteps
  simp only [List.foldl_append]
  rw [hq [.close sr] st (by simp)]
  rw [hq (if c.cwd then [.chdir] else []) st (by split <;> simp)]
  rw [hq _ st (hdup 0 _ _), hq _ st (hdup 1 _ _), hq _ st (hdup 2 _ _)]
  simp only [List.foldl_cons, List.foldl_nil, sigStep]
  rw [hq _ _ (by cases c.gid <;> simp), hq _ _ (by cases c.uid <;> simp), hq _ _ (by split <;> simp)]

/-- the program is started only after every one of these steps succeeded: a run that ends with
    `exec` having started (`none`) has executed the whole sequence -/
theorem c18_exec_only_after_reset (c : Cfg) (p : Pipes) (sr sw : Nat) (rs : List SResp)
    (h : (childRun c p sr sw rs).2 = none) :
    (runSteps (childSteps c p sr) rs).2.1 = none ∧ (runSteps (childSteps c p sr) rs).1 = childSteps c p sr := by
  unfold childRun at h
  have key : ∀ (l : List SCall) (rs : List SResp), (runSteps l rs).2.1 = none → (runSteps l rs).1 = l := by
    intro l
    induction l with
    | nil => intro rs _; simp [runSteps]
    | cons x xs ih =>
      intro rs h
      cases rs with
      | nil => simp [runSteps] at h
      | cons r rs => cases r <;> simp_all [runSteps]
  split at h
  · simp at h
  · rename_i calls rs' heq
    have h1 : (runSteps (childSteps c p sr) rs).2.1 = none := by rw [heq]
    exact ⟨h1, key _ _ h1⟩

/-! ### Non-vacuity (tests, labelled as tests) -/
example : (childSteps cfgP0 {} 3).foldl sigStep { mask := [13, 15, 17], sigpipeDefault := false }
    = { mask := [], sigpipeDefault := true } := c18_clean _ _ _ _
  where cfgP0 : Cfg := { sin := .none, sout := .none, serr := .none, detached := false, cwd := true, uid := some 5, gid := some 6,
                         pgid := true, argvEmpty := false, nul := false, ncand := 1 }

end Spawn

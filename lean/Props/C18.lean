namespace Placeholder
theorem placeholder_C18 : True := trivial
end Placeholder

namespace Placeholder
theorem placeholder_C08 : True := trivial
end Placeholder

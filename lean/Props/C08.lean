import Proofs.Spawn
/-!
# C08  No pipe end leaks into a child: end-of-file always propagates

Single spawning thread (the multi-thread window between `pipe()` and `fcntl()` is the known
finding `C08:concurrent-spawn-window`).  Theorems about `Spawn.parentRun`, for every configuration
and every list of operating-system answers.
-/
namespace Spawn

/-- **C08 (every library-created descriptor that survives in the parent is close-on-exec, and was
    made so before the fork).**  In the state in which the pre-fork part ends — hence at the moment
    of the `fork` — the parent end of every stream pipe is among the descriptors on which
    `F_SETFD(old | FD_CLOEXEC)` was issued successfully, and so is every descriptor recorded as
    marked; nothing has been closed or waited for yet. -/
theorem c08_parent_ends_cloexec (c : Cfg) (rs : List SResp) :
    let A := acquireAll (stagesOf c) (s0 c) rs
    (∀ r w, A.s.pipes.pin = some (r, w) → w ∈ cloexecd A.s.calls) ∧
    (∀ r w, A.s.pipes.pout = some (r, w) → r ∈ cloexecd A.s.calls) ∧
    (∀ r w, A.s.pipes.perr = some (r, w) → r ∈ cloexecd A.s.calls) := by
  intro A
  obtain ⟨-, -, -, -, -, -, hm, h1, h2, h3, -⟩ := prefork_facts c rs
  exact ⟨fun r w h => hm _ (h1 r w h), fun r w h => hm _ (h2 r w h), fun r w h => hm _ (h3 r w h)⟩

/-- the status channel: once the status pipe exists, a run that gets past the two `cloexec` steps
    has marked both of its ends -/
theorem status_marked (s : AState) (rs : List SResp) (sr sw : Nat) (hs : s.status = some (sr, sw)) :
    (acquireAll [.cloexecStatusR, .cloexecStatusW] s rs).fail = none →
      sr ∈ (acquireAll [.cloexecStatusR, .cloexecStatusW] s rs).s.marked ∧
      sw ∈ (acquireAll [.cloexecStatusR, .cloexecStatusW] s rs).s.marked := by
  intro h
  simp only [acquireAll, acquire, hs] at h ⊢
  cases h1 : (cloexec sr rs).2.1 with
  | some e => simp [h1] at h
  | none =>
    simp only [h1, Option.map_none] at h ⊢
    cases h2 : (cloexec sw (cloexec sr rs).2.2).2.1 with
    | some e => simp [h2] at h
    | none => simp [h2]

/-- the child closes its copy of the status read end first of all, and releases every owned child
    end right after duplicating it onto 0/1/2 (see C05 for the resulting table) -/
theorem c08_child_closes_status_read (c : Cfg) (p : Pipes) (sr : Nat) :
    (childSteps c p sr).head? = some (.close sr) := by
  simp [childSteps]

theorem afterRead_prefix (c : Cfg) (s : AState) (calls : List SCall) (d : List SResp) :
    ∃ tail, (afterRead c s calls d).calls = calls ++ tail := by
  unfold afterRead
  split
  · exact ⟨_, rfl⟩
  · exact ⟨_, by simp only [List.append_assoc]; rfl⟩
  · exact ⟨_, by simp only [List.append_assoc]; rfl⟩
  · exact ⟨_, by simp only [List.append_assoc]; rfl⟩
  · exact ⟨[], by simp⟩

/-- the parent releases the child ends and the status write end right after the fork, before it
    reads the status: afterwards it holds no descriptor through which a child could be kept from
    seeing end-of-file, except the ends exposed in the `Popen` -/
theorem c08_parent_releases_child_ends (c : Cfg) (s : AState) (rs : List SResp) :
    ∀ f ∈ statusW s :: ownedEnds c s.pipes, f ∈ closedBy (afterFork c s rs).calls := by
  intro f hf
  unfold afterFork
  obtain ⟨tail, ht⟩ := afterRead_prefix c s
    (s.calls ++ closeAll (ownedEnds c s.pipes) ++ [.close (statusW s), .readStatus (statusR s)])
    (rs.drop ((ownedEnds c s.pipes).length + 1))
  rw [ht]
  simp only [closedBy_append, closedBy_closeAll, List.mem_append]
  simp only [List.mem_cons] at hf
  rcases hf with rfl | hf
  · left; right; simp [closedBy]
  · left; left; right; exact hf

/-- **C08 (released before the wait for the child's exec, not after it).**  The parent's call sequence after a
    successful fork is: everything up to the fork, then the closes of every child end, then the close of the status
    write end, and only then the read of the launch-status channel -- which lasts for the child's whole pre-exec
    phase.  While it waits there (and a spawn issued by another thread could fork), the child ends are gone. -/
theorem c08_released_before_status_read (c : Cfg) (s : AState) (rs : List SResp) :
    ∃ tail, (afterFork c s rs).calls =
      s.calls ++ closeAll (ownedEnds c s.pipes) ++ [.close (statusW s), .readStatus (statusR s)] ++ tail := by
  unfold afterFork
  exact afterRead_prefix c s _ _

/-! ### Non-vacuity (tests, labelled as tests) -/
def cfgP : Cfg := { sin := .pipe, sout := .none, serr := .none, detached := false, cwd := false, uid := none, gid := none,
                    pgid := false, argvEmpty := false, nul := false, ncand := 1 }
example : cloexecd (parentRun cfgP
    [.fds 3 4, .val 0, .ok, .val 0, .ok, .fds 5 6, .val 0, .ok, .ok, .ok, .ok, .nbytes 0 0, .ok]).calls = [3, 4, 6] := by decide

/-! ### Spawns issued from several threads: the window (recorded finding, not a theorem of absence)

`known_findings.json`, C08 `concurrent-spawn-window`.  The statement "whether it is spawned ...
concurrently with spawns on other threads" does **not** hold of this code, and the model shows why:
the descriptors of a launch's pipes are inheritable from the `pipe()` call until the `fcntl` that marks
the parent's end, and the child's end until this launch's own `fork` is over.  A `fork` issued by another
thread at such a point hands them to an unrelated child.  `window c rs k` computes, from the modelled
call sequence, what a fork issued after the first `k` calls would inherit; the harness reproduces every
such point deterministically on the real code (an unrelated launch is run right after the k-th `pipe()`). -/

/-- descriptors of this launch's pipes that a `fork` issued now -- by any thread -- would hand to its child -/
def inheritableAfter : List Nat → List (SCall × SResp) → List Nat
  | acc, [] => acc
  | acc, (.pipe, .fds r w) :: rest => inheritableAfter (acc ++ [r, w]) rest
  | acc, (.setfd fd fl, .ok) :: rest => inheritableAfter (if fl % 2 = 1 then acc.filter (· ≠ fd) else acc) rest
  | acc, (.close fd, _) :: rest => inheritableAfter (acc.filter (· ≠ fd)) rest
  | acc, _ :: rest => inheritableAfter acc rest

/-- the window after the first k calls of a launch (each call consumes one answer) -/
def window (c : Cfg) (rs : List SResp) (k : Nat) : List Nat :=
  inheritableAfter [] (((parentRun c rs).calls.zip rs).take k)

def rsP : List SResp := [.fds 3 4, .val 0, .ok, .val 0, .ok, .fds 5 6, .val 0, .ok, .ok, .ok, .ok, .nbytes 0 0, .ok]

/-- **the window is real** (model-level witness of the recorded finding): in a launch with a piped stdin,
    right after the stream's `pipe()` (call 6) and until the `fcntl` (call 8) both ends of the child's stdin
    pipe -- 6 is the end the parent keeps -- would be inherited by a child forked by another thread; the
    launch-status pipe has the same window (calls 1-4); at this launch's own fork only its child end is
    inheritable, and afterwards nothing. -/
theorem c08_concurrent_window_witness :
    (parentRun cfgP rsP).pipes.pin = some (5, 6) ∧
    (List.range 13).map (window cfgP rsP) = [[], [3, 4], [3, 4], [4], [4], [], [5, 6], [5, 6], [5], [5], [], [], []] := by
  decide

theorem execLoop_started_last (i n e0 : Nat) (rs : List SResp) (h : (execLoop i n e0 rs).2 = none) :
    ∃ k, (execLoop i n e0 rs).1.getLast? = some (.exec k) := by
  induction n generalizing i e0 rs with
  | zero => simp [execLoop] at h
  | succ n ih =>
    cases rs with
    | nil => simp [execLoop] at h
    | cons r rs =>
      cases r with
      | started => exact ⟨i, by simp [execLoop]⟩
      | err e' =>
        simp only [execLoop] at h ⊢
        obtain ⟨k, hk⟩ := ih (i + 1) e' rs h
        refine ⟨k, ?_⟩
        cases hl : (execLoop (i + 1) n e' rs).1 with
        | nil => rw [hl] at hk; simp at hk
        | cons x xs => rw [hl] at hk; simpa [List.getLast?_cons_cons] using hk
      | _ =>
        simp only [execLoop] at h ⊢
        obtain ⟨k, hk⟩ := ih (i + 1) e0 rs h
        refine ⟨k, ?_⟩
        cases hl : (execLoop (i + 1) n e0 rs).1 with
        | nil => rw [hl] at hk; simp at hk
        | cons x xs => rw [hl] at hk; simpa [List.getLast?_cons_cons] using hk

/-- **C08 (the forked child never comes back).**  Whatever the operating system answers to the
    child's steps, the child's own call sequence ends in one of exactly two ways: an `exec` that
    started the program, or `_exit(127)` after a failure.  There is no third way out — in
    particular no step whose failure lets the child *return* into the caller's code as a second
    copy of the calling program, where it would hold every descriptor the caller had at fork time
    (the parent's ends of all live pipes included) with close-on-exec never applying. -/
theorem c08_child_ends_in_exec_or_exit (c : Cfg) (p : Pipes) (sr sw : Nat) (rs : List SResp) :
    ((childRun c p sr sw rs).2 = none ∧ ∃ k, (childRun c p sr sw rs).1.getLast? = some (.exec k)) ∨
    ((childRun c p sr sw rs).2 ≠ none ∧ (childRun c p sr sw rs).1.getLast? = some (.exit 127)) := by
  unfold childRun
  split
  · right; simp
  · rename_i calls rs' heq
    split
    · rename_i ecalls heq2
      left
      have h := execLoop_started_last 0 c.ncand ENOENT rs' (by rw [heq2])
      rw [heq2] at h
      obtain ⟨k, hk⟩ := h
      refine ⟨rfl, k, ?_⟩
      cases ecalls with
      | nil => simp at hk
      | cons x xs => simpa [List.getLast?_append] using hk
    · right; simp

end Spawn

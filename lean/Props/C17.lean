import Proofs.Path
/-!
# C17  Nothing is allocated between fork and exec

The allocation-relevant facts of the child-side code, as a function of input sizes:
* `assemble_exe` truncates the pre-allocated buffer and appends `dir`, `/`, `cmd`, `NUL`:
  a `Vec` reallocates iff the new length exceeds its capacity, so the path assembly is
  allocation-free iff every candidate fits the capacity reserved by `PrepExec::new` before the fork
  (`c17_prealloc_suffices`);
* the working directory is converted to a C string before the fork (repair of defect F7), argv/envp
  C vectors are built by `prep_exec` before the fork; everything else on the child's path (`dup2`,
  `close`, `pthread_sigmask`, `signal`, `set*id`, the 4-byte status write from a stack array,
  `_exit`) does not allocate (A7).
The whole claim "no allocation event between fork and exec/_exit" is checked on the real code on
every run by a counting global allocator armed in the forked child.
-/
namespace Path

/-- **C17 (the pre-allocated buffer always suffices).**  For every command name and every PATH value
    — any number of entries, the longest first, last or only, empty entries, only-empty values, unset —
    every path that `assemble_exe` builds (with its trailing NUL) fits the capacity reserved before
    the fork, so the buffer is never grown in the child. -/
theorem c17_prealloc_suffices (cmd : List Nat) (path : Option (List Nat)) :
    ∀ c ∈ candidates cmd path, exeLen c ≤ prealloc cmd path := by
  intro c hc
  unfold candidates at hc
  unfold prealloc
  cases hs : searchPath cmd path with
  | none => simp [hs] at hc; subst hc; simp [exeLen]
  | some p =>
    simp only [hs, List.mem_map] at hc
    obtain ⟨d, hd, rfl⟩ := hc
    have := le_maxLen (splitPath p) d hd
    simp only [exeLen, List.length_append, List.length_cons, List.length_nil]
    omega

/-- the capacity is tight for the longest entry: nothing is over-reserved by more than the formula says -/
theorem c17_prealloc_formula (cmd p : List Nat) (hs : searchPath cmd (some p) = some p) :
    prealloc cmd (some p) = cmd.length + 2 + maxLen (splitPath p) := by
  simp [prealloc, hs]; omega

/-! ### Non-vacuity (tests, labelled as tests) -/
-- the longest entry last (the shape a hand-written "scan for ':'" gets wrong)
example : prealloc [112] (some [47, 58, 47, 97, 98, 99]) = 1 + 2 + 4 := by decide
example : ∀ c ∈ candidates [112] (some [47, 58, 47, 97, 98, 99]), exeLen c ≤ 7 := by decide

end Path

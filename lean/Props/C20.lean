import Proofs.WinArgv
/-!
# C20  Windows command-line assembly round-trips through Microsoft parsing rules

Property theorems only (helper lemmas live in `Proofs/WinArgv.lean`).
The model `WinArgv.assembleCmdline` is tied to the `cfg(windows)` source text of
`assemble_cmdline` / `append_quoted` by the extraction-based correspondence check (engine `win`).
-/
namespace WinArgv

/-- **C20 (arguments).**  For every argument vector (any length, any code units: empty arguments,
    spaces, tabs, newlines, quotes, backslash runs before quotes and at the end, non-ASCII) the
    assembled text parses back to exactly that vector, under both published variants of the `""`
    rule. -/
theorem c20_roundtrip_args (v : Variant) (args : List (List Nat)) :
    msParseArgs v (assembleArgs args) = args := by
  have := parse_args_acc v args []
  simpa [msParseArgs] using this

/-- the two parser variants cannot disagree on assembled text (the `""` rule is never hit) -/
theorem c20_no_double_quote_rule_hit (args : List (List Nat)) :
    msParseArgs .crt2008 (assembleArgs args) = msParseArgs .legacy (assembleArgs args) := by
  rw [c20_roundtrip_args, c20_roundtrip_args]

/-- **C20 (NUL).**  `assemble_cmdline` fails exactly when some argument contains a NUL unit, and
    otherwise returns the assembled text. -/
theorem c20_nul_rejected (argv : List (List Nat)) :
    (assembleCmdline argv = none ↔ ∃ a ∈ argv, 0 ∈ a) ∧
    ((¬ ∃ a ∈ argv, 0 ∈ a) → assembleCmdline argv = some (assembleArgs argv)) := by
  unfold assembleCmdline
  constructor
  · constructor
    · intro h
      split at h
      · rename_i h'
        simp only [List.any_eq_true, beq_iff_eq] at h'
        obtain ⟨a, ha, c, hc, rfl⟩ := h'
        exact ⟨a, ha, hc⟩
      · cases h
    · rintro ⟨a, ha, h0⟩
      have : (argv.any fun a => a.any (· == 0)) = true := by
        simp only [List.any_eq_true, beq_iff_eq]
        exact ⟨a, ha, 0, h0, rfl⟩
      simp [this]
  · intro h
    have : (argv.any fun a => a.any (· == 0)) = false := by
      cases hb : (argv.any fun a => a.any (· == 0)) with
      | false => rfl
      | true =>
        simp only [List.any_eq_true, beq_iff_eq] at hb
        obtain ⟨a, ha, c, hc, rfl⟩ := hb
        exact absurd ⟨a, ha, hc⟩ h
    simp [this]

/-! ### Program name (`argv[0]`)

The Microsoft program-name rule has no escape mechanism, so a name containing `"` or a name that
needs quoting and ends in a backslash is not representable in *any* command line.  That is the
hypothesis Windows itself imposes (such a string is not a legal file name); it is stated, not
hidden. -/
def progOK (p : List Nat) : Prop :=
  (∀ c ∈ p, c ≠ QT) ∧ (needsQuote p = true → p.getLast? ≠ some BS)

theorem quoteBody_noQT (p : List Nat) (n : Nat) (hq : ∀ c ∈ p, c ≠ QT)
    (hn : n = 0 ∨ p ≠ []) (hl : p.getLast? ≠ some BS) :
    quoteBody n p = List.replicate n BS ++ p := by
  induction p generalizing n with
  | nil => rcases hn with rfl | h <;> simp_all [quoteBody]
  | cons c cs ih =>
    have hcs : ∀ c ∈ cs, c ≠ QT := fun c h => hq c (by simp [h])
    by_cases hb : c = BS
    · subst hb
      have hne : cs ≠ [] := by rintro rfl; simp at hl
      have hl' : cs.getLast? ≠ some BS := by
        rwa [List.getLast?_cons_of_ne_nil hne] at hl
      simp only [quoteBody, if_true]
      rw [ih (n + 1) hcs (Or.inr hne) hl', ← replicate_snoc]
    · have hqt : c ≠ QT := hq c (by simp)
      have hl' : cs.getLast? ≠ some BS := by
        cases cs with
        | nil => simp
        | cons d ds => rwa [List.getLast?_cons_of_ne_nil (by simp)] at hl
      simp only [quoteBody, hb, hqt, if_false]
      rw [ih 0 hcs (Or.inl rfl) hl']; simp

theorem progName_inQ (p tail : List Nat) (hq : ∀ c ∈ p, c ≠ QT) :
    progName true (p ++ QT :: tail) = ((p ++ (progName false tail).1), (progName false tail).2) := by
  induction p with
  | nil => simp [progName]
  | cons c cs ih =>
    have hc : c ≠ QT := hq c (by simp)
    simp only [List.cons_append, progName, hc, if_false]
    rw [ih (fun c h => hq c (by simp [h]))]
    simp

theorem progName_plain (p tail : List Nat) (hp : ∀ c ∈ p, plainUnit c) :
    progName false (p ++ tail) = ((p ++ (progName false tail).1), (progName false tail).2) := by
  induction p with
  | nil => simp
  | cons c cs ih =>
    obtain ⟨h1, h2, h3⟩ := hp c (by simp)
    simp only [List.cons_append, progName, h3, if_false]
    rw [ih (fun c h => hp c (by simp [h]))]
    simp [h1, h2]

theorem progName_arg (p tail : List Nat) (hp : progOK p) :
    progName false (appendQuoted p ++ tail) = ((p ++ (progName false tail).1), (progName false tail).2) := by
  unfold appendQuoted
  by_cases h : needsQuote p = true
  · simp only [h, if_true]
    have hb := quoteBody_noQT p 0 hp.1 (Or.inl rfl) (hp.2 h)
    simp only [List.replicate_zero, List.nil_append] at hb
    rw [hb]
    simp only [List.cons_append, List.append_assoc, progName, if_true, Bool.not_false]
    exact progName_inQ p tail hp.1
  · have h' : needsQuote p = false := by simpa using h
    simp only [h', Bool.false_eq_true, if_false]
    exact progName_plain p tail (plain_of_not_needsQuote p h').2

theorem appendQuoted_ne_nil (p : List Nat) : appendQuoted p ≠ [] := by
  unfold appendQuoted
  split
  · simp
  · rename_i h
    have h' : needsQuote p = false := by simpa using h
    exact (plain_of_not_needsQuote p h').1

/-- **C20 (whole command line).**  The program name by the program-name rule and the arguments by
    the argument rule: the assembled command line parses back to exactly the original vector. -/
theorem c20_roundtrip_cmdline (v : Variant) (p : List Nat) (args : List (List Nat)) (hp : progOK p) :
    msParseCmdline v (assembleArgs (p :: args)) = p :: args := by
  unfold msParseCmdline
  cases args with
  | nil =>
    have hne := appendQuoted_ne_nil p
    have := progName_arg p [] hp
    simp only [List.append_nil, progName] at this
    simp [assembleArgs, hne, this, msParseArgs, pfinish, fresh]
  | cons b rest =>
    have hne : (appendQuoted p ++ SP :: assembleArgs (b :: rest)) ≠ [] := by simp
    have := progName_arg p (SP :: assembleArgs (b :: rest)) hp
    have h2 : progName false (SP :: assembleArgs (b :: rest)) = ([], assembleArgs (b :: rest)) := by
      simp [progName, SP, QT]
    rw [h2] at this
    simp only [assembleArgs, List.isEmpty_eq_false_iff.mpr hne, Bool.false_eq_true, if_false, this]
    simp [c20_roundtrip_args]

/-! ### Non-vacuity and regression examples (tests, labelled as tests) -/

-- `a b`, empty, `\\"a\`, `a\\`, tab+newline
example : msParseArgs .crt2008 (assembleArgs [[97, SP, 98], [], [BS, BS, QT, 97, BS], [97, BS, BS], [TAB, NL]])
    = [[97, SP, 98], [], [BS, BS, QT, 97, BS], [97, BS, BS], [TAB, NL]] := by decide
example : assembleArgs [[97, SP, 98], [], [BS, QT]] =
    [QT, 97, SP, 98, QT, SP, QT, QT, SP, QT, BS, BS, BS, QT, QT] := by decide
-- the hypothesis of the program-name theorem is satisfiable by a name that needs quoting
example : progOK [67, 58, BS, 80, SP, 70, BS, 120] := by
  refine ⟨by decide, fun _ => by decide⟩
-- and it is necessary: a quoted name ending in a backslash does not survive the program-name rule
example : msParseCmdline .crt2008 (assembleArgs [[97, SP, BS]]) ≠ [[97, SP, BS]] := by decide
-- NUL is rejected
example : assembleCmdline [[97], [98, 0]] = none := by decide

end WinArgv

import Proofs.Spawn
import Proofs.SpawnStatus
/-!
# C07  Popen exists iff the program started; failed launches leave nothing behind

Theorems about `Spawn.parentRun` / `Spawn.childRun` for **every** list of operating-system answers,
i.e. every fault-injection point (the k-th `pipe`/`fcntl` failing for every k, `fork` failing, each
child-side step failing with any errno), every stream configuration, detached or not.
Conformance: the real `Popen::create` is run under every single-fault plan of its own call
sequence and the model must emit the same calls and result.
-/
namespace Spawn

/-- the 4-byte little-endian errno channel: `decode (encode e) = e` for every 32-bit value -/
def encodeLE (e : Nat) : List Nat := [e % 256, e / 256 % 256, e / 65536 % 256, e / 16777216 % 256]
def decodeLE : List Nat → Nat
  | [a, b, c, d] => a + b * 256 + c * 65536 + d * 16777216
  | _ => 0
theorem c07_errno_roundtrip (e : Nat) (h : e < 4294967296) : decodeLE (encodeLE e) = e := by
  simp only [encodeLE, decodeLE]; omega

/-- **C07 (nothing left behind, failure before the process exists).**  If the attempt fails before
    or at the fork — any `pipe`, `fcntl` or `fork` failing, an invalid configuration, a NUL byte —
    the call closes exactly the descriptors the attempt owned (after the one it had released by
    design: the original of a relocated status write end), which together include every descriptor
    any `pipe()` / `F_DUPFD_CLOEXEC` answer handed to it and every file passed in; it never waits and
    never forks again. -/
theorem c07_no_fd_left_before_fork (c : Cfg) (rs : List SResp) (ha : c.argvEmpty = false) (r : Res)
    (hf : (acquireAll (stagesOf c) (s0 c) rs).fail = some r) :
    (parentRun c rs).res = r ∧
    closedBy (parentRun c rs).calls =
      (acquireAll (stagesOf c) (s0 c) rs).s.released ++ (acquireAll (stagesOf c) (s0 c) rs).s.owned ∧
    (∀ f ∈ (acquireAll (stagesOf c) (s0 c) rs).s.got ++ cfgFiles c, f ∈ closedBy (parentRun c rs).calls) ∧
    hasWait (parentRun c rs).calls = false := by
  obtain ⟨hc, hr⟩ := parentRun_fail c rs ha r hf
  obtain ⟨p1, p2, -, p4, p5, -⟩ := prefork_facts c rs
  refine ⟨hr, by rw [hc, closedBy_append, p1, closedBy_closeAll], ?_, by rw [hc, hasWait_append, p2]; simp⟩
  intro f hfm
  rw [hc, closedBy_append, p1, closedBy_closeAll, List.mem_append]
  rcases List.mem_append.mp hfm with h | h
  · exact (p5 f h).symm
  · exact (p4 f h).symm

/-- **C07 (Ok iff started, and only after that is known).**  After a successful fork the result
    is decided by the read on the status channel, which is issued after the child ends and the
    write end were released: `Ok` iff it returned 0 bytes (the close-on-exec write end was closed by
    a successful `exec` — A4); 4 bytes give the reported errno. -/
theorem c07_ok_iff_status_empty (c : Cfg) (s : AState) (calls : List SCall) (d : List SResp) :
    ((afterRead c s calls d).res = .ok ↔ ∃ e rs', d = .nbytes 0 e :: rs') ∧
    (∀ e rs', d = .nbytes 4 e :: rs' → (afterRead c s calls d).res = .err e) := by
  constructor
  · constructor
    · intro h
      unfold afterRead at h
      split at h <;> first | exact ⟨_, _, rfl⟩ | (simp at h)
    · rintro ⟨e, rs', rfl⟩; simp [afterRead]
  · rintro e rs' rfl; simp [afterRead]

/-- the child reports a failure — and only a failure — through the status channel: it writes the
    errno of the first failing step (or of the last `exec` attempt) and exits, or it starts the
    program and writes nothing -/
theorem c07_child_reports_iff_failed (c : Cfg) (p : Pipes) (sr sw : Nat) (rs : List SResp) :
    ((childRun c p sr sw rs).2 = none → ∀ e, SCall.writeStatus sw e ∉ (childRun c p sr sw rs).1) ∧
    (∀ e, (childRun c p sr sw rs).2 = some e →
      (childRun c p sr sw rs).1.getLast? = some (.exit 127) ∧ SCall.writeStatus sw e ∈ (childRun c p sr sw rs).1) := by
  unfold childRun
  have hsteps : ∀ e, SCall.writeStatus sw e ∉ (runSteps (childSteps c p sr) rs).1 := by
    intro e
    have : ∀ (l : List SCall) (rs : List SResp), SCall.writeStatus sw e ∉ l → SCall.writeStatus sw e ∉ (runSteps l rs).1 := by
      intro l
      induction l with
      | nil => intro rs h; simp [runSteps]
      | cons x xs ih =>
        intro rs h
        cases rs with
        | nil => simp [runSteps]; intro h'; exact h (by simp [h'])
        | cons r rs =>
          have hx : SCall.writeStatus sw e ≠ x := fun h' => h (by simp [h'])
          have := ih rs (fun h' => h (by simp [h']))
          cases r <;> simp [runSteps, hx, this]
    apply this
    simp [childSteps, dupStep]
    refine ⟨?_, ?_, ?_, ?_, ?_⟩ <;> (try split) <;> (try split) <;> simp <;> (repeat' split) <;> simp
  have hexec : ∀ i n e0 rs e, SCall.writeStatus sw e ∉ (execLoop i n e0 rs).1 := by
    intro i n
    induction n generalizing i with
    | zero => intro e0 rs e; simp [execLoop]
    | succ n ih =>
      intro e0 rs e
      cases rs with
      | nil => simp [execLoop]
      | cons r rs => cases r <;> simp [execLoop, ih]
  constructor
  · intro h e
    split at h
    · simp at h
    · rename_i calls rs' heq
      split at h
      · rename_i ecalls heq2
        simp only [List.mem_append, not_or]
        have h1 := hsteps e; rw [heq] at h1
        have h2 := hexec 0 c.ncand ENOENT rs' e; rw [heq2] at h2
        exact ⟨h1, h2⟩
      · simp at h
  · intro e h
    split at h
    · rename_i calls e' rs' heq
      simp only [Option.some.injEq] at h; subst h
      simp
    · rename_i calls rs' heq
      split at h
      · simp at h
      · rename_i ecalls e' heq2
        simp only [Option.some.injEq] at h; subst h
        simp

/-- **C07 (no child left, also when detached).**  When the child reports that it could not start
    the program, the parent waits for it before returning the error — whether or not `detached` was
    requested (defect F11 of the original code) — and then closes the status channel and every
    parent-side pipe end; together with the child ends and the status write end released right
    after the fork nothing the attempt recorded stays open. -/
theorem c07_failed_child_is_reaped (c : Cfg) (s : AState) (rs rs' : List SResp) (e : Nat)
    (h : rs.drop ((ownedEnds c s.pipes).length + 1) = .nbytes 4 e :: rs') :
    (afterFork c s rs).res = .err e ∧ hasWait (afterFork c s rs).calls = true ∧
    (∀ f ∈ statusR s :: statusW s :: (ownedEnds c s.pipes ++ parentEnds c s.pipes), f ∈ closedBy (afterFork c s rs).calls) := by
  unfold afterFork
  rw [h]
  simp only [afterRead]
  refine ⟨trivial, by simp [hasWait], ?_⟩
  intro f hf
  simp only [closedBy_append, closedBy_closeAll, List.mem_append]
  simp only [List.mem_cons, List.mem_append] at hf
  rcases hf with rfl | rfl | hf | hf
  · right; simp
  · left; left; right; simp [closedBy]
  · left; left; left; right; exact hf
  · right; simp [hf]


/-- **C07 (the launch-status channel survives the child's stream set-up, whatever descriptors the
    caller runs with).**  Whenever the process is forked, the status write end is a descriptor above
    2 — `pipe()` answered one, or (a caller with closed standard descriptors) the write end was
    moved there before anything else — whereas every `dup2` of the child's set-up targets 0, 1 or 2:
    no step before `exec` can overwrite the descriptor through which a failed start is reported
    (defect F12 of the original code: with descriptors 0 and 1 closed in the caller and a piped
    stdout, a missing program gave `Ok`). -/
theorem c07_status_channel_survives_child_setup (c : Cfg) (rs : List SResp)
    (hfork : (acquireAll (stagesOf c) (s0 c) rs).fail = none) :
    2 < statusW (acquireAll (stagesOf c) (s0 c) rs).s ∧
    ∀ p sr f d, SCall.dup2 f d ∈ childSteps c p sr → d ≠ statusW (acquireAll (stagesOf c) (s0 c) rs).s := by
  obtain ⟨sr, sw, hs, hgt⟩ := status_high_at_fork c rs hfork
  have hW : statusW (acquireAll (stagesOf c) (s0 c) rs).s = sw := by simp [statusW, hs]
  refine ⟨by omega, ?_⟩
  intro p sr' f d hmem
  have := childSteps_dup2_target c p sr' f d hmem
  omega


/-- **C07 (no copy of the status channel is left where the child would inherit it).**  The original of a moved
    status write end -- a descriptor 0-2 without close-on-exec, kept open only so that the stream pipes do not
    land there -- is closed again before the fork: at the fork no placeholder is held, and what was released has
    really been closed.  (A started program that inherited it would keep `Popen::create` from seeing end-of-file.) -/
theorem c07_placeholder_released_before_fork (c : Cfg) (rs : List SResp)
    (hfork : (acquireAll (stagesOf c) (s0 c) rs).fail = none) :
    (acquireAll (stagesOf c) (s0 c) rs).s.low = none ∧
    closedBy (acquireAll (stagesOf c) (s0 c) rs).s.calls = (acquireAll (stagesOf c) (s0 c) rs).s.released := by
  obtain ⟨p1, -⟩ := prefork_facts c rs
  exact ⟨low_released_at_fork c rs hfork, p1⟩

/-! ### Non-vacuity (tests, labelled as tests) -/
def cfgPPP : Cfg := { sin := .pipe, sout := .pipe, serr := .pipe, detached := true, cwd := false, uid := none, gid := none,
                      pgid := false, argvEmpty := false, nul := false, ncand := 1 }
-- the second stream pipe fails: both ends of the status pipe and of the first stream pipe are closed again
example : closedBy (parentRun cfgPPP [.fds 3 4, .val 0, .ok, .val 0, .ok, .fds 5 6, .val 0, .ok, .err 24]).calls = [3, 4, 5, 6] := by decide
-- the child reports errno 2 after a successful fork: waited for although detached
example : hasWait (parentRun cfgPPP [.fds 3 4, .val 0, .ok, .val 0, .ok, .fds 5 6, .val 0, .ok, .fds 7 8, .val 0, .ok,
    .fds 9 10, .val 0, .ok, .ok, .ok, .ok, .ok, .ok, .nbytes 4 2, .ok]).calls = true := by decide

-- a caller with descriptors 0 and 1 closed, stdout piped: the status pipe is answered as (0, 1), the write end is moved to
-- 3, the stream pipe lands on (4, 5) because 1 is still held, then 1 is released; the child's `dup2 5 1` hits nothing
def cfgOut : Cfg := { sin := .none, sout := .pipe, serr := .none, detached := false, cwd := false, uid := none, gid := none,
                      pgid := false, argvEmpty := false, nul := false, ncand := 1 }
def rsClosed01 : List SResp := [.fds 0 1, .val 3, .val 0, .ok, .val 1, .ok, .fds 4 5, .val 0, .ok, .ok, .ok, .ok, .ok, .nbytes 4 2, .ok, .ok]
example : (acquireAll (stagesOf cfgOut) (s0 cfgOut) rsClosed01).fail = none := by decide
example : (acquireAll (stagesOf cfgOut) (s0 cfgOut) rsClosed01).s.status = some (0, 3) := by decide
example : (acquireAll (stagesOf cfgOut) (s0 cfgOut) rsClosed01).s.released = [1] := by decide
example : (parentRun cfgOut rsClosed01).res = .err 2 := by decide
example : SCall.dup2 5 1 ∈ childSteps cfgOut (parentRun cfgOut rsClosed01).pipes 0 := by decide
/-- F12 (repaired by a `fix:` commit): without the relocation the status write end stays on 1, which is exactly the
    target of the child's `dup2` for a piped stdout. -/
theorem c07_status_clobbered_counterexample_old :
    (acquire .statusPipe (s0 cfgOut) [.fds 0 1]).s.status = some (0, 1) ∧
    SCall.dup2 4 1 ∈ childSteps cfgOut { pout := some (3, 4) } 0 := by decide

end Spawn

namespace Placeholder
theorem placeholder_C07 : True := trivial
end Placeholder

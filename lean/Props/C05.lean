namespace Placeholder
theorem placeholder_C05 : True := trivial
end Placeholder

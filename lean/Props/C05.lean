import Proofs.Spawn
/-!
# C05  Every redirection combination wires child streams to the requested objects

* `c05_wiring`: the child-side `dup2`/`close` sequence, interpreted over an arbitrary descriptor
  table, leaves 0, 1, 2 pointing at exactly the objects the child ends denoted at the fork — for
  all 5×5×5 combinations at once (the combinations only determine which `End`s arise).
* `c05_invalid_refused`: `Merge` for stdin, or for both outputs, is refused without forking.
* `c05_parent_std_untouched`: the parent only ever closes / marks descriptors it obtained from
  `pipe()` or was handed as files — never its own 0, 1, 2.
-/
namespace Spawn

/-- a descriptor table: which open file description each number refers to -/
def Tbl := Nat → Option Nat
def tset (t : Tbl) (k : Nat) (v : Option Nat) : Tbl := fun x => if x = k then v else t x
def tstep (t : Tbl) : SCall → Tbl
  | .dup2 s d => tset t d (t s)
  | .close f => tset t f none
  | _ => t

/-- one stream: `dup2` onto `i`, then the drop of the `Rc` -/
theorem dupStep_spec (i f : Nat) (e : End) (later : List End) (t : Tbl) (he : e.fd? = some f) (hne : f ≠ i) :
    ((dupStep i e later).foldl tstep t) i = t f ∧
    (∀ x, x ≠ i → x ≠ f → ((dupStep i e later).foldl tstep t) x = t x) ∧
    ((later.any (· == .own f) = true ∨ ∀ g, e ≠ .own g) → ((dupStep i e later).foldl tstep t) f = t f) := by
  cases e with
  | none => simp [End.fd?] at he
  | own g =>
    simp only [End.fd?, Option.some.injEq] at he; subst he
    simp only [dupStep, hne, ne_eq, not_false_eq_true, if_true]
    by_cases hl : later.any (· == .own g) = true
    · simp only [hl, if_true, List.append_nil, List.foldl_cons, List.foldl_nil, tstep, tset]
      refine ⟨by simp, fun x hx _ => by simp [hx], fun _ => by simp [hne]⟩
    · simp only [hl, Bool.false_eq_true, if_false, List.cons_append, List.nil_append, List.foldl_cons, List.foldl_nil, tstep, tset]
      refine ⟨by simp [Ne.symm hne], fun x hx hx' => by simp [hx, hx'], ?_⟩
      rintro (h | h)
      · first | exact absurd h hl | exact h.elim
      · exact absurd rfl (h g)
  | shared g =>
    simp only [End.fd?, Option.some.injEq] at he; subst he
    simp only [dupStep, hne, ne_eq, not_false_eq_true, if_true, List.foldl_cons, List.foldl_nil, tstep, tset]
    exact ⟨by simp, fun x hx _ => by simp [hx], fun _ => by simp [hne]⟩
  | std g =>
    simp only [End.fd?, Option.some.injEq] at he; subst he
    simp only [dupStep, hne, ne_eq, not_false_eq_true, if_true, List.foldl_cons, List.foldl_nil, tstep, tset]
    exact ⟨by simp, fun x hx _ => by simp [hx], fun _ => by simp [hne]⟩

theorem dupStep_none (i : Nat) (later : List End) (t : Tbl) : (dupStep i .none later).foldl tstep t = t := by
  simp [dupStep]

/-- what `setup_streams` guarantees about the three child ends (WF of DESIGN.md §6: the parent has
    0, 1, 2 open, so pipe ends and caller files are ≥ 3; an inherited stream is used as a merge
    source only when the other output is not redirected; one descriptor is not both an owned and a
    shared object) -/
structure WFEnds (eI eO eE : End) : Prop where
  geI : ∀ f, eI.fd? = some f → 3 ≤ f
  geO : ∀ f, eO.fd? = some f → 3 ≤ f ∨ (eO = .std 2 ∧ eE = .none)
  geE : ∀ f, eE.fd? = some f → 3 ≤ f ∨ (eE = .std 1 ∧ eO = .none)
  sepIO : ∀ f, eI = .own f → eO.fd? = some f → eO = .own f
  sepIE : ∀ f, eI = .own f → eE.fd? = some f → eE = .own f
  sepOE : ∀ f, eO = .own f → eE.fd? = some f → eE = .own f

def dupAll (eI eO eE : End) : List SCall :=
  dupStep 0 eI [eO, eE] ++ dupStep 1 eO [eE] ++ dupStep 2 eE []

/-- the object a stream ends up with: the child end's object at the fork, or what the descriptor
    already was (inherit) -/
def want (t : Tbl) (i : Nat) (e : End) : Option Nat := match e.fd? with | some f => t f | none => t i

/-- **C05 (wiring).**  For every descriptor table at the fork and every combination of child ends
    that `setup_streams` can produce, after the child's `dup2`/`close` sequence descriptors 0, 1, 2
    refer to exactly the requested objects: the parent's own stream when inherited, the pipe end /
    file that was designated, and — for merge — the same object as the other output stream. -/
theorem c05_wiring (eI eO eE : End) (h : WFEnds eI eO eE) (t : Tbl) :
    ((dupAll eI eO eE).foldl tstep t) 0 = want t 0 eI ∧
    ((dupAll eI eO eE).foldl tstep t) 1 = want t 1 eO ∧
    ((dupAll eI eO eE).foldl tstep t) 2 = want t 2 eE := by
  obtain ⟨gI, gO, gE, sIO, sIE, sOE⟩ := h
  unfold dupAll
  simp only [List.foldl_append]
  -- stage 0
  have S0 : ∃ t1 : Tbl, (dupStep 0 eI [eO, eE]).foldl tstep t = t1 ∧ t1 0 = want t 0 eI ∧
      (∀ x, x ≠ 0 → (∀ f, eI.fd? = some f → x ≠ f ∨ eO = .own f ∨ eE = .own f ∨ ∀ g, eI ≠ .own g) → t1 x = t x) := by
    cases hI : eI.fd? with
    | none =>
      have : eI = .none := by cases eI <;> simp [End.fd?] at hI ⊢
      subst this
      exact ⟨t, dupStep_none 0 _ t, by simp [want, End.fd?], fun _ _ _ => rfl⟩
    | some f =>
      have hf := gI f hI
      obtain ⟨a, b, c⟩ := dupStep_spec 0 f eI [eO, eE] t hI (by omega)
      refine ⟨_, rfl, by simp [want, hI, a], ?_⟩
      intro x hx hcond
      rcases hcond f rfl with h | h | h | h
      · exact b x hx h
      · by_cases hxf : x = f
        · subst hxf; exact c (Or.inl (by simp [h]))
        · exact b x hx hxf
      · by_cases hxf : x = f
        · subst hxf; exact c (Or.inl (by simp [h]))
        · exact b x hx hxf
      · by_cases hxf : x = f
        · subst hxf; exact c (Or.inr h)
        · exact b x hx hxf
  obtain ⟨t1, ht1, h10, h1x⟩ := S0
  rw [ht1]
  -- the sources of stages 1 and 2 are untouched by stage 0
  have keep1 : ∀ f, eO.fd? = some f → t1 f = t f := by
    intro f hf
    have hf0 : f ≠ 0 := by rcases gO f hf with h | ⟨h, _⟩; omega; (rw [h] at hf; simp [End.fd?] at hf; omega)
    apply h1x f hf0
    intro g hg
    by_cases hfg : f = g
    · subst hfg
      cases hIe : eI with
      | own k =>
        rw [hIe] at hg; simp only [End.fd?, Option.some.injEq] at hg; subst hg
        exact Or.inr (Or.inl (sIO _ hIe hf))
      | none => rw [hIe] at hg; simp [End.fd?] at hg
      | shared k => exact Or.inr (Or.inr (Or.inr (fun g => by simp)))
      | std k => exact Or.inr (Or.inr (Or.inr (fun g => by simp)))
    · exact Or.inl hfg
  have keep2 : ∀ f, eE.fd? = some f → t1 f = t f := by
    intro f hf
    have hf0 : f ≠ 0 := by rcases gE f hf with h | ⟨h, _⟩; omega; (rw [h] at hf; simp [End.fd?] at hf; omega)
    apply h1x f hf0
    intro g hg
    by_cases hfg : f = g
    · subst hfg
      cases hIe : eI with
      | own k =>
        rw [hIe] at hg; simp only [End.fd?, Option.some.injEq] at hg; subst hg
        exact Or.inr (Or.inr (Or.inl (sIE _ hIe hf)))
      | none => rw [hIe] at hg; simp [End.fd?] at hg
      | shared k => exact Or.inr (Or.inr (Or.inr (fun g => by simp)))
      | std k => exact Or.inr (Or.inr (Or.inr (fun g => by simp)))
    · exact Or.inl hfg
  have keep1' : t1 1 = t 1 ∨ eI.fd? = some 1 := by
    by_cases h : eI.fd? = some 1
    · exact Or.inr h
    · left; apply h1x 1 (by omega); intro g hg; left; intro h1; subst h1; exact h hg
  have keep2' : t1 2 = t 2 := by
    apply h1x 2 (by omega); intro g hg; left; intro h2; subst h2; have := gI _ hg; omega
  have keep1'' : t1 1 = t 1 := by
    rcases keep1' with h | h
    · exact h
    · have := gI _ h; omega
  -- stage 1
  have S1 : ∃ t2 : Tbl, (dupStep 1 eO [eE]).foldl tstep t1 = t2 ∧ t2 1 = want t 1 eO ∧ t2 0 = t1 0 ∧
      (∀ f, eE.fd? = some f → t2 f = t f) ∧ (eE.fd? = none → t2 2 = t 2) := by
    cases hO : eO.fd? with
    | none =>
      have : eO = .none := by cases eO <;> simp [End.fd?] at hO ⊢
      subst this
      refine ⟨t1, dupStep_none 1 _ t1, by simp [want, End.fd?, keep1''], rfl, keep2, fun _ => keep2'⟩
    | some f =>
      have hf1 : f ≠ 1 := by rcases gO f hO with h | ⟨h, _⟩; omega; (rw [h] at hO; simp [End.fd?] at hO; omega)
      have hf0 : f ≠ 0 := by rcases gO f hO with h | ⟨h, _⟩; omega; (rw [h] at hO; simp [End.fd?] at hO; omega)
      obtain ⟨a, b, c⟩ := dupStep_spec 1 f eO [eE] t1 hO hf1
      refine ⟨_, rfl, by simp [want, hO, a, keep1 f hO], b 0 (by omega) (Ne.symm hf0), ?_, ?_⟩
      · intro g hg
        have hg1 : g ≠ 1 := by
          rcases gE g hg with h | ⟨h, h'⟩
          · omega
          · rw [h'] at hO; simp [End.fd?] at hO
        by_cases hgf : g = f
        · subst hgf
          rw [← keep2 g hg]
          apply c
          cases hOe : eO with
          | own k =>
            rw [hOe] at hO; simp only [End.fd?, Option.some.injEq] at hO; subst hO
            left; simp [sOE _ hOe hg]
          | none => rw [hOe] at hO; simp [End.fd?] at hO
          | shared k => right; intro g; simp
          | std k => right; intro g; simp
        · rw [b g hg1 hgf]; exact keep2 g hg
      · intro hEn
        rcases gO f hO with h | ⟨h, _⟩
        · rw [b 2 (by omega) (by omega)]; exact keep2'
        · rw [h] at hO; simp only [End.fd?, Option.some.injEq] at hO; subst hO
          -- merge onto the inherited stderr: descriptor 2 is only read
          rw [← keep2']; apply c; right; intro g; rw [h]; simp
  obtain ⟨t2, ht2, h21, h20, h2E, h2n⟩ := S1
  rw [ht2]
  -- stage 2
  cases hE : eE.fd? with
  | none =>
    have : eE = .none := by cases eE <;> simp [End.fd?] at hE ⊢
    subst this
    rw [dupStep_none]
    exact ⟨by rw [h20, h10], h21, by simp [want, End.fd?, h2n rfl]⟩
  | some f =>
    have hf2 : f ≠ 2 := by rcases gE f hE with h | ⟨h, _⟩; omega; (rw [h] at hE; simp [End.fd?] at hE; omega)
    obtain ⟨a, b, c⟩ := dupStep_spec 2 f eE [] t2 hE hf2
    refine ⟨?_, ?_, by simp [want, hE, a, h2E f hE]⟩
    · have hf0 : f ≠ 0 := by rcases gE f hE with h | ⟨h, _⟩; omega; (rw [h] at hE; simp [End.fd?] at hE; omega)
      rw [b 0 (by omega) (Ne.symm hf0), h20, h10]
    · by_cases hf1 : f = 1
      · -- merge onto the inherited stdout: descriptor 1 is only read
        subst hf1
        rcases gE 1 hE with h | ⟨h, h'⟩
        · omega
        · rw [c (Or.inr (fun g => by rw [h]; simp)), h21]
      · rw [b 1 (by omega) (Ne.symm hf1), h21]

/-- the three child ends `setup_streams` computes are well-formed, provided the underlying objects
    (pipe ends answered by the OS, files handed in) are distinct descriptors `≥ 3` and the
    combination is valid (`Merge` not for stdin, not for both outputs) -/
theorem c05_ends_wf (c : Cfg) (p : Pipes)
    (hv : c.sin ≠ .merge ∧ ¬ (c.sout = .merge ∧ c.serr = .merge))
    (hge : ∀ f, (end0 c.sin p.pin true).fd? = some f ∨ (end0 c.sout p.pout false).fd? = some f ∨
      (end0 c.serr p.perr false).fd? = some f → 3 ≤ f)
    (hIO : ∀ f, (end0 c.sin p.pin true).fd? = some f → (end0 c.sout p.pout false).fd? ≠ some f)
    (hIE : ∀ f, (end0 c.sin p.pin true).fd? = some f → (end0 c.serr p.perr false).fd? ≠ some f)
    (hOE : ∀ f, (end0 c.sout p.pout false).fd? = some f → (end0 c.serr p.perr false).fd? ≠ some f) :
    WFEnds (endIn c p) (endOut c p) (endErr c p) := by
  have nostd : ∀ (r : Redir) (q : Option (Nat × Nat)) (b : Bool) (k : Nat), end0 r q b ≠ .std k := by
    intro r q b k; unfold end0; (repeat' split) <;> simp
  have fdnone : ∀ e : End, e.fd? = none → e = .none := by intro e h; cases e <;> simp [End.fd?] at h ⊢
  by_cases hom : c.sout = .merge
  · -- stdout merged onto stderr
    have hem : c.serr ≠ .merge := fun h => hv.2 ⟨hom, h⟩
    have hO0 : end0 c.sout p.pout false = .none := by simp [hom, end0]
    have hE : endErr c p = end0 c.serr p.perr false := by
      unfold endErr; cases hs : c.serr <;> simp_all
    rw [hE]; unfold endIn
    cases hee : end0 c.serr p.perr false with
    | none =>
      have hO : endOut c p = .std 2 := by simp [endOut, hom, hee]
      rw [hO]
      constructor
      · intro f hf; exact hge f (Or.inl hf)
      · intro f hf; right; exact ⟨rfl, rfl⟩
      · intro f hf; simp [End.fd?] at hf
      · intro f hI hf; simp only [End.fd?, Option.some.injEq] at hf
        have := hge f (Or.inl (by rw [hI]; simp [End.fd?])); omega
      · intro f _ hf; simp [End.fd?] at hf
      · intro f hf; simp at hf
    | own g =>
      have hO : endOut c p = .own g := by simp [endOut, hom, hee]
      rw [hO]
      constructor
      · intro f hf; exact hge f (Or.inl hf)
      · intro f hf; left; exact hge f (Or.inr (Or.inr (by rw [hee]; exact hf)))
      · intro f hf; left; exact hge f (Or.inr (Or.inr (by rw [hee]; exact hf)))
      · intro f hI hf; exact absurd (by rw [hee]; exact hf) (hIE f (by rw [hI]; simp [End.fd?]))
      · intro f hI hf; exact absurd (by rw [hee]; exact hf) (hIE f (by rw [hI]; simp [End.fd?]))
      · intro f hf1 hf2; simp only [End.own.injEq] at hf1; subst hf1; rfl
    | shared g =>
      have hO : endOut c p = .shared g := by simp [endOut, hom, hee]
      rw [hO]
      constructor
      · intro f hf; exact hge f (Or.inl hf)
      · intro f hf; left; exact hge f (Or.inr (Or.inr (by rw [hee]; exact hf)))
      · intro f hf; left; exact hge f (Or.inr (Or.inr (by rw [hee]; exact hf)))
      · intro f hI hf; exact absurd (by rw [hee]; exact hf) (hIE f (by rw [hI]; simp [End.fd?]))
      · intro f hI hf; exact absurd (by rw [hee]; exact hf) (hIE f (by rw [hI]; simp [End.fd?]))
      · intro f hf1; simp at hf1
    | std k => exact absurd hee (nostd _ _ _ k)
  · by_cases hem : c.serr = .merge
    · -- stderr merged onto stdout
      have hE0 : end0 c.serr p.perr false = .none := by simp [hem, end0]
      have hO : endOut c p = end0 c.sout p.pout false := by
        unfold endOut; cases hs : c.sout <;> simp_all
      rw [hO]; unfold endIn
      cases hoo : end0 c.sout p.pout false with
      | none =>
        have hE : endErr c p = .std 1 := by simp [endErr, hem, hoo]
        rw [hE]
        constructor
        · intro f hf; exact hge f (Or.inl hf)
        · intro f hf; simp [End.fd?] at hf
        · intro f hf; right; exact ⟨rfl, rfl⟩
        · intro f _ hf; simp [End.fd?] at hf
        · intro f hI hf; simp only [End.fd?, Option.some.injEq] at hf
          have := hge f (Or.inl (by rw [hI]; simp [End.fd?])); omega
        · intro f hf; simp at hf
      | own g =>
        have hE : endErr c p = .own g := by simp [endErr, hem, hoo]
        rw [hE]
        constructor
        · intro f hf; exact hge f (Or.inl hf)
        · intro f hf; left; exact hge f (Or.inr (Or.inl (by rw [hoo]; exact hf)))
        · intro f hf; left; exact hge f (Or.inr (Or.inl (by rw [hoo]; exact hf)))
        · intro f hI hf; exact absurd (by rw [hoo]; exact hf) (hIO f (by rw [hI]; simp [End.fd?]))
        · intro f hI hf; exact absurd (by rw [hoo]; exact hf) (hIO f (by rw [hI]; simp [End.fd?]))
        · intro f hf1 hf2; simp only [End.own.injEq] at hf1; subst hf1; rfl
      | shared g =>
        have hE : endErr c p = .shared g := by simp [endErr, hem, hoo]
        rw [hE]
        constructor
        · intro f hf; exact hge f (Or.inl hf)
        · intro f hf; left; exact hge f (Or.inr (Or.inl (by rw [hoo]; exact hf)))
        · intro f hf; left; exact hge f (Or.inr (Or.inl (by rw [hoo]; exact hf)))
        · intro f hI hf; exact absurd (by rw [hoo]; exact hf) (hIO f (by rw [hI]; simp [End.fd?]))
        · intro f hI hf; exact absurd (by rw [hoo]; exact hf) (hIO f (by rw [hI]; simp [End.fd?]))
        · intro f hf1; simp at hf1
      | std k => exact absurd hoo (nostd _ _ _ k)
    · -- no merge: the three ends are independent objects
      have hO : endOut c p = end0 c.sout p.pout false := by
        unfold endOut; cases hs : c.sout <;> simp_all
      have hE : endErr c p = end0 c.serr p.perr false := by
        unfold endErr; cases hs : c.serr <;> simp_all
      rw [hE, hO]; unfold endIn
      constructor
      · intro f hf; exact hge f (Or.inl hf)
      · intro f hf; left; exact hge f (Or.inr (Or.inl hf))
      · intro f hf; left; exact hge f (Or.inr (Or.inr hf))
      · intro f hI hf; exact absurd hf (hIO f (by rw [hI]; simp [End.fd?]))
      · intro f hI hf; exact absurd hf (hIE f (by rw [hI]; simp [End.fd?]))
      · intro f hO' hf; exact absurd hf (hOE f (by rw [hO']; simp [End.fd?]))

/-- **C05 (invalid combinations are refused, without starting a process).**  `Merge` for stdin, or
    for both outputs: no `fork` call is ever issued, the result is not `Ok`, and what had been
    opened is closed again. -/
theorem c05_invalid_refused (c : Cfg) (rs : List SResp) (ha : c.argvEmpty = false)
    (hinv : c.sin = .merge ∨ (c.sout = .merge ∧ c.serr = .merge)) :
    hasFork (parentRun c rs).calls = false ∧ (acquireAll (stagesOf c) (s0 c) rs).fail ≠ none ∧
    closedBy (parentRun c rs).calls =
      (acquireAll (stagesOf c) (s0 c) rs).s.released ++ (acquireAll (stagesOf c) (s0 c) rs).s.owned := by
  obtain ⟨p1, -, -, -, -, -, -, -, -, -, -, hbad, -⟩ := prefork_facts c rs
  obtain ⟨hfail, hnf⟩ := hbad (Or.inr hinv)
  cases hf : (acquireAll (stagesOf c) (s0 c) rs).fail with
  | none => exact absurd hf hfail
  | some r =>
    obtain ⟨hc, -⟩ := parentRun_fail c rs ha r hf
    refine ⟨by rw [hc, hasFork_append, hnf]; simp, by simp, by rw [hc, closedBy_append, p1, closedBy_closeAll]⟩

/-- **C05 (the parent's own standard streams are never touched).**  Up to the fork, every
    descriptor the parent closes or marks is one the attempt owns, and those are exactly
    descriptors answered by `pipe()` or files handed in by the caller — with 0, 1, 2 open in the
    parent the OS never answers them, so the parent's own streams are neither closed nor altered,
    however many processes are started. -/
theorem c05_parent_std_untouched (c : Cfg) (rs : List SResp) :
    ∀ f ∈ touched (acquireAll (stagesOf c) (s0 c) rs).s.calls,
      f ∈ cfgFiles c ∨ f ∈ (acquireAll (stagesOf c) (s0 c) rs).s.got := by
  obtain ⟨-, -, ht, -, -, -, -, -, -, -, -, -, hof, hrel⟩ := prefork_facts c rs
  intro f hf
  rcases ht f hf with h | h
  · exact hof f h
  · exact Or.inr (hrel f h)

/-! ### Non-vacuity (tests, labelled as tests) -/
-- stdin = pipe (read end 5), stdout = pipe (write end 8), stderr = merge: 0 ← 5, 1 ← 8, 2 ← 8, and 5, 8 are closed
example : ((dupAll (.own 5) (.own 8) (.own 8)).foldl tstep (fun n => some (100 + n))) 2 = some 108 := by
  decide
example : WFEnds (.own 5) (.own 8) (.own 8) := by
  constructor <;> simp [End.fd?]
-- stdout = merge onto the inherited stderr
example : WFEnds .none (.std 2) .none := by
  constructor <;> simp [End.fd?]

end Spawn

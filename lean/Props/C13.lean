import Proofs.Pipeline
/-!
# C13  Pipelines connect stage i to stage i+1 and nothing else, however composed

Model: `Pipe.eval` (the `|` operators, `from_exec_iter`, the pipeline-level stdin/stdout setters),
`Pipe.run` (the spawn loop of `Pipeline::popen` and the terminators), `Pipe.flow` (data carried through
the attachments of the started commands, each command i being an arbitrary function `f i` from the
bytes on its stdin to the bytes it writes).  All theorems hold for every number of commands, every
composition shape, every stdin/stdout kind, every terminator and all stage functions.
The kernel's pipe semantics (a pipe delivers the bytes written, in order, to its single reader) and the
shared file offset of the stderr sink are outside the model; the real runs with tagged transforms,
distinct exit codes and up to 120000 lines cover them.
-/
namespace Pipe

/-- **C13 (however composed).**  Whatever expression built from `|`, `from_exec_iter` and the
    pipeline-level setters evaluates to a pipeline, its commands are the leaves of the expression
    from left to right (at least two); a bare command evaluates to itself. -/
theorem c13_shape_independent {α : Type} (e : Expr α) :
    (∀ p, eval e = some (.pipeline p) → p.cmds = leaves e ∧ 2 ≤ p.cmds.length) ∧
    (∀ a, eval e = some (.exec a) → leaves e = [a]) := by
  induction e with
  | cmd a => simp [eval, leaves]
  | fromIter l =>
    simp only [eval, leaves]
    constructor
    · intro p hp
      split at hp
      · simp at hp
      · simp only [Option.some.injEq, Val.pipeline.injEq] at hp; subst hp; exact ⟨rfl, by simpa using ‹¬ l.length < 2›⟩
    · intro a ha; split at ha <;> simp at ha
  | setIn e k ih =>
    simp only [eval, leaves]
    constructor
    · intro p hp
      split at hp
      · rename_i q hq; simp only [Option.some.injEq, Val.pipeline.injEq] at hp; subst hp; exact ih.1 q hq
      · simp at hp
    · intro a ha; split at ha <;> simp at ha
  | setOut e k ih =>
    simp only [eval, leaves]
    constructor
    · intro p hp
      split at hp
      · rename_i q hq; simp only [Option.some.injEq, Val.pipeline.injEq] at hp; subst hp; exact ih.1 q hq
      · simp at hp
    · intro a ha; split at ha <;> simp at ha
  | setErr e ih =>
    simp only [eval, leaves]
    constructor
    · intro p hp
      split at hp
      · rename_i q hq; simp only [Option.some.injEq, Val.pipeline.injEq] at hp; subst hp; exact ih.1 q hq
      · simp at hp
    · intro a ha; split at ha <;> simp at ha
  | or l r ihl ihr =>
    simp only [eval, leaves]
    constructor
    · intro p hp
      split at hp
      · rename_i a b ha hb
        simp only [Option.some.injEq, Val.pipeline.injEq] at hp; subst hp
        simp [ihl.2 a ha, ihr.2 b hb]
      · rename_i q b hq hb
        simp only [Option.some.injEq, Val.pipeline.injEq] at hp; subst hp
        have := ihl.1 q hq
        have hlen := this.2
        rw [this.1] at hlen
        simp [this.1, ihr.2 b hb]; omega
      · rename_i q q' hq hq'
        simp only [Option.some.injEq, Val.pipeline.injEq] at hp; subst hp
        have h1 := ihl.1 q hq
        have h2 := ihr.1 q' hq'
        have hl1 := h1.2
        have hl2 := h2.2
        rw [h1.1] at hl1
        rw [h2.1] at hl2
        simp [h1.1, h2.1]; omega
      · simp at hp
    · intro a ha; split at ha <;> simp at ha

/-- the pipeline-level stdout of `p | q` is `q`'s, its stdin is `p`'s -/
theorem c13_settings_of_composition {α : Type} (l r : Expr α) (p q : PDesc α)
    (hl : eval l = some (.pipeline p)) (hr : eval r = some (.pipeline q)) :
    ∃ s, eval (.or l r) = some (.pipeline s) ∧ s.sin = p.sin ∧ s.sout = q.sout := by
  simp [eval, hl, hr]

/-- `stderr_to` is a setting of the pipeline, not of the commands present when it is given: it
    survives appending further commands or a further pipeline with `|` (so, by `c13_wiring`, every
    command -- also the ones appended later -- gets the shared sink as its stderr) -/
theorem c13_stderr_setting_survives_composition {α : Type} (l r : Expr α) (p : PDesc α)
    (hl : eval l = some (.pipeline p)) (he : p.errTo = true) :
    (∀ b, eval r = some (.exec b) → ∃ s, eval (.or l r) = some (.pipeline s) ∧ s.errTo = true) ∧
    (∀ q, eval r = some (.pipeline q) → ∃ s, eval (.or l r) = some (.pipeline s) ∧ s.errTo = true) ∧
    (∃ s, eval (.setErr l) = some (.pipeline s) ∧ s.errTo = true) := by
  refine ⟨?_, ?_, ?_⟩
  · intro b hb; simp [eval, hl, hb, he]
  · intro q hq; simp [eval, hl, hq, he]
  · simp [eval, hl]

/-- **C13 (stage i feeds exactly stage i+1).**  When all commands start, they are started in order
    with the attachments `att0/att1/att2`; command i writes into pipe `2+i` and command i+1 -- and
    no other command, on no other descriptor -- reads it; the first command's stdin and the last
    command's stdout are what the pipeline was configured with; every command's stderr is the shared sink. -/
theorem c13_wiring (c0 : Cfg) (t : Term) (h : AllStart c0) :
    let c := effective c0 t
    (run c0 t).filterMap spawnOf = (List.range c.n).map (fun i => (i, att0 c i, att1 c i, att2 c t)) ∧
    (∀ i, i + 1 < c.n → att1 c i = .pipe (2 + i) ∧ att0 c (i + 1) = .pipe (2 + i) ∧
      (∀ j, j ≠ i → att1 c j ≠ .pipe (2 + i)) ∧ (∀ j, j ≠ i + 1 → att0 c j ≠ .pipe (2 + i)) ∧
      att2 c t ≠ .pipe (2 + i)) ∧
    ((c.sin = .inherit → att0 c 0 = .inherit) ∧ (c.sin = .file → att0 c 0 = .file) ∧
      (hasInPipe c = true → att0 c 0 = .pipe 1)) ∧
    (0 < c.n → (c.sout = .inherit → att1 c (c.n - 1) = .inherit) ∧ (c.sout = .file → att1 c (c.n - 1) = .file) ∧
      (c.sout = .pipe → att1 c (c.n - 1) = .pipe (2 + (c.n - 1)))) := by
  intro c
  refine ⟨spawnOf_runEff c t (effective_allStart c0 t h), ?_, ?_, ?_⟩
  · intro i hi
    refine ⟨by simp [att1, hi], att0_succ c i, ?_, ?_, ?_⟩
    · intro j hj
      unfold att1
      split
      · simp; omega
      · cases c.sout <;> simp <;> omega
    · intro j hj
      unfold att0
      split
      · cases c.sin <;> simp <;> omega
      · simp; omega
    · unfold att2
      (repeat' split) <;> simp <;> omega
  · refine ⟨fun h => by simp [att0, h], fun h => by simp [att0, h], att0_zero_pipe c⟩
  · intro hn
    have : ¬ (c.n - 1 + 1 < c.n) := by omega
    refine ⟨fun h => by simp [att1, this, h], fun h => by simp [att1, this, h], fun h => by simp [att1, this, h]⟩

/-- **C13 (the result equals the composition of the stages applied in order).**  For all stage
    functions `f`, every input, every number of commands n ≥ 1, every stdin/stdout kind and every
    terminator: what reaches the pipeline's configured output is `f (n-1) (… (f 1 (f 0 input)))`;
    the input reaches only the first command, the output receives only the last command's. -/
theorem c13_composition (f : Nat → List Nat → List Nat) (input : List Nat) (c0 : Cfg) (t : Term)
    (h : AllStart c0) (hn : 0 < c0.n) :
    result (effective c0 t) (flow f input (flow0 input) (run c0 t)) = compose f c0.n input := by
  have hn' : 0 < (effective c0 t).n := by rw [effective_n]; exact hn
  unfold run
  rw [flow_eq, spawnOf_runEff _ t (effective_allStart c0 t h)]
  have := (flow_stages f input (effective c0 t) (att2 (effective c0 t) t) (effective c0 t).n (Nat.le_refl _)).2.2.1 hn' rfl
  rw [effective_n] at this ⊢
  simpa [effective_n] using this

/-- **C13 (nothing else).**  At every start of a command the parent holds no inheritable pipe end
    other than the ones installed as that command's stdin/stdout/stderr -- so no command holds an
    end of a pipe between two other commands, of the pipeline's stdin/stdout pipes or of the shared
    stderr pipe (this is also C08 "as a stage of a pipeline"). -/
theorem c13_nothing_else (c0 : Cfg) (t : Term) : SpawnsClean Held.empty (run c0 t) := by
  unfold run
  cases hf : (effective c0 t).failAt with
  | none => exact runEff_ok_clean _ t (Or.inl hf)
  | some k =>
    by_cases hk : k < (effective c0 t).n
    · exact runEff_fail_clean _ t k hf hk
    · exact runEff_ok_clean _ t (Or.inr ⟨k, hf, by omega⟩)

def waitRetIdx : Act → Option Nat
  | .waitRet j => some j
  | _ => none

/-- **C13 (join and capture return the last command's status, after all commands have exited).**
    (For `capture`: when the exchange itself succeeded; a failed exchange returns its error, see `waits_ok`.)
    The only wait whose status is returned is for command n-1; the return is the very last action,
    and before it every command that is not detached has been waited for. -/
theorem c13_status_of_last (c0 : Cfg) (t : Term) (ht : t = .join ∨ t = .capture) (h : AllStart c0)
    (hio : c0.ioFails = false) :
    ∃ pre, run c0 t = pre ++ [.ret true] ∧ pre.filterMap waitRetIdx = [c0.n - 1] ∧ pre.filterMap retVal = [] ∧
      ∀ j, j < c0.n → (effective c0 t).det j = false → j ∈ pre.filterMap waitIdx := by
  have hA := effective_allStart c0 t h
  have hnn := effective_n c0 t
  have wr_closes : ∀ es : List End, (es.map Act.close).filterMap waitRetIdx = [] :=
    fun es => filterMap_closes waitRetIdx (by simp [waitRetIdx]) es
  have wr_stage : ∀ c a2 i, (stageOk c a2 i).filterMap waitRetIdx = [] := by
    intro c a2 i
    simp [stageOk, List.filterMap_append, filterMap_mkActs waitRetIdx (by simp [waitRetIdx]), wr_closes, waitRetIdx]
  have wr_stages : ∀ c a2 k, ((List.range k).flatMap (stageOk c a2)).filterMap waitRetIdx = [] := by
    intro c a2 k
    rw [filterMap_range_flatMap waitRetIdx _ (fun _ => []) (wr_stage c a2)]; simp
  have wr_drop : ∀ c tk w k, (dropVec c tk w k).filterMap waitRetIdx = [] := by
    intro c tk w k
    unfold dropVec
    rw [filterMap_range_flatMap waitRetIdx _ (fun _ => [])]
    · simp
    · intro j; unfold dropPopen
      simp only [List.filterMap_append, wr_closes]
      split <;> simp [waitRetIdx]
  have r_closes : ∀ es : List End, (es.map Act.close).filterMap retVal = [] :=
    fun es => filterMap_closes retVal (by simp [retVal]) es
  have w_closes : ∀ es : List End, (es.map Act.close).filterMap waitIdx = [] :=
    fun es => filterMap_closes waitIdx (by simp [waitIdx]) es
  have memw : ∀ (c : Cfg) (tk : List End) (j : Nat), j < c.n → c.det j = false →
      j ∈ (c.n - 1) :: (dropVec c tk (fun j => decide (j = c.n - 1)) c.n).filterMap waitIdx := by
    intro c tk j hj hd
    rw [waits_dropVec]
    by_cases hl : j = c.n - 1
    · simp [hl]
    · simp [hl, hd, hj]
  have s1 : ∀ a b c, List.filterMap waitRetIdx [Act.mk a b c] = [] := fun _ _ _ => rfl
  have s2 : ∀ e, List.filterMap waitRetIdx [Act.close e] = [] := fun _ => rfl
  have s3 : List.filterMap waitRetIdx [Act.io] = [] := rfl
  have s4 : ∀ j, List.filterMap waitRetIdx [Act.waitRet j] = [j] := fun _ => rfl
  have s5 : ∀ a b c, List.filterMap retVal [Act.mk a b c] = [] := fun _ _ _ => rfl
  have s6 : ∀ e, List.filterMap retVal [Act.close e] = [] := fun _ => rfl
  have s7 : List.filterMap retVal [Act.io] = [] := rfl
  have s8 : ∀ j, List.filterMap retVal [Act.waitRet j] = [] := fun _ => rfl
  have s9 : ∀ a b c, List.filterMap waitIdx [Act.mk a b c] = [] := fun _ _ _ => rfl
  have s10 : ∀ e, List.filterMap waitIdx [Act.close e] = [] := fun _ => rfl
  have s11 : List.filterMap waitIdx [Act.io] = [] := rfl
  have s12 : ∀ j, List.filterMap waitIdx [Act.waitRet j] = [j] := fun _ => rfl
  unfold run
  rw [runEff_ok _ t hA]
  rcases ht with rfl | rfl
  · refine ⟨(if capPipe (effective c0 .join) .join then [Act.mk 0 true true] else []) ++
        (List.range (effective c0 .join).n).flatMap (stageOk (effective c0 .join) (att2 (effective c0 .join) .join)) ++
        (if capPipe (effective c0 .join) .join then [Act.close ⟨0, .w⟩] else []) ++
        ([.waitRet ((effective c0 .join).n - 1)] ++
          dropVec (effective c0 .join) [] (fun j => j = (effective c0 .join).n - 1) (effective c0 .join).n),
      by simp only [tail, List.append_assoc], ?_, ?_, ?_⟩
    · simp only [List.filterMap_append, wr_stages, wr_drop]
      cases capPipe (effective c0 .join) .join <;> simp [s1, s2, s3, s4, hnn]
    · simp only [List.filterMap_append, rets_stages, rets_dropVec]
      cases capPipe (effective c0 .join) .join <;> simp [s5, s6, s7, s8]
    · intro j hj hd
      simp only [List.filterMap_append, waits_stages]
      have := memw (effective c0 .join) [] j (by omega) hd
      cases capPipe (effective c0 .join) .join <;> simpa [s9, s10, s11, s12] using this
  · refine ⟨(if capPipe (effective c0 .capture) .capture then [Act.mk 0 true true] else []) ++
        (List.range (effective c0 .capture).n).flatMap (stageOk (effective c0 .capture) (att2 (effective c0 .capture) .capture)) ++
        (if capPipe (effective c0 .capture) .capture then [Act.close ⟨0, .w⟩] else []) ++
        ([.io] ++ (commEnds (effective c0 .capture) .capture).map Act.close ++ [.waitRet ((effective c0 .capture).n - 1)] ++
          dropVec (effective c0 .capture) (commEnds (effective c0 .capture) .capture)
            (fun j => j = (effective c0 .capture).n - 1) (effective c0 .capture).n),
      by simp only [tail, effective_ioFails, hio, Bool.false_eq_true, if_false, List.append_assoc], ?_, ?_, ?_⟩
    · simp only [List.filterMap_append, wr_stages, wr_drop, wr_closes]
      cases capPipe (effective c0 .capture) .capture <;> simp [s1, s2, s3, s4, hnn]
    · simp only [List.filterMap_append, rets_stages, rets_dropVec, r_closes]
      cases capPipe (effective c0 .capture) .capture <;> simp [s5, s6, s7, s8]
    · intro j hj hd
      simp only [List.filterMap_append, waits_stages, w_closes]
      have := memw (effective c0 .capture) (commEnds (effective c0 .capture) .capture) j (by omega) hd
      cases capPipe (effective c0 .capture) .capture <;> simpa [s9, s10, s11, s12] using this

/-! Non-vacuity (tests, labelled as tests) -/
example : (eval (.or (.or (.cmd 1) (.cmd 2)) (.or (.cmd 3) (.cmd 4)) : Expr Nat)).map
    (fun v => match v with | .pipeline p => p.cmds | .exec a => [a]) = some [1, 2, 3, 4] := by decide
example : (run { n := 3, det := fun _ => false, sin := .file, sout := .pipe, serr := .inherit, errTo := false,
                 failAt := none } .capture).filterMap spawnOf =
    [(0, .file, .pipe 2, .pipe 0), (1, .pipe 2, .pipe 3, .pipe 0), (2, .pipe 3, .pipe 4, .pipe 0)] := by decide

end Pipe

import Model.Pipeline
namespace Pipe
theorem c13_placeholder : stepHeld Held.empty .io = Held.empty := rfl
end Pipe

import Proofs.CommInv
/-!
# C02  Communicate moves bytes exactly: output verbatim, input once, then EOF

Theorems about `Comm.runSess` — any number of `read()` calls, every child script, every
interleaving of parent and child steps, every pattern of short reads and writes, every injected
error — proved by an invariant over steps.
-/
namespace Comm

/-- the invariant as a predicate on session states -/
def SInv (orig : List UInt8) (ss : Sess) : Prop := CInv orig ss.retOut ss.retErr ss.sys

theorem startRead_data (p : Par) (l t : Option Nat) :
    (startRead p l t).outvec = [] ∧ (startRead p l t).errvec = [] ∧ (startRead p l t).input = p.input := by
  unfold startRead; split <;> simp

theorem sessStep_inv (orig : List UInt8) (ss ss' : Sess) (e : Ev) (h : SInv orig ss)
    (hs : sessStep ss e = some ss') : SInv orig ss' := by
  unfold SInv at *
  cases e with
  | child c =>
    simp only [sessStep, Option.map_eq_some_iff] at hs
    obtain ⟨w', hw, rfl⟩ := hs
    exact child_cinv orig _ _ _ _ _ c h hw
  | parent c =>
    simp only [sessStep, Option.map_eq_some_iff] at hs
    obtain ⟨⟨p', w'⟩, hw, rfl⟩ := hs
    exact par_cinv orig _ _ _ _ _ _ c h hw
  | start l t =>
    simp only [sessStep] at hs
    split at hs
    · simp only [Option.some.injEq] at hs
      subst hs
      obtain ⟨h1, h2, h3⟩ := h
      obtain ⟨d1, d2, d3⟩ := startRead_data ss.sys.par l t
      exact ⟨by simp only [d1, h1, List.append_nil], by simp only [d2, h2, List.append_nil], by simp only [d3, h3]⟩
    · simp at hs

/-- **C02 (exactness, all reachable states).**  In every state reachable by any sequence of child
    steps, parent steps and `read()` calls:
    * the bytes the child wrote to stdout = the bytes returned by finished calls ++ the bytes
      collected by the current call ++ the bytes still in the pipe — in this order, so nothing is
      lost, duplicated, reordered or moved to the other stream (same for stderr);
    * the supplied input = what the child consumed ++ what is in the stdin pipe ++ what the library
      still holds — each byte handed over exactly once, in order. -/
theorem c02_exact (stdin : Bool) (input : List UInt8) (hasOut hasErr : Bool)
    (capIn capOut capErr now : Nat) (script : List CAct) (evs : List Ev) (ss : Sess)
    (h : runSess (initSess stdin input hasOut hasErr (initWorld capIn capOut capErr script now)) evs = some ss) :
    ss.sys.w.gOut = ss.retOut ++ ss.sys.par.outvec ++ ss.sys.w.outBuf ∧
    ss.sys.w.gErr = ss.retErr ++ ss.sys.par.errvec ++ ss.sys.w.errBuf ∧
    input = ss.sys.w.gIn ++ ss.sys.w.inBuf ++ ss.sys.par.input := by
  have key : ∀ (evs : List Ev) (s0 : Sess), SInv input s0 → runSess s0 evs = some ss → SInv input ss := by
    intro evs
    induction evs with
    | nil => intro s0 h0 hr; simp only [runSess, Option.some.injEq] at hr; subst hr; exact h0
    | cons e es ih =>
      intro s0 h0 hr
      simp only [runSess] at hr
      split at hr
      · rename_i s1 hs1; exact ih s1 (sessStep_inv input s0 s1 e h0 hs1) hr
      · simp at hr
  have h0 : SInv input (initSess stdin input hasOut hasErr (initWorld capIn capOut capErr script now)) := by
    refine ⟨?_, ?_, ?_⟩ <;> simp [initSess, initWorld, mkPar]
  obtain ⟨h1, h2, h3⟩ := key evs _ h0 h
  exact ⟨h1, h2, h3⟩

/-- **C02 (result of a finished exchange).**  When a call has returned and the stdout pipe is
    empty (the child closed it or exited and everything was drained), the concatenation of all
    results — the current one included, be it `Ok` or the `capture` of an error — is exactly what
    the child wrote. -/
theorem c02_result_exact (stdin : Bool) (input : List UInt8) (hasOut hasErr : Bool)
    (capIn capOut capErr now : Nat) (script : List CAct) (evs : List Ev) (ss : Sess)
    (h : runSess (initSess stdin input hasOut hasErr (initWorld capIn capOut capErr script now)) evs = some ss)
    (hout : ss.sys.w.outBuf = []) (herr : ss.sys.w.errBuf = []) :
    ss.retOut ++ ss.sys.par.outvec = ss.sys.w.gOut ∧ ss.retErr ++ ss.sys.par.errvec = ss.sys.w.gErr := by
  obtain ⟨h1, h2, _⟩ := c02_exact stdin input hasOut hasErr capIn capOut capErr now script evs ss h
  rw [hout] at h1; rw [herr] at h2
  simp only [List.append_nil] at h1 h2
  exact ⟨h1.symm, h2.symm⟩

/-- a stream that was not piped is reported as absent, a piped one as present -/
theorem c02_option_shape (p : Par) :
    ((result p).1.isSome = p.hasOut) ∧ ((result p).2.isSome = p.hasErr) := by
  unfold result; cases p.hasOut <;> cases p.hasErr <;> simp

/-- **C02 (EOF immediately after the last byte).**  The answer to the `write` that delivers the
    last input byte (also: the empty write for empty input) makes `close(stdin)` the very next
    system call, before any further poll or read. -/
theorem c02_eof_immediate (p : Par) (o e : Bool) (k : Nat) (data : List UInt8)
    (hpc : p.pc = .wr o e) (hk : k = p.input.length) :
    pendingCall (feed p (.n k) data) = .closeIn ∧ (feed p (.n k) data).input = [] := by
  unfold feed; rw [hpc]; simp [hk, pendingCall]

/-- … and `close` is issued only then: if an answer makes `close(stdin)` the pending call, that
    answer was the acceptance of the last input byte(s) by a `write` -/
theorem c02_close_only_when_done (p : Par) (r : Resp) (data : List UInt8) (o e : Bool)
    (h : (feed p r data).pc = .closeIn o e) (hnot : NotClose p) :
    (feed p r data).input = [] ∧ ∃ o' e' k, p.pc = .wr o' e' ∧ r = .n k ∧ k = p.input.length := by
  by_cases hw : ∃ o e k, p.pc = .wr o e ∧ r = .n k ∧ k = p.input.length
  · obtain ⟨o', e', k, hpc, rfl, hk⟩ := hw
    exact ⟨(c02_eof_immediate p o' e' k data hpc hk).2, o', e', k, hpc, rfl, hk⟩
  · exact absurd h (feed_notClose p r data hnot hw o e)


/-- **C02 (input is delivered even while output is being produced).**  Whenever a `poll` reports the
    stdin pipe writable (or broken), the very next system call of the library is the `write` of the
    next input chunk -- whatever the other two streams report: delivery of the input (and of the
    end-of-file that follows the last byte) is never postponed behind pending output. -/
theorem c02_round_writes_when_stdin_ready (p : Par) (tmo : Option Nat) (dl2 : Nat) (i o e : Rev)
    (hpc : p.pc = .poll tmo dl2) (hs : p.stdin = true) (hi : (i.pout || i.phup || i.perr) = true) :
    ∃ o' e', (feed p (.revs i o e) []).pc = .wr o' e' ∧
      pendingCall (feed p (.revs i o e) []) = .write (min WRITE_SIZE p.input.length) := by
  have hany : i.any = true := by
    simp only [Rev.any]
    simp only [Bool.or_eq_true] at hi ⊢
    rcases hi with (h | h) | h <;> simp [h]
  simp only [feed, hpc, hany, Bool.true_or, if_true, hs, hi, Bool.and_self, Bool.true_and]
  refine ⟨p.outRef && (o.pin || o.phup || o.perr), p.errRef && (e.pin || e.phup || e.perr), by simp [afterPoll], ?_⟩
  simp [afterPoll, pendingCall]

/-! ### Non-vacuity (tests, labelled as tests) -/
def exW : World := initWorld 65536 65536 65536 [.readIn 10, .write .out [1, 2, 3], .write .err [9]] 0
-- a concrete exchange: start, poll, write 2 bytes, close, child reads and writes, reads, EOF
example : (runSess (initSess true [7, 8] true true exW)
    [.start none none, .parent {}, .parent { n := 2 }, .parent {}, .child { n := 10 }, .child { n := 3 }, .child { n := 1 },
     .parent {}, .parent { n := 100 }, .parent { n := 100 }]).map (fun ss => (ss.sys.par.outvec, ss.sys.par.errvec, ss.sys.w.gIn))
    = some ([1, 2, 3], [9], [7, 8]) := by decide

end Comm

import Proofs.Life
import Props.C09
/-!
# C11  poll never blocks; wait_timeout is accurate and does not busy-wait

Virtual time: the clock readings and the sleeps are answers of the environment; the theorems hold
for every answer list, the counting theorem for every answer list whose clock obeys A6
(`CLOCK_MONOTONIC` is non-decreasing and `sleep(x)` returns no earlier than `x` later).
-/
namespace Life

theorem waitTimeout_log (p : Popen) (d : Nat) (rs : List Resp) :
    ∀ e ∈ (waitTimeout p d rs).log,
      (∃ pid, p.st = .running pid ∧ e.1 = .waitpid pid true) ∨ e.1 = .clock ∨ ∃ x, e.1 = .sleep x ∧ x ≤ 100 * ms := by
  unfold waitTimeout
  cases hp : p.st with
  | finished st => simp
  | running pid =>
    cases rs with
    | nil => simp
    | cons r rs =>
      cases r <;> simp only [Out.pre, List.mem_append, List.mem_singleton] <;> (try (simp; done))
      rintro e (rfl | he)
      · simp
      · rcases wtLoop_log pid p.detached _ (1 * ms) rs (by simp [ms]) e he with h | h | h
        · exact Or.inl ⟨pid, rfl, h⟩
        · exact Or.inr (Or.inl h)
        · exact Or.inr (Or.inr h)

/-- **C11 (wait_timeout never blocks in the kernel and never sleeps long).**  Every `waitpid` it
    issues is `WNOHANG`, and every single sleep is at most 100 ms. -/
theorem c11_wait_timeout_calls (p : Popen) (d : Nat) (rs : List Resp) :
    ∀ e ∈ (runOp (.waitTimeout d) p rs).log,
      isBlockingWait e = false ∧ ∀ x, e.1 = .sleep x → x ≤ 100 * ms := by
  intro e he
  rcases waitTimeout_log p d rs e he with ⟨pid, _, h⟩ | h | ⟨x, h, hx⟩
  · simp [isBlockingWait, h]
  · simp [isBlockingWait, h]
  · refine ⟨by simp [isBlockingWait, h], fun y hy => ?_⟩
    rw [h] at hy; cases hy; exact hx

/-- **C11 (poll).**  `poll` never returns an error and never issues a blocking `waitpid`;
    with a monotonic clock it makes at most three system calls (clock, one `waitpid(WNOHANG)`,
    clock) and never sleeps. -/
theorem c11_poll (p : Popen) (rs : List Resp) :
    (∀ e, (runOp .poll p rs).ret ≠ .err e) ∧
    (∀ e ∈ (runOp .poll p rs).log, isBlockingWait e = false) := by
  constructor
  · intro e
    simp only [runOp, poll]
    split
    · simp
    · rename_i h; exact h e
  · intro e he
    have : e ∈ (waitTimeout p 0 rs).log := by
      simp only [runOp, poll] at he
      split at he <;> exact he
    exact (c11_wait_timeout_calls p 0 rs e this).1

theorem c11_poll_bounded (pid : Nat) (det : Bool) (t0 t1 : Nat) (r : Resp) (rest : List Resp) (h : t0 ≤ t1) :
    (runOp .poll ⟨.running pid, det⟩ (.time t0 :: r :: .time t1 :: rest)).log.length ≤ 3 ∧
    ∀ e ∈ (runOp .poll ⟨.running pid, det⟩ (.time t0 :: r :: .time t1 :: rest)).log, isSleep e = false := by
  have hd : t0 + 0 ≤ t1 := by omega
  simp only [runOp, poll, waitTimeout, Out.pre]
  cases r with
  | err e =>
    by_cases he : e = ECHILD <;> (unfold wtLoop; simp [he, isSleep])
  | wp po w =>
    by_cases hp : po = pid <;> (unfold wtLoop; simp [hp, h, isSleep])
  | ok => unfold wtLoop; simp [isSleep]
  | time t => unfold wtLoop; simp [isSleep]
  | pending => unfold wtLoop; simp [isSleep]

/-- **C11 (already known).**  With a known status `wait_timeout` returns it at once, without any
    system call. -/
theorem c11_already_known (st : ExitStatus) (det : Bool) (d : Nat) (rs : List Resp) :
    (runOp (.waitTimeout d) ⟨.finished st, det⟩ rs).ret = .status st ∧
    (runOp (.waitTimeout d) ⟨.finished st, det⟩ rs).log = [] := by
  simp [runOp_finished, retFin]

/-- **C11 (not early).**  `wait_timeout(d)` answers "still running" only after a clock reading
    that is at least `d` later than the reading taken when the call started. -/
theorem c11_not_early (pid : Nat) (det : Bool) (d t0 : Nat) (rs : List Resp)
    (h : (runOp (.waitTimeout d) ⟨.running pid, det⟩ (.time t0 :: rs)).ret = .none) :
    ∃ t1, (Call.clock, Resp.time t1) ∈ (runOp (.waitTimeout d) ⟨.running pid, det⟩ (.time t0 :: rs)).log ∧
      t0 + d ≤ t1 := by
  simp only [runOp, waitTimeout, Out.pre] at h ⊢
  obtain ⟨_, t1, hm, hle⟩ := wtLoop_none pid det (t0 + d) (1 * ms) rs h
  exact ⟨t1, List.mem_append_right _ hm, hle⟩

/-! ### No busy-waiting: a bound on the number of status checks -/

/-- A6 on a call log: clock readings never go back, and after `sleep(x)` at least `x` has passed. -/
def ClockOK : Nat → List (Call × Resp) → Prop
  | _, [] => True
  | cur, (.clock, .time t) :: l => cur ≤ t ∧ ClockOK t l
  | cur, (.sleep x, _) :: l => ClockOK (cur + x) l
  | cur, _ :: l => ClockOK cur l

/-- the back-off delays: 1, 2, 4, …, 64 ms, then 100 ms for ever -/
def dseq (j : Nat) : Nat := if 7 ≤ j then 100000000 else 2 ^ j * 1000000

/-- status checks still to come in the 100 ms phase, from a lower bound `cur` on the current time -/
def B (dl cur : Nat) : Nat := if dl ≤ cur then 1 else (dl - cur + 99999999) / 100000000 + 1

theorem dseq_next (j : Nat) (hj : j ≤ 7) : min (dseq j * 2) (100 * ms) = dseq (min (j + 1) 7) := by
  have : j = 0 ∨ j = 1 ∨ j = 2 ∨ j = 3 ∨ j = 4 ∨ j = 5 ∨ j = 6 ∨ j = 7 := by omega
  rcases this with rfl | rfl | rfl | rfl | rfl | rfl | rfl | rfl <;> decide

theorem B_antitone (dl a b : Nat) (h : a ≤ b) : B dl b ≤ B dl a := by
  unfold B; split <;> split <;> omega

def nChecks (l : List (Call × Resp)) : Nat := (l.filter isWaitpid).length

theorem wtLoop_checks (pid : Nat) (det : Bool) (dl delay : Nat) (rs : List Resp) :
    ∀ j, j ≤ 7 → delay = dseq j → ∀ cur, ClockOK cur (wtLoop pid det dl delay rs).log →
      nChecks (wtLoop pid det dl delay rs).log ≤ (7 - j) + B dl cur := by
  have B1 : ∀ cur, 1 ≤ B dl cur := by intro cur; unfold B; split <;> omega
  induction delay, rs using wtLoop.induct pid dl with
  | case1 => intro j _ _ cur _; unfold wtLoop; have := B1 cur; simp [nChecks, List.filter, isWaitpid]; omega
  | case2 delay rs => intro j _ _ cur _; unfold wtLoop; have := B1 cur; simp [nChecks, List.filter, isWaitpid]; omega
  | case3 delay e rs he => intro j _ _ cur _; unfold wtLoop; have := B1 cur; simp [he, nChecks, List.filter, isWaitpid]; omega
  | case4 delay w rs => intro j _ _ cur _; unfold wtLoop; have := B1 cur; simp [nChecks, List.filter, isWaitpid]; omega
  | case5 delay po w hp => intro j _ _ cur _; unfold wtLoop; have := B1 cur; simp [hp, nChecks, List.filter, isWaitpid]; omega
  | case6 delay po w hp now rs2 hd' => intro j _ _ cur _; unfold wtLoop; have := B1 cur; simp [hp, hd', nChecks, List.filter, isWaitpid]; omega
  | case7 delay po w hp now hd' => intro j _ _ cur _; unfold wtLoop; have := B1 cur; simp [hp, hd', nChecks, List.filter, isWaitpid]; omega
  | case8 delay po w hp now hd' r3 rs3 ih =>
    intro j hj hδ cur hok
    unfold wtLoop at hok ⊢
    simp only [hp, hd', if_false, Out.pre, List.cons_append, List.nil_append, ClockOK] at hok ⊢
    obtain ⟨hcn, hok'⟩ := hok
    have hnext := dseq_next j hj
    rw [← hδ] at hnext
    have ih' := ih (min (j + 1) 7) (by omega) hnext _ hok'
    have hc : nChecks ((Call.waitpid pid true, Resp.wp po w) :: (Call.clock, Resp.time now) ::
        (Call.sleep (min delay (dl - now)), r3) :: (wtLoop pid det dl (min (delay * 2) (100 * ms)) rs3).log)
        = 1 + nChecks (wtLoop pid det dl (min (delay * 2) (100 * ms)) rs3).log := by
      simp [nChecks, List.filter, isWaitpid]; omega
    rw [hc]
    by_cases hj7 : j = 7
    · -- 100 ms phase: a full sleep brings the deadline 100 ms closer, a shortened one reaches it
      subst hj7
      have hδ' : delay = 100000000 := by rw [hδ]; decide
      have key : 1 + B dl (now + min delay (dl - now)) ≤ B dl cur := by
        subst hδ'
        unfold B
        have hlt : now < dl := by omega
        split <;> split <;> omega
      omega
    · have hm : min (j + 1) 7 = j + 1 := by omega
      rw [hm] at ih'
      have := B_antitone dl cur (now + min delay (dl - now)) (by omega)
      omega
  | case9 delay po w hp r2 rs2 hr =>
    intro j _ _ cur _
    unfold wtLoop
    have := B1 cur
    cases r2 with
    | time t => exact absurd rfl (hr t)
    | _ => simp [hp, nChecks, List.filter, isWaitpid]; omega
  | case10 delay r rs h1 h2 =>
    intro j _ _ cur _
    unfold wtLoop
    have := B1 cur
    cases r with
    | err e => exact absurd rfl (h1 e)
    | wp po w => exact absurd rfl (h2 po w)
    | _ => simp [nChecks, List.filter, isWaitpid]; omega

/-- **C11 (no busy-waiting).**  Under A6, `wait_timeout(d)` performs at most `9 + d / 100 ms`
    status checks — for every `d` (zero, sub-millisecond, weeks, > 25 days), every exit time of the
    child and every scheduling latency. -/
theorem c11_no_spin (pid : Nat) (det : Bool) (d t0 : Nat) (rs : List Resp)
    (hok : ClockOK 0 (runOp (.waitTimeout d) ⟨.running pid, det⟩ (.time t0 :: rs)).log) :
    nChecks (runOp (.waitTimeout d) ⟨.running pid, det⟩ (.time t0 :: rs)).log ≤ 9 + d / (100 * ms) := by
  simp only [runOp, waitTimeout, Out.pre, List.cons_append, List.nil_append, ClockOK] at hok ⊢
  have h := wtLoop_checks pid det (t0 + d) (1 * ms) rs 0 (by omega) (by decide) t0 hok.2
  have hc : nChecks ((Call.clock, Resp.time t0) :: (wtLoop pid det (t0 + d) (1 * ms) rs).log)
      = nChecks (wtLoop pid det (t0 + d) (1 * ms) rs).log := by
    simp [nChecks, List.filter, isWaitpid]
  rw [hc]
  have hB : B (t0 + d) t0 ≤ d / 100000000 + 2 := by unfold B; split <;> omega
  have : 100 * ms = 100000000 := by decide
  rw [this]
  omega

/-! ### Non-vacuity (tests, labelled as tests) -/
-- a 150 ms time-out with a child that never exits: checks at 0,1,3,7,15,31,63,127 ms and at the deadline
example : (runOp (.waitTimeout (150 * ms)) ⟨.running 7, false⟩
    [.time 0, .wp 0 0, .time 0, .ok, .wp 0 0, .time (1*ms), .ok, .wp 0 0, .time (3*ms), .ok, .wp 0 0, .time (7*ms), .ok,
     .wp 0 0, .time (15*ms), .ok, .wp 0 0, .time (31*ms), .ok, .wp 0 0, .time (63*ms), .ok, .wp 0 0, .time (127*ms), .ok,
     .wp 0 0, .time (150*ms)]).ret = .none := by decide
example : ClockOK 0 [(.clock, .time 5), (.sleep 10, .ok), (.clock, .time 15)] := by simp [ClockOK]
example : ¬ ClockOK 0 [(.clock, .time 5), (.sleep 10, .ok), (.clock, .time 14)] := by simp [ClockOK]

/-- **C11 (an exit is reported by the call during which it is observed: no nap is the last thing before "still
    running").**  Whenever `wait_timeout(d)` answers "still running", the last two things it did were a status check
    (`waitpid(WNOHANG)`) that said so and a clock reading at or past the deadline.  Every nap is therefore followed
    by another status check within the same call, so a child that exits during a nap -- the last one included -- is
    reported by this call, at most one nap (100 ms) after it happened. -/
theorem c11_none_only_after_a_status_check (pid : Nat) (det : Bool) (d : Nat) (rs : List Resp)
    (h : (waitTimeout ⟨.running pid, det⟩ d rs).ret = .none) :
    ∃ pre po w now t0, (waitTimeout ⟨.running pid, det⟩ d rs).log =
        pre ++ [(.waitpid pid true, .wp po w), (.clock, .time now)] ∧ po ≠ pid ∧ t0 + d ≤ now := by
  unfold waitTimeout at h ⊢
  simp only at h ⊢
  cases rs with
  | nil => simp at h
  | cons r rs1 =>
    cases r with
    | time t0 =>
      simp only [Out.pre] at h ⊢
      obtain ⟨pre, po, w, now, hl, hne, hle⟩ := wtLoop_none_ends_with_check pid det (t0 + d) (1 * ms) rs1 h
      exact ⟨_ ++ pre, po, w, now, t0, by rw [hl, List.append_assoc], hne, hle⟩
    | _ => simp at h

/-! ### Naps stay inside the remaining time; lateness does not accumulate -/

theorem wtLoop_log_head (pid : Nat) (det : Bool) (dl delay : Nat) (rs : List Resp) :
    ∃ r tl, (wtLoop pid det dl delay rs).log = (.waitpid pid true, r) :: tl := by
  unfold wtLoop
  (repeat' split) <;> simp [Out.pre]

/-- **C11 (every nap fits into the time that is left).**  Each sleep of `wait_timeout(d)` directly follows a clock
    reading `now` that is still before the deadline `t0 + d`, is longer than zero (no zero-length naps: the loop does
    not spin near the deadline) and is at most `t0 + d - now`: the call never plans to sleep past its deadline, whatever
    the deadline is (milliseconds or months away -- the arithmetic is over unbounded naturals here; the clamp
    `min(delay, remaining)` of the code is what the correspondence runs check with far deadlines). -/
theorem c11_naps_within_remaining (pid : Nat) (det : Bool) (d t0 : Nat) (rs : List Resp) :
    NapsOK (t0 + d) (runOp (.waitTimeout d) ⟨.running pid, det⟩ (.time t0 :: rs)).log := by
  simp only [runOp, waitTimeout, Out.pre]
  obtain ⟨r, tl, h⟩ := wtLoop_log_head pid det (t0 + d) (1 * ms) rs
  have := wtLoop_naps pid det (t0 + d) (1 * ms) rs (by simp [ms])
  rw [h] at this ⊢
  simpa [NapsOK] using this

/-- **C11 (accuracy: lateness does not accumulate).**  If every clock reading comes at most `J` after the previous
    reading plus the naps taken since (`J` = the latency of one round: scheduling, oversleeping of one nap, the status
    check), then *every* reading `wait_timeout(d)` takes -- the last one, after which it answers "still running",
    included -- is at most `J` past the deadline: the error is one round's latency, not the sum over the rounds.
    Together with `c11_not_early`: "still running" is answered at a time in `[t0 + d, t0 + d + J]`. -/
theorem c11_not_late (pid : Nat) (det : Bool) (d t0 J : Nat) (rs : List Resp)
    (hub : ClockUB J t0 (runOp (.waitTimeout d) ⟨.running pid, det⟩ (.time t0 :: rs)).log) :
    ∀ t, (Call.clock, Resp.time t) ∈ (runOp (.waitTimeout d) ⟨.running pid, det⟩ (.time t0 :: rs)).log →
      t ≤ t0 + d + J := by
  simp only [runOp, waitTimeout, Out.pre] at hub ⊢
  intro t ht
  simp only [List.cons_append, List.nil_append, ClockUB] at hub
  simp only [List.cons_append, List.nil_append, List.mem_cons, Prod.mk.injEq, Resp.time.injEq, true_and] at ht
  rcases ht with rfl | ht
  · omega
  · exact wtLoop_readings pid det (t0 + d) (1 * ms) J rs (by simp [ms]) t0 (by omega) hub.2 t ht

/-- non-vacuity (a test, labelled as a test): a run with two naps whose clock obeys the latency bound `J = 5 ms` -/
example : ClockUB (5 * ms) 0 (runOp (.waitTimeout (3 * ms)) ⟨.running 7, false⟩
      [.time 0, .wp 0 0, .time (1 * ms), .ok, .wp 0 0, .time (2 * ms + 2), .ok, .wp 0 0, .time (3 * ms + 9)]).log ∧
    (runOp (.waitTimeout (3 * ms)) ⟨.running 7, false⟩
      [.time 0, .wp 0 0, .time (1 * ms), .ok, .wp 0 0, .time (2 * ms + 2), .ok, .wp 0 0, .time (3 * ms + 9)]).ret = .none := by
  refine ⟨?_, by decide⟩
  simp [runOp, waitTimeout, wtLoop, Out.pre, ClockUB, ms]

end Life

import Proofs.CommLim
import Props.C02
/-!
# C03  Size limit bounds each read; no data lost or repeated across reads

For every limit (also changing between reads), every child script, every interleaving and every
pattern of short transfers.
-/
namespace Comm

structure Inv3 (ss : Sess) : Prop where
  lim : LInv ss.sys.par
  done : DoneInv ss.sys.par
  eof : EofInv ss.sys.par ss.sys.w

theorem startRead_refs (p : Par) (l t : Option Nat) :
    (startRead p l t).outRef = p.hasOut ∧ (startRead p l t).errRef = p.hasErr ∧
    (startRead p l t).hasOut = p.hasOut ∧ (startRead p l t).hasErr = p.hasErr := by
  unfold startRead; split <;> simp

theorem sessStep_inv3 (ss ss' : Sess) (e : Ev) (h : Inv3 ss) (hs : sessStep ss e = some ss') : Inv3 ss' := by
  cases e with
  | child c =>
    simp only [sessStep, Option.map_eq_some_iff] at hs
    obtain ⟨w', hw, rfl⟩ := hs
    obtain ⟨c1, c2⟩ := child_eof _ _ _ c hw
    exact ⟨h.lim, h.done, fun ho hr => c1 (h.eof.1 ho hr), fun ho hr => c2 (h.eof.2 ho hr)⟩
  | parent c =>
    simp only [sessStep, Option.map_eq_some_iff] at hs
    obtain ⟨⟨p', w'⟩, hw, rfl⟩ := hs
    refine ⟨par_linv _ _ _ _ c h.lim hw, ?_, par_eofInv _ _ _ _ c h.eof h.lim.2 hw⟩
    unfold parStep at hw
    split at hw
    · simp at hw
    · simp only [Option.some.injEq, Prod.mk.injEq] at hw
      obtain ⟨rfl, -⟩ := hw
      exact feed_doneInv _ _ _ h.done
  | start l t =>
    simp only [sessStep] at hs
    split at hs
    · simp only [Option.some.injEq] at hs
      subst hs
      obtain ⟨r1, r2, r3, r4⟩ := startRead_refs ss.sys.par l t
      refine ⟨startRead_linv _ l t, startRead_doneInv _ l t, ?_, ?_⟩
      · intro ho hr; simp only at ho hr; rw [r3] at ho; rw [r1, ho] at hr; cases hr
      · intro ho hr; simp only at ho hr; rw [r4] at ho; rw [r2, ho] at hr; cases hr
    · simp at hs

theorem runSess_inv3 (evs : List Ev) (s0 ss : Sess) (h0 : Inv3 s0) (hr : runSess s0 evs = some ss) : Inv3 ss := by
  induction evs generalizing s0 with
  | nil => simp only [runSess, Option.some.injEq] at hr; subst hr; exact h0
  | cons e es ih =>
    simp only [runSess] at hr
    split at hr
    · rename_i s1 hs1; exact ih s1 (sessStep_inv3 s0 s1 e h0 hs1) hr
    · simp at hr

/-- **C03 (bound).**  In every reachable state of any session — in particular whenever a `read()`
    returns, successfully or not — the bytes collected by the current call, stdout and stderr
    together, never exceed the size limit in force. -/
theorem c03_bound (stdin : Bool) (input : List UInt8) (hasOut hasErr : Bool) (w0 : World)
    (evs : List Ev) (ss : Sess) (l : Nat)
    (h : runSess (initSess stdin input hasOut hasErr w0) evs = some ss) (hl : ss.sys.par.limit = some l) :
    ss.sys.par.outvec.length + ss.sys.par.errvec.length ≤ l := by
  have key : ∀ (evs : List Ev) (s0 : Sess), LInv s0.sys.par → runSess s0 evs = some ss → LInv ss.sys.par := by
    intro evs
    induction evs with
    | nil => intro s0 h0 hr; simp only [runSess, Option.some.injEq] at hr; subst hr; exact h0
    | cons e es ih =>
      intro s0 h0 hr
      simp only [runSess] at hr
      split at hr
      · rename_i s1 hs1
        refine ih s1 ?_ hr
        cases e with
        | child c =>
          simp only [sessStep, Option.map_eq_some_iff] at hs1
          obtain ⟨w', -, rfl⟩ := hs1; exact h0
        | parent c =>
          simp only [sessStep, Option.map_eq_some_iff] at hs1
          obtain ⟨⟨p', w'⟩, hw, rfl⟩ := hs1; exact par_linv _ _ _ _ c h0 hw
        | start l t =>
          simp only [sessStep] at hs1
          split at hs1
          · simp only [Option.some.injEq] at hs1; subst hs1; exact startRead_linv _ l t
          · simp at hs1
      · simp at hr
  have h0 : LInv (initSess stdin input hasOut hasErr w0).sys.par := by
    refine ⟨?_, by simp [initSess, mkPar, RdOK]⟩
    intro l hl; simp [initSess, mkPar] at hl
  exact (key evs _ h0 h).1 l hl

/-- **C03 (consecutive pieces).**  The next `read()` starts from exactly where the previous one
    stopped: the bytes it returned are appended to the record of returned bytes, and by
    `c02_exact` that record ++ the current collection ++ the pipe content is, at every moment,
    what the child wrote; the input left over is untouched by the call boundary. -/
theorem c03_consecutive (ss ss' : Sess) (l t : Option Nat) (h : sessStep ss (.start l t) = some ss') :
    ss'.retOut = ss.retOut ++ ss.sys.par.outvec ∧ ss'.retErr = ss.retErr ++ ss.sys.par.errvec ∧
    ss'.sys.par.input = ss.sys.par.input ∧ ss'.sys.par.stdin = ss.sys.par.stdin ∧ ss'.sys.w = ss.sys.w := by
  simp only [sessStep] at h
  split at h
  · simp only [Option.some.injEq] at h
    subst h
    refine ⟨rfl, rfl, (startRead_data _ l t).2.2, ?_, rfl⟩
    unfold startRead; split <;> simp [loopTop] <;> (repeat' split) <;> rfl
  · simp at h

/-- **C03 (all-empty means end-of-file).**  Once a session has started, a successful return with
    nothing collected (and a limit other than 0) happens only when stdin has been closed by the
    library and every captured stream has reached end-of-file: its pipe is empty and no process
    holds the write end. -/
theorem c03_empty_means_eof (stdin : Bool) (input : List UInt8) (hasOut hasErr : Bool) (w0 : World)
    (l t : Option Nat) (evs : List Ev) (ss : Sess)
    (h : runSess (initSess stdin input hasOut hasErr w0) (.start l t :: evs) = some ss)
    (hdone : ss.sys.par.pc = .done .ok) (hempty : ss.sys.par.outvec = [] ∧ ss.sys.par.errvec = [])
    (hlim : ss.sys.par.limit ≠ some 0) :
    ss.sys.par.stdin = false ∧
    (ss.sys.par.hasOut = true → ss.sys.w.outBuf = [] ∧ ss.sys.w.outWr = false) ∧
    (ss.sys.par.hasErr = true → ss.sys.w.errBuf = [] ∧ ss.sys.w.errWr = false) := by
  simp only [runSess] at h
  split at h
  · rename_i s1 hs1
    have h1 : Inv3 s1 := by
      simp only [sessStep] at hs1
      split at hs1
      · simp only [Option.some.injEq] at hs1
        subst hs1
        obtain ⟨r1, r2, r3, r4⟩ := startRead_refs (initSess stdin input hasOut hasErr w0).sys.par l t
        refine ⟨startRead_linv _ l t, startRead_doneInv _ l t, ?_, ?_⟩
        · intro ho hr; simp only at ho hr; rw [r3] at ho; rw [r1, ho] at hr; cases hr
        · intro ho hr; simp only at ho hr; rw [r4] at ho; rw [r2, ho] at hr; cases hr
      · simp at hs1
    obtain ⟨_, hd, he⟩ := runSess_inv3 evs s1 ss h1 h
    have hnl : limitHit ss.sys.par = false := by
      unfold limitHit total
      cases hl : ss.sys.par.limit with
      | none => rfl
      | some n =>
        have : n ≠ 0 := fun h0 => hlim (by rw [hl, h0])
        simp [hempty.1, hempty.2]; omega
    rcases hd hdone with hh | ⟨h1, h2, h3⟩
    · rw [hnl] at hh; cases hh
    · exact ⟨h1, fun ho => he.1 ho h2, fun ho => he.2 ho h3⟩
  · simp at h

/-! ### Non-vacuity (tests, labelled as tests) -/
-- a limit of 2 cuts a 3-byte output into 2 + 1, the third read returns all-empty at EOF
example : (runSess (initSess false [] true false (initWorld 65536 65536 65536 [.write .out [1, 2, 3]] 0))
    [.start (some 2) none, .child { n := 3 }, .child {}, .parent { n := 9 }, .start (some 2) none, .parent { n := 9 },
     .parent { n := 9 }, .start (some 2) none, .parent {}]).map
      (fun ss => (ss.retOut, ss.sys.par.outvec, ss.sys.par.pc))
    = some ([1, 2, 3], [], .done .ok) := by decide

end Comm

import Proofs.CommReady
import Proofs.CommMeasure
import Props.C03
/-!
# C01  Communicate always terminates: parent and child never deadlock

**Statement**: for every finite child script, every input, every subset of piped streams, every
pipe capacity `≥ 4096` (stdin) / `≥ 1` (outputs) and every interleaving, with no time limit,
(a) in every reachable state in which the call has not returned some party can move (`c01_progress`),
(b) there is a measure on states that strictly decreases with every step of either party, so every
execution is finite (`c01_measure_decreases`, `c01_terminates`) and, with (a), ends with the call
returned (`c01_maximal_run_has_returned`), (c) a stream that reached end-of-file is neither polled
nor read again in the same call (`c01_no_eof_spin`).

Building blocks kept as theorems of their own:
* `c01_never_blocks_in_io` — after a `poll`, a pending `write` offers at most 4096 bytes and at
  least 4096 are free (or the reader is gone), a pending `read` has data or no writer: by A1/A2 none
  of these calls blocks, so with more than one stream open the library blocks **only** inside `poll`,
  and that `poll` covers every stream it still owns (`c01_polls_all_streams`).
* `c01_no_deadlock_in_poll_partial` — at that `poll(-1)`: if nothing is ready the child is not
  blocked.  (Subsumed by `c01_progress`, which also covers the single-stream shortcut, where the
  library blocks in `read`/`write` on the only stream left: `Short` in Proofs/CommMeasure.lean.)
With a time limit in force termination is C04's subject (`c04_bounded_overrun`).
-/
namespace Comm

structure Inv1 (ss : Sess) : Prop where
  ready : Ready ss.sys.par ss.sys.w
  i3 : Inv3 ss

theorem sessStep_inv1 (ss ss' : Sess) (e : Ev) (h : Inv1 ss) (hs : sessStep ss e = some ss') : Inv1 ss' := by
  refine ⟨?_, sessStep_inv3 ss ss' e h.i3 hs⟩
  cases e with
  | child c =>
    simp only [sessStep, Option.map_eq_some_iff] at hs
    obtain ⟨w', hw, rfl⟩ := hs
    exact child_ready_inv _ _ _ c h.ready hw
  | parent c =>
    simp only [sessStep, Option.map_eq_some_iff] at hs
    obtain ⟨⟨p', w'⟩, hw, rfl⟩ := hs
    exact par_ready _ _ _ _ c h.ready hw
  | start l t =>
    simp only [sessStep] at hs
    split at hs
    · simp only [Option.some.injEq] at hs; subst hs; exact startRead_ready _ _ l t
    · simp at hs

/-- every state reachable after the first `read()` call satisfies the readiness, size, done and
    end-of-file invariants -/
theorem reach_inv1 (stdin : Bool) (input : List UInt8) (hasOut hasErr : Bool) (w0 : World)
    (l t : Option Nat) (evs : List Ev) (ss : Sess)
    (h : runSess (initSess stdin input hasOut hasErr w0) (.start l t :: evs) = some ss) : Inv1 ss := by
  simp only [runSess] at h
  split at h
  · rename_i s1 hs1
    have h1 : Inv1 s1 := by
      simp only [sessStep] at hs1
      split at hs1
      · simp only [Option.some.injEq] at hs1
        subst hs1
        obtain ⟨r1, r2, r3, r4⟩ := startRead_refs (initSess stdin input hasOut hasErr w0).sys.par l t
        refine ⟨startRead_ready _ _ l t, startRead_linv _ l t, startRead_doneInv _ l t, ?_, ?_⟩
        · intro ho hr; simp only at ho hr; rw [r3] at ho; rw [r1, ho] at hr; cases hr
        · intro ho hr; simp only at ho hr; rw [r4] at ho; rw [r2, ho] at hr; cases hr
      · simp at hs1
    clear hs1
    induction evs generalizing s1 with
    | nil => simp only [runSess, Option.some.injEq] at h; subst h; exact h1
    | cons e es ih =>
      simp only [runSess] at h
      split at h
      · rename_i s2 hs2; exact ih s2 h (sessStep_inv1 s1 s2 e h1 hs2)
      · simp at h
  · simp at h

/-- **C01 (the library never blocks in read/write after a poll).**  In every reachable state whose
    ready flags come from a `poll`, the pending `write` offers at most 4096 bytes and is answered
    at once (bytes accepted, or `EPIPE`), and the pending `read` is answered at once (data, or
    end-of-file) — for every choice of transfer size.  (A1, A2.) -/
theorem c01_never_blocks_in_io (stdin : Bool) (input : List UInt8) (hasOut hasErr : Bool) (w0 : World)
    (l t : Option Nat) (evs : List Ev) (ss : Sess)
    (h : runSess (initSess stdin input hasOut hasErr w0) (.start l t :: evs) = some ss)
    (hv : ss.sys.par.viaPoll = true) (n : Nat) :
    (∀ o e, ss.sys.par.pc = .wr o e →
      (∃ m, pendingCall ss.sys.par = .write m ∧ m ≤ 4096) ∧
      ∃ r, answer ss.sys.w (pendingCall ss.sys.par) { n := n } = some r) ∧
    (∀ e, ss.sys.par.pc = .rdOut e → ∃ r, answer ss.sys.w (pendingCall ss.sys.par) { n := n } = some r) ∧
    (ss.sys.par.pc = .rdErr → ∃ r, answer ss.sys.w (pendingCall ss.sys.par) { n := n } = some r) := by
  obtain ⟨hr, _⟩ := reach_inv1 stdin input hasOut hasErr w0 l t evs ss h
  refine ⟨?_, ?_, ?_⟩
  · intro o e hpc
    simp only [Ready, hpc] at hr
    obtain ⟨hin, -, -⟩ := hr.2.2.2 hv
    refine ⟨⟨min WRITE_SIZE ss.sys.par.input.length, by simp [pendingCall, hpc], by simp only [WRITE_SIZE]; omega⟩, ?_⟩
    simp only [pendingCall, hpc, answer]
    by_cases hrd : ss.sys.w.inRd = true
    · simp only [hrd, Bool.not_true, Bool.false_eq_true, if_false]
      split
      · exact ⟨_, rfl⟩
      · rcases hin with hin | hin
        · have : ¬ ss.sys.w.capIn ≤ ss.sys.w.inBuf.length := by omega
          simp only [this, if_false]; exact ⟨_, rfl⟩
        · rw [hrd] at hin; cases hin
    · simp [hrd]
  · intro e hpc
    simp only [Ready, hpc] at hr
    obtain ⟨hout, -⟩ := hr.2.2 hv
    simp only [pendingCall, hpc, answer]
    by_cases hb : ss.sys.w.outBuf = []
    · rcases hout with hout | hout
      · exact absurd hb hout
      · simp [hb, hout]
    · simp [hb]
  · intro hpc
    simp only [Ready, hpc] at hr
    have herr := hr.2 hv
    simp only [pendingCall, hpc, answer]
    by_cases hb : ss.sys.w.errBuf = []
    · rcases herr with herr | herr
      · exact absurd hb herr
      · simp [hb, herr]
    · simp [hb]

/-- the `poll` covers every stream the library still owns, and the poll-free shortcut is taken
    only when exactly one stream is left -/
theorem c01_polls_all_streams (p : Par) (tmo : Option Nat) (dl2 : Nat) (hpc : p.pc = .poll tmo dl2) :
    ∃ t, pendingCall p = .poll p.stdin p.outRef p.errRef t := by
  exact ⟨tmo.map clampMs, by simp [pendingCall, hpc]⟩

theorem c01_shortcut_only_single (p : Par) (h : (loopTop p).viaPoll = false) (hv : p.viaPoll = true) :
    (p.stdin = true ∧ p.outRef = false ∧ p.errRef = false) ∨ (p.stdin = false ∧ p.outRef = true ∧ p.errRef = false) ∨
    (p.stdin = false ∧ p.outRef = false ∧ p.errRef = true) := by
  unfold loopTop at h
  (repeat' split at h) <;> simp_all

/-- **C01 (no deadlock at the blocking point).**  Reachable state, pipe capacities `≥ 4096` (stdin)
    and `≥ 1` (outputs), the library is in `poll(-1)` and the OS model says the call blocks (nothing
    is ready): then the child can make a step.  So "parent blocked while the child is blocked on
    another pipe" never happens. -/
theorem c01_no_deadlock_in_poll_partial (stdin : Bool) (input : List UInt8) (hasOut hasErr : Bool) (w0 : World)
    (l t : Option Nat) (evs : List Ev) (ss : Sess)
    (h : runSess (initSess stdin input hasOut hasErr w0) (.start l t :: evs) = some ss)
    (hcap : 4096 ≤ ss.sys.w.capIn ∧ 1 ≤ ss.sys.w.capOut ∧ 1 ≤ ss.sys.w.capErr)
    (hin : ss.sys.par.stdin = true → ss.sys.par.hasIn = true)
    (dl2 : Nat) (hpc : ss.sys.par.pc = .poll none dl2)
    (hblocked : ∀ c : Choice, c.fault = none → answer ss.sys.w (pendingCall ss.sys.par) c = none) :
    ∃ w', childStep ss.sys.par ss.sys.w {} = some w' := by
  obtain ⟨_, _, _, heof⟩ := reach_inv1 stdin input hasOut hasErr w0 l t evs ss h
  have hb := hblocked {} rfl
  simp only [pendingCall, hpc, answer, Option.map_none] at hb
  -- nothing is ready on any stream the library owns
  have hnr : ((ss.sys.par.stdin && (revIn ss.sys.w).any) || (ss.sys.par.outRef && (revOut ss.sys.w).any) ||
      (ss.sys.par.errRef && (revErr ss.sys.w).any)) = false := by
    cases hc : ((ss.sys.par.stdin && (revIn ss.sys.w).any) || (ss.sys.par.outRef && (revOut ss.sys.w).any) ||
      (ss.sys.par.errRef && (revErr ss.sys.w).any)) with
    | false => rfl
    | true => simp [hc] at hb
  simp only [Bool.or_eq_false_iff, Bool.and_eq_false_iff, revIn, revOut, revErr, Rev.any, Bool.or_false,
    Bool.false_or, decide_eq_false_iff_not, Bool.not_eq_false', Bool.or_eq_false_iff, Bool.not_eq_eq_eq_not,
    Bool.not_false, Bool.not_true] at hnr
  obtain ⟨⟨hi, ho⟩, he⟩ := hnr
  have hready : (ss.sys.par.stdin || ss.sys.par.outRef || ss.sys.par.errRef) = true := by
    rename_i hr _ _; simpa [Ready, hpc] using hr
  unfold childStep
  cases hs : ss.sys.w.script with
  | nil =>
    simp only
    by_cases hopen : (ss.sys.w.inRd || ss.sys.w.outWr || ss.sys.w.errWr) = true
    · simp [hopen]
    · -- everything closed on the child's side: every stream the library owns would be ready
      exfalso
      simp only [Bool.or_eq_true, not_or, Bool.not_eq_true] at hopen
      obtain ⟨⟨h1, h2⟩, h3⟩ := hopen
      have a1 : ss.sys.par.stdin = false := by rcases hi with hi | hi; exact hi; rw [h1] at hi; cases hi.2
      have a2 : ss.sys.par.outRef = false := by rcases ho with ho | ho; exact ho; rw [h2] at ho; cases ho.2
      have a3 : ss.sys.par.errRef = false := by rcases he with he | he; exact he; rw [h3] at he; cases he.2
      simp [a1, a2, a3] at hready
  | cons a rest =>
    cases a with
    | sleep => exact ⟨_, rfl⟩
    | closeIn => exact ⟨_, rfl⟩
    | close s => cases s <;> exact ⟨_, rfl⟩
    | readIn k =>
      simp only
      split
      · exact ⟨_, rfl⟩
      · split
        · rename_i hcond hbuf
          have a1 : ss.sys.par.stdin = false := by
            rcases hi with hi | hi
            · exact hi
            · exfalso; apply hi.1; rw [hbuf]; simp only [List.length_nil]; omega
          simp [a1]
        · exact ⟨_, rfl⟩
    | write s d =>
      cases s with
      | out =>
        simp only
        split
        · exact ⟨_, rfl⟩
        · rename_i hcond
          split
          · rename_i hfull
            exfalso
            simp only [Bool.or_eq_true, Bool.not_eq_true', decide_eq_true_eq, not_or, Bool.not_eq_false] at hcond
            obtain ⟨⟨hwr, _⟩, hho⟩ := hcond
            have hne : ss.sys.w.outBuf ≠ [] := by
              intro h0; rw [h0] at hfull; simp only [List.length_nil] at hfull; omega
            have a2 : ss.sys.par.outRef = false := by
              rcases ho with ho | ho
              · exact ho
              · exact absurd hne ho.1
            have := (heof.1 hho a2).2
            rw [this] at hwr; cases hwr
          · exact ⟨_, rfl⟩
      | err =>
        simp only
        split
        · exact ⟨_, rfl⟩
        · rename_i hcond
          split
          · rename_i hfull
            exfalso
            simp only [Bool.or_eq_true, Bool.not_eq_true', decide_eq_true_eq, not_or, Bool.not_eq_false] at hcond
            obtain ⟨⟨hwr, _⟩, hhe⟩ := hcond
            have hne : ss.sys.w.errBuf ≠ [] := by
              intro h0; rw [h0] at hfull; simp only [List.length_nil] at hfull; omega
            have a3 : ss.sys.par.errRef = false := by
              rcases he with he | he
              · exact he
              · exact absurd hne he.1
            have := (heof.2 hhe a3).2
            rw [this] at hwr; cases hwr
          · exact ⟨_, rfl⟩

/-- **C01 (no spinning on a finished stream).**  A zero-length `read` retires the stream for the
    rest of the call (`*_ref = None`): by `Ready`, a `read` on a stream is pending only while its
    `*_ref` is set, and the `poll` passes exactly the streams whose `*_ref` is set — so a stream at
    end-of-file is neither polled nor read again in that call. -/
theorem c01_no_eof_spin (p : Par) (w : World) (data : List UInt8) (hr : Ready p w) :
    (∀ e, p.pc = .rdOut e → (feed p (.n 0) data).outRef = false) ∧
    (p.pc = .rdErr → (feed p (.n 0) data).errRef = false) ∧
    (∀ e, p.pc = .rdOut e → p.outRef = true) ∧ (p.pc = .rdErr → p.errRef = true) := by
  refine ⟨?_, ?_, ?_, ?_⟩
  · intro e hpc; simp [feed, hpc]
  · intro hpc; simp [feed, hpc]
  · intro e hpc; simp only [Ready, hpc] at hr; exact hr.1
  · intro hpc; simp only [Ready, hpc] at hr; exact hr.1


/-! ### Termination -/

theorem run_bounded (ss ss' : Sess) (evs : List Ev) (hi : Inv1 ss) (hn : NoTime ss.sys.par)
    (hev : ∀ e ∈ evs, noStart e = true) (h : runSess ss evs = some ss') :
    evs.length + mu ss'.sys ≤ mu ss.sys ∧ NoTime ss'.sys.par := by
  induction evs generalizing ss with
  | nil => simp only [runSess, Option.some.injEq] at h; subst h; exact ⟨by simp, hn⟩
  | cons e es ih =>
    simp only [runSess] at h
    split at h
    · rename_i s2 hs2
      have hi2 := sessStep_inv1 ss s2 e hi hs2
      have hne := hev e (by simp)
      have hdec : mu s2.sys < mu ss.sys ∧ NoTime s2.sys.par := by
        cases e with
        | child c =>
          simp only [sessStep, Option.map_eq_some_iff] at hs2
          obtain ⟨w', hw, rfl⟩ := hs2
          exact step_dec ss.sys ⟨ss.sys.par, w'⟩ .child c hi.ready hn (by simp [step, hw])
        | parent c =>
          simp only [sessStep, Option.map_eq_some_iff] at hs2
          obtain ⟨⟨p', w'⟩, hw, rfl⟩ := hs2
          exact step_dec ss.sys ⟨p', w'⟩ .parent c hi.ready hn (by simp [step, hw])
        | start l t => simp [noStart] at hne
      have := ih s2 hi2 hdec.2 (fun e he => hev e (by simp [he])) h
      exact ⟨by simp only [List.length_cons]; omega, this.2⟩
    · simp at h




/-- **C01 (the measure).**  In every reachable state of a call made without a time limit, every step
    of the library or of the child strictly decreases `mu` (6 × the work still to do -- bytes to move,
    streams to retire, script actions to run -- plus the rank of the program counter in the round). -/
theorem c01_measure_decreases (stdin : Bool) (input : List UInt8) (hasOut hasErr : Bool) (w0 : World)
    (l : Option Nat) (evs : List Ev) (ss : Sess) (hev : ∀ e ∈ evs, noStart e = true)
    (h : runSess (initSess stdin input hasOut hasErr w0) (.start l none :: evs) = some ss)
    (who : Who) (c : Choice) (s' : Sys) (hs : step ss.sys who c = some s') : mu s' < mu ss.sys := by
  have hi := reach_inv1 stdin input hasOut hasErr w0 l none evs ss h
  simp only [runSess] at h
  split at h
  · rename_i s1 hs1
    have hi1 : Inv1 s1 := reach_inv1 stdin input hasOut hasErr w0 l none [] s1 (by simp [runSess, hs1])
    have hn1 : NoTime s1.sys.par := by
      simp only [sessStep] at hs1
      split at hs1
      · simp only [Option.some.injEq] at hs1; subst hs1; exact startRead_noTime _ l
      · simp at hs1
    have := run_bounded s1 ss evs hi1 hn1 hev h
    exact (step_dec ss.sys s' who c hi.ready this.2 hs).1
  · simp at h

/-- **C01 (always finishes).**  A call made without a time limit cannot go on forever: however the
    steps of the library and of the child interleave and whatever sizes the kernel transfers, the
    number of steps after the call was made is bounded by the measure of the state it started in. -/
theorem c01_terminates (stdin : Bool) (input : List UInt8) (hasOut hasErr : Bool) (w0 : World)
    (l : Option Nat) (evs : List Ev) (ss s1 : Sess) (hev : ∀ e ∈ evs, noStart e = true)
    (h1 : sessStep (initSess stdin input hasOut hasErr w0) (.start l none) = some s1)
    (h : runSess s1 evs = some ss) : evs.length + mu ss.sys ≤ mu s1.sys := by
  have hi1 : Inv1 s1 := reach_inv1 stdin input hasOut hasErr w0 l none [] s1 (by simp [runSess, h1])
  have hn1 : NoTime s1.sys.par := by
    simp only [sessStep] at h1
    split at h1
    · simp only [Option.some.injEq] at h1; subst h1; exact startRead_noTime _ l
    · simp at h1
  exact (run_bounded s1 ss evs hi1 hn1 hev h).1

/-- **C01 (no deadlock, anywhere).**  In every reachable state of a call made without a time limit
    in which the call has not returned, the library's pending system call is answered or the child
    can make a step -- in `poll`, and in the blocking `read`/`write` of the single-stream shortcut. -/
theorem c01_progress (stdin : Bool) (input : List UInt8) (hasOut hasErr : Bool) (w0 : World)
    (l : Option Nat) (evs : List Ev) (ss : Sess) (hev : ∀ e ∈ evs, noStart e = true)
    (h : runSess (initSess stdin input hasOut hasErr w0) (.start l none :: evs) = some ss)
    (hcap : 4096 ≤ ss.sys.w.capIn ∧ 1 ≤ ss.sys.w.capOut ∧ 1 ≤ ss.sys.w.capErr)
    (hnd : isDone ss.sys.par = false) :
    (∃ p' w', parStep ss.sys.par ss.sys.w {} = some (p', w')) ∨ (∃ w', childStep ss.sys.par ss.sys.w {} = some w') := by
  have hi := reach_inv1 stdin input hasOut hasErr w0 l none evs ss h
  have hsh := reach_short stdin input hasOut hasErr w0 _ ss h
  have hnt : NoTime ss.sys.par := by
    simp only [runSess] at h
    split at h
    · rename_i s1 hs1
      have hi1 : Inv1 s1 := reach_inv1 stdin input hasOut hasErr w0 l none [] s1 (by simp [runSess, hs1])
      have hn1 : NoTime s1.sys.par := by
        simp only [sessStep] at hs1
        split at hs1
        · simp only [Option.some.injEq] at hs1; subst hs1; exact startRead_noTime _ l
        · simp at hs1
      exact (run_bounded s1 ss evs hi1 hn1 hev h).2
    · simp at h
  exact progress_core ss.sys.par ss.sys.w hi.ready hsh hi.i3.eof hnt hcap hnd

/-- **C01 (every maximal execution ends with the call returned).**  If neither party can move any
    more, the call has returned. -/
theorem c01_maximal_run_has_returned (stdin : Bool) (input : List UInt8) (hasOut hasErr : Bool) (w0 : World)
    (l : Option Nat) (evs : List Ev) (ss : Sess) (hev : ∀ e ∈ evs, noStart e = true)
    (h : runSess (initSess stdin input hasOut hasErr w0) (.start l none :: evs) = some ss)
    (hcap : 4096 ≤ ss.sys.w.capIn ∧ 1 ≤ ss.sys.w.capOut ∧ 1 ≤ ss.sys.w.capErr)
    (hstuckP : parStep ss.sys.par ss.sys.w {} = none) (hstuckC : childStep ss.sys.par ss.sys.w {} = none) :
    isDone ss.sys.par = true := by
  cases hd : isDone ss.sys.par with
  | true => rfl
  | false =>
    rcases c01_progress stdin input hasOut hasErr w0 l evs ss hev h hcap hd with ⟨p', w', hp⟩ | ⟨w', hc⟩
    · rw [hstuckP] at hp; cases hp
    · rw [hstuckC] at hc; cases hc

/-! ### Non-vacuity (tests, labelled as tests) -/
-- the classic deadlock shape in miniature (the child fills its stdout pipe before reading its input):
-- the library's poll sees stdin writable and stdout readable, so it is not blocked
example : ((runSess (initSess true [1] true false (initWorld 4096 1 1 [.write .out [2, 3], .readIn 1] 0))
    [.start none none, .child { n := 1 }, .parent {}]).map
      (fun ss => (ss.sys.par.pc, ss.sys.par.viaPoll))) = some (.wr true false, true) := by decide

end Comm

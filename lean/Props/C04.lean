import Proofs.CommTime
import Props.C02
/-!
# C04  Time limit honoured for any child, reported truthfully, reads resumable

The model has a virtual clock; every step may take any time `≥ 0` (chosen by the environment);
`poll(t)` returns 0 only at or after `t` (A3).  The theorems hold for every child script, every
interleaving and every choice of latencies.
-/
namespace Comm

/-- the deadline is the first clock reading of the call plus the time limit -/
def DlInv (p : Par) (ts : Nat) : Prop := ∀ d, p.deadline = some d → ∃ tl, p.tlimit = some tl ∧ ts + tl ≤ d

theorem feed_dl (p : Par) (r : Resp) (data : List UInt8) :
    (feed p r data).tlimit = p.tlimit ∧
    ((feed p r data).deadline = p.deadline ∨
      (p.pc = .clkStart ∧ ∃ t, r = .time t ∧ (feed p r data).deadline = p.tlimit.map (t + ·))) := by
  unfold feed
  cases hpc : p.pc <;> cases r <;> simp only [] <;> (repeat' split) <;> simp_all

structure Inv4 (ss : Sess) : Prop where
  t : TInv ss.sys.par ss.sys.w
  dl : DlInv ss.sys.par ss.tStart
  mono : ss.tStart ≤ ss.sys.w.now

theorem sessStep_inv4 (ss ss' : Sess) (e : Ev) (h : Inv4 ss) (hs : sessStep ss e = some ss') : Inv4 ss' := by
  cases e with
  | child c =>
    simp only [sessStep, Option.map_eq_some_iff] at hs
    obtain ⟨w', hw, rfl⟩ := hs
    have := child_time _ _ _ c hw
    exact ⟨child_tinv _ _ _ c h.t hw, h.dl, by have := h.mono; simp only at this ⊢; omega⟩
  | parent c =>
    simp only [sessStep, Option.map_eq_some_iff] at hs
    obtain ⟨⟨p', w'⟩, hw, rfl⟩ := hs
    have ht := par_tinv _ _ _ _ c h.t hw
    unfold parStep at hw
    split at hw
    · simp at hw
    · rename_i r data w1 ha
      simp only [Option.some.injEq, Prod.mk.injEq] at hw
      obtain ⟨rfl, rfl⟩ := hw
      obtain ⟨t1, -, t3⟩ := answer_time _ _ _ c r data ha
      have g14 := (pushIn_spec ss.sys.par r w1).2.2.2.2.2.2.2.2.2.2.2.2.2
      refine ⟨ht, ?_, by have := h.mono; simp only at this ⊢; rw [g14, t1]; omega⟩
      obtain ⟨f1, f2⟩ := feed_dl ss.sys.par r data
      intro d hd
      simp only at hd ⊢
      rcases f2 with f2 | ⟨hpc, t, rfl, f2⟩
      · rw [f2] at hd; rw [f1]; exact h.dl d hd
      · rw [f2] at hd
        cases htl : ss.sys.par.tlimit with
        | none => simp [htl] at hd
        | some tl =>
          simp only [htl, Option.map_some, Option.some.injEq] at hd
          have := t3 t rfl
          have := h.mono
          exact ⟨tl, by rw [f1, htl], by omega⟩
  | start l t =>
    simp only [sessStep] at hs
    split at hs
    · simp only [Option.some.injEq] at hs
      subst hs
      refine ⟨startRead_tinv _ _ l t, ?_, Nat.le_refl _⟩
      intro d hd
      simp only at hd
      have : (startRead ss.sys.par l t).deadline = none := by unfold startRead; split <;> simp
      rw [this] at hd; cases hd
    · simp at hs

theorem runSess_inv4 (evs : List Ev) (s0 ss : Sess) (h0 : Inv4 s0) (hr : runSess s0 evs = some ss) : Inv4 ss := by
  induction evs generalizing s0 with
  | nil => simp only [runSess, Option.some.injEq] at hr; subst hr; exact h0
  | cons e es ih =>
    simp only [runSess] at hr
    split at hr
    · rename_i s1 hs1; exact ih s1 (sessStep_inv4 s0 s1 e h0 hs1) hr
    · simp at hr

theorem init_inv4 (stdin : Bool) (input : List UInt8) (hasOut hasErr : Bool) (w0 : World) :
    Inv4 (initSess stdin input hasOut hasErr w0) := by
  refine ⟨by simp [initSess, mkPar, TInv], ?_, Nat.le_refl _⟩
  intro d hd; simp [initSess, mkPar] at hd

/-- **C04 (truthful).**  Whenever a `read()` has returned `TimedOut`, a time limit `tl` was in force
    for that call and, on the virtual clock, at least `tl` minus one millisecond (the granularity
    of the OS wait) has elapsed since the call was made. -/
theorem c04_truthful (stdin : Bool) (input : List UInt8) (hasOut hasErr : Bool) (w0 : World)
    (evs : List Ev) (ss : Sess)
    (h : runSess (initSess stdin input hasOut hasErr w0) evs = some ss)
    (hto : ss.sys.par.pc = .done .timedOut) :
    ∃ tl, ss.sys.par.tlimit = some tl ∧ ss.tStart + tl ≤ ss.sys.w.now + 999999 := by
  obtain ⟨ht, hdl, _⟩ := runSess_inv4 evs _ ss (init_inv4 stdin input hasOut hasErr w0) h
  simp only [TInv, hto] at ht
  obtain ⟨d, hd, hle⟩ := ht
  obtain ⟨tl, htl, hle2⟩ := hdl d hd
  exact ⟨tl, htl, by omega⟩

/-- **C04 (never without a limit).**  A call made without a time limit never returns `TimedOut`,
    whatever the child and the pipes do (in particular: child closes stdin while the pipe is full
    and keeps its outputs open — defect F10 of the original code). -/
theorem c04_no_limit_no_timeout (stdin : Bool) (input : List UInt8) (hasOut hasErr : Bool) (w0 : World)
    (evs : List Ev) (ss : Sess)
    (h : runSess (initSess stdin input hasOut hasErr w0) evs = some ss)
    (hnl : ss.sys.par.tlimit = none) : ss.sys.par.pc ≠ .done .timedOut := by
  intro hto
  obtain ⟨tl, htl, _⟩ := c04_truthful stdin input hasOut hasErr w0 evs ss h hto
  rw [hnl] at htl; cases htl

/-- **C04 (the deadline is consulted in every round).**  After the first round of a call with a
    time limit, the loop head reads the clock before anything else … -/
theorem c04_checked_each_round (p : Par) (d : Nat) (hd : p.deadline = some d) (hp : p.polled = true)
    (hl : limitHit p = false) (hs : (!p.stdin && !p.outRef && !p.errRef) = false) :
    (loopTop p).pc = .clkLoop := by
  unfold loopTop; simp [hl, hs, hd, hp]

/-- … and if the deadline has passed the call returns `TimedOut` at that very clock reading —
    whether the child is silent, trickling or **flooding** (always ready; defect F4 of the original
    code): the overrun is bounded by one round of I/O. -/
theorem c04_bounded_overrun (p p' : Par) (w w' : World) (c : Choice) (d : Nat)
    (hpc : p.pc = .clkLoop) (hd : p.deadline = some d) (hnow : d ≤ w.now)
    (hs : parStep p w c = some (p', w')) : p'.pc = .done .timedOut := by
  unfold parStep at hs
  split at hs
  · simp at hs
  · rename_i r data w1 ha
    simp only [Option.some.injEq, Prod.mk.injEq] at hs
    obtain ⟨rfl, -⟩ := hs
    have hr := answer_clock w w1 c r data (by simpa [pendingCall, hpc] using ha)
    subst hr
    simp only [feed, hpc, hd]
    have : d ≤ w.now + c.dt := by omega
    simp [this]

/-- the clock reading of the loop head cannot fail or block: the step is always enabled -/
theorem c04_clock_enabled (p : Par) (w : World) (hpc : p.pc = .clkLoop) : ∃ r, parStep p w {} = some r := by
  simp [parStep, pendingCall, hpc, answer]

/-- **C04 (`posix::poll` wrapper).**  For every timeout — also beyond `2^31 - 1` ms — the value
    passed to the OS is `min (t in ms) (2^31 - 1)`, and a re-poll happens only when that was clamped. -/
theorem c04_poll_wrapper (t : Nat) :
    clampMs t = min (t / NS_PER_MS) I32MAX ∧ (overflow t = true ↔ I32MAX < t / NS_PER_MS) := by
  unfold clampMs overflow
  refine ⟨?_, by simp⟩
  split <;> omega

/-- **C04 (resumable).**  The data-flow invariant of C02 does not care how a call ended: across
    any sequence of timed-out, failed and successful reads, (everything returned so far, captures
    included) ++ (the current collection) ++ (the pipe content) is what the child wrote, and the
    undelivered rest of the input is still exactly `input` minus what was already handed over. -/
theorem c04_resumable (stdin : Bool) (input : List UInt8) (hasOut hasErr : Bool)
    (capIn capOut capErr now : Nat) (script : List CAct) (evs : List Ev) (ss : Sess)
    (h : runSess (initSess stdin input hasOut hasErr (initWorld capIn capOut capErr script now)) evs = some ss) :
    ss.sys.w.gOut = ss.retOut ++ ss.sys.par.outvec ++ ss.sys.w.outBuf ∧
    ss.sys.w.gErr = ss.retErr ++ ss.sys.par.errvec ++ ss.sys.w.errBuf ∧
    input = ss.sys.w.gIn ++ ss.sys.w.inBuf ++ ss.sys.par.input :=
  c02_exact stdin input hasOut hasErr capIn capOut capErr now script evs ss h

/-- **C04 (the wait is re-derived from the deadline in every round).**  With a deadline `d` in force,
    the clock reading `t` taken before a `poll` turns into a wait of exactly `d - t` (0 once the
    deadline has passed): the next system calls are the clock reading of `posix::poll` and then
    `poll` with that wait (clamped to `i32` milliseconds).  A wait computed once per call and reused
    (which would let a child that speaks late extend the call to almost twice the limit) is not what
    the library does. -/
theorem c04_wait_is_remaining_time (p : Par) (d t t2 : Nat) (hpc : p.pc = .clkPoll) (hd : p.deadline = some d) :
    (feed p (.time t) []).pc = .clkPoll2 (d - t) ∧
    (feed (feed p (.time t) []) (.time t2) []).pc = .poll (some (d - t)) (t2 + (d - t)) ∧
    pendingCall (feed (feed p (.time t) []) (.time t2) []) = .poll p.stdin p.outRef p.errRef (some (clampMs (d - t))) := by
  simp [feed, hpc, hd, pendingCall]


/-! ### Non-vacuity (tests, labelled as tests) -/
-- a silent child and a 5 ms limit: clock, clock, clock, poll(5) returns 0 after 5 ms -> TimedOut
example : (runSess (initSess false [] true false (initWorld 65536 65536 65536 [.sleep] 0))
    [.start none (some 5000000), .parent {}, .parent {}, .parent {}, .parent { dt := 5000000 }]).map
      (fun ss => ss.sys.par.pc) = some (.done .timedOut) := by decide
-- the clamp: 3 000 000 s is passed as 2^31 - 1 ms
example : clampMs (3000000000 * NS_PER_MS) = 2147483647 ∧ overflow (3000000000 * NS_PER_MS) = true := by decide

end Comm

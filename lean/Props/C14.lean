import Proofs.Pipeline
/-!
# C14  A pipeline failing to start part-way cleans up and returns promptly

Model: `Pipe.run` (Model/Pipeline.lean) -- the parent's actions for every terminator of `Exec`
(n = 1) and `Pipeline` (n ≥ 2), with the command `k` that cannot be started as a parameter.  The
theorems hold for every number of commands n, every failing position k < n, every terminator, every
stdin / stdout kind and every choice of detached commands.  "Returns promptly instead of hanging" is
stated as what the parent controls: at every `wait` of the cleanup it holds no pipe end of the
attempt, so a command that ends at end-of-file or on a broken pipe cannot be blocked by the parent
(the kernel's EOF / SIGPIPE behaviour and the children are outside the model: the real runs with
`cat` / unbounded writers and a watchdog cover them).
-/
namespace Pipe

/-- **C14.**  If command `k` cannot be started:
 * the terminator returns the error, once, and never success;
 * exactly the commands `0 .. k-1` were started -- no later one;
 * every started command that is not detached is waited for exactly once (in order), detached ones never;
 * at every one of these waits the parent holds no pipe end of the attempt -- none at all, for every terminator
   (`Pipeline::capture` held the read end of its shared stderr pipe there until fix F15; see
   `c14_capture_old_order_counterexample`);
 * when the terminator has returned, the parent holds no pipe end of the attempt at all. -/
theorem c14_partial_start_cleans_up (c0 : Cfg) (t : Term) (k : Nat) (hf : c0.failAt = some k) (hk : k < c0.n) :
    (run c0 t).filterMap retVal = [false] ∧
    (run c0 t).filterMap spawnIdx = List.range k ∧
    (run c0 t).filterMap waitIdx = (List.range k).filter (fun j => !(effective c0 t).det j) ∧
    WaitsUnder (fun h => ∀ e, h e = none) Held.empty (run c0 t) ∧
    heldAfter Held.empty (run c0 t) = Held.empty := by
  have hf' : (effective c0 t).failAt = some k := by rw [effective_failAt]; exact hf
  have hk' : k < (effective c0 t).n := by rw [effective_n]; exact hk
  obtain ⟨hw, hh⟩ := fail_held (effective c0 t) t k hf' hk'
  have m1 : ∀ a b c, List.filterMap retVal [Act.mk a b c] = [] := fun _ _ _ => rfl
  have m2 : ∀ a b c, List.filterMap spawnIdx [Act.mk a b c] = [] := fun _ _ _ => rfl
  have m3 : ∀ a b c, List.filterMap waitIdx [Act.mk a b c] = [] := fun _ _ _ => rfl
  have c1 : ∀ e, List.filterMap retVal [Act.close e] = [] := fun _ => rfl
  have c2 : ∀ e, List.filterMap spawnIdx [Act.close e] = [] := fun _ => rfl
  have c3 : ∀ e, List.filterMap waitIdx [Act.close e] = [] := fun _ => rfl
  have r1 : ∀ b, List.filterMap retVal [Act.ret b] = [b] := fun _ => rfl
  have r2 : ∀ b, List.filterMap spawnIdx [Act.ret b] = [] := fun _ => rfl
  have r3 : ∀ b, List.filterMap waitIdx [Act.ret b] = [] := fun _ => rfl
  refine ⟨?_, ?_, ?_, hw, hh⟩
  · unfold run; rw [runEff_fail _ t k hf' hk']
    simp only [List.filterMap_append, rets_stages, rets_stageFail, rets_dropVec]
    cases capPipe (effective c0 t) t <;> simp [m1, c1, r1]
  · unfold run; rw [runEff_fail _ t k hf' hk']
    simp only [List.filterMap_append, spawns_stages, spawns_stageFail, spawns_dropVec]
    cases capPipe (effective c0 t) t <;> simp [m2, c2, r2]
  · unfold run; rw [runEff_fail _ t k hf' hk']
    simp only [List.filterMap_append, waits_stages, waits_stageFail, waits_dropVec]
    cases capPipe (effective c0 t) t <;> simp [m3, c3, r3, noneWaited]

theorem waitsUnder_mono (P Q : Held → Prop) (hPQ : ∀ h, P h → Q h) (h : Held) (acts : List Act)
    (hw : WaitsUnder P h acts) : WaitsUnder Q h acts := by
  induction acts generalizing h with
  | nil => simp [WaitsUnder]
  | cons x xs ih =>
    cases x <;> simp_all [WaitsUnder]
    all_goals first | exact ih _ hw | exact ⟨hPQ _ hw.1, ih _ hw.2⟩

/-- the same, as a statement of its own: whatever the terminator (the ones that create the shared stderr pipe,
    `Pipeline::capture` and `Pipeline::communicate`, included) the parent holds nothing at the waits -/
theorem c14_nothing_held_at_waits (c0 : Cfg) (t : Term) (k : Nat) (hf : c0.failAt = some k) (hk : k < c0.n) :
    WaitsUnder (fun h => ∀ e, h e = none) Held.empty (run c0 t) :=
  (c14_partial_start_cleans_up c0 t k hf hk).2.2.2.1

/-- `Pipeline::communicate` detaches every command: its cleanup never waits -/
theorem c14_communicate_never_waits (c0 : Cfg) (k : Nat) (hf : c0.failAt = some k) (hk : k < c0.n) :
    (run c0 .communicate).filterMap waitIdx = [] := by
  rw [(c14_partial_start_cleans_up c0 .communicate k hf hk).2.2.1]
  have hd : ∀ j, (effective c0 .communicate).det j = true := by
    intro j; simp only [effective]; (repeat' split) <;> rfl
  simp [hd]

/-- F15 (repaired by a `fix:` commit; until then the known finding
    `C14 capture-start-failure-keeps-stderr-reader-while-waiting`): `Pipeline::capture` used to wait for the commands
    already started while `setup_communicate` still held the read end of the shared stderr pipe, and released it only
    afterwards.  In that order the wait happens with the reader held: -/
theorem c14_capture_old_order_counterexample :
    ¬ WaitsUnder (fun h => ∀ e, h e = none) (fun e => if e = ⟨0, .r⟩ then some true else none)
        ([Act.wait 0] ++ [Act.close ⟨0, .r⟩]) := by
  intro h
  simp [WaitsUnder] at h

/-- ... and the minimal failing `capture` of the model, `(a | missing).capture()`, now waits with nothing held
    (a test, labelled as a test; the general statement is `c14_partial_start_cleans_up`) -/
example : WaitsUnder (fun h => ∀ e, h e = none) Held.empty
    (run { n := 2, det := fun _ => false, sin := .inherit, sout := .inherit, serr := .inherit, errTo := false,
           failAt := some 1 } .capture) :=
  c14_nothing_held_at_waits _ _ 1 rfl (by decide)

/-- **C14 (the cleanup of a failed start waits with nothing held, whatever the started commands own).**
    `Pipeline::popen` releases the pipe ends of *all* commands started so far before any of them is waited for
    (fix e678f50).  For every assignment of pipe ends to the started `Popen`s -- the pipeline's own stdin writer, but also
    ends the model's `Cfg` does not know, such as the read end of a command's own `stderr(Redirection::Pipe)` -- and every
    set of ends held at the failure that are all owned by some started `Popen`: every wait happens with nothing held. -/
theorem c14_cleanup_waits_with_nothing_held (owned : List (List End)) (det : Nat → Bool) (h0 : Held)
    (hcov : ∀ e, h0 e ≠ none → ∃ es ∈ owned, e ∈ es) :
    WaitsUnder (fun h => ∀ e, h e = none) h0 (cleanupSeq owned det) := by
  unfold cleanupSeq
  rw [waitsUnder_append]
  refine ⟨waitsUnder_noWait _ _ _ ?_, ?_⟩
  · intro a ha
    simp only [releaseAll, List.mem_flatMap, List.mem_map] at ha
    obtain ⟨es, _, e, _, rfl⟩ := ha
    simp
  · have hnone : heldAfter h0 (releaseAll owned) = fun _ => none := by
      rw [heldAfter_releaseAll]
      funext e
      by_cases hm : ∃ es ∈ owned, e ∈ es
      · simp [hm]
      · simp only [hm, if_false]
        cases hh : h0 e with
        | none => rfl
        | some b => exact absurd (hcov e (by simp [hh])) hm
    rw [hnone]
    exact waitsUnder_waitAll_empty det owned.length

/-- F14 (repaired by e678f50): with the old order -- each `Popen` releases its own ends and is waited for before the next
    one is touched -- command 0 is waited for while `Popen` 1 still holds an end (the read end of command 1's own stderr
    pipe, say) -/
theorem c14_cleanup_counterexample_old :
    ¬ WaitsUnder (fun h => ∀ e, h e = none) (fun e => if e = ⟨7, .r⟩ then some true else none)
        (cleanupSeqOld [[], [⟨7, .r⟩]] (fun _ => false)) := by
  intro h
  simp [cleanupSeqOld, WaitsUnder, List.range, List.range.loop] at h

/-- **C14 (... and whatever the commands not yet started hold).**  The ends held at the failure may also belong to the
    commands that were never started -- the pipeline's own `stdout` file (a caller-made pipe, say) lives in the last
    `Exec`, a shared `stderr` file in every one: the `return` drops them (the loop's iterator) before it drops `ret`.
    Every wait of the cleanup still happens with nothing held. -/
theorem c14_cleanup_waits_with_nothing_held_unstarted (pending : List End) (owned : List (List End)) (det : Nat → Bool)
    (h0 : Held) (hcov : ∀ e, h0 e ≠ none → e ∈ pending ∨ ∃ es ∈ owned, e ∈ es) :
    WaitsUnder (fun h => ∀ e, h e = none) h0 (cleanupSeqP pending owned det) := by
  unfold cleanupSeqP
  rw [waitsUnder_append, waitsUnder_append]
  refine ⟨⟨waitsUnder_noWait _ _ _ ?_, waitsUnder_noWait _ _ _ ?_⟩, ?_⟩
  · intro a ha
    simp only [releaseAll, List.mem_flatMap, List.mem_map] at ha
    obtain ⟨es, _, e, _, rfl⟩ := ha
    simp
  · intro a ha
    simp only [List.mem_map] at ha
    obtain ⟨e, _, rfl⟩ := ha
    simp
  · have hnone : heldAfter h0 (releaseAll owned ++ pending.map Act.close) = fun _ => none := by
      rw [heldAfter_append, heldAfter_releaseAll, heldAfter_closes]
      funext e
      by_cases hp : e ∈ pending
      · simp [hp]
      · by_cases hm : ∃ es ∈ owned, e ∈ es
        · simp [hm]
        · simp only [hp, hm, if_false]
          cases hh : h0 e with
          | none => rfl
          | some b =>
            rcases hcov e (by simp [hh]) with h | h
            · exact absurd h hp
            · exact absurd h hm
    rw [hnone]
    exact waitsUnder_waitAll_empty det owned.length

/-- a variant that keeps the pipeline's `stdout` file in a local which outlives `ret` waits for command 0 while the parent
    still holds that end (the write end of a caller-made pipe whose read end is command 0's stdin: no end-of-file, no return) -/
theorem c14_cleanup_counterexample_late_local :
    ¬ WaitsUnder (fun h => ∀ e, h e = none) (fun e => if e = ⟨9, .w⟩ then some true else none)
        (cleanupSeqPLate [⟨9, .w⟩] [[]] (fun _ => false)) := by
  intro h
  simp [cleanupSeqPLate, releaseAll, waitAll, WaitsUnder, List.range, List.range.loop] at h

/-! Non-vacuity (tests, labelled as tests): a concrete failing pipeline and what the model says -/
example : (run { n := 3, det := fun _ => false, sin := .pipe, sout := .inherit, serr := .inherit, errTo := false,
                 failAt := some 2 } .join).filterMap waitIdx = [0, 1] := by decide

end Pipe

import Model.Pipeline
namespace Pipe
theorem c14_placeholder : stepHeld Held.empty .io = Held.empty := rfl
end Pipe

import Model.Builder
import Proofs.Path
/-!
# C16  Exec builder calls compose like edits on a plain command description

`Builder.applyAll` transcribes the builder methods; the specification is independent and minimal:
arguments = concatenation of the `arg/args` payloads in call order; environment = a finite map
obtained by folding `set | extend | remove | clear` over the inherited map.  Tied to the real `Exec`
by random call sequences whose terminator's `execve(path, argv, envp)` / `chdir` and panic behaviour
are compared with the model.  (Cloning: the model is a value, so a clone is independent by
construction; independence of the real `Clone` impl is what the conformance run with edits applied
after `clone()` checks.)
-/
namespace Builder
open Path

theorem lastVal_append_single (k k' v : B) (l : List (B × B)) :
    lastVal k (l ++ [(k', v)]) = if k' = k then some v else lastVal k l := by
  induction l with
  | nil => simp [lastVal]
  | cons x xs ih =>
    obtain ⟨a, b⟩ := x
    simp only [List.cons_append, lastVal, ih]
    by_cases h : k' = k
    · simp [h]
    · simp only [h, if_false]

theorem lastVal_append (k : B) (l m : List (B × B)) :
    lastVal k (l ++ m) = match lastVal k m with | some v => some v | none => lastVal k l := by
  induction l with
  | nil => simp only [List.nil_append, lastVal]; cases lastVal k m <;> rfl
  | cons x xs ih =>
    obtain ⟨a, b⟩ := x
    simp only [List.cons_append, lastVal, ih]
    cases lastVal k m with
    | some v => rfl
    | none => rfl

theorem lastVal_filter (k k' : B) (l : List (B × B)) :
    lastVal k (l.filter (fun kv => kv.1 ≠ k')) = if k = k' then none else lastVal k l := by
  induction l with
  | nil => simp [lastVal]
  | cons x xs ih =>
    obtain ⟨a, b⟩ := x
    by_cases ha : a = k'
    · subst ha
      simp only [List.filter_cons, ne_eq, not_true_eq_false, decide_false, Bool.false_eq_true, if_false, ih, lastVal]
      by_cases hk : k = a
      · simp [hk]
      · have : ¬ a = k := fun h => hk h.symm
        simp only [hk, this, if_false]
        cases lastVal k xs <;> rfl
    · simp only [List.filter_cons, ne_eq, ha, not_false_eq_true, decide_true, if_true, lastVal, ih]
      by_cases hk : k = k'
      · subst hk; simp [ha]
      · simp [hk]

/-- the argument payload of a call -/
def argPayload : Op → List B
  | .arg a => [a]
  | .args l => l
  | _ => []

/-- **C16 (arguments appear in the order added).** -/
theorem c16_args (base : List (B × B)) (ops : List Op) (e e' : Exec) (h : applyAll base e ops = some e') :
    e'.args = e.args ++ ops.flatMap argPayload ∧ e'.command = e.command := by
  induction ops generalizing e with
  | nil => simp only [applyAll, Option.some.injEq] at h; subst h; simp
  | cons op ops ih =>
    simp only [applyAll] at h
    split at h
    · rename_i e1 h1
      obtain ⟨ha, hc⟩ := ih e1 h
      have : e1.args = e.args ++ argPayload op ∧ e1.command = e.command := by
        cases op with
        | arg a => simp only [apply, Option.some.injEq] at h1; subst h1; simp [argPayload]
        | args l => simp only [apply, Option.some.injEq] at h1; subst h1; simp [argPayload]
        | env k v => simp only [apply, Option.some.injEq] at h1; subst h1; simp [argPayload]
        | envExtend l => simp only [apply, Option.some.injEq] at h1; subst h1; simp [argPayload]
        | envRemove k => simp only [apply, Option.some.injEq] at h1; subst h1; simp [argPayload]
        | envClear => simp only [apply, Option.some.injEq] at h1; subst h1; simp [argPayload]
        | cwd d => simp only [apply, Option.some.injEq] at h1; subst h1; simp [argPayload]
        | stdin r =>
          simp only [apply] at h1
          split at h1
          · simp at h1
          · simp only [Option.map_eq_some_iff] at h1; obtain ⟨_, _, rfl⟩ := h1; simp [argPayload]
        | stdinData d =>
          simp only [apply] at h1
          split at h1
          · simp only [Option.some.injEq] at h1; subst h1; simp [argPayload]
          · simp at h1
        | stdout r => simp only [apply, Option.map_eq_some_iff] at h1; obtain ⟨_, _, rfl⟩ := h1; simp [argPayload]
        | stderr r => simp only [apply, Option.map_eq_some_iff] at h1; obtain ⟨_, _, rfl⟩ := h1; simp [argPayload]
        | detached => simp only [apply, Option.some.injEq] at h1; subst h1; simp [argPayload]
      rw [ha, hc, this.1, this.2]
      simp [List.flatMap_cons]
    · simp at h

/-- **C16 (environment edits act as ordered edits on a copy of the environment).**  For every call
    sequence and every inherited environment, looking any name up in the final environment list
    gives what folding `set / extend / remove / clear` over the inherited map gives: the last value
    set wins, removed names are absent unless set again, clear-then-extend works, duplicates across
    calls collapse (with `c06_formatEnv_spec`: the child's environment has exactly these bindings,
    one entry per name).  Without any environment edit the environment stays "inherit". -/
theorem c16_env_refines (base : List (B × B)) (ops : List Op) (e e' : Exec) (h : applyAll base e ops = some e') :
    (∀ k, lastVal k (effective base e') = ops.foldl specEdit (fun x => lastVal x (effective base e)) k) ∧
    (ops.any editsEnv = false → e'.env = e.env) := by
  induction ops generalizing e with
  | nil => simp only [applyAll, Option.some.injEq] at h; subst h; exact ⟨fun k => rfl, fun _ => rfl⟩
  | cons op ops ih =>
    simp only [applyAll] at h
    split at h
    · rename_i e1 h1
      obtain ⟨hk, hn⟩ := ih e1 h
      have step : (∀ k, lastVal k (effective base e1) = specEdit (fun x => lastVal x (effective base e)) op k) ∧
          (editsEnv op = false → e1.env = e.env) := by
        cases op with
        | arg a => simp only [apply, Option.some.injEq] at h1; subst h1; exact ⟨fun _ => rfl, fun _ => rfl⟩
        | args l => simp only [apply, Option.some.injEq] at h1; subst h1; exact ⟨fun _ => rfl, fun _ => rfl⟩
        | env k v =>
          simp only [apply, Option.some.injEq] at h1; subst h1
          refine ⟨fun x => ?_, fun h => by simp [editsEnv] at h⟩
          show lastVal x (ensureEnv e base ++ [(k, v)]) = (if x = k then some v else lastVal x (effective base e))
          rw [lastVal_append_single]
          by_cases hx : k = x
          · subst hx; simp
          · have : ¬ x = k := fun h => hx h.symm
            simp only [hx, this, if_false]; rfl
        | envExtend l =>
          simp only [apply, Option.some.injEq] at h1; subst h1
          refine ⟨fun x => ?_, fun h => by simp [editsEnv] at h⟩
          show lastVal x (ensureEnv e base ++ l) = (match lastVal x l with | some v => some v | none => lastVal x (effective base e))
          rw [lastVal_append]; rfl
        | envRemove k =>
          simp only [apply, Option.some.injEq] at h1; subst h1
          refine ⟨fun x => ?_, fun h => by simp [editsEnv] at h⟩
          show lastVal x ((ensureEnv e base).filter (fun kv => kv.1 ≠ k)) = (if x = k then none else lastVal x (effective base e))
          rw [lastVal_filter]; rfl
        | envClear =>
          simp only [apply, Option.some.injEq] at h1; subst h1
          exact ⟨fun _ => rfl, fun h => by simp [editsEnv] at h⟩
        | cwd d => simp only [apply, Option.some.injEq] at h1; subst h1; exact ⟨fun _ => rfl, fun _ => rfl⟩
        | stdin r =>
          simp only [apply] at h1
          split at h1
          · simp at h1
          · simp only [Option.map_eq_some_iff] at h1; obtain ⟨_, _, rfl⟩ := h1; exact ⟨fun _ => rfl, fun _ => rfl⟩
        | stdinData d =>
          simp only [apply] at h1
          split at h1
          · simp only [Option.some.injEq] at h1; subst h1; exact ⟨fun _ => rfl, fun _ => rfl⟩
          · simp at h1
        | stdout r =>
          simp only [apply, Option.map_eq_some_iff] at h1; obtain ⟨_, _, rfl⟩ := h1; exact ⟨fun _ => rfl, fun _ => rfl⟩
        | stderr r =>
          simp only [apply, Option.map_eq_some_iff] at h1; obtain ⟨_, _, rfl⟩ := h1; exact ⟨fun _ => rfl, fun _ => rfl⟩
        | detached => simp only [apply, Option.some.injEq] at h1; subst h1; exact ⟨fun _ => rfl, fun _ => rfl⟩
      constructor
      · intro k
        rw [hk k]
        show List.foldl specEdit (fun x => lastVal x (effective base e1)) ops k =
          List.foldl specEdit (specEdit (fun x => lastVal x (effective base e)) op) ops k
        have : (fun x => lastVal x (effective base e1)) = specEdit (fun x => lastVal x (effective base e)) op :=
          funext step.1
        rw [this]
      · intro hany
        simp only [List.any_cons, Bool.or_eq_false_iff] at hany
        rw [hn hany.2, step.2 hany.1]
    · simp at h

/-- **C16 (`Exec::shell` passes its string as one single argument).** -/
theorem c16_shell_single_arg (s : B) : argv (shell s) = [[115, 104], [45, 99], s] := rfl

/-- **C16 (a stream can be configured only once).**  A second setting of a stream whose first
    setting was not `None` panics unless both are `Pipe`. -/
theorem c16_set_once (cur new : Rd) (hc : cur ≠ .none) : setOnce cur new = if cur = .pipe ∧ new = .pipe then some .pipe else none := by
  cases cur <;> cases new <;> simp_all [setOnce]

/-- **C16 (input data is refused loudly by the terminators that cannot deliver it).** -/
theorem c16_data_refused (e : Exec) (t : Term) (d : B) (hd : e.stdinData = some d) :
    (refusesData t = true → terminate e t = none) ∧
    (refusesData t = false → ∃ e', terminate e t = some e' ∧ e'.stdinData = some d ∧ e'.sin = e.sin) := by
  constructor
  · intro h; simp [terminate, h, hd]
  · intro h
    cases t <;> simp [refusesData] at h
    · simp only [terminate, refusesData, Bool.false_and, Bool.false_eq_true, if_false]
      split <;> exact ⟨_, rfl, hd, rfl⟩
    · simp only [terminate, refusesData, Bool.false_and, Bool.false_eq_true, if_false]
      split <;> exact ⟨_, rfl, hd, rfl⟩

/-- (also loud, and modelled:) `capture`/`communicate` on a command whose stdin is a pipe but which was
    given no data panic once the child has started; with data they never do. -/
theorem c16_late_refusal_iff (e : Exec) (t : Term) :
    lateRefusal e t = true ↔ (refusesData t = false ∧ e.sin = .pipe ∧ e.stdinData = none) := by
  simp [lateRefusal, and_assoc]

/-! ### Non-vacuity (tests, labelled as tests) -/
def k (c : Char) : B := [c.toNat]
-- inherited A=0, B=0; set A=1, remove B, extend [A=2, C=3], remove A, set A=4
example : (applyAll [(k 'A', k '0'), (k 'B', k '0')] (cmd (k 'x'))
    [.env (k 'A') (k '1'), .envRemove (k 'B'), .envExtend [(k 'A', k '2'), (k 'C', k '3')], .envRemove (k 'A'), .env (k 'A') (k '4')]).bind
    (fun e => childEnv e) = some [[67, 61, 51], [65, 61, 52]] := by decide
-- a second, different setting panics; Pipe twice is accepted
example : applyAll [] (cmd (k 'x')) [.stdout .pipe, .stdout .pipe] ≠ none ∧ applyAll [] (cmd (k 'x')) [.stdout .pipe, .stdout .null] = none := by decide

end Builder

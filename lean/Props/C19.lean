import Proofs.Sh
/-!
# C19  The printable command line is a faithful shell quoting of the command

Property theorems only.  The renderer model (`Sh.displayEscape`, `Sh.toCmdline`, `Sh.pipelineText`)
is tied to `format!("{:?}", exec)` / `to_cmdline_lossy()` of the real crate by the differential
correspondence check; the shell-side specification `Sh.parse` is itself validated against `/bin/sh`.
-/
namespace Sh

theorem wordsOf_fst (argv : List (List Char)) : (wordsOf argv).map (·.1) = argv := by
  induction argv with
  | nil => rfl
  | cons a r ih => simp [wordsOf] at ih ⊢; exact ih

theorem cmdOk_wordsOf (st : List (List Char)) (hne : st ≠ []) (hr : reserved (st.head hne) = false) :
    cmdOk (wordsOf st) = true := by
  cases st with
  | nil => exact absurd rfl hne
  | cons w r => simp only [List.head_cons] at hr; simp [wordsOf, cmdOk, hr]

/-- **C19 (pipeline form, general).**  For every sequence of one or more stages, each a non-empty
    vector of arbitrary Unicode strings (empty arguments, blanks, quotes, newlines, globs, `$`,
    backslashes … included) whose program name is not a shell reserved word, the text rendered by
    the library parses under the shell rules to exactly those stages, in order. -/
theorem c19_pipeline (stages : List (List (List Char))) (hne : stages ≠ [])
    (hst : ∀ st ∈ stages, ∃ h : st ≠ [], reserved (st.head h) = false) :
    parse (pipelineText stages) = some stages := by
  have hst' : ∀ st ∈ stages, st ≠ [] := fun st h => (hst st h).1
  have := fold_pipeline stages hne hst' ls0 ⟨⟨rfl, rfl, rfl, rfl⟩, rfl, rfl⟩
  simp only at this
  obtain ⟨hm, hb, he⟩ := this
  unfold parse lfinish
  rw [he]
  have hlast : stages.getLast hne ∈ stages := List.getLast_mem hne
  have hw : wordsOf (stages.getLast hne) ≠ [] := by
    have := hst' _ hlast
    cases h : stages.getLast hne with
    | nil => exact absurd h this
    | cons x xs => simp [wordsOf]
  have hall : ((ls0.cmds ++ stages.dropLast.map wordsOf) ++ [wordsOf (stages.getLast hne)]).all cmdOk = true := by
    simp only [List.all_eq_true]
    intro c hc
    simp only [ls0, List.nil_append, List.mem_append, List.mem_map, List.mem_singleton] at hc
    rcases hc with ⟨st, hmem, rfl⟩ | rfl
    · obtain ⟨h, hr⟩ := hst st (List.dropLast_subset _ hmem)
      exact cmdOk_wordsOf st h hr
    · obtain ⟨h, hr⟩ := hst _ hlast
      exact cmdOk_wordsOf _ h hr
  simp only [hm, hb, Bool.false_or, ne_eq, not_true_eq_false, decide_false, Bool.false_eq_true, if_false,
    List.isEmpty_eq_false_iff.mpr hw, hall, if_true]
  simp only [ls0, List.nil_append, List.map_append, List.map_map, List.map_cons, List.map_nil]
  have : (List.map ((fun x => List.map (fun x => x.1) x) ∘ wordsOf) stages.dropLast) = stages.dropLast := by
    conv => rhs; rw [← List.map_id stages.dropLast]
    apply List.map_congr_left
    intro a _
    simp [wordsOf_fst]
  rw [this, wordsOf_fst, List.dropLast_concat_getLast]

/-- **C19 (single command).**  `sh` evaluating the printed command line reproduces exactly the
    original program and argument list. -/
theorem c19_roundtrip (cmd : List Char) (args : List (List Char)) (hr : reserved cmd = false) :
    parse (toCmdline (cmd :: args)) = some [cmd :: args] := by
  have := c19_pipeline [cmd :: args] (by simp) (by
    intro st h
    simp only [List.mem_singleton] at h
    subst h
    exact ⟨by simp, by simpa using hr⟩)
  simpa [pipelineText, joinPipe] using this

/-- nothing special is ever left unquoted: the lexer never answers "unsupported" on rendered text -/
theorem c19_never_unsupported (cmd : List Char) (args : List (List Char)) (hr : reserved cmd = false) :
    parse (toCmdline (cmd :: args)) ≠ none := by
  rw [c19_roundtrip cmd args hr]; simp

/-! ### Regression witnesses and non-vacuity (tests, labelled as tests) -/

def ex1 : List (List Char) := ["printf", "%s|", "", "don't", "a b", "$HOME*", "x\ny", "\\"].map String.toList

example : parse (toCmdline ex1) = some [ex1] := by decide
example : String.ofList (toCmdline ex1) = "printf '%s|' '' 'don'\\''t' 'a b' '$HOME*' 'x\ny' '\\'" := by decide
example : reserved "printf".toList = false := by decide

/-- F8a (repaired by a `fix:` commit): the code before the repair rendered the empty argument as
    nothing, so the shell saw one argument fewer. -/
theorem c19_empty_arg_counterexample_old :
    parse (joinSp (["printf", "%s|", "", "x"].map (fun s => displayEscapeOld s.toList)))
      = some [["printf", "%s|", "x"].map String.toList] := by decide

/-- F8b (known finding `C19:command-is-sh-reserved-word`): a program *named* like a reserved word is
    rendered bare and is not a command for `sh`; this is why `c19_roundtrip` carries `hr`. -/
theorem c19_reserved_counterexample :
    parse (toCmdline ["if".toList, "x".toList]) = none := by decide

end Sh

import Proofs.Sh
import Proofs.ShEnv
/-!
# C19  The printable command line is a faithful shell quoting of the command

Property theorems only.  The renderer model (`Sh.displayEscape`, `Sh.toCmdline`, `Sh.pipelineText`)
is tied to `format!("{:?}", exec)` / `to_cmdline_lossy()` of the real crate by the differential
correspondence check; the shell-side specification `Sh.parse` is itself validated against `/bin/sh`.
-/
namespace Sh

theorem wordsOf_fst (argv : List (List Char)) : (wordsOf argv).map (·.1) = argv := by
  induction argv with
  | nil => rfl
  | cons a r ih => simp [wordsOf] at ih ⊢; exact ih

theorem cmdOk_wordsOf (st : List (List Char)) (hne : st ≠ []) (hr : reserved (st.head hne) = false) :
    cmdOk (wordsOf st) = true := by
  cases st with
  | nil => exact absurd rfl hne
  | cons w r => simp only [List.head_cons] at hr; simp [wordsOf, cmdOk, hr]

/-- **C19 (pipeline form, general).**  For every sequence of one or more stages, each a non-empty
    vector of arbitrary Unicode strings (empty arguments, blanks, quotes, newlines, globs, `$`,
    backslashes … included) whose program name is not a shell reserved word, the text rendered by
    the library parses under the shell rules to exactly those stages, in order. -/
theorem c19_pipeline (stages : List (List (List Char))) (hne : stages ≠ [])
    (hst : ∀ st ∈ stages, ∃ h : st ≠ [], reserved (st.head h) = false) :
    parse (pipelineText stages) = some stages := by
  have hst' : ∀ st ∈ stages, st ≠ [] := fun st h => (hst st h).1
  have := fold_pipeline stages hne hst' ls0 ⟨⟨rfl, rfl, rfl, rfl⟩, rfl, rfl⟩
  simp only at this
  obtain ⟨hm, hb, he⟩ := this
  unfold parse lfinish
  rw [he]
  have hlast : stages.getLast hne ∈ stages := List.getLast_mem hne
  have hw : wordsOf (stages.getLast hne) ≠ [] := by
    have := hst' _ hlast
    cases h : stages.getLast hne with
    | nil => exact absurd h this
    | cons x xs => simp [wordsOf]
  have hall : ((ls0.cmds ++ stages.dropLast.map wordsOf) ++ [wordsOf (stages.getLast hne)]).all cmdOk = true := by
    simp only [List.all_eq_true]
    intro c hc
    simp only [ls0, List.nil_append, List.mem_append, List.mem_map, List.mem_singleton] at hc
    rcases hc with ⟨st, hmem, rfl⟩ | rfl
    · obtain ⟨h, hr⟩ := hst st (List.dropLast_subset _ hmem)
      exact cmdOk_wordsOf st h hr
    · obtain ⟨h, hr⟩ := hst _ hlast
      exact cmdOk_wordsOf _ h hr
  simp only [hm, hb, Bool.false_or, ne_eq, not_true_eq_false, decide_false, Bool.false_eq_true, if_false,
    List.isEmpty_eq_false_iff.mpr hw, hall, if_true]
  simp only [ls0, List.nil_append, List.map_append, List.map_map, List.map_cons, List.map_nil]
  have : (List.map ((fun x => List.map (fun x => x.1) x) ∘ wordsOf) stages.dropLast) = stages.dropLast := by
    conv => rhs; rw [← List.map_id stages.dropLast]
    apply List.map_congr_left
    intro a _
    simp [wordsOf_fst]
  rw [this, wordsOf_fst, List.dropLast_concat_getLast]

/-- **C19 (single command).**  `sh` evaluating the printed command line reproduces exactly the
    original program and argument list. -/
theorem c19_roundtrip (cmd : List Char) (args : List (List Char)) (hr : reserved cmd = false) :
    parse (toCmdline (cmd :: args)) = some [cmd :: args] := by
  have := c19_pipeline [cmd :: args] (by simp) (by
    intro st h
    simp only [List.mem_singleton] at h
    subst h
    exact ⟨by simp, by simpa using hr⟩)
  simpa [pipelineText, joinPipe] using this

/-- nothing special is ever left unquoted: the lexer never answers "unsupported" on rendered text -/
theorem c19_never_unsupported (cmd : List Char) (args : List (List Char)) (hr : reserved cmd = false) :
    parse (toCmdline (cmd :: args)) ≠ none := by
  rw [c19_roundtrip cmd args hr]; simp

/-! ### Environment overrides in front of the command (`env = Some(_)`)

  The property's statement is about the program and its arguments; with environment overrides the
  printed line gains `NAME=value ` words, and the command must still be what `sh` runs.  The theorem
  below says more: for variable names that are shell names (the only ones `sh` can assign), the shell
  sees exactly the printed assignments, in order, with their values intact, then the command.  A
  *removed* variable is printed as `NAME=` (an assignment of the empty string: `sh` has no syntax for
  "unset for this command"), which is how it shows up on the right-hand side. -/

/-- **C19 (with environment overrides).**  For every current environment, every environment vector of
    the command whose printed names are shell names, every program name that is not a reserved word
    and every argument list: the shell strips exactly the printed assignments (values intact: blanks,
    quotes, `=`, `$`, newlines included) and then runs exactly the original program with the original
    arguments -- the command name is never mistaken for an assignment, an assignment never swallows the
    command. -/
theorem c19_env_roundtrip (cur cmdEnv : List (List Char × List Char)) (cmd : List Char) (args : List (List Char))
    (hs : ∀ kv ∈ envSets cur cmdEnv, isIdent kv.1 = true) (hu : ∀ k ∈ envUnsets cur cmdEnv, isIdent k = true)
    (hr : reserved cmd = false) :
    parseWithEnv (toCmdlineEnv cur cmdEnv (cmd :: args))
      = some (envSets cur cmdEnv ++ (envUnsets cur cmdEnv).map (fun k => (k, [])), [cmd :: args]) := by
  unfold parseWithEnv toCmdlineEnv envPrefix
  generalize envSets cur cmdEnv = sets at hs ⊢
  generalize envUnsets cur cmdEnv = unsets at hu ⊢
  have hT := takeAssign_cmdline_none cmd args
  have h1 := strip_unsets unsets (toCmdline (cmd :: args)) (toCmdline (cmd :: args)) [] 0 hu
    (fun m _ => strip_base _ hT m)
  have h2 := strip_sets sets ((unsets.map unsetText).flatten ++ toCmdline (cmd :: args)) (toCmdline (cmd :: args))
    (unsets.map (fun k => (k, [])) ++ []) unsets.length hs (fun m hm => h1 m (by omega))
  have hlen : sets.length + unsets.length ≤
      ((sets.map assignText).flatten ++ ((unsets.map unsetText).flatten ++ toCmdline (cmd :: args))).length := by
    have a := flatten_len_ge assignText sets assignText_len
    have b := flatten_len_ge unsetText unsets unsetText_len
    simp only [List.length_append]; omega
  have h3 := h2 _ hlen
  rw [List.append_assoc, h3]
  simp only [c19_roundtrip cmd args hr, List.append_nil]

/-- without overrides nothing changes: the assignment-aware reading of a plain command line is the plain one -/
theorem c19_env_none (cmd : List Char) (args : List (List Char)) (hr : reserved cmd = false) :
    parseWithEnv (toCmdline (cmd :: args)) = some ([], [cmd :: args]) := by
  unfold parseWithEnv
  rw [strip_base _ (takeAssign_cmdline_none cmd args)]
  simp only [c19_roundtrip cmd args hr]

/-- a program *named* like an assignment is quoted, so it stays a program -/
example : parseWithEnv (toCmdline ["A=b".toList, "x".toList]) = some ([], [["A=b".toList, "x".toList]]) := by decide

/-- non-vacuity and a regression witness (a test, labelled as a test) -/
example : parseWithEnv (toCmdlineEnv [("HOME".toList, "/root".toList), ("OLD".toList, "1".toList)]
      [("HOME".toList, "/root".toList), ("VERIF_A".toList, "two words".toList), ("_V".toList, "".toList), ("K".toList, "k=v it's".toList)]
      ["prog".toList, "a b".toList])
    = some ([("VERIF_A".toList, "two words".toList), ("_V".toList, "".toList), ("K".toList, "k=v it's".toList), ("OLD".toList, [])],
            [["prog".toList, "a b".toList]]) := by decide
example : String.ofList (toCmdlineEnv [("OLD".toList, "1".toList)] [("VERIF_A".toList, "two words".toList)] ["prog".toList])
    = "VERIF_A='two words' OLD= prog" := by decide

/-- **C19 (the printed assignments mean the command's environment; partial: distinct names).**  When no variable is
    listed twice in the command's environment vector, evaluating the printed assignments on top of the parent's
    environment gives every variable of that vector exactly its value: a pair that is not printed is one the parent
    already has with that value.  (Beyond the property's statement, which is about the argument list; kept because the
    printed prefix is only useful if it means this.)  `_partial`: with a name listed twice the statement is false of
    the unchanged code, see `c19_env_duplicate_counterexample`; and a variable *removed* from the vector is printed as
    `NAME=`, i.e. empty, not unset -- `sh` has no per-command unset. -/
theorem c19_env_meaning_partial (cur cmdEnv : List (List Char × List Char))
    (hnd : ∀ kv ∈ cmdEnv, ∀ kv' ∈ cmdEnv, kv.1 = kv'.1 → kv.2 = kv'.2) (k v : List Char) (hm : (k, v) ∈ cmdEnv) :
    assignAll (lookupEnv cur) (envSets cur cmdEnv) k = some v := by
  by_cases hc : lookupEnv cur k = some v
  · rw [assignAll_notin]
    · exact hc
    · intro kv hkv heq
      simp only [envSets, List.mem_filter, bne_iff_ne, ne_eq] at hkv
      have hv : kv.2 = v := hnd kv hkv.1 (k, v) hm heq
      apply hkv.2
      rw [heq, hv]; exact hc
  · apply assignAll_mem
    · simp only [envSets, List.mem_filter, bne_iff_ne, ne_eq]
      exact ⟨hm, hc⟩
    · intro kv hkv heq
      simp only [envSets, List.mem_filter] at hkv
      exact hnd kv hkv.1 (k, v) hm heq

/-- the excluded case, on the unchanged code (an observation: environment fidelity of the *printed* line; the child
    itself gets the right value, and the argument list is unaffected): `.env("A", "new").env("A", <parent's value>)`
    prints only `A=new` -- the second pair equals the parent's value and is skipped -- while the command's environment
    (last setting wins) has the parent's value. -/
theorem c19_env_duplicate_counterexample :
    assignAll (lookupEnv [("A".toList, "cur".toList)])
      (envSets [("A".toList, "cur".toList)] [("A".toList, "new".toList), ("A".toList, "cur".toList)]) "A".toList
      = some "new".toList := by decide

/-- why the hypothesis on names is there (observation, outside the property's quantifier, which ranges over
    argument vectors): a variable whose name is not a shell name cannot be assigned by `sh` at all; printed
    bare (`a.b=1`) it becomes the command. -/
theorem c19_env_nonname_counterexample :
    parseWithEnv (toCmdlineEnv [] [("a.b".toList, "1".toList)] ["prog".toList]) = none := by decide

/-! ### Regression witnesses and non-vacuity (tests, labelled as tests) -/

def ex1 : List (List Char) := ["printf", "%s|", "", "don't", "a b", "$HOME*", "x\ny", "\\"].map String.toList

example : parse (toCmdline ex1) = some [ex1] := by decide
example : String.ofList (toCmdline ex1) = "printf '%s|' '' 'don'\\''t' 'a b' '$HOME*' 'x\ny' '\\'" := by decide
example : reserved "printf".toList = false := by decide

/-- F8a (repaired by a `fix:` commit): the code before the repair rendered the empty argument as
    nothing, so the shell saw one argument fewer. -/
theorem c19_empty_arg_counterexample_old :
    parse (joinSp (["printf", "%s|", "", "x"].map (fun s => displayEscapeOld s.toList)))
      = some [["printf", "%s|", "x"].map String.toList] := by decide

/-- F8b (known finding `C19:command-is-sh-reserved-word`): a program *named* like a reserved word is
    rendered bare and is not a command for `sh`; this is why `c19_roundtrip` carries `hr`. -/
theorem c19_reserved_counterexample :
    parse (toCmdline ["if".toList, "x".toList]) = none := by decide

end Sh

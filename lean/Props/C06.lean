import Proofs.Path
import Proofs.Spawn
/-!
# C06  Child gets exactly the requested argv, program, environment, cwd, identity

* `format_env` (pure): one entry per name, the later of duplicate names wins — for every list.
* the order of the child-side steps: `chdir`, stream wiring, signal reset, `setgid`, `setuid`,
  `setpgid`, and only then `exec`; with the credential rules of A8 the order `setgid` → `setuid`
  makes both requests take effect (the original order made the second one fail: defect F3).
* NUL bytes: refused before anything is started.
The argument vector, the environment vector and the path handed to `execve` are compared byte for
byte with the model (`Path.renderEnv`, `Path.candidates`) on every run.
-/
namespace Path

/-- **C06 (environment).**  The environment handed to the child has one entry per name
    (`Nodup` names), consists of requested entries in their original relative order (`Sublist`),
    and looking a name up gives the value of its **last** occurrence in the request. -/
theorem c06_formatEnv_spec (env : List (List Nat × List Nat)) :
    ((formatEnv env).map (·.1)).Nodup ∧ (formatEnv env).Sublist env ∧
    ∀ k, ((formatEnv env).find? (fun e => e.1 == k)).map (·.2) = lastVal k env :=
  ⟨formatEnv_keys_nodup env, formatEnv_sublist env, fun k => formatEnv_lookup k env⟩

/-- a name is present iff it was requested at all -/
theorem c06_formatEnv_complete (k : List Nat) (env : List (List Nat × List Nat)) :
    (∃ v, (k, v) ∈ env) ↔ ∃ v, (k, v) ∈ formatEnv env := by
  constructor
  · rintro ⟨v, hv⟩
    have : lastVal k env ≠ none := by
      rw [Ne, lastVal_none_iff]; intro h; exact h _ hv rfl
    rw [← formatEnv_lookup] at this
    cases hf : (formatEnv env).find? (fun e => e.1 == k) with
    | none => simp [hf] at this
    | some e =>
      have hm := List.mem_of_find?_eq_some hf
      have hk := List.find?_some hf
      simp only [beq_iff_eq] at hk
      exact ⟨e.2, by rw [← hk]; exact hm⟩
  · rintro ⟨v, hv⟩; exact ⟨v, formatEnv_mem env _ hv⟩

example : renderEnv [([65], [49]), ([66], [49]), ([65], [50]), ([66], [50])] = [[65, 61, 50], [66, 61, 50]] := by decide

end Path

namespace Spawn

/-- **C06 (order of the child-side steps).**  Everything the child does before `exec`, in order:
    close the status read end, `chdir` if requested, the stream wiring, the signal reset, then
    `setgid` (if requested) **before** `setuid` (if requested), then `setpgid`. -/
theorem c06_child_order (c : Cfg) (p : Pipes) (sr : Nat) :
    ∃ wiring, childSteps c p sr =
      [.close sr] ++ (if c.cwd then [.chdir] else []) ++ wiring ++ [.sigmask, .signal] ++
      (match c.gid with | some g => [.setgid g] | none => []) ++
      (match c.uid with | some u => [.setuid u] | none => []) ++
      (if c.pgid then [.setpgid] else []) ∧
      ∀ x ∈ wiring, (∃ a b, x = .dup2 a b) ∨ ∃ f, x = .close f := by
  refine ⟨dupStep 0 (endIn c p) [endOut c p, endErr c p] ++ dupStep 1 (endOut c p) [endErr c p] ++ dupStep 2 (endErr c p) [],
    by cases hg : c.gid <;> cases hu : c.uid <;> simp [childSteps, hg, hu, List.append_assoc], ?_⟩
  have hdup : ∀ i e later, ∀ x ∈ dupStep i e later, (∃ a b, x = .dup2 a b) ∨ ∃ f, x = .close f := by
    intro i e later x hx
    unfold dupStep at hx
    cases e <;> simp at hx <;> (repeat' split at hx) <;> (try simp_all)
    rcases hx with ⟨_, rfl⟩ | ⟨_, rfl⟩ <;> simp
  intro x hx
  simp only [List.mem_append] at hx
  rcases hx with (hx | hx) | hx
  · exact hdup _ _ _ x hx
  · exact hdup _ _ _ x hx
  · exact hdup _ _ _ x hx

/-! #### Credentials (A8) -/
structure Cred where
  ruid : Nat
  euid : Nat
  suid : Nat
  rgid : Nat
  egid : Nat
  sgid : Nat
  deriving DecidableEq, Repr

/-- `setgid(g)`: a privileged process sets all three group ids; an unprivileged one may only switch
    to its real or saved gid (else `EPERM`: `none`) -/
def setgidK (k : Cred) (g : Nat) : Option Cred :=
  if k.euid = 0 then some { k with rgid := g, egid := g, sgid := g }
  else if g = k.rgid ∨ g = k.sgid then some { k with egid := g } else none
/-- `setuid(u)` by a privileged process sets real, effective and saved uid (privilege is gone for `u ≠ 0`) -/
def setuidK (k : Cred) (u : Nat) : Option Cred :=
  if k.euid = 0 then some { k with ruid := u, euid := u, suid := u }
  else if u = k.ruid ∨ u = k.suid then some { k with euid := u } else none

/-- **C06 (both ids when both are requested).**  In the order the library uses, a privileged
    parent requesting uid `u` and gid `g` obtains a child with exactly `(u, g)`, for every `u`, `g`. -/
theorem c06_ids (k : Cred) (u g : Nat) (hp : k.euid = 0) :
    ∃ k', (setgidK k g).bind (fun k1 => setuidK k1 u) = some k' ∧
      k'.ruid = u ∧ k'.euid = u ∧ k'.suid = u ∧ k'.rgid = g ∧ k'.egid = g ∧ k'.sgid = g := by
  simp [setgidK, setuidK, hp]

/-- the original order (`setuid` first) fails whenever the privileges are really dropped and the
    group is a new one: the regression witness of defect F3 -/
theorem c06_ids_counterexample_old_order :
    (setuidK ⟨0, 0, 0, 0, 0, 0⟩ 1000).bind (fun k1 => setgidK k1 1000) = none := by decide

/-- **C06 (NUL bytes).**  A NUL byte in an argument, an environment name or value (or the working
    directory) makes the attempt fail before the fork: no `fork` call is issued, the result is not
    `Ok`, and everything opened so far is closed again (by `c07_no_fd_left_before_fork`). -/
theorem c06_nul_rejected (c : Cfg) (rs : List SResp) (ha : c.argvEmpty = false) (hn : c.nul = true) :
    hasFork (parentRun c rs).calls = false ∧
    (acquireAll (stagesOf c) (s0 c) rs).fail ≠ none ∧
    closedBy (parentRun c rs).calls =
      (acquireAll (stagesOf c) (s0 c) rs).s.released ++ (acquireAll (stagesOf c) (s0 c) rs).s.owned := by
  obtain ⟨p1, -, -, -, -, -, -, -, -, -, -, hbad, -⟩ := prefork_facts c rs
  obtain ⟨hfail, hnf⟩ := hbad (Or.inl hn)
  cases hf : (acquireAll (stagesOf c) (s0 c) rs).fail with
  | none => exact absurd hf hfail
  | some r =>
    obtain ⟨hc, -⟩ := parentRun_fail c rs ha r hf
    refine ⟨by rw [hc, hasFork_append, hnf]; simp, by simp, by rw [hc, closedBy_append, p1, closedBy_closeAll]⟩

end Spawn

namespace Placeholder
theorem placeholder_C06 : True := trivial
end Placeholder

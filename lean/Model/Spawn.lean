/-
  Model of `Popen::create` / `os_start` / `setup_streams` / `do_exec` (src/popen.rs, unix) as two
  linear call sequences with early exit: the parent's (status pipe, stream pipes with their
  close-on-exec marking, fork, release of the child ends, status read, cleanup on every error path)
  and the forked child's (close status read end, chdir, dup2 per stream with the `Rc` drop semantics,
  signal reset, setgid/setuid/setpgid, the exec attempts, and on failure the 4-byte errno report and
  `_exit(127)`).  The answers of the operating system are explicit lists, so theorems quantify over
  every fault-injection point.  Descriptor numbers are whatever the OS answered.  Core Lean only.
-/
namespace Spawn

inductive Redir
  | none | pipe | merge
  | file (fd : Nat)      -- `Redirection::File`: owned by the attempt, closed by it
  | rc (fd : Nat)        -- `Redirection::RcFile`: the caller keeps a reference
  deriving DecidableEq, Repr

structure Cfg where
  sin : Redir
  sout : Redir
  serr : Redir
  detached : Bool
  cwd : Bool
  uid : Option Nat
  gid : Option Nat
  pgid : Bool
  argvEmpty : Bool
  nul : Bool             -- a NUL byte in argv, an environment entry or the working directory
  ncand : Nat            -- number of paths `exec` will be tried with (Model/Path.lean: `candidates`)
  deriving Repr

inductive SCall
  | pipe
  | getfd (fd : Nat)
  | setfd (fd : Nat) (flags : Nat)
  | fork
  | close (fd : Nat)
  | readStatus (fd : Nat)
  | waitpid
  | chdir
  | dup2 (src dst : Nat)
  | sigmask
  | signal
  | setgid (g : Nat)
  | setuid (u : Nat)
  | setpgid
  | exec (i : Nat)
  | writeStatus (fd : Nat) (e : Nat)
  | exit (code : Nat)
  deriving DecidableEq, Repr

inductive SResp
  | ok
  | fds (r w : Nat)
  | val (n : Nat)
  | err (e : Nat)
  | nbytes (n : Nat) (e : Nat)    -- status read: byte count, and the errno decoded from 4 bytes
  | started                       -- exec replaced the image
  deriving DecidableEq, Repr

inductive Res
  | ok
  | err (e : Nat)
  | logic
  | stuck
  deriving DecidableEq, Repr

/-- the child end of one stream -/
inductive End
  | none
  | own (fd : Nat)      -- the attempt holds the only reference chain: dropping the last `Rc` closes it
  | shared (fd : Nat)   -- the caller holds a reference too: never closed here
  | std (fd : Nat)      -- the parent's own 1 or 2 (leaked `Rc`: never closed)
  deriving DecidableEq, Repr

def End.fd? : End → Option Nat
  | .none => Option.none
  | .own f | .shared f | .std f => some f

structure Pipes where
  pin : Option (Nat × Nat) := none     -- (read end, write end) as answered by `pipe()`
  pout : Option (Nat × Nat) := none
  perr : Option (Nat × Nat) := none
  deriving Repr

def end0 (r : Redir) (p : Option (Nat × Nat)) (parentWrites : Bool) : End :=
  match r, p with
  | .pipe, some (rd, wr) => .own (if parentWrites then rd else wr)
  | .file f, _ => .own f
  | .rc f, _ => .shared f
  | _, _ => .none

def endIn (c : Cfg) (p : Pipes) : End := end0 c.sin p.pin true
/-- `reuse_stream`: clone of the other output's child end, or the parent's own stream -/
def endOut (c : Cfg) (p : Pipes) : End :=
  match c.sout with
  | .merge => (match end0 c.serr p.perr false with | .none => .std 2 | e => e)
  | _ => end0 c.sout p.pout false
def endErr (c : Cfg) (p : Pipes) : End :=
  match c.serr with
  | .merge => (match end0 c.sout p.pout false with | .none => .std 1 | e => e)
  | _ => end0 c.serr p.perr false

/-- descriptors the parent closes when the three child ends are dropped (each owned one once) -/
def ownedEnds (c : Cfg) (p : Pipes) : List Nat :=
  let l := [endIn c p, endOut c p, endErr c p].filterMap (fun e => match e with | .own f => some f | _ => Option.none)
  l.eraseDups

/-- the parent-side ends kept in the `Popen` -/
def parentEnds (c : Cfg) (p : Pipes) : List Nat :=
  (match c.sin, p.pin with | .pipe, some (_, w) => [w] | _, _ => []) ++
  (match c.sout, p.pout with | .pipe, some (r, _) => [r] | _, _ => []) ++
  (match c.serr, p.perr with | .pipe, some (r, _) => [r] | _, _ => [])

def cfgFiles (c : Cfg) : List Nat :=
  ([c.sin, c.sout, c.serr].filterMap (fun r => match r with | .file f => some f | _ => Option.none)).eraseDups

def FD_CLOEXEC : Nat := 1
def EINVAL : Nat := 22
def ENOENT : Nat := 2

def closeAll (l : List Nat) : List SCall := l.map .close

/-! ### The forked child -/

/-- `dup2` + drop of the `Rc` for stream `i`; `later` = the ends still to be processed (an owned
    descriptor is closed when its last reference goes) -/
def dupStep (i : Nat) (e : End) (later : List End) : List SCall :=
  match e with
  | .none => []
  | .own f => (if f ≠ i then [.dup2 f i] else []) ++ (if later.any (· == .own f) then [] else [.close f])
  | .shared f => if f ≠ i then [.dup2 f i] else []
  | .std f => if f ≠ i then [.dup2 f i] else []

/-- everything the child does before the first `exec`, on the success path -/
def childSteps (c : Cfg) (p : Pipes) (statusR : Nat) : List SCall :=
  [.close statusR] ++ (if c.cwd then [.chdir] else []) ++
  dupStep 0 (endIn c p) [endOut c p, endErr c p] ++
  dupStep 1 (endOut c p) [endErr c p] ++
  dupStep 2 (endErr c p) [] ++
  [.sigmask, .signal] ++
  (match c.gid with | some g => [.setgid g] | none => []) ++
  (match c.uid with | some u => [.setuid u] | none => []) ++
  (if c.pgid then [.setpgid] else [])

structure Run where
  calls : List SCall
  res : Res
  deriving Repr

/-- run a fixed call list against answers: stop at the first error -/
def runSteps : List SCall → List SResp → List SCall × Option Nat × List SResp
  | [], rs => ([], none, rs)
  | c :: cs, [] => ([c], some 0, [])          -- answers exhausted (reported as `stuck` by the caller)
  | c :: cs, .err e :: rs => ([c], some e, rs)
  | c :: cs, _ :: rs => ((c :: (runSteps cs rs).1), (runSteps cs rs).2.1, (runSteps cs rs).2.2)

/-- the exec attempts: candidate `i`, `i+1`, … until one starts; the last error is kept -/
def execLoop : Nat → Nat → Nat → List SResp → List SCall × Option Nat
  | _, 0, e, _ => ([], some e)
  | i, n + 1, _, [] => ([.exec i], some 0)
  | i, n + 1, _, .started :: _ => ([.exec i], none)
  | i, n + 1, _, .err e' :: rs => (.exec i :: (execLoop (i + 1) n e' rs).1, (execLoop (i + 1) n e' rs).2)
  | i, n + 1, e, _ :: rs => (.exec i :: (execLoop (i + 1) n e rs).1, (execLoop (i + 1) n e rs).2)

/-- owned child ends that have not been closed by the calls made so far: a failing step returns
    from `do_exec`, which drops the `Rc`s that are still alive -/
def stillOpen (c : Cfg) (p : Pipes) (calls : List SCall) : List Nat :=
  (ownedEnds c p).filter (fun f => !calls.any (· == .close f))

/-- the whole child: `none` result = the program was started -/
def childRun (c : Cfg) (p : Pipes) (statusR statusW : Nat) (rs : List SResp) : List SCall × Option Nat :=
  match runSteps (childSteps c p statusR) rs with
  | (calls, some e, _) => (calls ++ closeAll (stillOpen c p calls) ++ [.writeStatus statusW e, .exit 127], some e)
  | (calls, none, rs') =>
    match execLoop 0 c.ncand ENOENT rs' with
    | (ecalls, none) => (calls ++ ecalls, none)
    | (ecalls, some e) => (calls ++ ecalls ++ [.writeStatus statusW e, .exit 127], some e)

/-! ### The parent -/

structure PState where
  calls : List SCall := []
  owned : List Nat := []       -- descriptors opened by the attempt and not yet closed (cfg files included)
  pipes : Pipes := {}
  deriving Repr

/-- mark `fd` close-on-exec: `F_GETFD`, `F_SETFD(old | FD_CLOEXEC)` -/
def cloexec (fd : Nat) (rs : List SResp) : List SCall × Option Nat × List SResp :=
  match rs with
  | [] => ([.getfd fd], some 0, [])
  | .err e :: rs => ([.getfd fd], some e, rs)
  | .val old :: rs =>
    (match rs with
     | [] => ([.getfd fd, .setfd fd (old ||| FD_CLOEXEC)], some 0, [])
     | .err e :: rs => ([.getfd fd, .setfd fd (old ||| FD_CLOEXEC)], some e, rs)
     | _ :: rs => ([.getfd fd, .setfd fd (old ||| FD_CLOEXEC)], none, rs))
  | _ :: rs => ([.getfd fd], some 0, rs)

/-- `prepare_pipe`: `pipe()`, then close-on-exec on the parent's end -/
def streamPipe (parentWrites : Bool) (rs : List SResp) : List SCall × (Option (Nat × Nat)) × Option Nat × List SResp :=
  match rs with
  | [] => ([.pipe], none, some 0, [])
  | .err e :: rs => ([.pipe], none, some e, rs)
  | .fds r w :: rs =>
    let (cs, e, rs') := cloexec (if parentWrites then w else r) rs
    (.pipe :: cs, some (r, w), e, rs')
  | _ :: rs => ([.pipe], none, some 0, rs)

structure POut where
  calls : List SCall
  res : Res
  pipes : Pipes
  status : Option (Nat × Nat)
  rest : List SResp
  deriving Repr

/-- failure before the fork: everything opened so far and every file handed over is closed -/
def failBefore (calls : List SCall) (owned : List Nat) (r : Res) (p : Pipes) (st : Option (Nat × Nat)) (rs : List SResp) : POut :=
  ⟨calls ++ closeAll owned, r, p, st, rs⟩

def pipeFds (o : Option (Nat × Nat)) : List Nat := match o with | some (r, w) => [r, w] | none => []

/-- `Popen::create` up to and including the status read and the cleanup of a failed launch.
    `rs` = the answers to the parent's calls, in order. -/
def parentRun (c : Cfg) (rs : List SResp) : POut :=
  if c.argvEmpty then ⟨[], .logic, {}, none, rs⟩ else
  -- status pipe
  match rs with
  | [] => ⟨[.pipe], .stuck, {}, none, []⟩
  | .err e :: rs => failBefore [.pipe] (cfgFiles c) (.err e) {} none rs
  | .ok :: rs | .val _ :: rs | .nbytes _ _ :: rs | .started :: rs => ⟨[.pipe], .stuck, {}, none, rs⟩
  | .fds sr sw :: rs =>
    let own0 := [sr, sw] ++ cfgFiles c
    match cloexec sr rs with
    | (c1, some e, rs) => failBefore (.pipe :: c1) own0 (.err e) {} (some (sr, sw)) rs
    | (c1, none, rs) =>
    match cloexec sw rs with
    | (c2, some e, rs) => failBefore (.pipe :: c1 ++ c2) own0 (.err e) {} (some (sr, sw)) rs
    | (c2, none, rs) =>
    let calls := .pipe :: c1 ++ c2
    -- setup_streams
    if c.sout = .merge ∧ c.serr = .merge then failBefore calls own0 .logic {} (some (sr, sw)) rs else
    if c.sin = .merge then failBefore calls own0 .logic {} (some (sr, sw)) rs else
    let (ci, pin, ei, rs) := if c.sin = .pipe then streamPipe true rs else ([], none, none, rs)
    let calls := calls ++ ci
    let own1 := own0 ++ pipeFds pin
    match ei with
    | some e => failBefore calls own1 (.err e) { pin := pin } (some (sr, sw)) rs
    | none =>
    let (co, pout, eo, rs) := if c.sout = .pipe then streamPipe false rs else ([], none, none, rs)
    let calls := calls ++ co
    let own2 := own1 ++ pipeFds pout
    match eo with
    | some e => failBefore calls own2 (.err e) { pin := pin, pout := pout } (some (sr, sw)) rs
    | none =>
    let (ce, perr, ee, rs) := if c.serr = .pipe then streamPipe false rs else ([], none, none, rs)
    let calls := calls ++ ce
    let own3 := own2 ++ pipeFds perr
    let p : Pipes := { pin := pin, pout := pout, perr := perr }
    match ee with
    | some e => failBefore calls own3 (.err e) p (some (sr, sw)) rs
    | none =>
    -- prep_exec: NUL bytes are found before anything is started
    if c.nul then failBefore calls own3 (.err EINVAL) p (some (sr, sw)) rs else
    match rs with
    | [] => ⟨calls ++ [.fork], .stuck, p, some (sr, sw), []⟩
    | .err e :: rs => failBefore (calls ++ [.fork]) own3 (.err e) p (some (sr, sw)) rs
    | _ :: rs =>
      -- parent after the fork: release the child ends, then the status write end, then read
      let calls := calls ++ [.fork] ++ closeAll (ownedEnds c p) ++ [.close sw, .readStatus sr]
      match rs.drop ((ownedEnds c p).length + 1) with
      | .nbytes 0 _ :: rs' => ⟨calls ++ [.close sr], .ok, p, some (sr, sw), rs'⟩
      | .nbytes 4 e :: rs' =>
        -- the child could not exec: reap it (also when detached), then drop everything
        ⟨calls ++ [.waitpid] ++ closeAll (sr :: parentEnds c p), .err e, p, some (sr, sw), rs'.drop 1⟩
      | .nbytes _ _ :: rs' =>
        ⟨calls ++ [.close sr] ++ (if c.detached then [] else [.waitpid]) ++ closeAll (parentEnds c p), .logic, p, some (sr, sw), rs'⟩
      | .err e :: rs' =>
        ⟨calls ++ [.close sr] ++ (if c.detached then [] else [.waitpid]) ++ closeAll (parentEnds c p), .err e, p, some (sr, sw), rs'⟩
      | rs' => ⟨calls, .stuck, p, some (sr, sw), rs'⟩

/-- dropping the `Popen` of a successful launch -/
def dropOk (c : Cfg) (p : Pipes) : List SCall :=
  (if c.detached then [] else [.waitpid]) ++ closeAll (parentEnds c p)

end Spawn

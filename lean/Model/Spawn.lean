/-
  Model of `Popen::create` / `os_start` / `setup_streams` / `do_exec` (src/popen.rs, unix) as two
  linear call sequences with early exit: the parent's (status pipe, stream pipes with their
  close-on-exec marking, fork, release of the child ends, status read, cleanup on every error path)
  and the forked child's (close status read end, chdir, dup2 per stream with the `Rc` drop semantics,
  signal reset, setgid/setuid/setpgid, the exec attempts, and on failure the 4-byte errno report and
  `_exit(127)`).  The answers of the operating system are explicit lists, so theorems quantify over
  every fault-injection point.  Descriptor numbers are whatever the OS answered.  Core Lean only.
-/
namespace Spawn

inductive Redir
  | none | pipe | merge
  | file (fd : Nat)      -- `Redirection::File`: owned by the attempt, closed by it
  | rc (fd : Nat)        -- `Redirection::RcFile`: the caller keeps a reference
  deriving DecidableEq, Repr

structure Cfg where
  sin : Redir
  sout : Redir
  serr : Redir
  detached : Bool
  cwd : Bool
  uid : Option Nat
  gid : Option Nat
  pgid : Bool
  argvEmpty : Bool
  nul : Bool             -- a NUL byte in argv, an environment entry or the working directory
  ncand : Nat            -- number of paths `exec` will be tried with (Model/Path.lean: `candidates`)
  deriving Repr

inductive SCall
  | pipe
  | getfd (fd : Nat)
  | setfd (fd : Nat) (flags : Nat)
  | dupfd (fd : Nat)     -- `File::try_clone`: `fcntl(fd, F_DUPFD_CLOEXEC, 3)`, a close-on-exec copy at or above 3
  | fork
  | close (fd : Nat)
  | readStatus (fd : Nat)
  | waitpid
  | chdir
  | dup2 (src dst : Nat)
  | sigmask
  | signal
  | setgid (g : Nat)
  | setuid (u : Nat)
  | setpgid
  | exec (i : Nat)
  | writeStatus (fd : Nat) (e : Nat)
  | exit (code : Nat)
  deriving DecidableEq, Repr

inductive SResp
  | ok
  | fds (r w : Nat)
  | val (n : Nat)
  | err (e : Nat)
  | nbytes (n : Nat) (e : Nat)    -- status read: byte count, and the errno decoded from 4 bytes
  | started                       -- exec replaced the image
  deriving DecidableEq, Repr

inductive Res
  | ok
  | err (e : Nat)
  | logic
  | stuck
  deriving DecidableEq, Repr

/-- the child end of one stream -/
inductive End
  | none
  | own (fd : Nat)      -- the attempt holds the only reference chain: dropping the last `Rc` closes it
  | shared (fd : Nat)   -- the caller holds a reference too: never closed here
  | std (fd : Nat)      -- the parent's own 1 or 2 (leaked `Rc`: never closed)
  deriving DecidableEq, Repr

def End.fd? : End → Option Nat
  | .none => Option.none
  | .own f | .shared f | .std f => some f

structure Pipes where
  pin : Option (Nat × Nat) := none     -- (read end, write end) as answered by `pipe()`
  pout : Option (Nat × Nat) := none
  perr : Option (Nat × Nat) := none
  deriving Repr

def end0 (r : Redir) (p : Option (Nat × Nat)) (parentWrites : Bool) : End :=
  match r, p with
  | .pipe, some (rd, wr) => .own (if parentWrites then rd else wr)
  | .file f, _ => .own f
  | .rc f, _ => .shared f
  | _, _ => .none

def endIn (c : Cfg) (p : Pipes) : End := end0 c.sin p.pin true
/-- `reuse_stream`: clone of the other output's child end, or the parent's own stream -/
def endOut (c : Cfg) (p : Pipes) : End :=
  match c.sout with
  | .merge => (match end0 c.serr p.perr false with | .none => .std 2 | e => e)
  | _ => end0 c.sout p.pout false
def endErr (c : Cfg) (p : Pipes) : End :=
  match c.serr with
  | .merge => (match end0 c.sout p.pout false with | .none => .std 1 | e => e)
  | _ => end0 c.serr p.perr false

/-- descriptors the parent closes when the three child ends are dropped (each owned one once) -/
def ownedEnds (c : Cfg) (p : Pipes) : List Nat :=
  let l := [endIn c p, endOut c p, endErr c p].filterMap (fun e => match e with | .own f => some f | _ => Option.none)
  l.eraseDups

/-- the parent-side ends kept in the `Popen` -/
def parentEnds (c : Cfg) (p : Pipes) : List Nat :=
  (match c.sin, p.pin with | .pipe, some (_, w) => [w] | _, _ => []) ++
  (match c.sout, p.pout with | .pipe, some (r, _) => [r] | _, _ => []) ++
  (match c.serr, p.perr with | .pipe, some (r, _) => [r] | _, _ => [])

def cfgFiles (c : Cfg) : List Nat :=
  ([c.sin, c.sout, c.serr].filterMap (fun r => match r with | .file f => some f | _ => Option.none)).eraseDups

def FD_CLOEXEC : Nat := 1
def EINVAL : Nat := 22
def ENOENT : Nat := 2

def closeAll (l : List Nat) : List SCall := l.map .close

/-! ### The forked child -/

/-- `dup2` + drop of the `Rc` for stream `i`; `later` = the ends still to be processed (an owned
    descriptor is closed when its last reference goes) -/
def dupStep (i : Nat) (e : End) (later : List End) : List SCall :=
  match e with
  | .none => []
  | .own f => (if f ≠ i then [.dup2 f i] else []) ++ (if later.any (· == .own f) then [] else [.close f])
  | .shared f => if f ≠ i then [.dup2 f i] else []
  | .std f => if f ≠ i then [.dup2 f i] else []

/-- everything the child does before the first `exec`, on the success path -/
def childSteps (c : Cfg) (p : Pipes) (statusR : Nat) : List SCall :=
  [.close statusR] ++ (if c.cwd then [.chdir] else []) ++
  dupStep 0 (endIn c p) [endOut c p, endErr c p] ++
  dupStep 1 (endOut c p) [endErr c p] ++
  dupStep 2 (endErr c p) [] ++
  [.sigmask, .signal] ++
  (match c.gid with | some g => [.setgid g] | none => []) ++
  (match c.uid with | some u => [.setuid u] | none => []) ++
  (if c.pgid then [.setpgid] else [])

structure Run where
  calls : List SCall
  res : Res
  deriving Repr

/-- run a fixed call list against answers: stop at the first error -/
def runSteps : List SCall → List SResp → List SCall × Option Nat × List SResp
  | [], rs => ([], none, rs)
  | c :: cs, [] => ([c], some 0, [])          -- answers exhausted (reported as `stuck` by the caller)
  | c :: cs, .err e :: rs => ([c], some e, rs)
  | c :: cs, _ :: rs => ((c :: (runSteps cs rs).1), (runSteps cs rs).2.1, (runSteps cs rs).2.2)

/-- the exec attempts: candidate `i`, `i+1`, … until one starts; the last error is kept -/
def execLoop : Nat → Nat → Nat → List SResp → List SCall × Option Nat
  | _, 0, e, _ => ([], some e)
  | i, n + 1, _, [] => ([.exec i], some 0)
  | i, n + 1, _, .started :: _ => ([.exec i], none)
  | i, n + 1, _, .err e' :: rs => (.exec i :: (execLoop (i + 1) n e' rs).1, (execLoop (i + 1) n e' rs).2)
  | i, n + 1, e, _ :: rs => (.exec i :: (execLoop (i + 1) n e rs).1, (execLoop (i + 1) n e rs).2)

/-- owned child ends that have not been closed by the calls made so far: a failing step returns
    from `do_exec`, which drops the `Rc`s that are still alive -/
def stillOpen (c : Cfg) (p : Pipes) (calls : List SCall) : List Nat :=
  (ownedEnds c p).filter (fun f => !calls.any (· == .close f))

/-- the whole child: `none` result = the program was started -/
def childRun (c : Cfg) (p : Pipes) (statusR statusW : Nat) (rs : List SResp) : List SCall × Option Nat :=
  match runSteps (childSteps c p statusR) rs with
  | (calls, some e, _) => (calls ++ closeAll (stillOpen c p calls) ++ [.writeStatus statusW e, .exit 127], some e)
  | (calls, none, rs') =>
    match execLoop 0 c.ncand ENOENT rs' with
    | (ecalls, none) => (calls ++ ecalls, none)
    | (ecalls, some e) => (calls ++ ecalls ++ [.writeStatus statusW e, .exit 127], some e)

/-! ### The parent -/

structure PState where
  calls : List SCall := []
  owned : List Nat := []       -- descriptors opened by the attempt and not yet closed (cfg files included)
  pipes : Pipes := {}
  deriving Repr

/-- mark `fd` close-on-exec: `F_GETFD`, `F_SETFD(old | FD_CLOEXEC)` -/
def cloexec (fd : Nat) (rs : List SResp) : List SCall × Option Nat × List SResp :=
  match rs with
  | [] => ([.getfd fd], some 0, [])
  | .err e :: rs => ([.getfd fd], some e, rs)
  | .val old :: rs =>
    (match rs with
     | [] => ([.getfd fd, .setfd fd (old ||| FD_CLOEXEC)], some 0, [])
     | .err e :: rs => ([.getfd fd, .setfd fd (old ||| FD_CLOEXEC)], some e, rs)
     | _ :: rs => ([.getfd fd, .setfd fd (old ||| FD_CLOEXEC)], none, rs))
  | _ :: rs => ([.getfd fd], some 0, rs)

/-- `prepare_pipe`: `pipe()`, then close-on-exec on the parent's end -/
def streamPipe (parentWrites : Bool) (rs : List SResp) : List SCall × (Option (Nat × Nat)) × Option Nat × List SResp :=
  match rs with
  | [] => ([.pipe], none, some 0, [])
  | .err e :: rs => ([.pipe], none, some e, rs)
  | .fds r w :: rs =>
    let (cs, e, rs') := cloexec (if parentWrites then w else r) rs
    (.pipe :: cs, some (r, w), e, rs')
  | _ :: rs => ([.pipe], none, some 0, rs)

structure POut where
  calls : List SCall
  res : Res
  pipes : Pipes
  status : Option (Nat × Nat)
  rest : List SResp
  deriving Repr

def pipeFds (o : Option (Nat × Nat)) : List Nat := match o with | some (r, w) => [r, w] | none => []

/-- the steps `os_start` takes before the fork, each of which may fail -/
inductive Acq
  | statusPipe                     -- `posix::pipe()` for the launch-status channel
  | relocateStatusW                -- write end on 0-2 (a caller with closed standard descriptors): moved above 2
  | releaseLow                     -- the original of a moved write end is dropped once the stream pipes exist
  | cloexecStatusR | cloexecStatusW
  | check (ok : Bool) (r : Res)    -- a test that issues no system call (invalid combination, NUL byte)
  | streamPipe (i : Nat)           -- `prepare_pipe` for stream `i`
  | forkStep
  deriving Repr

/-- what the attempt holds while it runs: RAII makes every early return release exactly `owned` -/
structure AState where
  calls : List SCall := []
  owned : List Nat := []           -- descriptors to be closed if the attempt fails (handed-over files included)
  got : List Nat := []             -- ghost: every descriptor a `pipe()` answer has handed to the attempt
  status : Option (Nat × Nat) := none
  pipes : Pipes := {}              -- stream pipes that were set up completely
  marked : List Nat := []          -- descriptors on which close-on-exec was set successfully
  low : Option Nat := none         -- the original (0-2) of a relocated status write end, while it is kept open
  released : List Nat := []        -- ghost: descriptors the attempt has closed again before the fork, by design
  deriving Repr

def setPipe (p : Pipes) (i : Nat) (v : Option (Nat × Nat)) : Pipes :=
  if i = 0 then { p with pin := v } else if i = 1 then { p with pout := v } else { p with perr := v }

structure AOut where
  s : AState
  fail : Option Res
  rest : List SResp
  deriving Repr

def statusR (s : AState) : Nat := (s.status.getD (0, 0)).1
def statusW (s : AState) : Nat := (s.status.getD (0, 0)).2

/-- record the outcome of `prepare_pipe` for stream `i` -/
def applyStream (i : Nat) (s : AState) (o : List SCall × Option (Nat × Nat) × Option Nat × List SResp) : AOut :=
  ⟨{ s with calls := s.calls ++ o.1,
            owned := s.owned ++ pipeFds o.2.1,
            got := s.got ++ pipeFds o.2.1,
            pipes := if o.2.2.1 = none then setPipe s.pipes i o.2.1 else s.pipes,
            marked := s.marked ++ (if o.2.2.1 = none then
                        (match o.2.1 with | some (r, w) => [if i == 0 then w else r] | none => []) else []) },
   o.2.2.1.map .err, o.2.2.2⟩

/-- one step; `fail = some r` = the step failed with result `r` (the state still records what was
    issued and opened, so that the cleanup can be computed from it) -/
def acquire (a : Acq) (s : AState) (rs : List SResp) : AOut :=
  match a with
  | .statusPipe =>
    if s.status.isSome then ⟨s, some .stuck, rs⟩ else
    (match rs with
     | [] => ⟨{ s with calls := s.calls ++ [.pipe] }, some .stuck, []⟩
     | .err e :: rs => ⟨{ s with calls := s.calls ++ [.pipe] }, some (.err e), rs⟩
     | .fds sr sw :: rs =>
       ⟨{ s with calls := s.calls ++ [.pipe], owned := s.owned ++ [sr, sw], got := s.got ++ [sr, sw], status := some (sr, sw) }, none, rs⟩
     | _ :: rs => ⟨{ s with calls := s.calls ++ [.pipe] }, some .stuck, rs⟩)
  | .relocateStatusW =>
    (match s.status with
     | none => ⟨s, some .stuck, rs⟩
     | some (sr, sw) =>
       if sw ≤ 2 then
         (match rs with
          | [] => ⟨{ s with calls := s.calls ++ [.dupfd sw] }, some .stuck, []⟩
          | .err e :: rs => ⟨{ s with calls := s.calls ++ [.dupfd sw] }, some (.err e), rs⟩
          | .val n :: rs =>
            -- F_DUPFD_CLOEXEC with a minimum of 3: an answer below 3 is not an answer of this call
            if n ≤ 2 then ⟨{ s with calls := s.calls ++ [.dupfd sw] }, some .stuck, rs⟩ else
            ⟨{ s with calls := s.calls ++ [.dupfd sw], owned := s.owned ++ [n], got := s.got ++ [n],
                      status := some (sr, n), low := some sw }, none, rs⟩
          | _ :: rs => ⟨{ s with calls := s.calls ++ [.dupfd sw] }, some .stuck, rs⟩)
       else ⟨s, none, rs⟩)
  | .releaseLow =>
    (match s.low with
     | none => ⟨s, none, rs⟩
     | some l => ⟨{ s with calls := s.calls ++ [.close l], owned := s.owned.erase l, released := s.released ++ [l],
                           low := none }, none, rs.drop 1⟩)
  | .cloexecStatusR =>
    (match s.status with
     | none => ⟨s, some .stuck, rs⟩
     | some (sr, _) =>
       ⟨{ s with calls := s.calls ++ (cloexec sr rs).1,
                 marked := s.marked ++ (if (cloexec sr rs).2.1 = none then [sr] else []) },
        (cloexec sr rs).2.1.map .err, (cloexec sr rs).2.2⟩)
  | .cloexecStatusW =>
    (match s.status with
     | none => ⟨s, some .stuck, rs⟩
     | some (_, sw) =>
       ⟨{ s with calls := s.calls ++ (cloexec sw rs).1,
                 marked := s.marked ++ (if (cloexec sw rs).2.1 = none then [sw] else []) },
        (cloexec sw rs).2.1.map .err, (cloexec sw rs).2.2⟩)
  | .check ok r => ⟨s, if ok then none else some r, rs⟩
  | .streamPipe i => applyStream i s (streamPipe (i == 0) rs)
  | .forkStep =>
    (match rs with
     | [] => ⟨{ s with calls := s.calls ++ [.fork] }, some .stuck, []⟩
     | .err e :: rs => ⟨{ s with calls := s.calls ++ [.fork] }, some (.err e), rs⟩
     | _ :: rs => ⟨{ s with calls := s.calls ++ [.fork] }, none, rs⟩)

def acquireAll : List Acq → AState → List SResp → AOut
  | [], s, rs => ⟨s, none, rs⟩
  | a :: as, s, rs =>
    match (acquire a s rs).fail with
    | some r => ⟨(acquire a s rs).s, some r, (acquire a s rs).rest⟩
    | none => acquireAll as (acquire a s rs).s (acquire a s rs).rest

/-- the pre-fork steps of `os_start` for this configuration, in source order -/
def stagesOf (c : Cfg) : List Acq :=
  [.statusPipe, .relocateStatusW, .cloexecStatusR, .cloexecStatusW,
   .check (!(c.sout = .merge && c.serr = .merge)) .logic,
   .check (!(c.sin = .merge)) .logic] ++
  (if c.sin = .pipe then [.streamPipe 0] else []) ++
  (if c.sout = .pipe then [.streamPipe 1] else []) ++
  (if c.serr = .pipe then [.streamPipe 2] else []) ++
  [.releaseLow, .check (!c.nul) (.err EINVAL), .forkStep]

/-- what the parent does with the answer to the status read (`calls` = everything issued so far,
    the read included) -/
def afterRead (c : Cfg) (s : AState) (calls : List SCall) : List SResp → POut
  | .nbytes 0 _ :: rs' => ⟨calls ++ [.close (statusR s)], .ok, s.pipes, s.status, rs'⟩
  | .nbytes 4 e :: rs' =>
    -- the child could not exec: reap it (also when detached), then drop everything
    ⟨calls ++ [.waitpid] ++ closeAll (statusR s :: parentEnds c s.pipes), .err e, s.pipes, s.status, rs'.drop 1⟩
  | .nbytes _ _ :: rs' =>
    ⟨calls ++ [.close (statusR s)] ++ (if c.detached then [] else [.waitpid]) ++ closeAll (parentEnds c s.pipes), .logic, s.pipes, s.status, rs'⟩
  | .err e :: rs' =>
    ⟨calls ++ [.close (statusR s)] ++ (if c.detached then [] else [.waitpid]) ++ closeAll (parentEnds c s.pipes), .err e, s.pipes, s.status, rs'⟩
  | rs' => ⟨calls, .stuck, s.pipes, s.status, rs'⟩

/-- the parent after a successful fork: release the child ends and the status write end, read the
    status, and clean up if the child reported a failure -/
def afterFork (c : Cfg) (s : AState) (rs : List SResp) : POut :=
  afterRead c s (s.calls ++ closeAll (ownedEnds c s.pipes) ++ [.close (statusW s), .readStatus (statusR s)])
    (rs.drop ((ownedEnds c s.pipes).length + 1))

/-- `Popen::create` up to and including the status read and the cleanup of a failed launch.
    `rs` = the answers to the parent's calls, in order. -/
def parentRun (c : Cfg) (rs : List SResp) : POut :=
  if c.argvEmpty then ⟨[], .logic, {}, none, rs⟩ else
  match (acquireAll (stagesOf c) { owned := cfgFiles c } rs).fail with
  | some r =>
    ⟨(acquireAll (stagesOf c) { owned := cfgFiles c } rs).s.calls ++ closeAll (acquireAll (stagesOf c) { owned := cfgFiles c } rs).s.owned,
     r, (acquireAll (stagesOf c) { owned := cfgFiles c } rs).s.pipes, (acquireAll (stagesOf c) { owned := cfgFiles c } rs).s.status,
     (acquireAll (stagesOf c) { owned := cfgFiles c } rs).rest⟩
  | none => afterFork c (acquireAll (stagesOf c) { owned := cfgFiles c } rs).s (acquireAll (stagesOf c) { owned := cfgFiles c } rs).rest

/-- dropping the `Popen` of a successful launch: `Popen::drop` releases its pipe ends first, then
    waits (unless detached) -/
def dropOk (c : Cfg) (p : Pipes) : List SCall :=
  closeAll (parentEnds c p) ++ (if c.detached then [] else [.waitpid])

end Spawn

/-
  Model of the unix `RawCommunicator` / `Communicator::read` (src/communicate.rs) with `posix::poll`
  (src/posix.rs), one system call per step, together with a small model of the other side: three
  pipes, a child that runs a finite script of reads / writes / closes / sleeps, and a virtual clock.

  `Par` is the library: a deterministic reactive program.  `pendingCall` says which system call it
  is about to issue, `feed` consumes the answer and advances to the next system call (all the
  decisions the Rust code takes between two system calls happen inside `feed`).
  `World` is the environment; `answer` is the set of answers the OS model allows (A1–A3, A6 of
  DESIGN.md §3) indexed by an explicit `Choice` (transfer size, elapsed time, injected errno).
  Core Lean only.
-/
namespace Comm

inductive Strm | out | err
  deriving DecidableEq, Repr

/-- `revents` of one descriptor -/
structure Rev where
  pin : Bool := false    -- POLLIN
  pout : Bool := false   -- POLLOUT
  perr : Bool := false   -- POLLERR
  phup : Bool := false   -- POLLHUP
  deriving DecidableEq, Repr

def Rev.any (r : Rev) : Bool := r.pin || r.pout || r.perr || r.phup

inductive Res
  | ok
  | timedOut
  | oserr (e : Nat)
  deriving DecidableEq, Repr

inductive Call
  | clock
  | poll (fin fout ferr : Bool) (timeoutMs : Option Nat)   -- which descriptors are passed (else -1); `none` = -1
  | write (n : Nat)                                        -- length of the chunk offered
  | closeIn
  | read (s : Strm) (n : Nat)                              -- buffer length
  | ret (r : Res)                                          -- the `read()` call returns
  deriving DecidableEq, Repr

inductive Resp
  | time (t : Nat)
  | revs (i o e : Rev)
  | n (k : Nat)
  | err (e : Nat)
  | ok
  deriving DecidableEq, Repr

inductive PC
  | clkStart                       -- `Communicator::read`: `Instant::now() + time_limit`
  | clkLoop                        -- loop head: deadline check after the first round
  | clkPoll                        -- `maybe_poll`: `Instant::now()` for the remaining time
  | clkPoll2 (tmo : Nat)           -- `posix::poll`: `Instant::now() + timeout`
  | poll (tmo : Option Nat) (dl2 : Nat)   -- `libc::poll`; `tmo` remaining ns, `dl2` = deadline of `posix::poll`
  | clkPoll3 (dl2 : Nat)           -- `posix::poll` after a clamped wait returned 0
  | wr (o e : Bool)                -- write to stdin; `o e` = out_ready / err_ready still to do
  | closeIn (o e : Bool)           -- `self.stdin.take()` after the last byte
  | rdOut (e : Bool)
  | rdErr
  | done (r : Res)
  deriving DecidableEq, Repr

structure Par where
  hasIn : Bool                 -- stdin was handed to the communicator (fixed)
  stdin : Bool                 -- `self.stdin.is_some()`
  input : List UInt8           -- `input_data[input_pos..]`
  hasOut : Bool                -- `self.stdout.is_some()`
  hasErr : Bool
  outRef : Bool                -- `stdout_ref.is_some()` (per call)
  errRef : Bool
  outvec : List UInt8
  errvec : List UInt8
  limit : Option Nat           -- `size_limit`
  tlimit : Option Nat          -- `time_limit` in ns
  deadline : Option Nat
  polled : Bool                -- a `maybe_poll` has completed in this call
  viaPoll : Bool               -- ghost: the ready flags of this round come from a real `poll` (not the single-stream shortcut)
  pc : PC
  deriving Repr

def NS_PER_MS : Nat := 1000000
def I32MAX : Nat := 2147483647
def WRITE_SIZE : Nat := 4096
def EPIPE : Nat := 32
def EINTR : Nat := 4

def total (p : Par) : Nat := p.outvec.length + p.errvec.length

def limitHit (p : Par) : Bool :=
  match p.limit with
  | some l => decide (l ≤ total p)
  | none => false

/-- `do_read`'s buffer: 4096, clipped to what the limit still allows -/
def readSize (p : Par) : Nat :=
  match p.limit with
  | none => 4096
  | some l => if l - total p < 4096 then l - total p else 4096

/-- `(timeout_ms, overflow)` of `posix::poll` -/
def clampMs (tmo : Nat) : Nat := if tmo / NS_PER_MS ≤ I32MAX then tmo / NS_PER_MS else I32MAX
def overflow (tmo : Nat) : Bool := decide (I32MAX < tmo / NS_PER_MS)

/-- `do_read` chain after the write: stdout if ready, then stderr if ready (each skipped without a
    system call once the size limit is reached), then back to the loop head -/
def loopTop (p : Par) : Par :=
  if limitHit p then { p with pc := .done .ok }
  else if !p.stdin && !p.outRef && !p.errRef then { p with pc := .done .ok }
  else if p.deadline.isSome && p.polled then { p with pc := .clkLoop }
  else
    -- maybe_poll
    match p.deadline with
    | none =>
      if !p.stdin && !p.outRef && p.errRef then { p with polled := true, viaPoll := false, pc := .rdErr }
      else if !p.stdin && p.outRef && !p.errRef then { p with polled := true, viaPoll := false, pc := .rdOut false }
      else if p.stdin && !p.outRef && !p.errRef then { p with polled := true, viaPoll := false, pc := .wr false false }
      else { p with pc := .poll none 0 }
    | some _ => { p with pc := .clkPoll }

def rdChainErr (p : Par) (e : Bool) : Par :=
  if e && !limitHit p then { p with pc := .rdErr } else loopTop p

def rdChain (p : Par) (o e : Bool) : Par :=
  if o && !limitHit p then { p with pc := .rdOut e } else rdChainErr p e

/-- after `maybe_poll` returned `(i, o, e)` -/
def afterPoll (p : Par) (i o e : Bool) : Par :=
  if !i && !o && !e then { p with polled := true, viaPoll := true, pc := .done .timedOut }
  else if i then { p with polled := true, viaPoll := true, pc := .wr o e }
  else rdChain { p with polled := true, viaPoll := true } o e

/-- the system call the library is about to issue -/
def pendingCall (p : Par) : Call :=
  match p.pc with
  | .clkStart | .clkLoop | .clkPoll | .clkPoll2 _ | .clkPoll3 _ => .clock
  | .poll tmo _ => .poll p.stdin p.outRef p.errRef (tmo.map clampMs)
  | .wr _ _ => .write (min WRITE_SIZE p.input.length)
  | .closeIn _ _ => .closeIn
  | .rdOut _ => .read .out (readSize p)
  | .rdErr => .read .err (readSize p)
  | .done r => .ret r

/-- consume the answer to the pending call (`data` = the bytes a `read` delivered) -/
def feed (p : Par) (r : Resp) (data : List UInt8) : Par :=
  match p.pc, r with
  | .clkStart, .time t => loopTop { p with deadline := p.tlimit.map (t + ·) }
  | .clkLoop, .time t =>
    (match p.deadline with
     | some d => if d ≤ t then { p with pc := .done .timedOut } else { p with pc := .clkPoll }
     | none => { p with pc := .clkPoll })
  | .clkPoll, .time t =>
    (match p.deadline with
     | some d => { p with pc := .clkPoll2 (d - t) }       -- `if now >= deadline {0} else {deadline - now}`
     | none => { p with pc := .poll none 0 })
  | .clkPoll2 tmo, .time t => { p with pc := .poll (some tmo) (t + tmo) }
  | .poll tmo dl2, .revs i o e =>
    if (i.any || o.any || e.any) || !(match tmo with | some t => overflow t | none => false) then
      afterPoll p (p.stdin && (i.pout || i.phup || i.perr)) (p.outRef && (o.pin || o.phup || o.perr))
        (p.errRef && (e.pin || e.phup || e.perr))
    else { p with pc := .clkPoll3 dl2 }
  | .clkPoll3 dl2, .time t =>
    if dl2 ≤ t then afterPoll p false false false else { p with pc := .poll (some (dl2 - t)) dl2 }
  | .wr o e, .n k =>
    if k = p.input.length then { p with input := [], pc := .closeIn o e }
    else rdChain { p with input := p.input.drop k } o e
  | .closeIn o e, _ => rdChain { p with stdin := false } o e
  | .rdOut e, .n k =>
    if k = 0 then rdChainErr { p with outRef := false } e
    else rdChainErr { p with outvec := p.outvec ++ data } e
  | .rdErr, .n k =>
    if k = 0 then loopTop { p with errRef := false }
    else loopTop { p with errvec := p.errvec ++ data }
  | .done _, _ => p
  | _, .err e => { p with pc := .done (.oserr e) }        -- `?` on any failing call
  | _, _ => { p with pc := .done (.oserr 0) }             -- ill-typed answer (never produced by `answer`)

/-- start of a `Communicator::read()` call with the limits in force -/
def startRead (p : Par) (limit tlimit : Option Nat) : Par :=
  match tlimit with
  | some _ =>
    { p with outRef := p.hasOut, errRef := p.hasErr, outvec := [], errvec := [], limit := limit,
             tlimit := tlimit, deadline := none, polled := false, pc := .clkStart }
  | none =>
    loopTop { p with outRef := p.hasOut, errRef := p.hasErr, outvec := [], errvec := [], limit := limit,
                     tlimit := none, deadline := none, polled := false }

def mkPar (stdin : Bool) (input : List UInt8) (hasOut hasErr : Bool) : Par :=
  { hasIn := stdin, stdin := stdin, input := input, hasOut := hasOut, hasErr := hasErr, outRef := false, errRef := false,
    outvec := [], errvec := [], limit := none, tlimit := none, deadline := none, polled := false,
    viaPoll := false, pc := .done .ok }

/-- what `read()` hands back: `self.stdout.as_ref().map(|_| outvec)` -/
def result (p : Par) : Option (List UInt8) × Option (List UInt8) :=
  (if p.hasOut then some p.outvec else none, if p.hasErr then some p.errvec else none)

/-! ### The other side -/

inductive CAct
  | readIn (k : Nat)
  | write (s : Strm) (d : List UInt8)
  | closeIn
  | close (s : Strm)
  | sleep
  deriving Repr

structure World where
  capIn : Nat
  capOut : Nat
  capErr : Nat
  inBuf : List UInt8
  outBuf : List UInt8
  errBuf : List UInt8
  inRd : Bool            -- the child still holds the read end of its stdin
  outWr : Bool
  errWr : Bool
  script : List CAct
  now : Nat
  since : Nat            -- when the parent issued its pending call
  gIn : List UInt8       -- ghost: bytes the child has consumed
  gOut : List UInt8      -- ghost: bytes the child has written to stdout
  gErr : List UInt8
  deriving Repr

def clamp (n lo hi : Nat) : Nat := max lo (min n hi)

structure Choice where
  n : Nat := 0           -- transfer size wish
  dt : Nat := 0          -- time this step takes
  fault : Option Nat := none
  deriving Repr

/-- one child move; `none` = blocked, or nothing left to do -/
def childStep (p : Par) (w : World) (c : Choice) : Option World :=
  match w.script with
  | [] =>
    if w.inRd || w.outWr || w.errWr then
      some { w with inRd := false, outWr := false, errWr := false, now := w.now + c.dt }
    else none
  | .sleep :: rest => some { w with script := rest, now := w.now + c.dt }
  | .closeIn :: rest => some { w with script := rest, inRd := false, now := w.now + c.dt }
  | .close .out :: rest => some { w with script := rest, outWr := false, now := w.now + c.dt }
  | .close .err :: rest => some { w with script := rest, errWr := false, now := w.now + c.dt }
  | .readIn k :: rest =>
    if !w.inRd || k = 0 || !p.hasIn then some { w with script := rest, now := w.now + c.dt }
    else if w.inBuf = [] then
      if p.stdin then none else some { w with script := rest, now := w.now + c.dt }
    else
      some { w with script := rest, now := w.now + c.dt,
                    inBuf := w.inBuf.drop (clamp c.n 1 (min k w.inBuf.length)),
                    gIn := w.gIn ++ w.inBuf.take (clamp c.n 1 (min k w.inBuf.length)) }
  | .write .out d :: rest =>
    if !w.outWr || d = [] || !p.hasOut then some { w with script := rest, now := w.now + c.dt }
    else if w.capOut ≤ w.outBuf.length then none
    else
      some { w with now := w.now + c.dt,
                    script := (if clamp c.n 1 (min d.length (w.capOut - w.outBuf.length)) = d.length then rest
                               else .write .out (d.drop (clamp c.n 1 (min d.length (w.capOut - w.outBuf.length)))) :: rest),
                    outBuf := w.outBuf ++ d.take (clamp c.n 1 (min d.length (w.capOut - w.outBuf.length))),
                    gOut := w.gOut ++ d.take (clamp c.n 1 (min d.length (w.capOut - w.outBuf.length))) }
  | .write .err d :: rest =>
    if !w.errWr || d = [] || !p.hasErr then some { w with script := rest, now := w.now + c.dt }
    else if w.capErr ≤ w.errBuf.length then none
    else
      some { w with now := w.now + c.dt,
                    script := (if clamp c.n 1 (min d.length (w.capErr - w.errBuf.length)) = d.length then rest
                               else .write .err (d.drop (clamp c.n 1 (min d.length (w.capErr - w.errBuf.length)))) :: rest),
                    errBuf := w.errBuf ++ d.take (clamp c.n 1 (min d.length (w.capErr - w.errBuf.length))),
                    gErr := w.gErr ++ d.take (clamp c.n 1 (min d.length (w.capErr - w.errBuf.length))) }

/-- `revents` the OS model reports (A1, A3) -/
def revIn (w : World) : Rev :=
  { pout := decide (w.inBuf.length + 4096 ≤ w.capIn), perr := !w.inRd }
def revOut (w : World) : Rev := { pin := decide (w.outBuf ≠ []), phup := !w.outWr }
def revErr (w : World) : Rev := { pin := decide (w.errBuf ≠ []), phup := !w.errWr }

def noRev : Rev := {}

/-- the OS model's answer to a call of the parent: the response, the bytes delivered by a `read`,
    and the new world; `none` = the call blocks in this state (or the choice is not allowed) -/
def answer (w : World) (call : Call) (c : Choice) : Option (Resp × List UInt8 × World) :=
  match c.fault with
  | some e =>
    (match call with
     | .ret _ => none
     | .clock => none
     | .closeIn => none
     | _ => some (.err e, [], { w with now := w.now + c.dt, since := w.now + c.dt }))
  | none =>
  match call with
  | .clock => some (.time (w.now + c.dt), [], { w with now := w.now + c.dt, since := w.now + c.dt })
  | .poll fi fo fe tmo =>
    if ((fi && (revIn w).any) || (fo && (revOut w).any) || (fe && (revErr w).any)) then
      some (.revs (if fi then revIn w else noRev) (if fo then revOut w else noRev) (if fe then revErr w else noRev), [],
            { w with now := w.now + c.dt, since := w.now + c.dt })
    else
      (match tmo with
       | some ms =>
         if w.since + ms * NS_PER_MS ≤ w.now + c.dt then
           some (.revs noRev noRev noRev, [], { w with now := w.now + c.dt, since := w.now + c.dt })
         else none
       | none => none)
  | .write m =>
    if !w.inRd then some (.err EPIPE, [], { w with now := w.now + c.dt, since := w.now + c.dt })
    else if m = 0 then some (.n 0, [], { w with now := w.now + c.dt, since := w.now + c.dt })
    else if w.capIn ≤ w.inBuf.length then none
    else some (.n (clamp c.n 1 (min m (w.capIn - w.inBuf.length))), [],
               { w with now := w.now + c.dt, since := w.now + c.dt })
  | .closeIn => some (.ok, [], { w with now := w.now + c.dt, since := w.now + c.dt })
  | .read .out m =>
    if w.outBuf = [] then
      if w.outWr then none else some (.n 0, [], { w with now := w.now + c.dt, since := w.now + c.dt })
    else some (.n (clamp c.n 1 (min m w.outBuf.length)), w.outBuf.take (clamp c.n 1 (min m w.outBuf.length)),
               { w with outBuf := w.outBuf.drop (clamp c.n 1 (min m w.outBuf.length)),
                        now := w.now + c.dt, since := w.now + c.dt })
  | .read .err m =>
    if w.errBuf = [] then
      if w.errWr then none else some (.n 0, [], { w with now := w.now + c.dt, since := w.now + c.dt })
    else some (.n (clamp c.n 1 (min m w.errBuf.length)), w.errBuf.take (clamp c.n 1 (min m w.errBuf.length)),
               { w with errBuf := w.errBuf.drop (clamp c.n 1 (min m w.errBuf.length)),
                        now := w.now + c.dt, since := w.now + c.dt })
  | .ret _ => none

/-- a successful `write` moves the accepted bytes into the stdin pipe -/
def pushIn (p : Par) (r : Resp) (w : World) : World :=
  match p.pc, r with
  | .wr _ _, .n k => { w with inBuf := w.inBuf ++ p.input.take k }
  | _, _ => w

/-- a parent move: the pending call is answered and the answer is consumed -/
def parStep (p : Par) (w : World) (c : Choice) : Option (Par × World) :=
  match answer w (pendingCall p) c with
  | none => none
  | some (r, data, w') => some (feed p r data, pushIn p r w')

structure Sys where
  par : Par
  w : World
  deriving Repr

inductive Who | parent | child
  deriving DecidableEq, Repr

def step (s : Sys) (who : Who) (c : Choice) : Option Sys :=
  match who with
  | .parent => (parStep s.par s.w c).map fun (p, w) => ⟨p, w⟩
  | .child => (childStep s.par s.w c).map fun w => ⟨s.par, w⟩

/-! ### Sessions: several `read()` calls on one communicator -/

inductive Ev
  | child (c : Choice)
  | parent (c : Choice)
  | start (limit tlimit : Option Nat)     -- the caller invokes `read()` with these limits in force
  deriving Repr

structure Sess where
  sys : Sys
  retOut : List UInt8      -- ghost: everything returned for stdout by the calls that have ended
  retErr : List UInt8
  tStart : Nat             -- ghost: the time at which the current call was made
  deriving Repr

def isDone (p : Par) : Bool := match p.pc with | .done _ => true | _ => false

def sessStep (ss : Sess) : Ev → Option Sess
  | .child c => (childStep ss.sys.par ss.sys.w c).map fun w => { ss with sys := ⟨ss.sys.par, w⟩ }
  | .parent c => (parStep ss.sys.par ss.sys.w c).map fun (p, w) => { ss with sys := ⟨p, w⟩ }
  | .start l t =>
    if isDone ss.sys.par then
      some { sys := ⟨startRead ss.sys.par l t, ss.sys.w⟩,
             retOut := ss.retOut ++ ss.sys.par.outvec, retErr := ss.retErr ++ ss.sys.par.errvec,
             tStart := ss.sys.w.now }
    else none

def runSess (ss : Sess) : List Ev → Option Sess
  | [] => some ss
  | e :: es => match sessStep ss e with
    | some ss' => runSess ss' es
    | none => none

def initWorld (capIn capOut capErr : Nat) (script : List CAct) (now : Nat) : World :=
  { capIn := capIn, capOut := capOut, capErr := capErr, inBuf := [], outBuf := [], errBuf := [],
    inRd := true, outWr := true, errWr := true, script := script, now := now, since := now,
    gIn := [], gOut := [], gErr := [] }

def initSess (stdin : Bool) (input : List UInt8) (hasOut hasErr : Bool) (w : World) : Sess :=
  { sys := ⟨mkPar stdin input hasOut hasErr, w⟩, retOut := [], retErr := [], tStart := w.now }

end Comm

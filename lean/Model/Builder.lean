import Model.Path
/-
  Model of the `Exec` builder (src/builder.rs): the command description as a plain record, one
  function per builder method (with `ensure_env`'s snapshot of the inherited environment on the first
  edit, `env_clear`, `retain` for `env_remove`, the set-once rules of `stdin/stdout/stderr` with
  their panics as `none`), `Exec::shell`, `Clone`, and what the terminators hand to `Popen::create`.
  Strings are byte lists (`List Nat`).  Core Lean only.
-/
namespace Builder

abbrev B := List Nat

inductive Rd
  | none | pipe | merge | file | null
  deriving DecidableEq, Repr

structure Exec where
  command : B
  args : List B
  env : Option (List (B × B))      -- `config.env`
  cwd : Option B
  sin : Rd
  sout : Rd
  serr : Rd
  detached : Bool
  stdinData : Option B
  deriving DecidableEq, Repr

def cmd (c : B) : Exec :=
  { command := c, args := [], env := none, cwd := none, sin := .none, sout := .none, serr := .none,
    detached := false, stdinData := none }

inductive Op
  | arg (a : B)
  | args (l : List B)
  | env (k v : B)
  | envExtend (l : List (B × B))
  | envRemove (k : B)
  | envClear
  | cwd (d : B)
  | stdin (r : Rd)
  | stdinData (d : B)
  | stdout (r : Rd)
  | stderr (r : Rd)
  | detached
  deriving DecidableEq, Repr

/-- `ensure_env`: the first edit snapshots the parent's environment `base` -/
def ensureEnv (e : Exec) (base : List (B × B)) : List (B × B) := e.env.getD base

/-- set-once rule of `stdout`/`stderr`: `(None, new)` sets, `(Pipe, Pipe)` is accepted, anything else panics -/
def setOnce (cur new : Rd) : Option Rd :=
  match cur, new with
  | .none, n => some n
  | .pipe, .pipe => some .pipe
  | _, _ => Option.none

/-- the environment list in force (what `ensure_env` would leave) -/
def effective (base : List (B × B)) (e : Exec) : List (B × B) := e.env.getD base

/-- apply one builder call; `none` = the call panics -/
def apply (base : List (B × B)) (e : Exec) : Op → Option Exec
  | .arg a => some { e with args := e.args ++ [a] }
  | .args l => some { e with args := e.args ++ l }
  | .env k v => some { e with env := some (ensureEnv e base ++ [(k, v)]) }
  | .envExtend l => some { e with env := some (ensureEnv e base ++ l) }
  | .envRemove k => some { e with env := some ((ensureEnv e base).filter (fun kv => kv.1 ≠ k)) }
  | .envClear => some { e with env := some [] }
  | .cwd d => some { e with cwd := some d }
  | .stdin r =>
    if r = .merge then Option.none        -- `From<Redirection> for InputRedirection` panics on Merge
    else (setOnce e.sin r).map fun r' => { e with sin := r' }
  | .stdinData d =>
    (match e.sin with
     | .none => some { e with sin := .pipe, stdinData := some d }
     | _ => Option.none)
  | .stdout r => (setOnce e.sout r).map fun r' => { e with sout := r' }
  | .stderr r => (setOnce e.serr r).map fun r' => { e with serr := r' }
  | .detached => some { e with detached := true }

def applyAll (base : List (B × B)) : Exec → List Op → Option Exec
  | e, [] => some e
  | e, op :: ops => match apply base e op with
    | some e' => applyAll base e' ops
    | Option.none => Option.none

/-- `Exec::shell(s)` = `cmd("sh").args(["-c"]).arg(s)` -/
def shell (s : B) : Exec := { cmd [115, 104] with args := [[45, 99], s] }

/-- what `popen()` hands to `Popen::create`: argv = command :: args -/
def argv (e : Exec) : List B := e.command :: e.args

/-- the environment the child gets: `none` = inherit -/
def childEnv (e : Exec) : Option (List B) := e.env.map Path.renderEnv

inductive Term
  | popen | join | streamStdout | streamStderr | streamStdin | capture | communicate
  deriving DecidableEq, Repr

/-- does the terminator refuse input data (`check_no_stdin_data` panics)? -/
def refusesData (t : Term) : Bool :=
  match t with
  | .capture | .communicate => false
  | _ => true

/-- the configuration the terminator runs, or `none` = it panics -/
def terminate (e : Exec) (t : Term) : Option Exec :=
  if refusesData t && e.stdinData.isSome then Option.none else
  match t with
  | .popen | .join => some e
  | .streamStdout => (setOnce e.sout .pipe).map fun r => { e with sout := r }
  | .streamStderr => (setOnce e.serr .pipe).map fun r => { e with serr := r }
  | .streamStdin => (setOnce e.sin .pipe).map fun r => { e with sin := r }
  | .capture =>
    if e.sout = .none ∧ e.serr = .none then some { e with sout := .pipe } else some e
  | .communicate =>
    if e.sout = .none ∧ e.serr = .none then some { e with sout := .pipe, detached := true } else some { e with detached := true }

/-- `communicate::communicate` panics *after* a successful start ("must provide input to redirected
    stdin") when `capture`/`communicate` runs a command whose stdin is a pipe without input data -/
def lateRefusal (e : Exec) (t : Term) : Bool :=
  !refusesData t && e.sin = .pipe && e.stdinData.isNone

/-! ### Specification side: the environment as a finite map edited in order -/

abbrev EnvMap := B → Option B

def specEdit (m : EnvMap) : Op → EnvMap
  | .env k v => fun x => if x = k then some v else m x
  | .envExtend l => fun x => match Path.lastVal x l with | some v => some v | none => m x
  | .envRemove k => fun x => if x = k then none else m x
  | .envClear => fun _ => none
  | _ => m

def editsEnv : Op → Bool
  | .env _ _ | .envExtend _ | .envRemove _ | .envClear => true
  | _ => false

end Builder

/-
  Model of `Exec::display_escape`, `Exec::to_cmdline_lossy` (with `env = None`), the `Debug` forms of
  `Exec` and `Pipeline` (src/builder.rs), and a specification-side lexer/parser for the fragment of
  the POSIX shell grammar that the renderer can emit.  Core Lean only.
-/
namespace Sh

/-- `nice_char` of `display_escape` -/
def niceChar (c : Char) : Bool :=
  c == '-' || c == '_' || c == '.' || c == ',' || c == '/' ||
  ('a' ≤ c && c ≤ 'z') || ('A' ≤ c && c ≤ 'Z') || ('0' ≤ c && c ≤ '9')

/-- `s.replace("'", "'\\''")` -/
def escQuotes : List Char → List Char
  | [] => []
  | c :: cs => if c = '\'' then '\'' :: '\\' :: '\'' :: '\'' :: escQuotes cs else c :: escQuotes cs

/-- does `display_escape` quote this string?  (repaired code: the empty string is quoted too) -/
def needsQ (s : List Char) : Bool := s.isEmpty || !s.all niceChar

def displayEscape (s : List Char) : List Char :=
  if needsQ s then '\'' :: escQuotes s ++ ['\''] else s

/-- the code before the `fix:` commit: `if !s.chars().all(nice_char)` only -/
def displayEscapeOld (s : List Char) : List Char :=
  if !s.all niceChar then '\'' :: escQuotes s ++ ['\''] else s

def joinSp : List (List Char) → List Char
  | [] => []
  | [a] => a
  | a :: b :: rest => a ++ ' ' :: joinSp (b :: rest)

/-- `to_cmdline_lossy` for `env = None`; `argv` = command :: args -/
def toCmdline (argv : List (List Char)) : List Char := joinSp (argv.map displayEscape)

def joinPipe : List (List Char) → List Char
  | [] => []
  | [a] => a
  | a :: b :: rest => a ++ ' ' :: '|' :: ' ' :: joinPipe (b :: rest)

/-- the text inside `Pipeline { … }` -/
def pipelineText (stages : List (List (List Char))) : List Char := joinPipe (stages.map toCmdline)

def debugExec (argv : List (List Char)) : List Char :=
  "Exec { ".toList ++ toCmdline argv ++ " }".toList

def debugPipeline (stages : List (List (List Char))) : List Char :=
  "Pipeline { ".toList ++ pipelineText stages ++ " }".toList

/-! ### Shell side (specification)

  Blanks separate words; `'…'` is literal up to the next `'`; an unquoted `\c` is a literal `c`;
  adjacent segments concatenate; a quoted empty segment yields an empty word; `|` separates simple
  commands; an unquoted first word that is a reserved word is not a command name.  Every other
  unquoted character that is special anywhere in sh makes the lexer answer "unsupported" (`bad`)
  instead of guessing: only the characters `display_escape` leaves bare are accepted bare.
-/
inductive Mode | plain | squote | bslash
  deriving DecidableEq, Repr

structure LS where
  mode : Mode
  cur : List Char
  inWord : Bool
  quoted : Bool
  words : List (List Char × Bool)
  cmds : List (List (List Char × Bool))
  bad : Bool
  deriving Repr, DecidableEq

def endWord (s : LS) : LS :=
  if s.inWord then { s with cur := [], inWord := false, quoted := false, words := s.words ++ [(s.cur, s.quoted)] } else s

def lstep (s : LS) (c : Char) : LS :=
  match s.mode with
  | .squote => if c = '\'' then { s with mode := .plain } else { s with cur := s.cur ++ [c] }
  | .bslash => { s with mode := .plain, cur := s.cur ++ [c] }
  | .plain =>
    if c = '\'' then { s with mode := .squote, inWord := true, quoted := true }
    else if c = '\\' then { s with mode := .bslash, inWord := true, quoted := true }
    else if c = ' ' || c = '\t' then endWord s
    else if c = '|' then
      if (endWord s).words.isEmpty then { s with bad := true }
      else { endWord s with words := [], cmds := (endWord s).cmds ++ [(endWord s).words] }
    else if niceChar c then { s with cur := s.cur ++ [c], inWord := true }
    else { s with bad := true }

def ls0 : LS := { mode := .plain, cur := [], inWord := false, quoted := false, words := [], cmds := [], bad := false }

def reservedWords : List String :=
  ["if", "then", "else", "elif", "fi", "do", "done", "case", "esac", "while", "until", "for", "in",
   "function", "select", "time", "coproc"]

def reserved (w : List Char) : Bool := reservedWords.any (fun r => r.toList == w)

/-- is the first word of a command acceptable as a command name? -/
def cmdOk (cmd : List (List Char × Bool)) : Bool :=
  match cmd with
  | [] => false
  | (w, q) :: _ => q || !reserved w

def lfinish (s : LS) : Option (List (List (List Char))) :=
  if s.bad || s.mode ≠ .plain then none
  else
    if (endWord s).words.isEmpty then
      (if (endWord s).cmds.isEmpty then some [] else none)
    else if ((endWord s).cmds ++ [(endWord s).words]).all cmdOk then
      some (((endWord s).cmds ++ [(endWord s).words]).map (·.map (·.1)))
    else none

/-- commands (each a list of words) that `sh` runs for this text, or `none` = syntax error /
    outside the supported fragment -/
def parse (l : List Char) : Option (List (List (List Char))) := lfinish (l.foldl lstep ls0)

/-! ### Environment overrides (`env = Some(_)`): `NAME=value ` words in front of the command

  `to_cmdline_lossy` prints, in the order of the builder's environment vector, every pair that differs
  from the parent's current environment as `esc(k)=esc(v) `, then every current variable that the vector
  lacks as `esc(k)= `, then the command.  Shell side: a word that *starts* with an unquoted name
  (`[A-Za-z_][A-Za-z0-9_]*`) followed by an unquoted `=` and that stands before the command name is an
  assignment; its value is the rest of the word, lexed by the same quoting rules. -/

def lookupEnv (cur : List (List Char × List Char)) (k : List Char) : Option (List Char) :=
  match cur with
  | [] => none
  | (k', v) :: rest => if k' = k then some v else lookupEnv rest k

def hasKey (env : List (List Char × List Char)) (k : List Char) : Bool :=
  match env with
  | [] => false
  | (k', _) :: rest => k' = k || hasKey rest k

/-- first loop of `to_cmdline_lossy`: pairs of the command's vector that the parent does not already have -/
def envSets (cur cmdEnv : List (List Char × List Char)) : List (List Char × List Char) :=
  cmdEnv.filter (fun kv => lookupEnv cur kv.1 != some kv.2)

/-- second loop: current variables missing from the command's vector -/
def envUnsets (cur cmdEnv : List (List Char × List Char)) : List (List Char) :=
  (cur.filter (fun kv => !hasKey cmdEnv kv.1)).map (·.1)

def assignText (kv : List Char × List Char) : List Char :=
  displayEscape kv.1 ++ '=' :: displayEscape kv.2 ++ [' ']

def unsetText (k : List Char) : List Char := displayEscape k ++ ['=', ' ']

def envPrefix (sets : List (List Char × List Char)) (unsets : List (List Char)) : List Char :=
  (sets.map assignText).flatten ++ (unsets.map unsetText).flatten

/-- `to_cmdline_lossy` with `env = Some(cmdEnv)` in a parent whose environment is `cur` -/
def toCmdlineEnv (cur cmdEnv : List (List Char × List Char)) (argv : List (List Char)) : List Char :=
  envPrefix (envSets cur cmdEnv) (envUnsets cur cmdEnv) ++ toCmdline argv

def identStart (c : Char) : Bool := c == '_' || ('a' ≤ c && c ≤ 'z') || ('A' ≤ c && c ≤ 'Z')
def identChar (c : Char) : Bool := identStart c || ('0' ≤ c && c ≤ '9')

/-- a shell *name* -/
def isIdent : List Char → Bool
  | [] => false
  | c :: cs => identStart c && cs.all identChar

/-- the rest of a name and what follows its `=` -/
def takeAssignTail : List Char → List Char → Option (List Char × List Char)
  | _, [] => none
  | acc, c :: cs => if c = '=' then some (acc, cs) else if identChar c then takeAssignTail (acc ++ [c]) cs else none

/-- `some (name, rest)` when the text starts with an unquoted name followed by `=` -/
def takeAssign : List Char → Option (List Char × List Char)
  | [] => none
  | c :: cs => if identStart c then takeAssignTail [c] cs else none

/-- the value of an assignment: the rest of the word, up to and including the first unquoted blank -/
def valWord : Mode → List Char → List Char → Option (List Char × List Char)
  | .plain, [], acc => some (acc, [])
  | .squote, [], _ => none
  | .bslash, [], _ => none
  | .squote, c :: cs, acc => if c = '\'' then valWord .plain cs acc else valWord .squote cs (acc ++ [c])
  | .bslash, c :: cs, acc => valWord .plain cs (acc ++ [c])
  | .plain, c :: cs, acc =>
    if c = '\'' then valWord .squote cs acc
    else if c = '\\' then valWord .bslash cs acc
    else if c = ' ' || c = '\t' then some (acc, cs)
    else if niceChar c then valWord .plain cs (acc ++ [c])
    else none

/-- leading assignment words, in order, and the text after them (fuel: at most one per character) -/
def stripAssigns : Nat → List Char → Option (List (List Char × List Char) × List Char)
  | 0, l => some ([], l)
  | n + 1, l =>
    match takeAssign l with
    | none => some ([], l)
    | some (name, rest) =>
      match valWord .plain rest [] with
      | none => none
      | some (v, rest') =>
        match stripAssigns n rest' with
        | none => none
        | some (as, r) => some ((name, v) :: as, r)

/-- what `sh` does with a simple command (or pipeline) that may start with assignments: the assignments
    in order, and the commands it runs -/
def parseWithEnv (l : List Char) : Option (List (List Char × List Char) × List (List (List Char))) :=
  match stripAssigns l.length l with
  | none => none
  | some (as, r) =>
    match parse r with
    | none => none
    | some cmds => some (as, cmds)

end Sh

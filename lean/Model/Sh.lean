/-
  Model of `Exec::display_escape`, `Exec::to_cmdline_lossy` (with `env = None`), the `Debug` forms of
  `Exec` and `Pipeline` (src/builder.rs), and a specification-side lexer/parser for the fragment of
  the POSIX shell grammar that the renderer can emit.  Core Lean only.
-/
namespace Sh

/-- `nice_char` of `display_escape` -/
def niceChar (c : Char) : Bool :=
  c == '-' || c == '_' || c == '.' || c == ',' || c == '/' ||
  ('a' ≤ c && c ≤ 'z') || ('A' ≤ c && c ≤ 'Z') || ('0' ≤ c && c ≤ '9')

/-- `s.replace("'", "'\\''")` -/
def escQuotes : List Char → List Char
  | [] => []
  | c :: cs => if c = '\'' then '\'' :: '\\' :: '\'' :: '\'' :: escQuotes cs else c :: escQuotes cs

/-- does `display_escape` quote this string?  (repaired code: the empty string is quoted too) -/
def needsQ (s : List Char) : Bool := s.isEmpty || !s.all niceChar

def displayEscape (s : List Char) : List Char :=
  if needsQ s then '\'' :: escQuotes s ++ ['\''] else s

/-- the code before the `fix:` commit: `if !s.chars().all(nice_char)` only -/
def displayEscapeOld (s : List Char) : List Char :=
  if !s.all niceChar then '\'' :: escQuotes s ++ ['\''] else s

def joinSp : List (List Char) → List Char
  | [] => []
  | [a] => a
  | a :: b :: rest => a ++ ' ' :: joinSp (b :: rest)

/-- `to_cmdline_lossy` for `env = None`; `argv` = command :: args -/
def toCmdline (argv : List (List Char)) : List Char := joinSp (argv.map displayEscape)

def joinPipe : List (List Char) → List Char
  | [] => []
  | [a] => a
  | a :: b :: rest => a ++ ' ' :: '|' :: ' ' :: joinPipe (b :: rest)

/-- the text inside `Pipeline { … }` -/
def pipelineText (stages : List (List (List Char))) : List Char := joinPipe (stages.map toCmdline)

def debugExec (argv : List (List Char)) : List Char :=
  "Exec { ".toList ++ toCmdline argv ++ " }".toList

def debugPipeline (stages : List (List (List Char))) : List Char :=
  "Pipeline { ".toList ++ pipelineText stages ++ " }".toList

/-! ### Shell side (specification)

  Blanks separate words; `'…'` is literal up to the next `'`; an unquoted `\c` is a literal `c`;
  adjacent segments concatenate; a quoted empty segment yields an empty word; `|` separates simple
  commands; an unquoted first word that is a reserved word is not a command name.  Every other
  unquoted character that is special anywhere in sh makes the lexer answer "unsupported" (`bad`)
  instead of guessing: only the characters `display_escape` leaves bare are accepted bare.
-/
inductive Mode | plain | squote | bslash
  deriving DecidableEq, Repr

structure LS where
  mode : Mode
  cur : List Char
  inWord : Bool
  quoted : Bool
  words : List (List Char × Bool)
  cmds : List (List (List Char × Bool))
  bad : Bool
  deriving Repr, DecidableEq

def endWord (s : LS) : LS :=
  if s.inWord then { s with cur := [], inWord := false, quoted := false, words := s.words ++ [(s.cur, s.quoted)] } else s

def lstep (s : LS) (c : Char) : LS :=
  match s.mode with
  | .squote => if c = '\'' then { s with mode := .plain } else { s with cur := s.cur ++ [c] }
  | .bslash => { s with mode := .plain, cur := s.cur ++ [c] }
  | .plain =>
    if c = '\'' then { s with mode := .squote, inWord := true, quoted := true }
    else if c = '\\' then { s with mode := .bslash, inWord := true, quoted := true }
    else if c = ' ' || c = '\t' then endWord s
    else if c = '|' then
      if (endWord s).words.isEmpty then { s with bad := true }
      else { endWord s with words := [], cmds := (endWord s).cmds ++ [(endWord s).words] }
    else if niceChar c then { s with cur := s.cur ++ [c], inWord := true }
    else { s with bad := true }

def ls0 : LS := { mode := .plain, cur := [], inWord := false, quoted := false, words := [], cmds := [], bad := false }

def reservedWords : List String :=
  ["if", "then", "else", "elif", "fi", "do", "done", "case", "esac", "while", "until", "for", "in",
   "function", "select", "time", "coproc"]

def reserved (w : List Char) : Bool := reservedWords.any (fun r => r.toList == w)

/-- is the first word of a command acceptable as a command name? -/
def cmdOk (cmd : List (List Char × Bool)) : Bool :=
  match cmd with
  | [] => false
  | (w, q) :: _ => q || !reserved w

def lfinish (s : LS) : Option (List (List (List Char))) :=
  if s.bad || s.mode ≠ .plain then none
  else
    if (endWord s).words.isEmpty then
      (if (endWord s).cmds.isEmpty then some [] else none)
    else if ((endWord s).cmds ++ [(endWord s).words]).all cmdOk then
      some (((endWord s).cmds ++ [(endWord s).words]).map (·.map (·.1)))
    else none

/-- commands (each a list of words) that `sh` runs for this text, or `none` = syntax error /
    outside the supported fragment -/
def parse (l : List Char) : Option (List (List (List Char))) := lfinish (l.foldl lstep ls0)

end Sh

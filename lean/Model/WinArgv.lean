/-
  Model of `assemble_cmdline` / `append_quoted` (src/popen.rs, `#[cfg(windows)] mod os`)
  and a reference parser for the Microsoft C runtime / CommandLineToArgvW rules.

  Code units are `Nat` (UTF-16 units; the bound 2^16 is irrelevant to every argument here).
  Core Lean only: this file is linked into the `modeldriver` executable.
-/
namespace WinArgv

def SP : Nat := 0x20
def TAB : Nat := 0x09
def NL : Nat := 0x0a
def VT : Nat := 0x0b
def QT : Nat := 0x22
def BS : Nat := 0x5c

/-- `arg.is_empty() || arg.any(|c| c ∈ {' ', '\t', '\n', '\x0b', '"'})`: the negation of the
    early-return test of `append_quoted`. -/
def needsQuote (a : List Nat) : Bool :=
  a.isEmpty || a.any (fun c => c == SP || c == TAB || c == NL || c == VT || c == QT)

/-- Body of `append_quoted`'s `while i < arg.len()` loop.  `n` = `num_backslashes` counted so far
    (source backslashes seen but not yet emitted). -/
def quoteBody : Nat → List Nat → List Nat
  | n, [] => List.replicate (2 * n) BS
  | n, c :: cs =>
    if c = BS then quoteBody (n + 1) cs
    else if c = QT then List.replicate (2 * n + 1) BS ++ QT :: quoteBody 0 cs
    else List.replicate n BS ++ c :: quoteBody 0 cs

def appendQuoted (a : List Nat) : List Nat :=
  if needsQuote a then QT :: quoteBody 0 a ++ [QT] else a

/-- the text produced for a list of arguments, without the NUL check -/
def assembleArgs : List (List Nat) → List Nat
  | [] => []
  | [a] => appendQuoted a
  | a :: b :: rest => appendQuoted a ++ SP :: assembleArgs (b :: rest)

/-- `assemble_cmdline`: `none` models `Err(ERROR_BAD_PATHNAME)` -/
def assembleCmdline (argv : List (List Nat)) : Option (List Nat) :=
  if argv.any (fun a => a.any (· == 0)) then none else some (assembleArgs argv)

/-! ### Reference parser (arguments after the program name)

  Microsoft rules ("Parsing C command-line arguments"):
  * arguments are delimited by space or tab outside a quoted region;
  * `2n` backslashes followed by `"` give `n` backslashes and the quote toggles the quoted region;
  * `2n+1` backslashes followed by `"` give `n` backslashes and a literal `"`;
  * backslashes not followed by `"` are literal;
  * inside a quoted region `""` gives a literal `"`; afterwards the parser stays in the quoted
    region (`Variant.crt2008`, MSVCRT ≥ 2008 / UCRT) or leaves it (`Variant.legacy`,
    older runtimes / CommandLineToArgvW).

  The parser is a left fold of a one-unit step.  `jc` ("just closed") records that the previous
  unit was a quote that closed a quoted region, which replaces the one-unit look-ahead of the
  `""` rule.
-/
inductive Variant | crt2008 | legacy
  deriving DecidableEq, Repr

structure PS where
  inQ : Bool
  jc : Bool
  bs : Nat
  cur : List Nat
  started : Bool
  acc : List (List Nat)
  deriving Repr, DecidableEq

def flushBs (s : PS) : List Nat := s.cur ++ List.replicate s.bs BS

def fresh (acc : List (List Nat)) : PS :=
  { inQ := false, jc := false, bs := 0, cur := [], started := false, acc := acc }

def pstep (v : Variant) (s : PS) (c : Nat) : PS :=
  if c = BS then { s with bs := s.bs + 1, started := true, jc := false }
  else if c = QT then
    if s.bs % 2 = 1 then
      { s with cur := s.cur ++ List.replicate (s.bs / 2) BS ++ [QT], bs := 0, started := true, jc := false }
    else if s.jc then
      { s with cur := s.cur ++ List.replicate (s.bs / 2) BS ++ [QT], bs := 0,
               inQ := (match v with | .crt2008 => true | .legacy => false), jc := false, started := true }
    else
      { s with cur := s.cur ++ List.replicate (s.bs / 2) BS, bs := 0, inQ := !s.inQ, jc := s.inQ, started := true }
  else if (c = SP ∨ c = TAB) ∧ s.inQ = false then
    if s.started then fresh (s.acc ++ [flushBs s]) else { s with jc := false }
  else { s with cur := flushBs s ++ [c], bs := 0, started := true, jc := false }

def pfinish (s : PS) : List (List Nat) := if s.started then s.acc ++ [flushBs s] else s.acc

def msParseArgs (v : Variant) (l : List Nat) : List (List Nat) := pfinish (l.foldl (pstep v) (fresh []))

/-! ### Program-name rule (UCRT `parse_command_line`): quotes toggle and are dropped, every other
    unit is copied, the name ends at a space or tab outside quotes.  No backslash processing. -/
def progName : Bool → List Nat → List Nat × List Nat
  | _, [] => ([], [])
  | q, c :: cs =>
    if c = QT then progName (!q) cs
    else if (c = SP ∨ c = TAB) ∧ q = false then ([], cs)
    else let (n, r) := progName q cs; (c :: n, r)

/-- whole command line: program name by the simple rule, the rest by the argument rule -/
def msParseCmdline (v : Variant) (l : List Nat) : List (List Nat) :=
  if l.isEmpty then [] else
  let (n, r) := progName false l
  n :: msParseArgs v r

end WinArgv

/-
  Model of the process-lifecycle part of `Popen` (src/popen.rs, unix): the `waitpid` wrapper with
  its `pid_out == pid` guard and `ECHILD → Undetermined`, `os_wait`, `os_wait_timeout` (deadline,
  1 ms doubling delay capped at 100 ms, `sleep(min delay remaining)`), `poll`, `send_signal` /
  `terminate` / `kill`, `detach`, `pid`, `exit_status`, `Drop`, and `posix::decode_exit_status`.

  The library is a deterministic reactive program: it issues system calls and consumes their
  answers.  The answers are an explicit list (`List Resp`), so every theorem quantifies over every
  behaviour of the operating system and the child.  Loops recurse on the answer list (each
  iteration consumes at least one answer), so no fuel is needed.  Core Lean only.
-/
namespace Life

inductive ExitStatus
  | exited (code : Nat)
  | signaled (sig : Nat)
  | other (word : Nat)
  | undetermined
  deriving DecidableEq, Repr

/-- `posix::decode_exit_status` with glibc's macros: `WIFEXITED s ⇔ s & 0x7f = 0`,
    `WEXITSTATUS s = (s >> 8) & 0xff`, `WIFSIGNALED s ⇔ ((s & 0x7f) + 1) as i8 >> 1 > 0`
    (i.e. the low seven bits are neither 0 nor 0x7f), `WTERMSIG s = s & 0x7f`. -/
def decode (w : Nat) : ExitStatus :=
  if w % 128 = 0 then .exited (w / 256 % 256)
  else if w % 128 ≠ 127 then .signaled (w % 128)
  else .other w

def ECHILD : Nat := 10
def SIGTERM : Nat := 15
def SIGKILL : Nat := 9
def ms : Nat := 1000000

inductive Call
  | waitpid (pid : Nat) (nohang : Bool)
  | kill (pid sig : Nat)
  | clock
  | sleep (ns : Nat)
  deriving DecidableEq, Repr

inductive Resp
  | wp (pidOut : Nat) (word : Nat)   -- waitpid returned `pidOut` (0: still running, WNOHANG) and this status word
  | err (e : Nat)
  | ok
  | time (t : Nat)                   -- CLOCK_MONOTONIC in ns
  | pending                          -- (log only) the answer list ran out at this call
  deriving DecidableEq, Repr

inductive CState
  | running (pid : Nat)
  | finished (st : ExitStatus)
  deriving DecidableEq, Repr

structure Popen where
  st : CState
  detached : Bool
  deriving DecidableEq, Repr

inductive Ret
  | none                      -- `None` / `Ok(None)`
  | status (s : ExitStatus)   -- `Some(s)` / `Ok(s)` / `Ok(Some(s))`
  | err (e : Nat)
  | ok                        -- `Ok(())` / `()`
  | pid (p : Nat)
  | stuck                     -- the answer list ran out, or an answer of the wrong kind was supplied
  deriving DecidableEq, Repr

structure Out where
  p : Popen
  ret : Ret
  log : List (Call × Resp)
  rest : List Resp
  deriving Repr

def Out.pre (l : List (Call × Resp)) (o : Out) : Out := { o with log := l ++ o.log }

/-- `os_wait` in state `Running{pid}`: `while Running { self.waitpid(true)? }` -/
def osWait (pid : Nat) (det : Bool) : List Resp → Out
  | [] => ⟨⟨.running pid, det⟩, .stuck, [(.waitpid pid false, .pending)], []⟩
  | .err e :: rs =>
    if e = ECHILD then ⟨⟨.finished .undetermined, det⟩, .status .undetermined, [(.waitpid pid false, .err e)], rs⟩
    else ⟨⟨.running pid, det⟩, .err e, [(.waitpid pid false, .err e)], rs⟩
  | .wp po w :: rs =>
    if po = pid then ⟨⟨.finished (decode w), det⟩, .status (decode w), [(.waitpid pid false, .wp po w)], rs⟩
    else (osWait pid det rs).pre [(.waitpid pid false, .wp po w)]
  | r :: rs => ⟨⟨.running pid, det⟩, .stuck, [(.waitpid pid false, r)], rs⟩

/-- the loop of `os_wait_timeout` in state `Running{pid}` -/
def wtLoop (pid : Nat) (det : Bool) (deadline delay : Nat) : List Resp → Out
  | [] => ⟨⟨.running pid, det⟩, .stuck, [(.waitpid pid true, .pending)], []⟩
  | .err e :: rs =>
    if e = ECHILD then ⟨⟨.finished .undetermined, det⟩, .status .undetermined, [(.waitpid pid true, .err e)], rs⟩
    else ⟨⟨.running pid, det⟩, .err e, [(.waitpid pid true, .err e)], rs⟩
  | .wp po w :: rs =>
    if po = pid then ⟨⟨.finished (decode w), det⟩, .status (decode w), [(.waitpid pid true, .wp po w)], rs⟩
    else
      match rs with
      | [] => ⟨⟨.running pid, det⟩, .stuck, [(.waitpid pid true, .wp po w), (.clock, .pending)], []⟩
      | .time now :: rs2 =>
        if deadline ≤ now then ⟨⟨.running pid, det⟩, .none, [(.waitpid pid true, .wp po w), (.clock, .time now)], rs2⟩
        else
          match rs2 with
          | [] => ⟨⟨.running pid, det⟩, .stuck,
                   [(.waitpid pid true, .wp po w), (.clock, .time now), (.sleep (min delay (deadline - now)), .pending)], []⟩
          | r3 :: rs3 =>
            (wtLoop pid det deadline (min (delay * 2) (100 * ms)) rs3).pre
              [(.waitpid pid true, .wp po w), (.clock, .time now), (.sleep (min delay (deadline - now)), r3)]
      | r2 :: rs2 => ⟨⟨.running pid, det⟩, .stuck, [(.waitpid pid true, .wp po w), (.clock, r2)], rs2⟩
  | r :: rs => ⟨⟨.running pid, det⟩, .stuck, [(.waitpid pid true, r)], rs⟩

/-- `os_wait_timeout(dur)` -/
def waitTimeout (p : Popen) (dur : Nat) (rs : List Resp) : Out :=
  match p.st with
  | .finished st => ⟨p, .status st, [], rs⟩
  | .running pid =>
    match rs with
    | [] => ⟨p, .stuck, [(.clock, .pending)], []⟩
    | .time t0 :: rs1 => (wtLoop pid p.detached (t0 + dur) (1 * ms) rs1).pre [(.clock, .time t0)]
    | r :: rs1 => ⟨p, .stuck, [(.clock, r)], rs1⟩

/-- `wait()` -/
def wait (p : Popen) (rs : List Resp) : Out :=
  match p.st with
  | .finished st => ⟨p, .status st, [], rs⟩
  | .running pid => osWait pid p.detached rs

/-- `poll()` = `wait_timeout(0).unwrap_or(None)` -/
def poll (p : Popen) (rs : List Resp) : Out :=
  match (waitTimeout p 0 rs).ret with
  | .err _ => { waitTimeout p 0 rs with ret := .none }
  | _ => waitTimeout p 0 rs

/-- `send_signal(sig)` -/
def sendSignal (p : Popen) (sig : Nat) (rs : List Resp) : Out :=
  match p.st with
  | .finished _ => ⟨p, .ok, [], rs⟩
  | .running pid =>
    match rs with
    | [] => ⟨p, .stuck, [(.kill pid sig, .pending)], []⟩
    | .ok :: rs1 => ⟨p, .ok, [(.kill pid sig, .ok)], rs1⟩
    | .err e :: rs1 => ⟨p, .err e, [(.kill pid sig, .err e)], rs1⟩
    | r :: rs1 => ⟨p, .stuck, [(.kill pid sig, r)], rs1⟩

inductive Op
  | poll | wait | waitTimeout (dur : Nat) | terminate | kill | sendSignal (sig : Nat)
  | detach | pid | exitStatus | drop
  deriving DecidableEq, Repr

def runOp (op : Op) (p : Popen) (rs : List Resp) : Out :=
  match op with
  | .poll => poll p rs
  | .wait => wait p rs
  | .waitTimeout d => waitTimeout p d rs
  | .terminate => sendSignal p SIGTERM rs
  | .kill => sendSignal p SIGKILL rs
  | .sendSignal s => sendSignal p s rs
  | .detach => ⟨{ p with detached := true }, .ok, [], rs⟩
  | .pid => ⟨p, (match p.st with | .running pid => .pid pid | .finished _ => .none), [], rs⟩
  | .exitStatus => ⟨p, (match p.st with | .running _ => .none | .finished st => .status st), [], rs⟩
  | .drop =>
    -- `if let (false, &Running{..}) = (self.detached, &self.child_state) { self.wait().ok(); }`
    match p.detached, p.st with
    | false, .running _ => { wait p rs with ret := .ok }
    | _, _ => ⟨p, .ok, [], rs⟩

/-- a sequence of operations on one `Popen`: the return values and the concatenated call log -/
def runOps (p : Popen) : List Op → List Resp → Popen × List Ret × List (Call × Resp)
  | [], _ => (p, [], [])
  | op :: ops, rs =>
    ((runOps (runOp op p rs).p ops (runOp op p rs).rest).1,
     (runOp op p rs).ret :: (runOps (runOp op p rs).p ops (runOp op p rs).rest).2.1,
     (runOp op p rs).log ++ (runOps (runOp op p rs).p ops (runOp op p rs).rest).2.2)

end Life

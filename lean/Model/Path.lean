/-
  Model of the program-lookup part of `posix.rs`: `split_path`, the candidate list built by
  `prep_exec`/`PrepExec::exec` (`search_path` decision, `assemble_exe`), the PATH loop with "return
  the last error", and the pre-allocated buffer capacity of `PrepExec::new`.
  Bytes are `Nat`; core Lean only.
-/
namespace Path

def COLON : Nat := 58
def SLASH : Nat := 47
def ENOENT : Nat := 2

/-- the iterator of `split_path`: pieces between `:`, empty pieces dropped; `cur` is the piece
    being collected -/
def splitGo : List Nat → List Nat → List (List Nat)
  | [], cur => if cur = [] then [] else [cur]
  | c :: cs, cur =>
    if c = COLON then (if cur = [] then splitGo cs [] else cur :: splitGo cs [])
    else splitGo cs (cur ++ [c])

def splitPath (p : List Nat) : List (List Nat) := splitGo p []

/-- specification side: split at every `:` keeping empty pieces -/
def splitAll : List Nat → List Nat → List (List Nat)
  | [], cur => [cur]
  | c :: cs, cur => if c = COLON then cur :: splitAll cs [] else splitAll cs (cur ++ [c])

/-- `search_path`: `Some(PATH)` iff the command has no slash and PATH is set and non-empty -/
def searchPath (cmd : List Nat) (path : Option (List Nat)) : Option (List Nat) :=
  if cmd.any (· == SLASH) then none
  else match path with
    | none => none
    | some p => if p = [] then none else some p

/-- the paths handed to `execve`/`execv`, in order (`assemble_exe`: `dir ++ "/" ++ cmd`) -/
def candidates (cmd : List Nat) (path : Option (List Nat)) : List (List Nat) :=
  match searchPath cmd path with
  | none => [cmd]
  | some p => (splitPath p).map (fun d => d ++ [SLASH] ++ cmd)

inductive ExecRes
  | ran (c : List Nat)      -- the image was replaced
  | err (e : Nat)
  deriving DecidableEq, Repr

/-- the PATH loop: try in order, keep the last error; `fs c = none` means `exec c` succeeds.
    Returns the result and the attempts made. -/
def searchGo (fs : List Nat → Option Nat) : List (List Nat) → Nat → ExecRes × List (List Nat)
  | [], e => (.err e, [])
  | c :: cs, e =>
    match fs c with
    | none => (.ran c, [c])
    | some e' => ((searchGo fs cs e').1, c :: (searchGo fs cs e').2)

/-- `PrepExec::exec` (after the repair: the loop starts from `Err(ENOENT)`) -/
def execSearch (fs : List Nat → Option Nat) (cmd : List Nat) (path : Option (List Nat)) : ExecRes × List (List Nat) :=
  searchGo fs (candidates cmd path) ENOENT

/-- capacity reserved by `PrepExec::new`: `cmd.len() + 1`, plus `1 + max entry length` when searching -/
def maxLen : List (List Nat) → Nat
  | [] => 0
  | d :: ds => max d.length (maxLen ds)

def prealloc (cmd : List Nat) (path : Option (List Nat)) : Nat :=
  match searchPath cmd path with
  | none => cmd.length + 1
  | some p => cmd.length + 1 + (1 + maxLen (splitPath p))

/-- length of the buffer `assemble_exe` builds for a candidate (with the trailing NUL) -/
def exeLen (c : List Nat) : Nat := c.length + 1

/-! ### `format_env` (popen.rs): one `k=v` entry per name, the later of duplicate names wins -/
def formatEnv : List (List Nat × List Nat) → List (List Nat × List Nat)
  | [] => []
  | (k, v) :: rest => if rest.any (fun e => e.1 == k) then formatEnv rest else (k, v) :: formatEnv rest

def EQ : Nat := 61
def renderEnv (env : List (List Nat × List Nat)) : List (List Nat) := (formatEnv env).map (fun e => e.1 ++ [EQ] ++ e.2)

/-- the value of the last entry with this name -/
def lastVal (k : List Nat) : List (List Nat × List Nat) → Option (List Nat)
  | [] => none
  | (k', v) :: rest => match lastVal k rest with
    | some v' => some v'
    | none => if k' = k then some v else none

end Path

/-
  Model of how `Exec` / `Pipeline` terminators (src/builder.rs) start commands, connect them with
  pipes and clean up: the parent's view as a list of actions
      mk p           a pipe is created (with the close-on-exec flags its two ends have at the next fork)
      spawn i ..     command i is started with the given attachments of its fd 0, 1, 2
      fail i         command i could not be started
      close e        the parent closes its pipe end e
      wait i         the parent blocks until command i has exited (and reaps it)
      io / user      the library's own data exchange (Communicator) / the caller uses the returned handle
      ret ok         the terminator returns
  One `Popen::create` is atomic here (its inside is Model/Spawn.lean, properties C05-C08); what is
  modelled is the order of creation, hand-over and release of pipe ends relative to the waits:
  `Pipeline::popen`'s loop (previous stdout moved into the next stdin), the early `?` return that
  drops the `Vec<Popen>` built so far, `Popen::drop` (close own ends, then wait unless detached or
  finished), the adapters' `Drop`, `setup_communicate` with the shared stderr pipe, `join`/`capture`
  waiting for the last command explicitly and for the others through drop.
  Pipe names are fixed by role: 0 = the pipe the parent reads stderr from, 1 = stdin of command 0,
  2+i = stdout of command i.  A single `Exec` is the case n = 1.  Core Lean only.
-/
namespace Pipe

inductive Side | r | w
  deriving DecidableEq, Repr

structure End where
  pipe : Nat
  side : Side
  deriving DecidableEq, Repr

inductive Att
  | inherit | pipe (p : Nat) | file
  deriving DecidableEq, Repr

inductive Act
  | mk (p : Nat) (cloR cloW : Bool)
  | spawn (i : Nat) (a0 a1 a2 : Att)
  | fail (i : Nat)
  | close (e : End)
  | wait (i : Nat)
  | waitRet (i : Nat)      -- explicit wait whose exit status the terminator returns
  | io
  | ret (ok : Bool)
  | user
  deriving DecidableEq, Repr

inductive InKind | inherit | pipe | file | data
  deriving DecidableEq, Repr
inductive OutKind | inherit | pipe | file
  deriving DecidableEq, Repr
inductive Term | popen | join | streamStdout | streamStderr | streamStdin | capture | communicate
  deriving DecidableEq, Repr

structure Cfg where
  n : Nat                 -- number of commands (1 = a single Exec)
  det : Nat → Bool        -- `detached()` per command
  sin : InKind            -- stdin of the first command (pipeline-level for n ≥ 2)
  sout : OutKind          -- stdout of the last command
  serr : OutKind          -- stderr (single Exec only)
  errTo : Bool            -- `Pipeline::stderr_to(file)`
  failAt : Option Nat     -- the command that cannot be started, if any
  ioFails : Bool := false -- the exchange of `capture` fails after the start (e.g. EPIPE: input for a command that exits unread)

/-- what the terminator does to the configuration before starting -/
def effective (c : Cfg) (t : Term) : Cfg :=
  match t with
  | .streamStdout => { c with sout := .pipe }
  | .streamStderr => { c with serr := .pipe }
  | .streamStdin => { c with sin := .pipe }
  | .capture =>
    if c.n = 1 then (if c.sout = .inherit ∧ c.serr = .inherit then { c with sout := .pipe } else c)
    else { c with sout := .pipe }
  | .communicate =>
    if c.n = 1 then (if c.sout = .inherit ∧ c.serr = .inherit then { c with sout := .pipe, det := fun _ => true }
                     else { c with det := fun _ => true })
    else { c with sout := .pipe, det := fun _ => true }
  | _ => c

/-- `Pipeline::setup_communicate` creates the shared stderr pipe itself -/
def capPipe (c : Cfg) (t : Term) : Bool := decide (2 ≤ c.n) && (t = .capture || t = .communicate)

def hasInPipe (c : Cfg) : Bool := c.sin = .pipe || c.sin = .data
def hasOutPipe (c : Cfg) (i : Nat) : Bool := decide (i + 1 < c.n) || c.sout = .pipe
/-- a single Exec with `stderr(Pipe)`: the pipe is made inside `Popen::create` -/
def hasErrPipe (c : Cfg) : Bool := decide (c.n = 1) && c.serr = .pipe

def att0 (c : Cfg) (i : Nat) : Att :=
  if i = 0 then (match c.sin with | .inherit => .inherit | .file => .file | _ => .pipe 1)
  else .pipe (2 + (i - 1))

def att1 (c : Cfg) (i : Nat) : Att :=
  if i + 1 < c.n then .pipe (2 + i)
  else match c.sout with | .inherit => .inherit | .file => .file | .pipe => .pipe (2 + i)

def att2 (c : Cfg) (t : Term) : Att :=
  if c.n = 1 then (match c.serr with | .inherit => .inherit | .file => .file | .pipe => .pipe 0)
  else if capPipe c t then .pipe 0
  else if c.errTo then .file else .inherit

/-- pipes `Popen::create` makes for command i (the parent's end is close-on-exec) -/
def mkActs (c : Cfg) (i : Nat) : List Act :=
  (if i = 0 ∧ hasInPipe c then [Act.mk 1 false true] else []) ++
  (if hasOutPipe c i then [Act.mk (2 + i) true false] else []) ++
  (if hasErrPipe c then [Act.mk 0 true false] else [])

/-- the child's ends, closed by the parent when `Popen::create` is over (success or not); for i > 0
    this includes the previous command's stdout that was moved into the configuration -/
def childEnds (c : Cfg) (i : Nat) : List End :=
  (if i = 0 then (if hasInPipe c then [⟨1, .r⟩] else []) else [⟨2 + (i - 1), .r⟩]) ++
  (if hasOutPipe c i then [⟨2 + i, .w⟩] else []) ++
  (if hasErrPipe c then [⟨0, .w⟩] else [])

/-- the parent's ends placed in the new `Popen` -/
def parentEnds (c : Cfg) (i : Nat) : List End :=
  (if i = 0 ∧ hasInPipe c then [⟨1, .w⟩] else []) ++
  (if hasOutPipe c i then [⟨2 + i, .r⟩] else []) ++
  (if hasErrPipe c then [⟨0, .r⟩] else [])

def stageOk (c : Cfg) (a2 : Att) (i : Nat) : List Act :=
  mkActs c i ++ [Act.spawn i (att0 c i) (att1 c i) a2] ++ (childEnds c i).map Act.close

def stageFail (c : Cfg) (i : Nat) : List Act :=
  mkActs c i ++ [Act.fail i] ++ (childEnds c i).map Act.close ++ (parentEnds c i).map Act.close

/-- what `Popen` j still owns when it is dropped (the stdout of every command but the last was
    moved into its successor) -/
def popenEnds (c : Cfg) (j : Nat) : List End :=
  (if j = 0 ∧ hasInPipe c then [⟨1, .w⟩] else []) ++
  (if j + 1 = c.n ∧ hasOutPipe c j then [⟨2 + j, .r⟩] else []) ++
  (if hasErrPipe c then [⟨0, .r⟩] else [])

/-- `Popen::drop` followed by the drop of its fields: release the ends it still owns (those in
    `taken` were moved out), then wait unless detached or already waited for -/
def dropPopen (c : Cfg) (taken : List End) (waited : Nat → Bool) (j : Nat) : List Act :=
  ((popenEnds c j).filter (fun e => !taken.contains e)).map Act.close ++
  (if !c.det j && !waited j then [Act.wait j] else [])

/-- dropping the `Vec<Popen>` of the first k commands, in order -/
def dropVec (c : Cfg) (taken : List End) (waited : Nat → Bool) (k : Nat) : List Act :=
  (List.range k).flatMap (dropPopen c taken waited)

/-- the spawn loop: (actions, all started?, number of commands started) -/
def startAll (c : Cfg) (a2 : Att) : List Act × Bool × Nat :=
  match c.failAt with
  | some k =>
    if k < c.n then ((List.range k).flatMap (stageOk c a2) ++ stageFail c k, false, k)
    else ((List.range c.n).flatMap (stageOk c a2), true, c.n)
  | none => ((List.range c.n).flatMap (stageOk c a2), true, c.n)

/-- the ends a `Communicator` owns: the stdin writer ... -/
def commWriteEnds (c : Cfg) : List End :=
  if hasInPipe c then [⟨1, .w⟩] else []

/-- ... and the stdout / stderr readers -/
def commReadEnds (c : Cfg) (t : Term) : List End :=
  (if hasOutPipe c (c.n - 1) then [⟨2 + (c.n - 1), .r⟩] else []) ++
  (if capPipe c t || hasErrPipe c then [⟨0, .r⟩] else [])

def commEnds (c : Cfg) (t : Term) : List End := commWriteEnds c ++ commReadEnds c t

def noneWaited : Nat → Bool := fun _ => false

/-- the whole terminator, on the effective configuration -/
def runEff (c : Cfg) (t : Term) : List Act :=
  let cap := capPipe c t
  let pre := if cap then [Act.mk 0 true true] else []
  let relW := if cap then [Act.close ⟨0, .w⟩] else []
  let relR := if cap then [Act.close ⟨0, .r⟩] else []
  let last := c.n - 1
  match startAll c (att2 c t) with
  -- a failed start: `setup_communicate` (capture / communicate) drops its read end of the shared stderr pipe before the
  -- commands started so far are dropped and waited for (fix F15)
  | (acts, false, k) => pre ++ acts ++ relW ++ relR ++ dropVec c [] noneWaited k ++ [.ret false]
  | (acts, true, _) =>
    pre ++ acts ++ relW ++
    (match t with
     | .popen => [.ret true, .user] ++ dropVec c [] noneWaited c.n
     | .join => [.waitRet last] ++ dropVec c [] (fun j => j = last) c.n ++ [.ret true]
     | .streamStdout => [.ret true, .user, .close ⟨2 + last, .r⟩] ++ dropVec c [⟨2 + last, .r⟩] noneWaited c.n
     | .streamStderr => [.ret true, .user] ++ dropVec c [] noneWaited c.n
     | .streamStdin => [.ret true, .user, .close ⟨1, .w⟩] ++ dropVec c [⟨1, .w⟩] noneWaited c.n
     | .capture =>
       -- `Communicator::read` closes stdin once the input is written; whatever the Communicator still holds (its
       -- read ends, and the stdin write end if the exchange failed before the input was through) is released by
       -- `drop(comm)` right after the exchange -- before anything waits for a command
       if c.ioFails then
         -- `result?` returns early: the Popen(s) are dropped, and waited for, holding nothing
         [.io] ++ (commEnds c t).map Act.close ++ dropVec c (commEnds c t) noneWaited c.n ++ [.ret false]
       else
       [.io] ++ (commEnds c t).map Act.close ++ [.waitRet last] ++
         dropVec c (commEnds c t) (fun j => j = last) c.n ++ [.ret true]
     | .communicate =>
       dropVec c (commEnds c t) noneWaited c.n ++ [.ret true, .user] ++ (commEnds c t).map Act.close)

def run (c : Cfg) (t : Term) : List Act := runEff (effective c t) t

/-! ### The parent's holdings -/

/-- which pipe ends the parent holds, with their close-on-exec flag -/
abbrev Held := End → Option Bool

def Held.empty : Held := fun _ => none

def stepHeld (h : Held) : Act → Held
  | .mk p cr cw => fun e => if e = ⟨p, .r⟩ then some cr else if e = ⟨p, .w⟩ then some cw else h e
  | .close e' => fun e => if e = e' then none else h e
  | _ => h

def heldAfter (h : Held) (acts : List Act) : Held := acts.foldl stepHeld h

/-- the pipe ends installed in the child -/
def attEnds (a0 a1 a2 : Att) : List End :=
  (match a0 with | .pipe p => [⟨p, .r⟩] | _ => []) ++
  (match a1 with | .pipe p => [⟨p, .w⟩] | _ => []) ++
  (match a2 with | .pipe p => [⟨p, .w⟩] | _ => [])

/-- every `wait` happens while the holdings satisfy `P` -/
def WaitsUnder (P : Held → Prop) : Held → List Act → Prop
  | _, [] => True
  | h, .wait _ :: rest => P h ∧ WaitsUnder P h rest
  | h, .waitRet _ :: rest => P h ∧ WaitsUnder P h rest
  | h, a :: rest => WaitsUnder P (stepHeld h a) rest

/-- at every `spawn`, every end the parent holds is close-on-exec or is one the child is meant to get -/
def SpawnsClean : Held → List Act → Prop
  | _, [] => True
  | h, .spawn i a0 a1 a2 :: rest =>
    (∀ e, h e = some false → e ∈ attEnds a0 a1 a2) ∧ SpawnsClean h rest
  | h, a :: rest => SpawnsClean (stepHeld h a) rest

def waitCount (j : Nat) (acts : List Act) : Nat :=
  (acts.filter (fun a => a = .wait j || a = .waitRet j)).length

/-! ### Composition shapes (`|` on Exec and Pipeline, `from_exec_iter`) -/

/-- a pipeline value: the commands and the pipeline-level stdin/stdout settings -/
structure PDesc (α : Type) where
  cmds : List α
  sin : InKind
  sout : OutKind
  errTo : Bool := false      -- `stderr_to(file)` was given: at start every command gets the shared sink

/-- expressions built from commands with `|`, `Pipeline::stdin/stdout` and `from_exec_iter` -/
inductive Expr (α : Type)
  | cmd (a : α)
  | or (l r : Expr α)
  | fromIter (l : List α)
  | setIn (e : Expr α) (k : InKind)
  | setOut (e : Expr α) (k : OutKind)
  | setErr (e : Expr α)        -- `Pipeline::stderr_to(file)`

inductive Val (α : Type)
  | exec (a : α)
  | pipeline (p : PDesc α)

/-- evaluation as the `BitOr` impls do it; `none` = not typable (`Exec | Pipeline` does not exist,
    `stdin/stdout` here are the pipeline-level setters) or `from_exec_iter` panics -/
def eval {α : Type} : Expr α → Option (Val α)
  | .cmd a => some (.exec a)
  | .fromIter l => if l.length < 2 then none else some (.pipeline { cmds := l, sin := .inherit, sout := .inherit })
  | .setIn e k => match eval e with
    | some (.pipeline p) => some (.pipeline { p with sin := k })
    | _ => none
  | .setOut e k => match eval e with
    | some (.pipeline p) => some (.pipeline { p with sout := k })
    | _ => none
  | .setErr e => match eval e with
    | some (.pipeline p) => some (.pipeline { p with errTo := true })
    | _ => none
  | .or l r => match eval l, eval r with
    | some (.exec a), some (.exec b) => some (.pipeline { cmds := [a, b], sin := .inherit, sout := .inherit })
    | some (.pipeline p), some (.exec b) => some (.pipeline { p with cmds := p.cmds ++ [b] })
    | some (.pipeline p), some (.pipeline q) => some (.pipeline { p with cmds := p.cmds ++ q.cmds, sout := q.sout })
    | _, _ => none

/-- the commands of an expression, left to right -/
def leaves {α : Type} : Expr α → List α
  | .cmd a => [a]
  | .fromIter l => l
  | .setIn e _ => leaves e
  | .setOut e _ => leaves e
  | .setErr e => leaves e
  | .or l r => leaves l ++ leaves r

/-! ### Data flow through the started commands -/

/-- where the bytes of a run live: the pipeline's input, the contents that went through each pipe,
    and what reached the pipeline's output -/
structure Flow where
  pipeVal : Nat → List Nat
  output : List Nat

/-- follow the `spawn`s in order: command i applies `f i` to what its stdin is attached to and the
    result goes to what its stdout is attached to -/
def flow (f : Nat → List Nat → List Nat) (input : List Nat) : Flow → List Act → Flow
  | fl, [] => fl
  | fl, .spawn i a0 a1 _ :: rest =>
    let x := match a0 with | .pipe p => fl.pipeVal p | _ => input
    let y := f i x
    let fl' := match a1 with
      | .pipe p => { fl with pipeVal := fun q => if q = p then y else fl.pipeVal q }
      | _ => { fl with output := fl.output ++ y }
    flow f input fl' rest
  | fl, _ :: rest => flow f input fl rest

end Pipe

import Proofs.CommTime
/-! Readiness invariant of the `comm` model (C01): the ready flags of a round describe the pipes. -/
namespace Comm

def inReady (w : World) : Prop := w.inBuf.length + 4096 ≤ w.capIn ∨ w.inRd = false
def outReady (w : World) : Prop := w.outBuf ≠ [] ∨ w.outWr = false
def errReady (w : World) : Prop := w.errBuf ≠ [] ∨ w.errWr = false

/-- what the program counter promises about the streams it is going to touch -/
def Ready (p : Par) (w : World) : Prop :=
  match p.pc with
  | .wr o e => p.stdin = true ∧ (o = true → p.outRef = true) ∧ (e = true → p.errRef = true) ∧
      (p.viaPoll = true → inReady w ∧ (o = true → outReady w) ∧ (e = true → errReady w))
  | .closeIn o e => p.stdin = true ∧ (o = true → p.outRef = true) ∧ (e = true → p.errRef = true) ∧
      (p.viaPoll = true → (o = true → outReady w) ∧ (e = true → errReady w))
  | .rdOut e => p.outRef = true ∧ (e = true → p.errRef = true) ∧
      (p.viaPoll = true → outReady w ∧ (e = true → errReady w))
  | .rdErr => p.errRef = true ∧ (p.viaPoll = true → errReady w)
  | .clkLoop | .clkPoll | .clkPoll2 _ | .clkPoll3 _ | .poll _ _ => (p.stdin || p.outRef || p.errRef) = true
  | _ => True

theorem loopTop_ready (p : Par) (w : World) : Ready (loopTop p) w := by
  unfold loopTop
  (repeat' split) <;> simp_all [Ready] <;>
    (cases h1 : p.stdin <;> cases h2 : p.outRef <;> cases h3 : p.errRef <;> simp_all)

theorem rdChainErr_ready (p : Par) (w : World) (e : Bool)
    (he : e = true → p.errRef = true ∧ (p.viaPoll = true → errReady w)) : Ready (rdChainErr p e) w := by
  unfold rdChainErr; split
  · rename_i h; simp only [Bool.and_eq_true] at h; simpa [Ready] using he h.1
  · exact loopTop_ready p w

theorem rdChain_ready (p : Par) (w : World) (o e : Bool)
    (ho : o = true → p.outRef = true ∧ (p.viaPoll = true → outReady w))
    (he : e = true → p.errRef = true ∧ (p.viaPoll = true → errReady w)) : Ready (rdChain p o e) w := by
  unfold rdChain; split
  · rename_i h; simp only [Bool.and_eq_true] at h
    obtain ⟨h1, h2⟩ := ho h.1
    simp only [Ready]
    exact ⟨h1, fun h => (he h).1, fun hv => ⟨h2 hv, fun h => (he h).2 hv⟩⟩
  · exact rdChainErr_ready p w e he

theorem child_ready (p : Par) (w w' : World) (c : Choice) (hs : childStep p w c = some w') :
    (inReady w → inReady w') ∧ (outReady w → outReady w') ∧ (errReady w → errReady w') := by
  unfold childStep at hs
  repeat' (first | split at hs | (dsimp only at hs; split at hs))
  all_goals (try (simp at hs; done))
  all_goals (simp only [Option.some.injEq] at hs; subst hs)
  all_goals (simp only [inReady, outReady, errReady])
  all_goals (refine ⟨?_, ?_, ?_⟩ <;> intro h <;> (try (first | exact h | (right; rfl))))
  all_goals (try (rcases h with h | h <;> simp_all <;> omega))
  all_goals (simp_all [List.length_drop]; try omega)

theorem child_ready_inv (p : Par) (w w' : World) (c : Choice) (h : Ready p w) (hs : childStep p w c = some w') :
    Ready p w' := by
  obtain ⟨c1, c2, c3⟩ := child_ready p w w' c hs
  unfold Ready at *
  cases hpc : p.pc <;> simp only [hpc] at h ⊢ <;> try exact h
  · obtain ⟨h1, h2, h3, h4⟩ := h
    exact ⟨h1, h2, h3, fun hv => ⟨c1 (h4 hv).1, fun ho => c2 ((h4 hv).2.1 ho), fun he => c3 ((h4 hv).2.2 he)⟩⟩
  · obtain ⟨h1, h2, h3, h4⟩ := h
    exact ⟨h1, h2, h3, fun hv => ⟨fun ho => c2 ((h4 hv).1 ho), fun he => c3 ((h4 hv).2 he)⟩⟩
  · obtain ⟨h1, h2, h3⟩ := h
    exact ⟨h1, h2, fun hv => ⟨c2 (h3 hv).1, fun he => c3 ((h3 hv).2 he)⟩⟩
  · obtain ⟨h1, h2⟩ := h
    exact ⟨h1, fun hv => c3 (h2 hv)⟩


/-- what a parent step can change in the world -/
theorem parStep_world (p p' : Par) (w w' : World) (c : Choice) (hs : parStep p w c = some (p', w')) :
    (w'.outBuf = w.outBuf ∨ ∃ e, p.pc = .rdOut e) ∧ (w'.errBuf = w.errBuf ∨ p.pc = .rdErr) ∧
    w'.outWr = w.outWr ∧ w'.errWr = w.errWr ∧ w'.inRd = w.inRd ∧ w'.capIn = w.capIn := by
  unfold parStep at hs
  split at hs
  · simp at hs
  · rename_i r data w1 ha
    simp only [Option.some.injEq, Prod.mk.injEq] at hs
    obtain ⟨rfl, rfl⟩ := hs
    obtain ⟨-, -, -, -, f5, f6, -, f8, f9, f10, -, f12, -⟩ := answer_frame w w1 (pendingCall p) c r data ha
    obtain ⟨-, -, -, -, g5, g6, g7, g8, g9, -, g11, -⟩ := pushIn_spec p r w1
    refine ⟨?_, ?_, by rw [g8, f9], by rw [g9, f10], by rw [g7, f8], by rw [g11, f12]⟩
    · rw [g5]
      by_cases h : ∃ e, p.pc = .rdOut e
      · exact Or.inr h
      · left
        have : outTaken (pendingCall p) r data = [] := by
          unfold outTaken pendingCall
          cases hpc : p.pc <;> simp
          exact absurd ⟨_, hpc⟩ h
        rw [this] at f5; simpa using f5.symm
    · rw [g6]
      by_cases h : p.pc = .rdErr
      · exact Or.inr h
      · left
        have : errTaken (pendingCall p) r data = [] := by
          unfold errTaken pendingCall
          cases hpc : p.pc <;> simp
          exact absurd hpc h
        rw [this] at f6; simpa using f6.symm

theorem answer_poll_flags (w w' : World) (fi fo fe : Bool) (tmo : Option Nat) (c : Choice) (i o e : Rev) (data : List UInt8)
    (h : answer w (.poll fi fo fe tmo) c = some (.revs i o e, data, w')) :
    ((i.pout || i.phup || i.perr) = true → inReady w) ∧
    ((o.pin || o.phup || o.perr) = true → outReady w) ∧
    ((e.pin || e.phup || e.perr) = true → errReady w) := by
  unfold answer at h
  cases hf : c.fault with
  | some e => simp [hf] at h
  | none =>
    simp only [hf] at h
    by_cases hr : ((fi && (revIn w).any) || (fo && (revOut w).any) || (fe && (revErr w).any)) = true
    · simp only [hr, if_true, Option.some.injEq, Prod.mk.injEq, Resp.revs.injEq] at h
      obtain ⟨⟨rfl, rfl, rfl⟩, -, -⟩ := h
      simp only [inReady, outReady, errReady]
      refine ⟨?_, ?_, ?_⟩ <;> intro hh
      · cases fi <;> simp_all [revIn, noRev]
      · cases fo <;> simp_all [revOut, noRev]
      · cases fe <;> simp_all [revErr, noRev]
    · simp only [hr, Bool.false_eq_true, if_false] at h
      cases tmo with
      | none => simp at h
      | some ms =>
        simp only at h
        split at h
        · simp only [Option.some.injEq, Prod.mk.injEq, Resp.revs.injEq] at h
          obtain ⟨⟨rfl, rfl, rfl⟩, -, -⟩ := h
          simp [noRev]
        · simp at h

theorem afterPoll_ready (p : Par) (w : World) (i o e : Bool)
    (hi : i = true → p.stdin = true ∧ inReady w)
    (ho : o = true → p.outRef = true ∧ outReady w)
    (he : e = true → p.errRef = true ∧ errReady w) : Ready (afterPoll p i o e) w := by
  unfold afterPoll
  split
  · simp [Ready]
  · split
    · rename_i h
      simp only [Ready]
      exact ⟨(hi h).1, fun h => (ho h).1, fun h => (he h).1, fun _ => ⟨(hi h).2, fun h => (ho h).2, fun h => (he h).2⟩⟩
    · apply rdChain_ready
      · intro h; exact ⟨(ho h).1, fun _ => (ho h).2⟩
      · intro h; exact ⟨(he h).1, fun _ => (he h).2⟩

/-- `parStep` preserves the readiness invariant -/
theorem par_ready (p p' : Par) (w w' : World) (c : Choice) (h : Ready p w)
    (hs : parStep p w c = some (p', w')) : Ready p' w' := by
  obtain ⟨wo, we, wow, wew, wir, wcap⟩ := parStep_world p p' w w' c hs
  have keepOut : (¬ ∃ e, p.pc = .rdOut e) → outReady w → outReady w' := by
    intro hn hr; rcases wo with wo | wo
    · unfold outReady at *; rw [wo, wow]; exact hr
    · exact absurd wo hn
  have keepErr : p.pc ≠ .rdErr → errReady w → errReady w' := by
    intro hn hr; rcases we with we | we
    · unfold errReady at *; rw [we, wew]; exact hr
    · exact absurd we hn
  unfold parStep at hs
  split at hs
  · simp at hs
  · rename_i r data w1 ha
    simp only [Option.some.injEq, Prod.mk.injEq] at hs
    obtain ⟨rfl, hw'⟩ := hs
    cases hpc : p.pc with
    | clkStart => cases r <;> simp only [feed, hpc] <;> first | exact loopTop_ready _ _ | simp [Ready]
    | clkLoop =>
      simp only [Ready, hpc] at h
      cases r <;> simp only [feed, hpc] <;> first
        | (simp [Ready]; done)
        | ((repeat' split) <;> simp [Ready, h])
    | clkPoll =>
      simp only [Ready, hpc] at h
      cases r <;> simp only [feed, hpc] <;> first
        | (simp [Ready]; done)
        | ((repeat' split) <;> simp [Ready, h])
    | clkPoll2 tmo =>
      simp only [Ready, hpc] at h
      cases r <;> simp [feed, hpc, Ready, h]
    | clkPoll3 dl2 =>
      simp only [Ready, hpc] at h
      cases r <;> simp only [feed, hpc] <;> first
        | (simp [Ready]; done)
        | (split
           · exact afterPoll_ready _ _ _ _ _ (by simp) (by simp) (by simp)
           · simp [Ready, h])
    | poll tmo dl2 =>
      cases r with
      | revs i o e =>
        obtain ⟨q1, q2, q3⟩ := answer_poll_flags w w1 p.stdin p.outRef p.errRef (tmo.map clampMs) c i o e data
          (by simpa [pendingCall, hpc] using ha)
        have nro : ¬ ∃ e, p.pc = .rdOut e := by simp [hpc]
        have nre : p.pc ≠ .rdErr := by simp [hpc]
        have inr : inReady w → inReady w' := by
          intro hr
          unfold inReady at *
          rw [wir, wcap, ← hw']
          have := (pushIn_spec p (.revs i o e) w1).1
          have f4 := (answer_frame w w1 (pendingCall p) c _ data ha).2.2.2.1
          rw [this, f4]
          simp only [inDrop, hpc, List.take_zero, List.append_nil]
          exact hr
        have hap : Ready (afterPoll p (p.stdin && (i.pout || i.phup || i.perr)) (p.outRef && (o.pin || o.phup || o.perr))
            (p.errRef && (e.pin || e.phup || e.perr))) w' := by
          apply afterPoll_ready
          · intro hh; simp only [Bool.and_eq_true] at hh; exact ⟨hh.1, inr (q1 hh.2)⟩
          · intro hh; simp only [Bool.and_eq_true] at hh; exact ⟨hh.1, keepOut nro (q2 hh.2)⟩
          · intro hh; simp only [Bool.and_eq_true] at hh; exact ⟨hh.1, keepErr nre (q3 hh.2)⟩
        simp only [Ready, hpc] at h
        cases tmo with
        | none => simpa [feed, hpc] using hap
        | some t =>
          simp only [feed, hpc]
          split
          · exact hap
          · simp [Ready, h]
      | err e => simp [feed, hpc, Ready]
      | time t => simp [feed, hpc, Ready]
      | n k => simp [feed, hpc, Ready]
      | ok => simp [feed, hpc, Ready]
    | wr o e =>
      have nro : ¬ ∃ e, p.pc = .rdOut e := by simp [hpc]
      have nre : p.pc ≠ .rdErr := by simp [hpc]
      simp only [Ready, hpc] at h
      obtain ⟨h1, h2, h3, h4⟩ := h
      cases r with
      | n k =>
        simp only [feed, hpc]
        split
        · simp only [Ready]
          exact ⟨h1, h2, h3, fun hv => ⟨fun ho => keepOut nro ((h4 hv).2.1 ho), fun he => keepErr nre ((h4 hv).2.2 he)⟩⟩
        · apply rdChain_ready
          · intro ho; exact ⟨h2 ho, fun hv => keepOut nro ((h4 hv).2.1 ho)⟩
          · intro he; exact ⟨h3 he, fun hv => keepErr nre ((h4 hv).2.2 he)⟩
      | err e => simp [feed, hpc, Ready]
      | time t => simp [feed, hpc, Ready]
      | revs a b d => simp [feed, hpc, Ready]
      | ok => simp [feed, hpc, Ready]
    | closeIn o e =>
      have nro : ¬ ∃ e, p.pc = .rdOut e := by simp [hpc]
      have nre : p.pc ≠ .rdErr := by simp [hpc]
      simp only [Ready, hpc] at h
      obtain ⟨h1, h2, h3, h4⟩ := h
      have : Ready (rdChain { p with stdin := false } o e) w' := by
        apply rdChain_ready
        · intro ho; exact ⟨h2 ho, fun hv => keepOut nro ((h4 hv).1 ho)⟩
        · intro he; exact ⟨h3 he, fun hv => keepErr nre ((h4 hv).2 he)⟩
      cases r <;> simp only [feed, hpc] <;> exact this
    | rdOut e =>
      have nre : p.pc ≠ .rdErr := by simp [hpc]
      simp only [Ready, hpc] at h
      obtain ⟨h1, h2, h3⟩ := h
      cases r with
      | n k =>
        simp only [feed, hpc]
        split
        · apply rdChainErr_ready
          intro he; exact ⟨h2 he, fun hv => keepErr nre ((h3 hv).2 he)⟩
        · apply rdChainErr_ready
          intro he; exact ⟨h2 he, fun hv => keepErr nre ((h3 hv).2 he)⟩
      | err e => simp [feed, hpc, Ready]
      | time t => simp [feed, hpc, Ready]
      | revs a b d => simp [feed, hpc, Ready]
      | ok => simp [feed, hpc, Ready]
    | rdErr =>
      cases r <;> simp only [feed, hpc] <;> first
        | (simp [Ready]; done)
        | (split <;> exact loopTop_ready _ _)
    | done res =>
      simp [pendingCall, hpc, answer] at ha
      cases hf : c.fault <;> simp [hf] at ha

theorem startRead_ready (p : Par) (w : World) (l t : Option Nat) : Ready (startRead p l t) w := by
  unfold startRead; split
  · simp [Ready]
  · exact loopTop_ready _ _

end Comm

import Model.Pipeline
/-!
  Lemmas about the pipeline model: how the parent's holdings evolve along the spawn loop, the cleanup
  of a partial start, and the drops.
-/
set_option linter.unusedSimpArgs false
namespace Pipe

theorem heldAfter_append (h : Held) (a b : List Act) : heldAfter h (a ++ b) = heldAfter (heldAfter h a) b := by
  simp [heldAfter, List.foldl_append]

@[simp] theorem heldAfter_nil (h : Held) : heldAfter h [] = h := rfl
@[simp] theorem heldAfter_cons (h : Held) (a : Act) (l : List Act) : heldAfter h (a :: l) = heldAfter (stepHeld h a) l := rfl

theorem waitsUnder_append (P : Held → Prop) (h : Held) (a b : List Act) :
    WaitsUnder P h (a ++ b) ↔ WaitsUnder P h a ∧ WaitsUnder P (heldAfter h a) b := by
  induction a generalizing h with
  | nil => simp [WaitsUnder]
  | cons x xs ih =>
    cases x <;> simp [WaitsUnder, ih, stepHeld, and_assoc]

theorem spawnsClean_append (h : Held) (a b : List Act) :
    SpawnsClean h (a ++ b) ↔ SpawnsClean h a ∧ SpawnsClean (heldAfter h a) b := by
  induction a generalizing h with
  | nil => simp [SpawnsClean]
  | cons x xs ih =>
    cases x <;> simp [SpawnsClean, ih, stepHeld, and_assoc]

/-- closing a list of ends -/
theorem heldAfter_closes (h : Held) (es : List End) :
    heldAfter h (es.map Act.close) = fun e => if e ∈ es then none else h e := by
  induction es generalizing h with
  | nil => simp
  | cons x xs ih =>
    simp only [List.map_cons, heldAfter_cons, ih, stepHeld]
    funext e
    by_cases h1 : e = x
    · subst h1; simp
    · simp [h1]

theorem waitsUnder_closes (P : Held → Prop) (h : Held) (es : List End) : WaitsUnder P h (es.map Act.close) := by
  induction es generalizing h with
  | nil => simp [WaitsUnder]
  | cons x xs ih => simp [WaitsUnder, ih]

theorem spawnsClean_closes (h : Held) (es : List End) : SpawnsClean h (es.map Act.close) := by
  induction es generalizing h with
  | nil => simp [SpawnsClean]
  | cons x xs ih => simp [SpawnsClean, ih]

/-- holdings after the first k commands were started: the stdin writer, the reader of the previous
    command's stdout (the last one's, if a pipe, when k = n), the stderr reader of a single command,
    and what was held before (`h0`: the shared stderr pipe of `setup_communicate`, or nothing) -/
def heldStages (c : Cfg) (h0 : Held) (k : Nat) : Held :=
  if k = 0 then h0 else fun e =>
    if e = ⟨1, .w⟩ ∧ hasInPipe c = true then some true
    else if e = ⟨2 + (k - 1), .r⟩ ∧ hasOutPipe c (k - 1) = true then some true
    else if hasErrPipe c = true ∧ e = ⟨0, .r⟩ then some true
    else h0 e

theorem stageOk_held (c : Cfg) (a2 : Att) (h0 : Held) (k : Nat) (hk : k < c.n)
    (h0p : ∀ e, 1 ≤ e.pipe → h0 e = none) (h0e : hasErrPipe c = true → ∀ e, h0 e = none) :
    heldAfter (heldStages c h0 k) (stageOk c a2 k) = heldStages c h0 (k + 1) := by
  have herr : hasErrPipe c = true → c.n = 1 := by
    intro h; simp [hasErrPipe] at h; exact h.1
  unfold stageOk mkActs childEnds
  simp only [heldAfter_append, heldAfter_closes, heldAfter_cons, heldAfter_nil, stepHeld]
  funext e
  obtain ⟨p, s⟩ := e
  cases k with
  | zero =>
    have hp : p = 0 ∨ p = 1 ∨ p = 2 ∨ (p ≠ 0 ∧ p ≠ 1 ∧ p ≠ 2) := by omega
    by_cases hi : hasInPipe c = true <;> by_cases ho : hasOutPipe c 0 = true <;> by_cases he : hasErrPipe c = true <;>
      rcases hp with rfl | rfl | rfl | ⟨p0, p1, p2⟩ <;> cases s <;>
      simp [heldStages, hi, ho, he, heldAfter, stepHeld, h0p, h0e, *]
  | succ k =>
    have hne : hasErrPipe c = false := by
      cases h : hasErrPipe c with
      | false => rfl
      | true => have := herr h; omega
    have hok : hasOutPipe c k = true := by simp [hasOutPipe]; omega
    have e1 : ¬ 0 = 2 + k := by omega
    have e2 : ¬ 1 = 2 + k := by omega
    have e3 : ¬ 0 = 2 + (k + 1) := by omega
    have e4 : ¬ 1 = 2 + (k + 1) := by omega
    have e5 : ¬ 2 + k = 2 + (k + 1) := by omega
    have e6 : ¬ 2 + (k + 1) = 2 + k := by omega
    have e7 : ¬ k + 1 = k := by omega
    have z1 : ∀ s, h0 ⟨2 + k, s⟩ = none := fun s => h0p _ (by simp; omega)
    have z2 : ∀ s, h0 ⟨2 + (k + 1), s⟩ = none := fun s => h0p _ (by simp; omega)
    have z3 : ∀ s, h0 ⟨1, s⟩ = none := fun s => h0p _ (by simp)
    have hp : p = 0 ∨ p = 1 ∨ p = 2 + k ∨ p = 2 + (k + 1) ∨ (p ≠ 0 ∧ p ≠ 1 ∧ p ≠ 2 + k ∧ p ≠ 2 + (k + 1)) := by omega
    by_cases hi : hasInPipe c = true <;> by_cases ho : hasOutPipe c (k + 1) = true <;>
      rcases hp with rfl | rfl | rfl | rfl | ⟨p0, p1, p2, p3⟩ <;> cases s <;>
      simp [heldStages, hi, ho, hne, hok, heldAfter, stepHeld, h0p, *] <;> omega

theorem stages_held (c : Cfg) (a2 : Att) (h0 : Held) (k : Nat) (hk : k ≤ c.n)
    (h0p : ∀ e, 1 ≤ e.pipe → h0 e = none) (h0e : hasErrPipe c = true → ∀ e, h0 e = none) :
    heldAfter h0 ((List.range k).flatMap (stageOk c a2)) = heldStages c h0 k := by
  induction k with
  | zero => simp [heldStages]
  | succ k ih =>
    rw [List.range_succ, List.flatMap_append, heldAfter_append, ih (by omega)]
    simp only [List.flatMap_cons, List.flatMap_nil, List.append_nil]
    exact stageOk_held c a2 h0 k (by omega) h0p h0e

def NoWait (acts : List Act) : Prop := ∀ a ∈ acts, (∀ j, a ≠ .wait j) ∧ (∀ j, a ≠ .waitRet j)
def NoSpawn (acts : List Act) : Prop := ∀ a ∈ acts, ∀ i a0 a1 a2, a ≠ .spawn i a0 a1 a2

theorem waitsUnder_noWait (P : Held → Prop) (h : Held) (acts : List Act) (hn : NoWait acts) : WaitsUnder P h acts := by
  induction acts generalizing h with
  | nil => simp [WaitsUnder]
  | cons x xs ih =>
    have hx := hn x (by simp)
    have hxs : NoWait xs := fun a ha => hn a (by simp [ha])
    cases x <;> simp_all [WaitsUnder]

theorem spawnsClean_noSpawn (h : Held) (acts : List Act) (hn : NoSpawn acts) : SpawnsClean h acts := by
  induction acts generalizing h with
  | nil => simp [SpawnsClean]
  | cons x xs ih =>
    have hx := hn x (by simp)
    have hxs : NoSpawn xs := fun a ha => hn a (by simp [ha])
    cases x with
    | spawn i a0 a1 a2 => exact absurd rfl (hx i a0 a1 a2)
    | _ => simp_all [SpawnsClean]

theorem noWait_append {a b : List Act} (ha : NoWait a) (hb : NoWait b) : NoWait (a ++ b) := by
  intro x hx; rcases List.mem_append.mp hx with h | h
  · exact ha x h
  · exact hb x h

theorem noWait_closes (es : List End) : NoWait (es.map Act.close) := by
  intro a ha; simp at ha; obtain ⟨e, _, rfl⟩ := ha; simp

theorem noWait_mkActs (c : Cfg) (i : Nat) : NoWait (mkActs c i) := by
  intro a ha
  simp only [mkActs, List.mem_append] at ha
  rcases ha with (ha | ha) | ha <;> (split at ha <;> simp at ha) <;> subst ha <;> simp

theorem noSpawn_mkActs (c : Cfg) (i : Nat) : NoSpawn (mkActs c i) := by
  intro a ha
  simp only [mkActs, List.mem_append] at ha
  rcases ha with (ha | ha) | ha <;> (split at ha <;> simp at ha) <;> subst ha <;> simp

theorem noWait_stageOk (c : Cfg) (a2 : Att) (i : Nat) : NoWait (stageOk c a2 i) := by
  unfold stageOk
  refine noWait_append (noWait_append (noWait_mkActs c i) ?_) (noWait_closes _)
  intro a ha; simp at ha; subst ha; simp

theorem noWait_stageFail (c : Cfg) (i : Nat) : NoWait (stageFail c i) := by
  unfold stageFail
  refine noWait_append (noWait_append (noWait_append (noWait_mkActs c i) ?_) (noWait_closes _)) (noWait_closes _)
  intro a ha; simp at ha; subst ha; simp

theorem noWait_flatMap (f : Nat → List Act) (l : List Nat) (h : ∀ i, NoWait (f i)) : NoWait (l.flatMap f) := by
  intro a ha; simp at ha; obtain ⟨i, _, hi⟩ := ha; exact h i a hi


theorem att0_zero_pipe (c : Cfg) (h : hasInPipe c = true) : att0 c 0 = .pipe 1 := by
  simp only [hasInPipe, Bool.or_eq_true, decide_eq_true_eq] at h
  rcases h with h | h <;> simp [att0, h]

theorem att0_succ (c : Cfg) (k : Nat) : att0 c (k + 1) = .pipe (2 + k) := by simp [att0]

theorem att1_pipe (c : Cfg) (k : Nat) (h : hasOutPipe c k = true) : att1 c k = .pipe (2 + k) := by
  simp only [hasOutPipe, Bool.or_eq_true, decide_eq_true_eq] at h
  unfold att1
  split
  · rfl
  · rcases h with h | h
    · omega
    · simp [h]

theorem stageOk_clean (c : Cfg) (a2 : Att) (h0 : Held) (k : Nat) (hk : k < c.n)
    (h0p : ∀ e, 1 ≤ e.pipe → h0 e = none) (h0e : hasErrPipe c = true → ∀ e, h0 e = none)
    (hclo : ∀ e, h0 e ≠ some false) (ha2 : hasErrPipe c = true → a2 = .pipe 0) :
    SpawnsClean (heldStages c h0 k) (stageOk c a2 k) := by
  have herr : hasErrPipe c = true → c.n = 1 := by
    intro h; simp [hasErrPipe] at h; exact h.1
  unfold stageOk
  rw [spawnsClean_append, spawnsClean_append]
  refine ⟨⟨spawnsClean_noSpawn _ _ (noSpawn_mkActs c k), ?_⟩, spawnsClean_closes _ _⟩
  simp only [SpawnsClean, and_true]
  intro e he
  obtain ⟨p, s⟩ := e
  unfold mkActs at he
  simp only [heldAfter_append] at he
  cases k with
  | zero =>
    have hp : p = 0 ∨ p = 1 ∨ p = 2 ∨ (p ≠ 0 ∧ p ≠ 1 ∧ p ≠ 2) := by omega
    by_cases hi : hasInPipe c = true <;> by_cases ho : hasOutPipe c 0 = true <;> by_cases hE : hasErrPipe c = true <;>
      rcases hp with rfl | rfl | rfl | ⟨p0, p1, p2⟩ <;> cases s <;>
      simp [heldStages, hi, ho, hE, heldAfter, stepHeld, h0p, h0e, hclo, *] at he ⊢ <;>
      simp [attEnds, att0_zero_pipe, att1_pipe, ha2, *]
  | succ k =>
    have hne : hasErrPipe c = false := by
      cases h : hasErrPipe c with
      | false => rfl
      | true => have := herr h; omega
    have hok : hasOutPipe c k = true := by simp [hasOutPipe]; omega
    have e1 : ¬ 0 = 2 + k := by omega
    have e2 : ¬ 1 = 2 + k := by omega
    have e3 : ¬ 0 = 2 + (k + 1) := by omega
    have e4 : ¬ 1 = 2 + (k + 1) := by omega
    have e5 : ¬ 2 + k = 2 + (k + 1) := by omega
    have e6 : ¬ 2 + (k + 1) = 2 + k := by omega
    have e7 : ¬ k + 1 = k := by omega
    have z1 : ∀ s, h0 ⟨2 + k, s⟩ = none := fun s => h0p _ (by simp; omega)
    have z2 : ∀ s, h0 ⟨2 + (k + 1), s⟩ = none := fun s => h0p _ (by simp; omega)
    have z3 : ∀ s, h0 ⟨1, s⟩ = none := fun s => h0p _ (by simp)
    have hp : p = 0 ∨ p = 1 ∨ p = 2 + k ∨ p = 2 + (k + 1) ∨ (p ≠ 0 ∧ p ≠ 1 ∧ p ≠ 2 + k ∧ p ≠ 2 + (k + 1)) := by omega
    by_cases hi : hasInPipe c = true <;> by_cases ho : hasOutPipe c (k + 1) = true <;>
      rcases hp with rfl | rfl | rfl | rfl | ⟨p0, p1, p2, p3⟩ <;> cases s <;>
      simp [heldStages, hi, ho, hne, hok, heldAfter, stepHeld, h0p, hclo, *] at he ⊢ <;>
      simp [attEnds, att0_succ, att1_pipe, *]



/-- holdings after command k failed to start (commands 0..k-1 running) -/
def heldFail (c : Cfg) (h0 : Held) (k : Nat) : Held := fun e =>
  if e = ⟨1, .w⟩ ∧ hasInPipe c = true ∧ k ≠ 0 then some true else h0 e

theorem stageFail_held (c : Cfg) (h0 : Held) (k : Nat) (hk : k < c.n)
    (h0p : ∀ e, 1 ≤ e.pipe → h0 e = none) (h0e : hasErrPipe c = true → ∀ e, h0 e = none) :
    heldAfter (heldStages c h0 k) (stageFail c k) = heldFail c h0 k := by
  have herr : hasErrPipe c = true → c.n = 1 := by
    intro h; simp [hasErrPipe] at h; exact h.1
  unfold stageFail mkActs childEnds parentEnds
  simp only [heldAfter_append, heldAfter_closes, heldAfter_cons, heldAfter_nil, stepHeld]
  funext e
  obtain ⟨p, s⟩ := e
  cases k with
  | zero =>
    have hp : p = 0 ∨ p = 1 ∨ p = 2 ∨ (p ≠ 0 ∧ p ≠ 1 ∧ p ≠ 2) := by omega
    by_cases hi : hasInPipe c = true <;> by_cases ho : hasOutPipe c 0 = true <;> by_cases he : hasErrPipe c = true <;>
      rcases hp with rfl | rfl | rfl | ⟨p0, p1, p2⟩ <;> cases s <;>
      simp [heldStages, heldFail, hi, ho, he, heldAfter, stepHeld, h0p, h0e, *]
  | succ k =>
    have hne : hasErrPipe c = false := by
      cases h : hasErrPipe c with
      | false => rfl
      | true => have := herr h; omega
    have hok : hasOutPipe c k = true := by simp [hasOutPipe]; omega
    have e1 : ¬ 0 = 2 + k := by omega
    have e2 : ¬ 1 = 2 + k := by omega
    have e3 : ¬ 0 = 2 + (k + 1) := by omega
    have e4 : ¬ 1 = 2 + (k + 1) := by omega
    have e5 : ¬ 2 + k = 2 + (k + 1) := by omega
    have e6 : ¬ 2 + (k + 1) = 2 + k := by omega
    have e7 : ¬ k + 1 = k := by omega
    have z1 : ∀ s, h0 ⟨2 + k, s⟩ = none := fun s => h0p _ (by simp; omega)
    have z2 : ∀ s, h0 ⟨2 + (k + 1), s⟩ = none := fun s => h0p _ (by simp; omega)
    have z3 : ∀ s, h0 ⟨1, s⟩ = none := fun s => h0p _ (by simp)
    have hp : p = 0 ∨ p = 1 ∨ p = 2 + k ∨ p = 2 + (k + 1) ∨ (p ≠ 0 ∧ p ≠ 1 ∧ p ≠ 2 + k ∧ p ≠ 2 + (k + 1)) := by omega
    by_cases hi : hasInPipe c = true <;> by_cases ho : hasOutPipe c (k + 1) = true <;>
      rcases hp with rfl | rfl | rfl | rfl | ⟨p0, p1, p2, p3⟩ <;> cases s <;>
      simp [heldStages, heldFail, hi, ho, hne, hok, heldAfter, stepHeld, h0p, *] <;> omega

theorem popenEnds_early (c : Cfg) (j : Nat) (hj : j + 1 < c.n) :
    popenEnds c j = if j = 0 ∧ hasInPipe c = true then [⟨1, .w⟩] else [] := by
  have hne : hasErrPipe c = false := by simp [hasErrPipe]; omega
  have : ¬ j + 1 = c.n := by omega
  simp [popenEnds, hne, this]




theorem dropPopen_early (c : Cfg) (w : Nat → Bool) (j : Nat) (hj : j + 1 < c.n) :
    dropPopen c [] w j = (if j = 0 ∧ hasInPipe c = true then [Act.close ⟨1, .w⟩] else []) ++
      (if !c.det j && !w j then [Act.wait j] else []) := by
  unfold dropPopen
  rw [popenEnds_early c j hj]
  split <;> simp

theorem heldAfter_optWait (h : Held) (p : Prop) [Decidable p] (j : Nat) : heldAfter h (if p then [Act.wait j] else []) = h := by
  split <;> rfl

theorem waitsUnder_optWait (P : Held → Prop) (h : Held) (p : Prop) [Decidable p] (j : Nat) (hP : P h) :
    WaitsUnder P h (if p then [Act.wait j] else []) := by
  split <;> simp [WaitsUnder, hP]

/-- cleaning up after a failed start at command K: once the stdin writer is released nothing of the
    attempt is held any more, and every wait happens after that release -/
theorem dropVec_fail (P : Held → Prop) (c : Cfg) (h0 : Held) (w : Nat → Bool) (K : Nat) (hK : K < c.n)
    (h0p : ∀ e, 1 ≤ e.pipe → h0 e = none) (hP : P h0) (k : Nat) (hk : k ≤ K) :
    heldAfter (heldFail c h0 K) (dropVec c [] w k) = (if k = 0 then heldFail c h0 K else h0) ∧
    WaitsUnder P (heldFail c h0 K) (dropVec c [] w k) := by
  induction k with
  | zero => simp [dropVec, WaitsUnder]
  | succ k ih =>
    obtain ⟨ih1, ih2⟩ := ih (by omega)
    have hd : dropVec c [] w (k + 1) = dropVec c [] w k ++ dropPopen c [] w k := by
      simp [dropVec, List.range_succ, List.flatMap_append]
    rw [hd, heldAfter_append, waitsUnder_append, ih1, dropPopen_early c w k (by omega)]
    have z3 : ∀ s, h0 ⟨1, s⟩ = none := fun s => h0p _ (by simp)
    have hrel : heldAfter (heldFail c h0 K) [Act.close ⟨1, .w⟩] = h0 := by
      funext e
      obtain ⟨p, s⟩ := e
      simp only [heldAfter_cons, heldAfter_nil, stepHeld, heldFail]
      by_cases h1 : (⟨p, s⟩ : End) = ⟨1, .w⟩
      · simp only [h1, if_true]; exact (z3 _).symm
      · simp [h1]
    have hnoin : hasInPipe c ≠ true → heldFail c h0 K = h0 := by
      intro h; funext e; simp [heldFail, h]
    cases k with
    | zero =>
      by_cases hi : hasInPipe c = true
      · simp only [hi, and_self, if_true, heldAfter_append, hrel, heldAfter_optWait]
        refine ⟨by simp [heldAfter_optWait], ih2, ?_⟩
        rw [waitsUnder_append, hrel]
        exact ⟨waitsUnder_closes P _ [⟨1, .w⟩], waitsUnder_optWait P h0 _ 0 hP⟩
      · simp only [hi, and_false, if_false, List.nil_append, hnoin hi, heldAfter_optWait]
        exact ⟨by simp [heldAfter_optWait], ih2, waitsUnder_optWait P h0 _ 0 hP⟩
    | succ k =>
      simp only [Nat.succ_ne_zero, false_and, if_false, List.nil_append, heldAfter_optWait]
      exact ⟨by simp [heldAfter_optWait], ih2, waitsUnder_optWait P h0 _ _ hP⟩




theorem effective_ioFails (c : Cfg) (t : Term) : (effective c t).ioFails = c.ioFails := by
  unfold effective
  cases t <;> simp only <;> (repeat' split) <;> rfl

theorem effective_n (c : Cfg) (t : Term) : (effective c t).n = c.n := by
  cases t <;> simp [effective] <;> (repeat' split) <;> rfl

theorem effective_failAt (c : Cfg) (t : Term) : (effective c t).failAt = c.failAt := by
  cases t <;> simp [effective] <;> (repeat' split) <;> rfl

/-- the shared stderr pipe of `setup_communicate`, both ends close-on-exec -/
def capHeld (cap : Bool) : Held := fun e => if cap = true ∧ e.pipe = 0 then some true else none
/-- ... once the writer was released -/
def capHeldR (cap : Bool) : Held := fun e => if cap = true ∧ e = ⟨0, .r⟩ then some true else none

theorem capPipe_errPipe (c : Cfg) (t : Term) (h : hasErrPipe c = true) : capPipe c t = false := by
  simp [hasErrPipe] at h
  simp [capPipe, h.1]

theorem waitsUnder_optAct (P : Held → Prop) (h : Held) (p : Prop) [Decidable p] (a : Act)
    (ha : (∀ j, a ≠ .wait j) ∧ (∀ j, a ≠ .waitRet j)) : WaitsUnder P h (if p then [a] else []) := by
  split
  · exact waitsUnder_noWait P h [a] (by intro x hx; simp at hx; subst hx; exact ha)
  · simp [WaitsUnder]

theorem runEff_fail (c : Cfg) (t : Term) (k : Nat) (hf : c.failAt = some k) (hk : k < c.n) :
    runEff c t = (if capPipe c t then [Act.mk 0 true true] else []) ++
      ((List.range k).flatMap (stageOk c (att2 c t)) ++ stageFail c k) ++
      (if capPipe c t then [Act.close ⟨0, .w⟩] else []) ++
      (if capPipe c t then [Act.close ⟨0, .r⟩] else []) ++ dropVec c [] noneWaited k ++ [.ret false] := by
  simp [runEff, startAll, hf, hk]

theorem fail_held (c : Cfg) (t : Term) (k : Nat) (hf : c.failAt = some k) (hk : k < c.n) :
    WaitsUnder (fun h => ∀ e, h e = none) Held.empty (runEff c t) ∧
    heldAfter Held.empty (runEff c t) = Held.empty := by
  rw [runEff_fail c t k hf hk]
  have hpre : heldAfter Held.empty (if capPipe c t then [Act.mk 0 true true] else []) = capHeld (capPipe c t) := by
    cases hc : capPipe c t
    · simp [capHeld, Held.empty]; rfl
    · funext e; obtain ⟨p, s⟩ := e
      cases s <;> by_cases hp : p = 0 <;> simp [capHeld, Held.empty, heldAfter, stepHeld, hp]
  have h0p : ∀ e : End, 1 ≤ e.pipe → capHeld (capPipe c t) e = none := by
    intro e he; simp [capHeld]; omega
  have h0e : hasErrPipe c = true → ∀ e, capHeld (capPipe c t) e = none := by
    intro h e; simp [capHeld, capPipe_errPipe c t h]
  have hstages := stages_held c (att2 c t) (capHeld (capPipe c t)) k (by omega) h0p h0e
  have hfail := stageFail_held c (capHeld (capPipe c t)) k hk h0p h0e
  have hrelW : heldAfter (heldFail c (capHeld (capPipe c t)) k) (if capPipe c t then [Act.close ⟨0, .w⟩] else [])
      = heldFail c (capHeldR (capPipe c t)) k := by
    cases hc : capPipe c t
    · funext e; simp [heldFail, capHeld, capHeldR]
    · funext e; obtain ⟨p, s⟩ := e
      cases s <;> by_cases hp : p = 0 <;> by_cases hp1 : p = 1 <;> simp [heldFail, capHeld, capHeldR, heldAfter, stepHeld, hp, hp1] <;> omega
  have hrelR : heldAfter (heldFail c (capHeldR (capPipe c t)) k) (if capPipe c t then [Act.close ⟨0, .r⟩] else [])
      = heldFail c Held.empty k := by
    cases hc : capPipe c t
    · funext e; simp [heldFail, capHeldR, Held.empty]
    · funext e; obtain ⟨p, s⟩ := e
      cases s <;> by_cases hp : p = 0 <;> by_cases hp1 : p = 1 <;> simp [heldFail, capHeldR, Held.empty, heldAfter, stepHeld, hp, hp1] <;> omega
  have h0p' : ∀ e : End, 1 ≤ e.pipe → Held.empty e = none := fun _ _ => rfl
  have hP : (fun h : Held => ∀ e, h e = none) Held.empty := fun _ => rfl
  obtain ⟨hd1, hd2⟩ := dropVec_fail (fun h : Held => ∀ e, h e = none) c Held.empty noneWaited k hk h0p' hP k (Nat.le_refl k)
  have h1 : (if k = 0 then heldFail c Held.empty k else Held.empty) = Held.empty := by
    split
    · rename_i hk0; subst hk0; funext e; simp [heldFail, Held.empty]
    · rfl
  constructor
  · simp only [waitsUnder_append, heldAfter_append, hpre, hstages, hfail, hrelW, hrelR, hd1, h1]
    refine ⟨⟨⟨⟨⟨?_, ?_, ?_⟩, ?_⟩, ?_⟩, hd2⟩, ?_⟩
    · exact waitsUnder_optAct _ _ _ _ (by simp)
    · exact waitsUnder_noWait _ _ _ (noWait_flatMap _ _ (noWait_stageOk c _))
    · exact waitsUnder_noWait _ _ _ (noWait_stageFail c k)
    · exact waitsUnder_optAct _ _ _ _ (by simp)
    · exact waitsUnder_optAct _ _ _ _ (by simp)
    · simp [WaitsUnder]
  · simp only [heldAfter_append, hpre, hstages, hfail, hrelW, hrelR, hd1, h1]
    rfl


def spawnIdx : Act → Option Nat
  | .spawn i _ _ _ => some i
  | _ => none
def waitIdx : Act → Option Nat
  | .wait j => some j
  | .waitRet j => some j
  | _ => none
def retVal : Act → Option Bool
  | .ret b => some b
  | _ => none

theorem filterMap_closes {β : Type} (f : Act → Option β) (hf : ∀ e, f (.close e) = none) (es : List End) :
    (es.map Act.close).filterMap f = [] := by
  induction es with
  | nil => rfl
  | cons x xs ih => simp [List.filterMap_cons, hf, ih]

theorem filterMap_mkActs {β : Type} (f : Act → Option β) (hf : ∀ p a b, f (.mk p a b) = none) (c : Cfg) (i : Nat) :
    (mkActs c i).filterMap f = [] := by
  unfold mkActs
  simp only [List.filterMap_append]
  (repeat' split) <;> simp [List.filterMap_cons, hf]

theorem spawns_stageOk (c : Cfg) (a2 : Att) (i : Nat) : (stageOk c a2 i).filterMap spawnIdx = [i] := by
  simp [stageOk, List.filterMap_append, filterMap_mkActs spawnIdx (by simp [spawnIdx]),
    filterMap_closes spawnIdx (by simp [spawnIdx]), spawnIdx]

theorem waits_stageOk (c : Cfg) (a2 : Att) (i : Nat) : (stageOk c a2 i).filterMap waitIdx = [] := by
  simp [stageOk, List.filterMap_append, filterMap_mkActs waitIdx (by simp [waitIdx]),
    filterMap_closes waitIdx (by simp [waitIdx]), waitIdx]

theorem rets_stageOk (c : Cfg) (a2 : Att) (i : Nat) : (stageOk c a2 i).filterMap retVal = [] := by
  simp [stageOk, List.filterMap_append, filterMap_mkActs retVal (by simp [retVal]),
    filterMap_closes retVal (by simp [retVal]), retVal]

theorem spawns_stageFail (c : Cfg) (i : Nat) : (stageFail c i).filterMap spawnIdx = [] := by
  unfold stageFail
  rw [List.filterMap_append, List.filterMap_append, List.filterMap_append, filterMap_mkActs spawnIdx (by simp [spawnIdx]),
    filterMap_closes spawnIdx (by simp [spawnIdx]), filterMap_closes spawnIdx (by simp [spawnIdx])]
  simp [spawnIdx]

theorem waits_stageFail (c : Cfg) (i : Nat) : (stageFail c i).filterMap waitIdx = [] := by
  unfold stageFail
  rw [List.filterMap_append, List.filterMap_append, List.filterMap_append, filterMap_mkActs waitIdx (by simp [waitIdx]),
    filterMap_closes waitIdx (by simp [waitIdx]), filterMap_closes waitIdx (by simp [waitIdx])]
  simp [waitIdx]

theorem rets_stageFail (c : Cfg) (i : Nat) : (stageFail c i).filterMap retVal = [] := by
  unfold stageFail
  rw [List.filterMap_append, List.filterMap_append, List.filterMap_append, filterMap_mkActs retVal (by simp [retVal]),
    filterMap_closes retVal (by simp [retVal]), filterMap_closes retVal (by simp [retVal])]
  simp [retVal]

theorem filterMap_range_flatMap {β : Type} (f : Act → Option β) (g : Nat → List Act) (r : Nat → List β)
    (h : ∀ i, (g i).filterMap f = r i) (k : Nat) :
    ((List.range k).flatMap g).filterMap f = (List.range k).flatMap r := by
  induction k with
  | zero => rfl
  | succ k ih => simp [List.range_succ, List.flatMap_append, List.filterMap_append, ih, h]

theorem spawns_stages (c : Cfg) (a2 : Att) (k : Nat) :
    ((List.range k).flatMap (stageOk c a2)).filterMap spawnIdx = List.range k := by
  rw [filterMap_range_flatMap spawnIdx _ (fun i => [i]) (spawns_stageOk c a2)]
  induction k with
  | zero => rfl
  | succ k ih => simp [List.range_succ, List.flatMap_append, ih]

theorem waits_stages (c : Cfg) (a2 : Att) (k : Nat) :
    ((List.range k).flatMap (stageOk c a2)).filterMap waitIdx = [] := by
  rw [filterMap_range_flatMap waitIdx _ (fun _ => []) (waits_stageOk c a2)]
  simp

theorem rets_stages (c : Cfg) (a2 : Att) (k : Nat) :
    ((List.range k).flatMap (stageOk c a2)).filterMap retVal = [] := by
  rw [filterMap_range_flatMap retVal _ (fun _ => []) (rets_stageOk c a2)]
  simp

theorem spawns_dropPopen (c : Cfg) (tk : List End) (w : Nat → Bool) (j : Nat) : (dropPopen c tk w j).filterMap spawnIdx = [] := by
  unfold dropPopen
  simp only [List.filterMap_append, filterMap_closes spawnIdx (by simp [spawnIdx])]
  split <;> simp [spawnIdx]

theorem rets_dropPopen (c : Cfg) (tk : List End) (w : Nat → Bool) (j : Nat) : (dropPopen c tk w j).filterMap retVal = [] := by
  unfold dropPopen
  simp only [List.filterMap_append, filterMap_closes retVal (by simp [retVal])]
  split <;> simp [retVal]

theorem waits_dropPopen (c : Cfg) (tk : List End) (w : Nat → Bool) (j : Nat) :
    (dropPopen c tk w j).filterMap waitIdx = if !c.det j && !w j then [j] else [] := by
  unfold dropPopen
  simp only [List.filterMap_append, filterMap_closes waitIdx (by simp [waitIdx])]
  split <;> simp [waitIdx]

theorem spawns_dropVec (c : Cfg) (tk : List End) (w : Nat → Bool) (k : Nat) : (dropVec c tk w k).filterMap spawnIdx = [] := by
  unfold dropVec
  rw [filterMap_range_flatMap spawnIdx _ (fun _ => []) (spawns_dropPopen c tk w)]; simp

theorem rets_dropVec (c : Cfg) (tk : List End) (w : Nat → Bool) (k : Nat) : (dropVec c tk w k).filterMap retVal = [] := by
  unfold dropVec
  rw [filterMap_range_flatMap retVal _ (fun _ => []) (rets_dropPopen c tk w)]; simp

/-- dropping the first k `Popen`s waits for exactly the non-detached, not yet waited-for ones, in order -/
theorem waits_dropVec (c : Cfg) (tk : List End) (w : Nat → Bool) (k : Nat) :
    (dropVec c tk w k).filterMap waitIdx = (List.range k).filter (fun j => !c.det j && !w j) := by
  unfold dropVec
  rw [filterMap_range_flatMap waitIdx _ _ (waits_dropPopen c tk w)]
  induction k with
  | zero => rfl
  | succ k ih =>
    simp only [List.range_succ, List.flatMap_append, ih, List.filter_append, List.flatMap_cons, List.flatMap_nil,
      List.append_nil, List.filter_cons, List.filter_nil]




/-- all commands can be started -/
def AllStart (c : Cfg) : Prop := c.failAt = none ∨ ∃ k, c.failAt = some k ∧ c.n ≤ k

theorem startAll_ok (c : Cfg) (a2 : Att) (h : AllStart c) :
    startAll c a2 = ((List.range c.n).flatMap (stageOk c a2), true, c.n) := by
  rcases h with h | ⟨k, h, hk⟩
  · simp [startAll, h]
  · have : ¬ k < c.n := by omega
    simp [startAll, h, this]

/-- what follows the spawn loop, per terminator -/
def tail (c : Cfg) (t : Term) : List Act :=
  let last := c.n - 1
  match t with
  | .popen => [.ret true, .user] ++ dropVec c [] noneWaited c.n
  | .join => [.waitRet last] ++ dropVec c [] (fun j => j = last) c.n ++ [.ret true]
  | .streamStdout => [.ret true, .user, .close ⟨2 + last, .r⟩] ++ dropVec c [⟨2 + last, .r⟩] noneWaited c.n
  | .streamStderr => [.ret true, .user] ++ dropVec c [] noneWaited c.n
  | .streamStdin => [.ret true, .user, .close ⟨1, .w⟩] ++ dropVec c [⟨1, .w⟩] noneWaited c.n
  | .capture =>
    if c.ioFails then
      [.io] ++ (commEnds c t).map Act.close ++ dropVec c (commEnds c t) noneWaited c.n ++ [.ret false]
    else
    [.io] ++ (commEnds c t).map Act.close ++ [.waitRet last] ++
      dropVec c (commEnds c t) (fun j => j = last) c.n ++ [.ret true]
  | .communicate =>
    dropVec c (commEnds c t) noneWaited c.n ++ [.ret true, .user] ++ (commEnds c t).map Act.close

theorem runEff_ok (c : Cfg) (t : Term) (h : AllStart c) :
    runEff c t = (if capPipe c t then [Act.mk 0 true true] else []) ++
      (List.range c.n).flatMap (stageOk c (att2 c t)) ++
      (if capPipe c t then [Act.close ⟨0, .w⟩] else []) ++ tail c t := by
  simp only [runEff, startAll_ok c _ h, tail]
  cases t <;> simp

theorem effective_allStart (c : Cfg) (t : Term) (h : AllStart c) : AllStart (effective c t) := by
  unfold AllStart at *
  rw [effective_failAt, effective_n]; exact h

/-! #### the spawn list -/

def spawnOf : Act → Option (Nat × Att × Att × Att)
  | .spawn i a0 a1 a2 => some (i, a0, a1, a2)
  | _ => none

theorem spawnOf_closes (es : List End) : (es.map Act.close).filterMap spawnOf = [] :=
  filterMap_closes spawnOf (by simp [spawnOf]) es

theorem spawnOf_stageOk (c : Cfg) (a2 : Att) (i : Nat) :
    (stageOk c a2 i).filterMap spawnOf = [(i, att0 c i, att1 c i, a2)] := by
  simp [stageOk, List.filterMap_append, filterMap_mkActs spawnOf (by simp [spawnOf]), spawnOf_closes, spawnOf]

theorem spawnOf_dropVec (c : Cfg) (tk : List End) (w : Nat → Bool) (k : Nat) : (dropVec c tk w k).filterMap spawnOf = [] := by
  unfold dropVec
  rw [filterMap_range_flatMap spawnOf _ (fun _ => [])]
  · simp
  · intro j
    unfold dropPopen
    simp only [List.filterMap_append, spawnOf_closes]
    split <;> simp [spawnOf]

theorem spawnOf_tail (c : Cfg) (t : Term) : (tail c t).filterMap spawnOf = [] := by
  cases t <;> (try (by_cases hio : c.ioFails = true)) <;>
    simp only [tail, *, Bool.false_eq_true, if_true, if_false, List.filterMap_append, spawnOf_dropVec, spawnOf_closes, List.filterMap_cons,
      List.filterMap_nil, spawnOf, List.append_nil, List.nil_append]

/-- the commands are started in order, each with the attachments `att0/att1/att2` -/
theorem spawnOf_runEff (c : Cfg) (t : Term) (h : AllStart c) :
    (runEff c t).filterMap spawnOf = (List.range c.n).map (fun i => (i, att0 c i, att1 c i, att2 c t)) := by
  rw [runEff_ok c t h]
  simp only [List.filterMap_append, spawnOf_tail, filterMap_range_flatMap spawnOf _ _ (spawnOf_stageOk c (att2 c t))]
  have : ∀ k, (List.range k).flatMap (fun i => [(i, att0 c i, att1 c i, att2 c t)]) =
      (List.range k).map (fun i => (i, att0 c i, att1 c i, att2 c t)) := by
    intro k; induction k with
    | zero => rfl
    | succ k ih => simp [List.range_succ, List.flatMap_append, ih]
  rw [this]
  cases capPipe c t <;> simp only [List.filterMap_cons, List.filterMap_nil, spawnOf, List.append_nil, List.nil_append,
    if_true, if_false, Bool.false_eq_true]




theorem noSpawn_of_spawnOf (acts : List Act) (h : acts.filterMap spawnOf = []) : NoSpawn acts := by
  intro a ha i a0 a1 a2 he
  subst he
  have : (i, a0, a1, a2) ∈ acts.filterMap spawnOf := by
    rw [List.mem_filterMap]; exact ⟨_, ha, rfl⟩
  rw [h] at this; simp at this

theorem stages_clean (c : Cfg) (a2 : Att) (h0 : Held) (k : Nat) (hk : k ≤ c.n)
    (h0p : ∀ e, 1 ≤ e.pipe → h0 e = none) (h0e : hasErrPipe c = true → ∀ e, h0 e = none)
    (hclo : ∀ e, h0 e ≠ some false) (ha2 : hasErrPipe c = true → a2 = .pipe 0) :
    SpawnsClean h0 ((List.range k).flatMap (stageOk c a2)) := by
  induction k with
  | zero => simp [SpawnsClean]
  | succ k ih =>
    rw [List.range_succ, List.flatMap_append, spawnsClean_append, stages_held c a2 h0 k (by omega) h0p h0e]
    refine ⟨ih (by omega), ?_⟩
    simp only [List.flatMap_cons, List.flatMap_nil, List.append_nil]
    exact stageOk_clean c a2 h0 k (by omega) h0p h0e hclo ha2

theorem att2_errPipe (c : Cfg) (t : Term) (h : hasErrPipe c = true) : att2 c t = .pipe 0 := by
  simp [hasErrPipe] at h
  simp [att2, h.1, h.2]

theorem capHeld_pre (cap : Bool) : heldAfter Held.empty (if cap then [Act.mk 0 true true] else []) = capHeld cap := by
  cases cap
  · simp [capHeld, Held.empty]; rfl
  · funext e; obtain ⟨p, s⟩ := e
    cases s <;> by_cases hp : p = 0 <;> simp [capHeld, Held.empty, heldAfter, stepHeld, hp]

theorem spawnsClean_optAct (h : Held) (p : Prop) [Decidable p] (a : Act)
    (ha : ∀ i a0 a1 a2, a ≠ .spawn i a0 a1 a2) : SpawnsClean h (if p then [a] else []) := by
  split
  · exact spawnsClean_noSpawn h [a] (by intro x hx; simp at hx; subst hx; exact ha)
  · simp [SpawnsClean]

/-- at every start of a command the parent holds no inheritable pipe end except the ones that
    command is meant to get (success path) -/
theorem runEff_ok_clean (c : Cfg) (t : Term) (h : AllStart c) : SpawnsClean Held.empty (runEff c t) := by
  rw [runEff_ok c t h]
  have h0p : ∀ e : End, 1 ≤ e.pipe → capHeld (capPipe c t) e = none := by
    intro e he; simp [capHeld]; omega
  have h0e : hasErrPipe c = true → ∀ e, capHeld (capPipe c t) e = none := by
    intro h e; simp [capHeld, capPipe_errPipe c t h]
  have hclo : ∀ e, capHeld (capPipe c t) e ≠ some false := by
    intro e; simp only [capHeld]; split <;> simp
  simp only [spawnsClean_append, heldAfter_append, capHeld_pre]
  refine ⟨⟨⟨spawnsClean_optAct _ _ _ (by simp), ?_⟩, spawnsClean_optAct _ _ _ (by simp)⟩, ?_⟩
  · exact stages_clean c (att2 c t) _ c.n (Nat.le_refl _) h0p h0e hclo (att2_errPipe c t)
  · exact spawnsClean_noSpawn _ _ (noSpawn_of_spawnOf _ (spawnOf_tail c t))

/-- ... and when a later command fails to start -/
theorem runEff_fail_clean (c : Cfg) (t : Term) (k : Nat) (hf : c.failAt = some k) (hk : k < c.n) :
    SpawnsClean Held.empty (runEff c t) := by
  rw [runEff_fail c t k hf hk]
  have h0p : ∀ e : End, 1 ≤ e.pipe → capHeld (capPipe c t) e = none := by
    intro e he; simp [capHeld]; omega
  have h0e : hasErrPipe c = true → ∀ e, capHeld (capPipe c t) e = none := by
    intro h e; simp [capHeld, capPipe_errPipe c t h]
  have hclo : ∀ e, capHeld (capPipe c t) e ≠ some false := by
    intro e; simp only [capHeld]; split <;> simp
  have nsF : NoSpawn (stageFail c k) := by
    intro a ha i a0 a1 a2 he
    have := spawns_stageFail c k
    subst he
    have hm : i ∈ (stageFail c k).filterMap spawnIdx := by rw [List.mem_filterMap]; exact ⟨_, ha, rfl⟩
    rw [this] at hm; simp at hm
  have nsD : NoSpawn (dropVec c [] noneWaited k) := noSpawn_of_spawnOf _ (spawnOf_dropVec c [] noneWaited k)
  simp only [spawnsClean_append, heldAfter_append, capHeld_pre]
  refine ⟨⟨⟨⟨⟨spawnsClean_optAct _ _ _ (by simp), ?_, spawnsClean_noSpawn _ _ nsF⟩, spawnsClean_optAct _ _ _ (by simp)⟩,
    spawnsClean_optAct _ _ _ (by simp)⟩, spawnsClean_noSpawn _ _ nsD⟩, by simp [SpawnsClean]⟩
  exact stages_clean c (att2 c t) _ k (by omega) h0p h0e hclo (att2_errPipe c t)




/-- the stages applied in order -/
def compose (f : Nat → List Nat → List Nat) (k : Nat) (x : List Nat) : List Nat :=
  (List.range k).foldl (fun acc i => f i acc) x

theorem compose_succ (f : Nat → List Nat → List Nat) (k : Nat) (x : List Nat) :
    compose f (k + 1) x = f k (compose f k x) := by
  simp [compose, List.range_succ, List.foldl_append]

def stepFlow (f : Nat → List Nat → List Nat) (input : List Nat) (fl : Flow) (s : Nat × Att × Att × Att) : Flow :=
  let x := match s.2.1 with | .pipe p => fl.pipeVal p | _ => input
  let y := f s.1 x
  match s.2.2.1 with
  | .pipe p => { fl with pipeVal := fun q => if q = p then y else fl.pipeVal q }
  | _ => { fl with output := fl.output ++ y }

theorem flow_eq (f : Nat → List Nat → List Nat) (input : List Nat) (fl : Flow) (acts : List Act) :
    flow f input fl acts = (acts.filterMap spawnOf).foldl (stepFlow f input) fl := by
  induction acts generalizing fl with
  | nil => rfl
  | cons a as ih =>
    cases a <;> simp only [flow, List.filterMap_cons, spawnOf, List.foldl_cons, ih]
    rfl

/-- the data that reached the pipeline's configured output -/
def result (c : Cfg) (fl : Flow) : List Nat :=
  match c.sout with
  | .pipe => fl.pipeVal (2 + (c.n - 1))
  | _ => fl.output

def flow0 (input : List Nat) : Flow := { pipeVal := fun p => if p = 1 then input else [], output := [] }

theorem flow_stages (f : Nat → List Nat → List Nat) (input : List Nat) (c : Cfg) (a2 : Att) (k : Nat) (hk : k ≤ c.n) :
    let fl := ((List.range k).map (fun i => (i, att0 c i, att1 c i, a2))).foldl (stepFlow f input) (flow0 input)
    fl.pipeVal 1 = input ∧
    (0 < k → k < c.n → fl.pipeVal (2 + (k - 1)) = compose f k input ∧ fl.output = []) ∧
    (0 < k → k = c.n → result c fl = compose f k input) ∧
    (k = 0 → fl = flow0 input) := by
  induction k with
  | zero => simp [flow0]
  | succ k ih =>
    obtain ⟨i1, i2, _, i4⟩ := ih (by omega)
    simp only [List.range_succ, List.map_append, List.foldl_append, List.map_cons, List.map_nil, List.foldl_cons,
      List.foldl_nil]
    generalize hfl : List.foldl (stepFlow f input) (flow0 input) (List.map (fun i => (i, att0 c i, att1 c i, a2)) (List.range k)) = fl at *
    -- the value on the stage's stdin
    have hx : (match att0 c k with | .pipe p => fl.pipeVal p | _ => input) = compose f k input := by
      cases k with
      | zero =>
        have := i4 rfl
        subst this
        simp only [att0, if_true, compose, List.range_zero, List.foldl_nil]
        cases c.sin <;> simp [flow0]
      | succ k =>
        simp only [att0_succ]
        have := (i2 (by omega) (by omega)).1
        simpa using this
    have ho : 0 < k → fl.output = [] := fun h => (i2 h (by omega)).2
    have ho0 : fl.output = [] := by
      cases k with
      | zero => have := i4 rfl; subst this; rfl
      | succ k => exact ho (by omega)
    unfold stepFlow
    simp only [hx, ← compose_succ]
    by_cases hlast : k + 1 < c.n
    · have h1 : att1 c k = .pipe (2 + k) := by simp [att1, hlast]
      simp only [h1]
      refine ⟨?_, ?_, ?_, by omega⟩
      · have : ¬ (1 = 2 + k) := by omega
        simp [this, i1]
      · intro _ _; simp [ho0]
      · intro _ h; omega
    · have hn : k + 1 = c.n := by omega
      refine ⟨?_, ?_, ?_, by omega⟩
      · unfold att1; simp only [hlast, if_false]
        cases c.sout <;> simp [i1]
        omega
      · intro _ h; omega
      · intro _ _
        unfold att1 result; simp only [hlast, if_false]
        have : c.n - 1 = k := by omega
        cases hs : c.sout <;> simp [ho0, this]




/-- has end `e` been released by dropping the first k `Popen`s? -/
def closedBy (c : Cfg) (taken : List End) (k : Nat) (e : End) : Bool :=
  (List.range k).any (fun i => (popenEnds c i).contains e && !taken.contains e)

theorem closedBy_succ (c : Cfg) (taken : List End) (k : Nat) (e : End) :
    closedBy c taken (k + 1) e = (closedBy c taken k e || ((popenEnds c k).contains e && !taken.contains e)) := by
  simp [closedBy, List.range_succ, List.any_append]

theorem closedBy_mono (c : Cfg) (taken : List End) (j k : Nat) (e : End) (hjk : j ≤ k) (h : closedBy c taken j e = true) :
    closedBy c taken k e = true := by
  induction k with
  | zero => have : j = 0 := by omega
            subst this; exact h
  | succ k ih =>
    by_cases hj : j = k + 1
    · subst hj; exact h
    · rw [closedBy_succ, ih (by omega)]; rfl

theorem dropVec_succ (c : Cfg) (taken : List End) (w : Nat → Bool) (k : Nat) :
    dropVec c taken w (k + 1) = dropVec c taken w k ++ dropPopen c taken w k := by
  simp [dropVec, List.range_succ, List.flatMap_append]

theorem dropPopen_held (c : Cfg) (taken : List End) (w : Nat → Bool) (j : Nat) (H : Held) :
    heldAfter H (dropPopen c taken w j) = fun e => if ((popenEnds c j).contains e && !taken.contains e) = true then none else H e := by
  unfold dropPopen
  rw [heldAfter_append, heldAfter_closes, heldAfter_optWait]
  funext e
  simp [List.mem_filter]

/-- what the parent holds after the first k `Popen`s were dropped -/
theorem dropVec_held (c : Cfg) (taken : List End) (w : Nat → Bool) (H : Held) (k : Nat) :
    heldAfter H (dropVec c taken w k) = fun e => if closedBy c taken k e = true then none else H e := by
  induction k with
  | zero => funext e; simp [dropVec, closedBy]
  | succ k ih =>
    rw [dropVec_succ, heldAfter_append, ih, dropPopen_held]
    funext e
    rw [closedBy_succ]
    cases closedBy c taken k e <;> simp

/-- every wait of the drop happens after the `Popen`s up to and including that one released their ends -/
theorem dropVec_waits (P : Held → Prop) (c : Cfg) (taken : List End) (w : Nat → Bool) (H : Held) (k : Nat)
    (hP : ∀ j, j < k → (!c.det j && !w j) = true → P (fun e => if closedBy c taken (j + 1) e = true then none else H e)) :
    WaitsUnder P H (dropVec c taken w k) := by
  induction k with
  | zero => simp [dropVec, WaitsUnder]
  | succ k ih =>
    rw [dropVec_succ, waitsUnder_append]
    refine ⟨ih (fun j hj => hP j (by omega)), ?_⟩
    rw [dropVec_held]
    unfold dropPopen
    rw [waitsUnder_append]
    refine ⟨waitsUnder_closes _ _ _, ?_⟩
    rw [heldAfter_closes]
    have heq : (fun e => if e ∈ List.filter (fun e => !taken.contains e) (popenEnds c k) then none
          else if closedBy c taken k e = true then none else H e) =
        (fun e => if closedBy c taken (k + 1) e = true then none else H e) := by
      funext e
      rw [closedBy_succ]
      cases closedBy c taken k e <;> simp [List.mem_filter]
    rw [heq]
    by_cases hw : (!c.det k && !w k) = true
    · rw [if_pos hw]
      simp only [WaitsUnder, and_true]
      exact hP k (by omega) hw
    · rw [if_neg hw]; simp [WaitsUnder]




theorem capHeld_false : capHeld false = Held.empty := by funext e; simp [capHeld, Held.empty]

/-- a handle whose drop first releases the ends `pre` and then drops the `Popen`s: if everything the
    parent still holds is in `pre` or belongs to the first `Popen`, every wait of the drop happens
    with nothing held -/
theorem drop_waits_nothing_held (c : Cfg) (t : Term) (h : AllStart c) (hcap : capPipe c t = false) (pre : List End)
    (htail : tail c t = [.ret true, .user] ++ pre.map Act.close ++ dropVec c pre noneWaited c.n)
    (hcov : ∀ e, heldStages c Held.empty c.n e ≠ none → e ∈ pre ∨ e ∈ popenEnds c 0) :
    WaitsUnder (fun h => ∀ e, h e = none) Held.empty (runEff c t) := by
  rw [runEff_ok c t h, htail]
  simp only [hcap, Bool.false_eq_true, if_false, List.nil_append, List.append_nil]
  have h0p : ∀ e : End, 1 ≤ e.pipe → Held.empty e = none := fun _ _ => rfl
  have h0e : hasErrPipe c = true → ∀ e, Held.empty e = none := fun _ _ => rfl
  have hst := stages_held c (att2 c t) Held.empty c.n (Nat.le_refl _) h0p h0e
  rw [waitsUnder_append, hst]
  refine ⟨waitsUnder_noWait _ _ _ (noWait_flatMap _ _ (noWait_stageOk c _)), ?_⟩
  rw [waitsUnder_append, waitsUnder_append]
  refine ⟨⟨by simp [WaitsUnder], waitsUnder_closes _ _ _⟩, ?_⟩
  rw [heldAfter_append, heldAfter_closes]
  simp only [heldAfter_cons, heldAfter_nil, stepHeld]
  apply dropVec_waits
  intro j hj _ e
  by_cases hc : closedBy c pre (j + 1) e = true
  · simp [hc]
  · simp only [hc, if_false, Bool.false_eq_true]
    by_cases hp : e ∈ pre
    · simp [hp]
    · simp only [hp, if_false]
      cases hh : heldStages c Held.empty c.n e with
      | none => rfl
      | some b =>
        exfalso
        rcases hcov e (by simp [hh]) with h1 | h1
        · exact hp h1
        · apply hc
          apply closedBy_mono c pre 1 (j + 1) e (by omega)
          simp [closedBy, List.range_succ, h1, hp]




theorem closedBy_of_mem (c : Cfg) (taken : List End) (k i : Nat) (e : End) (hi : i < k)
    (hm : e ∈ popenEnds c i) (ht : e ∉ taken) : closedBy c taken k e = true := by
  simp only [closedBy, List.any_eq_true, List.mem_range]
  exact ⟨i, hi, by simp [hm, ht]⟩

/-- what is held after all n commands were started and the capture pipe's writer was released -/
theorem heldStagesR_cases (c : Cfg) (cap : Bool) (e : End) (hn : 0 < c.n) (hce : hasErrPipe c = true → cap = false)
    (h : heldStages c (capHeldR cap) c.n e ≠ none) :
    (e = ⟨1, .w⟩ ∧ hasInPipe c = true) ∨ (e = ⟨2 + (c.n - 1), .r⟩ ∧ hasOutPipe c (c.n - 1) = true) ∨
    (e = ⟨0, .r⟩ ∧ (hasErrPipe c = true ∨ cap = true)) := by
  have : ¬ c.n = 0 := by omega
  simp only [heldStages, this, if_false] at h
  by_cases h1 : e = ⟨1, .w⟩ ∧ hasInPipe c = true
  · exact Or.inl h1
  · by_cases h2 : e = ⟨2 + (c.n - 1), .r⟩ ∧ hasOutPipe c (c.n - 1) = true
    · exact Or.inr (Or.inl h2)
    · by_cases h3 : hasErrPipe c = true ∧ e = ⟨0, .r⟩
      · exact Or.inr (Or.inr ⟨h3.2, Or.inl h3.1⟩)
      · simp only [h1, h2, h3, if_false] at h
        simp only [capHeldR] at h
        split at h
        · rename_i hc; exact Or.inr (Or.inr ⟨hc.2, Or.inr hc.1⟩)
        · exact absurd rfl h

theorem relW_heldStages (c : Cfg) (cap : Bool) (k : Nat) :
    heldAfter (heldStages c (capHeld cap) k) (if cap then [Act.close ⟨0, .w⟩] else []) = heldStages c (capHeldR cap) k := by
  cases cap
  · have : capHeld false = capHeldR false := by funext e; simp [capHeld, capHeldR]
    simp [this]
  · funext e
    obtain ⟨p, s⟩ := e
    by_cases hk : k = 0
    · subst hk
      cases s <;> by_cases hp : p = 0 <;> simp [heldStages, capHeld, capHeldR, heldAfter, stepHeld, hp]
    · have e1 : ¬ (0 = 2 + (k - 1)) := by omega
      cases s <;> by_cases hp : p = 0 <;> by_cases hp1 : p = 1 <;>
        simp [heldStages, capHeld, capHeldR, heldAfter, stepHeld, hp, hp1, hk, e1] <;> omega


theorem mem_popenEnds_in (c : Cfg) (h : hasInPipe c = true) : (⟨1, .w⟩ : End) ∈ popenEnds c 0 := by simp [popenEnds, h]
theorem mem_popenEnds_err (c : Cfg) (h : hasErrPipe c = true) : (⟨0, .r⟩ : End) ∈ popenEnds c 0 := by simp [popenEnds, h]
theorem mem_popenEnds_out (c : Cfg) (hn : 0 < c.n) (h : hasOutPipe c (c.n - 1) = true) :
    (⟨2 + (c.n - 1), .r⟩ : End) ∈ popenEnds c (c.n - 1) := by
  have : c.n - 1 + 1 = c.n := by omega
  simp [popenEnds, this, h]

/-- **nothing is left**: when the terminator has returned and the handle it returned has been dropped, the parent
    holds no pipe end the library created -- for every terminator, every length, every stream configuration -/
theorem ok_final_empty (c : Cfg) (t : Term) (h : AllStart c) (hn : 0 < c.n) :
    heldAfter Held.empty (runEff c t) = Held.empty := by
  rw [runEff_ok c t h]
  have h0p : ∀ e : End, 1 ≤ e.pipe → capHeld (capPipe c t) e = none := by
    intro e he; simp [capHeld]; omega
  have h0e : hasErrPipe c = true → ∀ e, capHeld (capPipe c t) e = none := by
    intro h e; simp [capHeld, capPipe_errPipe c t h]
  simp only [heldAfter_append, capHeld_pre, stages_held c (att2 c t) _ c.n (Nat.le_refl _) h0p h0e, relW_heldStages]
  generalize hH : heldStages c (capHeldR (capPipe c t)) c.n = H
  have hcases := fun e (he : H e ≠ none) =>
    heldStagesR_cases c (capPipe c t) e hn (fun h => capPipe_errPipe c t h) (by rw [hH]; exact he)
  have hlast : c.n - 1 < c.n := by omega
  have hcapF : ∀ t', (t' = Term.popen ∨ t' = .join ∨ t' = .streamStdout ∨ t' = .streamStderr ∨ t' = .streamStdin) → capPipe c t' = false := by
    intro t' ht; rcases ht with rfl | rfl | rfl | rfl | rfl <;> simp [capPipe]
  cases t with
  | popen =>
    simp only [tail, heldAfter_append, heldAfter_cons, heldAfter_nil, stepHeld, dropVec_held]
    funext e
    show _ = none
    cases hHe : H e with
    | none => simp [hHe]
    | some b =>
      rcases hcases e (by simp [hHe]) with ⟨rfl, hi⟩ | ⟨rfl, ho⟩ | ⟨rfl, hE | hE⟩
      · simp [closedBy_of_mem c [] c.n 0 _ hn (mem_popenEnds_in c hi) (by simp <;> omega)]
      · simp [closedBy_of_mem c [] c.n (c.n - 1) _ hlast (mem_popenEnds_out c hn ho) (by simp <;> omega)]
      · simp [closedBy_of_mem c [] c.n 0 _ hn (mem_popenEnds_err c hE) (by simp <;> omega)]
      · simp [capPipe] at hE
  | streamStderr =>
    simp only [tail, heldAfter_append, heldAfter_cons, heldAfter_nil, stepHeld, dropVec_held]
    funext e
    show _ = none
    cases hHe : H e with
    | none => simp [hHe]
    | some b =>
      rcases hcases e (by simp [hHe]) with ⟨rfl, hi⟩ | ⟨rfl, ho⟩ | ⟨rfl, hE | hE⟩
      · simp [closedBy_of_mem c [] c.n 0 _ hn (mem_popenEnds_in c hi) (by simp <;> omega)]
      · simp [closedBy_of_mem c [] c.n (c.n - 1) _ hlast (mem_popenEnds_out c hn ho) (by simp <;> omega)]
      · simp [closedBy_of_mem c [] c.n 0 _ hn (mem_popenEnds_err c hE) (by simp <;> omega)]
      · simp [capPipe] at hE
  | join =>
    simp only [tail, heldAfter_append, heldAfter_cons, heldAfter_nil, stepHeld, dropVec_held]
    funext e
    show _ = none
    cases hHe : H e with
    | none => simp [hHe]
    | some b =>
      rcases hcases e (by simp [hHe]) with ⟨rfl, hi⟩ | ⟨rfl, ho⟩ | ⟨rfl, hE | hE⟩
      · simp [closedBy_of_mem c [] c.n 0 _ hn (mem_popenEnds_in c hi) (by simp <;> omega)]
      · simp [closedBy_of_mem c [] c.n (c.n - 1) _ hlast (mem_popenEnds_out c hn ho) (by simp <;> omega)]
      · simp [closedBy_of_mem c [] c.n 0 _ hn (mem_popenEnds_err c hE) (by simp <;> omega)]
      · simp [capPipe] at hE
  | streamStdout =>
    simp only [tail, heldAfter_append, heldAfter_cons, heldAfter_nil, stepHeld, dropVec_held]
    funext e
    show _ = none
    cases hHe : H e with
    | none => simp [hHe]
    | some b =>
      rcases hcases e (by simp [hHe]) with ⟨rfl, hi⟩ | ⟨rfl, ho⟩ | ⟨rfl, hE | hE⟩
      · simp [closedBy_of_mem c [⟨2 + (c.n - 1), .r⟩] c.n 0 _ hn (mem_popenEnds_in c hi) (by simp <;> omega)]
      · simp
      · simp [closedBy_of_mem c [⟨2 + (c.n - 1), .r⟩] c.n 0 _ hn (mem_popenEnds_err c hE) (by simp <;> omega)]
      · simp [capPipe] at hE
  | streamStdin =>
    simp only [tail, heldAfter_append, heldAfter_cons, heldAfter_nil, stepHeld, dropVec_held]
    funext e
    show _ = none
    cases hHe : H e with
    | none => simp [hHe]
    | some b =>
      rcases hcases e (by simp [hHe]) with ⟨rfl, hi⟩ | ⟨rfl, ho⟩ | ⟨rfl, hE | hE⟩
      · simp
      · simp [closedBy_of_mem c [⟨1, .w⟩] c.n (c.n - 1) _ hlast (mem_popenEnds_out c hn ho) (by simp <;> omega)]
      · simp [closedBy_of_mem c [⟨1, .w⟩] c.n 0 _ hn (mem_popenEnds_err c hE) (by simp <;> omega)]
      · simp [capPipe] at hE
  | capture =>
    by_cases hio : c.ioFails = true
    · -- the exchange failed: everything the Communicator still held is closed when it is dropped, after the Popens
      simp only [tail, hio, if_true, heldAfter_append, heldAfter_closes, heldAfter_cons, heldAfter_nil, stepHeld, dropVec_held]
      funext e
      show _ = none
      cases hHe : H e with
      | none => simp [hHe]
      | some b =>
        rcases hcases e (by simp [hHe]) with ⟨rfl, hi⟩ | ⟨rfl, ho⟩ | ⟨rfl, hE⟩
        · simp [commEnds, commWriteEnds, hi]
        · simp [commEnds, commReadEnds, ho]
        · have : (capPipe c .capture || hasErrPipe c) = true := by rcases hE with hE | hE <;> simp [hE]
          simp [commEnds, commReadEnds, this]
    · simp only [tail, hio, Bool.false_eq_true, if_false, heldAfter_append, heldAfter_closes, heldAfter_cons, heldAfter_nil, stepHeld, dropVec_held]
      funext e
      show _ = none
      cases hHe : H e with
      | none => simp [hHe]
      | some b =>
        rcases hcases e (by simp [hHe]) with ⟨rfl, hi⟩ | ⟨rfl, ho⟩ | ⟨rfl, hE⟩
        · simp [commEnds, commWriteEnds, hi]
        · simp [commEnds, commReadEnds, ho]
        · have : (capPipe c .capture || hasErrPipe c) = true := by rcases hE with hE | hE <;> simp [hE]
          simp [commEnds, commReadEnds, this]
  | communicate =>
    simp only [tail, heldAfter_append, heldAfter_closes, heldAfter_cons, heldAfter_nil, stepHeld, dropVec_held]
    funext e
    show _ = none
    cases hHe : H e with
    | none => simp [hHe]
    | some b =>
      rcases hcases e (by simp [hHe]) with ⟨rfl, hi⟩ | ⟨rfl, ho⟩ | ⟨rfl, hE⟩
      · simp [commEnds, commWriteEnds, hi]
      · simp [commEnds, commReadEnds, ho]
      · have : (capPipe c .communicate || hasErrPipe c) = true := by rcases hE with hE | hE <;> simp [hE]
        simp [commEnds, commReadEnds, this]

end Pipe

namespace Pipe

/-! ### Cleanup of a failed start when the started commands own arbitrary pipe ends

`Pipeline::popen` after fix e678f50: when a command cannot be started, the pipe ends of ALL commands started so far are
released first, and only then are the `Popen`s dropped (= waited for, unless detached).  `owned j` = what `Popen` j holds
-- any ends at all, e.g. the read end of a stderr pipe of its own.  This is outside `Cfg` (which knows pipeline-level
settings only); the pipe engine checks the real code against it in the `perr=` cases. -/

def releaseAll (owned : List (List End)) : List Act := owned.flatMap (fun es => es.map Act.close)

def waitAll (det : Nat → Bool) (k : Nat) : List Act := (List.range k).flatMap (fun j => if !det j then [Act.wait j] else [])

def cleanupSeq (owned : List (List End)) (det : Nat → Bool) : List Act := releaseAll owned ++ waitAll det owned.length

/-- the order before the fix: each `Popen` releases its own ends and is waited for before the next one is touched -/
def cleanupSeqOld (owned : List (List End)) (det : Nat → Bool) : List Act :=
  (List.range owned.length).flatMap (fun j => (owned.getD j []).map Act.close ++ (if !det j then [Act.wait j] else []))

theorem heldAfter_releaseAll (h : Held) (owned : List (List End)) :
    heldAfter h (releaseAll owned) = fun e => if ∃ es ∈ owned, e ∈ es then none else h e := by
  induction owned generalizing h with
  | nil => simp [releaseAll]
  | cons es rest ih =>
    simp only [releaseAll, List.flatMap_cons] at ih ⊢
    rw [heldAfter_append, heldAfter_closes, ih]
    funext e
    by_cases h1 : e ∈ es
    · simp [h1]
    · by_cases h2 : ∃ es' ∈ rest, e ∈ es'
      · simp [h2]
      · have : ¬ ∃ es' ∈ es :: rest, e ∈ es' := by
          rintro ⟨es', hm, he⟩
          rcases List.mem_cons.mp hm with rfl | hm
          · exact h1 he
          · exact h2 ⟨es', hm, he⟩
        simp [h1, h2, this]

theorem waitsUnder_waitAll_empty (det : Nat → Bool) (k : Nat) :
    WaitsUnder (fun h => ∀ e, h e = none) (fun _ => none) (waitAll det k) := by
  unfold waitAll
  induction k with
  | zero => simp [WaitsUnder]
  | succ k ih =>
    rw [List.range_succ, List.flatMap_append, waitsUnder_append]
    refine ⟨ih, ?_⟩
    have hh : heldAfter (fun _ => none) ((List.range k).flatMap (fun j => if !det j then [Act.wait j] else [])) = fun _ => none := by
      clear ih
      induction k with
      | zero => simp
      | succ k ih2 =>
        rw [List.range_succ, List.flatMap_append, heldAfter_append, ih2]
        simp only [List.flatMap_cons, List.flatMap_nil, List.append_nil]
        split <;> simp [stepHeld]
    rw [hh]
    simp only [List.flatMap_cons, List.flatMap_nil, List.append_nil]
    split <;> simp [WaitsUnder]

/-- ... and with the ends that the commands *not yet started* hold (the pipeline's own `stdout` file sits in the last
    `Exec`, the shared `stderr` file in all of them): the loop's iterator owns those `Exec`s and is dropped by the
    `return`, after the explicit releases and before `ret` (whose drop does the waiting) -/
def cleanupSeqP (pending : List End) (owned : List (List End)) (det : Nat → Bool) : List Act :=
  releaseAll owned ++ pending.map Act.close ++ waitAll det owned.length

/-- a variant that keeps such an end in a local declared before `ret`: it is dropped after the waits -/
def cleanupSeqPLate (pending : List End) (owned : List (List End)) (det : Nat → Bool) : List Act :=
  releaseAll owned ++ waitAll det owned.length ++ pending.map Act.close

end Pipe

import Model.Path
/-! Helper lemmas for C15 / C06 / C17 (core Lean only). -/
namespace Path

theorem splitGo_spec (p cur : List Nat) : splitGo p cur = (splitAll p cur).filter (· ≠ []) := by
  induction p generalizing cur with
  | nil => simp only [splitGo, splitAll]; split <;> simp_all
  | cons c cs ih =>
    simp only [splitGo, splitAll]
    split
    · split
      · rename_i h; simp [h, ih]
      · rename_i h; simp [h, ih]
    · exact ih _

theorem mem_splitGo_nonempty (p cur : List Nat) : ∀ d ∈ splitGo p cur, d ≠ [] := by
  rw [splitGo_spec]; intro d hd; simpa using (List.mem_filter.mp hd).2

theorem le_maxLen (ds : List (List Nat)) : ∀ d ∈ ds, d.length ≤ maxLen ds := by
  induction ds with
  | nil => simp
  | cons x xs ih =>
    intro d hd
    simp only [List.mem_cons] at hd
    simp only [maxLen]
    rcases hd with rfl | hd
    · omega
    · have := ih d hd; omega

theorem searchGo_attempts (fs : List Nat → Option Nat) (cs : List (List Nat)) (e : Nat) :
    ∃ k, (searchGo fs cs e).2 = cs.take k ∧
      (∀ c ∈ ((searchGo fs cs e).2).dropLast, fs c ≠ none) := by
  induction cs generalizing e with
  | nil => exact ⟨0, by simp [searchGo], by simp [searchGo]⟩
  | cons c cs ih =>
    simp only [searchGo]
    cases hc : fs c with
    | none => exact ⟨1, by simp, by simp⟩
    | some e' =>
      obtain ⟨k, hk, hall⟩ := ih e'
      refine ⟨k + 1, by simp [hk], ?_⟩
      simp only
      intro x hx
      cases hs : (searchGo fs cs e').2 with
      | nil => simp [hs] at hx
      | cons y ys =>
        rw [hs] at hx hall
        simp only [List.dropLast_cons₂, List.mem_cons] at hx
        rcases hx with rfl | hx
        · rw [hc]; simp
        · exact hall x hx

end Path

namespace Path

theorem formatEnv_mem (env : List (List Nat × List Nat)) (e : List Nat × List Nat) (h : e ∈ formatEnv env) : e ∈ env := by
  induction env with
  | nil => simp [formatEnv] at h
  | cons x xs ih =>
    obtain ⟨k, v⟩ := x
    simp only [formatEnv] at h
    split at h
    · exact List.mem_cons_of_mem _ (ih h)
    · simp only [List.mem_cons] at h
      rcases h with rfl | h
      · simp
      · exact List.mem_cons_of_mem _ (ih h)

theorem formatEnv_keys_nodup (env : List (List Nat × List Nat)) : ((formatEnv env).map (·.1)).Nodup := by
  induction env with
  | nil => simp [formatEnv]
  | cons x xs ih =>
    obtain ⟨k, v⟩ := x
    simp only [formatEnv]
    split
    · exact ih
    · rename_i hno
      simp only [List.map_cons, List.nodup_cons]
      refine ⟨?_, ih⟩
      intro hk
      obtain ⟨e, he, hek⟩ := List.mem_map.mp hk
      have := formatEnv_mem xs e he
      apply hno
      simp only [List.any_eq_true, beq_iff_eq]
      exact ⟨e, this, hek⟩

theorem formatEnv_sublist (env : List (List Nat × List Nat)) : (formatEnv env).Sublist env := by
  induction env with
  | nil => simp [formatEnv]
  | cons x xs ih =>
    obtain ⟨k, v⟩ := x
    simp only [formatEnv]
    split
    · exact List.Sublist.cons _ ih
    · exact List.Sublist.cons₂ _ ih

theorem lastVal_none_iff (k : List Nat) (env : List (List Nat × List Nat)) :
    lastVal k env = none ↔ ∀ e ∈ env, e.1 ≠ k := by
  induction env with
  | nil => simp [lastVal]
  | cons x xs ih =>
    obtain ⟨k', v⟩ := x
    simp only [lastVal]
    cases hl : lastVal k xs with
    | some v' =>
      simp only [reduceCtorEq, false_iff]
      intro hall
      have := ih.mpr (fun e he => hall e (List.mem_cons_of_mem _ he))
      rw [hl] at this; cases this
    | none =>
      have hx := ih.mp hl
      by_cases hk : k' = k
      · simp [hk]
      · simp only [hk, if_false, true_iff]
        intro e he
        simp only [List.mem_cons] at he
        rcases he with rfl | he
        · exact hk
        · exact hx e he

/-- looking a name up in the formatted environment gives the value of its last occurrence -/
theorem formatEnv_lookup (k : List Nat) (env : List (List Nat × List Nat)) :
    ((formatEnv env).find? (fun e => e.1 == k)).map (·.2) = lastVal k env := by
  induction env with
  | nil => simp [formatEnv, lastVal]
  | cons x xs ih =>
    obtain ⟨k', v⟩ := x
    simp only [formatEnv, lastVal]
    split
    · rename_i hany
      rw [ih]
      cases hl : lastVal k xs with
      | some v' => rfl
      | none =>
        have hx := (lastVal_none_iff k xs).mp hl
        have : k' ≠ k := by
          intro hk
          simp only [List.any_eq_true, beq_iff_eq] at hany
          obtain ⟨e, he, hek⟩ := hany
          exact hx e he (hek.trans hk)
        simp [this]
    · rename_i hany
      by_cases hk : k' = k
      · subst hk
        have : lastVal k' xs = none := by
          rw [lastVal_none_iff]
          intro e he hek
          apply hany
          simp only [List.any_eq_true, beq_iff_eq]
          exact ⟨e, he, hek⟩
        simp [this]
      · have hb : ((k', v).1 == k) = false := by simp [hk]
        simp only [List.find?_cons, hb]
        rw [ih]
        cases hl : lastVal k xs <;> simp [hk]

end Path

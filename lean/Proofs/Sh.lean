import Model.Sh
/-! Helper lemmas for C19 (core Lean only). -/
namespace Sh

theorem nice_ne (c : Char) (hc : niceChar c = true) :
    c ≠ '\'' ∧ c ≠ '\\' ∧ c ≠ ' ' ∧ c ≠ '\t' ∧ c ≠ '|' := by
  refine ⟨?_, ?_, ?_, ?_, ?_⟩ <;> (intro h; subst h; simp [niceChar] at hc)

theorem lstep_nice (s : LS) (c : Char) (hm : s.mode = .plain) (hc : niceChar c = true) :
    lstep s c = { s with cur := s.cur ++ [c], inWord := true } := by
  obtain ⟨h1, h2, h3, h4, h5⟩ := nice_ne c hc
  simp [lstep, hm, h1, h2, h3, h4, h5, hc]

/-- plain (unquoted) text: every nice char is appended -/
theorem fold_nice (w : List Char) (s : LS) (hm : s.mode = .plain) (hw : w.all niceChar = true) :
    w.foldl lstep s = { s with cur := s.cur ++ w, inWord := s.inWord || !w.isEmpty } := by
  induction w generalizing s with
  | nil => simp
  | cons c cs ih =>
    simp only [List.all_cons, Bool.and_eq_true] at hw
    simp only [List.foldl_cons]
    rw [lstep_nice s c hm hw.1, ih _ (by simp [hm]) hw.2]
    simp

/-- inside single quotes the escaped body appends `w` and stays inside the quotes -/
theorem fold_esc (w : List Char) (s : LS) (hm : s.mode = .squote) (hi : s.inWord = true)
    (hq : s.quoted = true) :
    (escQuotes w).foldl lstep s = { s with cur := s.cur ++ w } := by
  induction w generalizing s with
  | nil => simp [escQuotes]
  | cons c cs ih =>
    by_cases hc : c = '\''
    · subst hc
      simp only [escQuotes, if_true, List.foldl_cons]
      have h4 : lstep (lstep (lstep (lstep s '\'') '\\') '\'') '\'' = { s with cur := s.cur ++ ['\''] } := by
        rcases s with ⟨mode, cur, inWord, quoted, words, cmds, bad⟩
        simp only at hm hi hq; subst hm hi hq
        simp [lstep]
      rw [h4, ih _ (by simp [hm]) (by simp [hi]) (by simp [hq])]
      simp
    · simp only [escQuotes, hc, if_false, List.foldl_cons]
      have h1 : lstep s c = { s with cur := s.cur ++ [c] } := by simp [lstep, hm, hc]
      rw [h1, ih _ (by simp [hm]) (by simp [hi]) (by simp [hq])]
      simp

/-- a state at the start of a word -/
structure WordStart (s : LS) : Prop where
  mode : s.mode = .plain
  cur : s.cur = []
  inWord : s.inWord = false
  quoted : s.quoted = false

/-- one rendered word parses to exactly that word -/
theorem fold_word (w : List Char) (s : LS) (hs : WordStart s) :
    (displayEscape w).foldl lstep s = { s with cur := w, inWord := true, quoted := needsQ w } := by
  rcases s with ⟨mode, cur, inWord, quoted, words, cmds, bad⟩
  obtain ⟨hm, hc, hi, hq⟩ := hs
  simp only at hm hc hi hq; subst hm hc hi hq
  unfold displayEscape
  by_cases h : needsQ w = true
  · simp only [h, if_true, List.cons_append, List.foldl_cons, List.foldl_append, List.foldl_nil]
    have h1 : lstep { mode := .plain, cur := [], inWord := false, quoted := false, words := words, cmds := cmds, bad := bad } '\''
        = { mode := .squote, cur := [], inWord := true, quoted := true, words := words, cmds := cmds, bad := bad } := by
      simp [lstep]
    rw [h1, fold_esc w _ rfl rfl rfl]
    simp [lstep]
  · have h' : needsQ w = false := by simpa using h
    simp only [h', Bool.false_eq_true, if_false]
    have hw : w.all niceChar = true ∧ w ≠ [] := by
      simp only [needsQ, Bool.or_eq_false_iff, List.isEmpty_eq_false_iff, Bool.not_eq_false'] at h'
      exact ⟨h'.2, h'.1⟩
    rw [fold_nice w _ rfl hw.1]
    simp [hw.2]

def wordsOf (argv : List (List Char)) : List (List Char × Bool) := argv.map (fun w => (w, needsQ w))

theorem endWord_mode (s : LS) : (endWord s).mode = s.mode := by
  unfold endWord; split <;> rfl

/-- a rendered command: after closing the last word the word list has grown by exactly `argv` -/
theorem fold_cmd (argv : List (List Char)) (hne : argv ≠ []) (s : LS) (hs : WordStart s) :
    let t := (toCmdline argv).foldl lstep s
    t.mode = .plain ∧ endWord t = { s with words := s.words ++ wordsOf argv } := by
  induction argv generalizing s with
  | nil => exact absurd rfl hne
  | cons a rest ih =>
    cases rest with
    | nil =>
      simp only [toCmdline, List.map, joinSp]
      rw [fold_word a s hs]
      rcases s with ⟨mode, cur, inWord, quoted, words, cmds, bad⟩
      obtain ⟨hm, hc, hi, hq⟩ := hs
      simp only at hm hc hi hq; subst hm hc hi hq
      simp [endWord, wordsOf]
    | cons b rest =>
      simp only [toCmdline, List.map, joinSp, List.foldl_append, List.foldl_cons]
      rw [fold_word a s hs]
      rcases s with ⟨mode, cur, inWord, quoted, words, cmds, bad⟩
      obtain ⟨hm, hc, hi, hq⟩ := hs
      simp only at hm hc hi hq; subst hm hc hi hq
      have h1 : lstep { mode := .plain, cur := a, inWord := true, quoted := needsQ a, words := words, cmds := cmds, bad := bad } ' '
          = { mode := .plain, cur := [], inWord := false, quoted := false, words := words ++ [(a, needsQ a)], cmds := cmds, bad := bad } := by
        simp [lstep, endWord]
      rw [h1]
      have := ih (by simp) { mode := .plain, cur := [], inWord := false, quoted := false, words := words ++ [(a, needsQ a)], cmds := cmds, bad := bad }
        ⟨rfl, rfl, rfl, rfl⟩
      simp only [toCmdline, List.map] at this
      refine ⟨this.1, ?_⟩
      rw [this.2]
      simp [wordsOf]

/-- a state at the start of a command -/
structure CmdStart (s : LS) : Prop where
  ws : WordStart s
  words : s.words = []
  bad : s.bad = false

theorem fold_pipeline (stages : List (List (List Char))) (hne : stages ≠ [])
    (hst : ∀ st ∈ stages, st ≠ []) (s : LS) (hs : CmdStart s) :
    let t := (pipelineText stages).foldl lstep s
    t.mode = .plain ∧ t.bad = false ∧
      endWord t = { s with words := wordsOf (stages.getLast hne),
                           cmds := s.cmds ++ (stages.dropLast).map wordsOf } := by
  induction stages generalizing s with
  | nil => exact absurd rfl hne
  | cons a rest ih =>
    have ha : a ≠ [] := hst a (by simp)
    obtain ⟨hws, hwords, hbad⟩ := hs
    have hc := fold_cmd a ha s hws
    simp only at hc
    cases rest with
    | nil =>
      simp only [pipelineText, List.map, joinPipe, List.getLast_singleton, List.dropLast_singleton,
        List.append_nil]
      refine ⟨hc.1, ?_, ?_⟩
      · have := congrArg LS.bad hc.2
        simp only [endWord] at this
        split at this <;> simp_all
      · rw [hc.2, hwords]; simp
    | cons b rest =>
      simp only [pipelineText, List.map, joinPipe, List.foldl_append, List.foldl_cons]
      generalize hT : List.foldl lstep s (toCmdline a) = t at hc
      have h1 : lstep t ' ' = { s with words := wordsOf a } := by
        have : lstep t ' ' = endWord t := by simp [lstep, hc.1]
        rw [this, hc.2, hwords]; simp
      rw [h1]
      have hwa : wordsOf a ≠ [] := by
        cases a with
        | nil => exact absurd rfl ha
        | cons x xs => simp [wordsOf]
      rcases s with ⟨mode, cur, inWord, quoted, words, cmds, bad⟩
      obtain ⟨hm, hcur, hi, hq⟩ := hws
      simp only at hm hcur hi hq hwords hbad; subst hm hcur hi hq hwords hbad
      have h2 : lstep { mode := .plain, cur := [], inWord := false, quoted := false, words := wordsOf a, cmds := cmds, bad := false } '|'
          = { mode := .plain, cur := [], inWord := false, quoted := false, words := [], cmds := cmds ++ [wordsOf a], bad := false } := by
        simp [lstep, endWord, hwa]
      rw [h2]
      have h3 : lstep { mode := .plain, cur := [], inWord := false, quoted := false, words := [], cmds := cmds ++ [wordsOf a], bad := false } ' '
          = { mode := .plain, cur := [], inWord := false, quoted := false, words := [], cmds := cmds ++ [wordsOf a], bad := false } := by
        simp [lstep, endWord]
      rw [h3]
      have := ih (by simp) (fun st h => hst st (by simp [h]))
        { mode := .plain, cur := [], inWord := false, quoted := false, words := [], cmds := cmds ++ [wordsOf a], bad := false }
        ⟨⟨rfl, rfl, rfl, rfl⟩, rfl, rfl⟩
      simp only [pipelineText, List.map] at this
      refine ⟨this.1, this.2.1, ?_⟩
      rw [this.2.2]
      simp [List.getLast_cons, List.dropLast]

end Sh

import Model.WinArgv
/-! Helper lemmas for C20 (core Lean only). -/
namespace WinArgv

theorem fold_bs (v : Variant) (s : PS) (k : Nat) :
    (List.replicate k BS).foldl (pstep v) s =
      if k = 0 then s else { s with bs := s.bs + k, started := true, jc := false } := by
  induction k generalizing s with
  | zero => simp
  | succ k ih =>
    simp only [List.replicate_succ, List.foldl_cons]
    rw [ih]
    simp [pstep]
    split <;> simp_all <;> omega

theorem replicate_snoc (n : Nat) (x : Nat) (l : List Nat) :
    List.replicate n x ++ x :: l = List.replicate (n + 1) x ++ l := by
  rw [List.replicate_succ']; simp

/-- inside quotes the quoted body of `a` followed by the closing quote parses to `a`
    appended to the current argument -/
theorem fold_body (v : Variant) (a : List Nat) (n : Nat) (s : PS)
    (hq : s.inQ = true) (hbs : s.bs = 0) (hjc : s.jc = false) (hst : s.started = true) :
    (quoteBody n a ++ [QT]).foldl (pstep v) s =
      { s with cur := s.cur ++ List.replicate n BS ++ a, bs := 0, inQ := false, jc := true } := by
  induction a generalizing n s with
  | nil =>
    simp only [quoteBody, List.foldl_append, fold_bs, List.foldl_cons, List.foldl_nil]
    rcases s with ⟨inQ, jc, bs, cur, started, acc⟩
    simp only at hq hbs hjc hst; subst hq hbs hjc hst
    by_cases hn : n = 0
    · subst hn; simp [pstep, QT, BS]
    · have : 2 * n ≠ 0 := by omega
      simp [pstep, QT, BS, this]
  | cons c cs ih =>
    rcases s with ⟨inQ, jc, bs, cur, started, acc⟩
    simp only at hq hbs hjc hst; subst hq hbs hjc hst
    by_cases hb : c = BS
    · subst hb
      simp only [quoteBody, if_true]
      rw [ih (n + 1) _ rfl rfl rfl rfl]
      simp [replicate_snoc]
    · by_cases hqt : c = QT
      · subst hqt
        simp only [quoteBody, hb, if_false, if_true, List.append_assoc, List.foldl_append, fold_bs,
          List.cons_append, List.foldl_cons]
        have h1 : (2 * n + 1) % 2 = 1 := by omega
        have h2 : (2 * n + 1) / 2 = n := by omega
        simp only [show 2 * n + 1 ≠ 0 by omega, if_false]
        have : pstep v { inQ := true, jc := false, bs := 0 + (2 * n + 1), cur := cur, started := true, acc := acc } QT
            = { inQ := true, jc := false, bs := 0, cur := cur ++ List.replicate n BS ++ [QT], started := true, acc := acc } := by
          simp [pstep, QT, BS, h1, h2]
        have ih0 := ih 0 { inQ := true, jc := false, bs := 0, cur := cur ++ List.replicate n BS ++ [QT], started := true, acc := acc } rfl rfl rfl rfl
        simp only [List.foldl_append, List.foldl_cons, List.foldl_nil] at ih0
        rw [this]; simp only [List.foldl_nil]; rw [ih0]
        simp
      · simp only [quoteBody, hb, hqt, if_false, List.append_assoc, List.foldl_append, fold_bs,
          List.cons_append, List.foldl_cons]
        have : pstep v (if n = 0 then { inQ := true, jc := false, bs := 0, cur := cur, started := true, acc := acc }
              else { inQ := true, jc := false, bs := 0 + n, cur := cur, started := true, acc := acc }) c
            = { inQ := true, jc := false, bs := 0, cur := cur ++ List.replicate n BS ++ [c], started := true, acc := acc } := by
          by_cases hn : n = 0
          · subst hn; simp [pstep, hb, hqt, flushBs]
          · simp [pstep, hb, hqt, flushBs, hn]
        have ih0 := ih 0 { inQ := true, jc := false, bs := 0, cur := cur ++ List.replicate n BS ++ [c], started := true, acc := acc } rfl rfl rfl rfl
        simp only [List.foldl_append, List.foldl_cons, List.foldl_nil] at ih0
        rw [this]; simp only [List.foldl_nil]; rw [ih0]
        simp

/-- characters of an argument that is emitted without quotes -/
def plainUnit (c : Nat) : Prop := c ≠ SP ∧ c ≠ TAB ∧ c ≠ QT

/-- an unquoted argument: every unit is copied (backslashes via the pending counter) -/
theorem fold_plain (v : Variant) (a : List Nat) (s : PS) (hq : s.inQ = false)
    (ha : ∀ c ∈ a, plainUnit c) :
    let s' := a.foldl (pstep v) s
    s'.inQ = false ∧ flushBs s' = flushBs s ++ a ∧ s'.acc = s.acc ∧
      s'.started = (s.started || !a.isEmpty) := by
  induction a generalizing s with
  | nil => simp [hq]
  | cons c cs ih =>
    have hc := ha c (by simp)
    have hcs : ∀ c ∈ cs, plainUnit c := fun c h => ha c (by simp [h])
    simp only [List.foldl_cons]
    by_cases hb : c = BS
    · subst hb
      have h1 : pstep v s BS = { s with bs := s.bs + 1, started := true, jc := false } := by simp [pstep]
      rw [h1]
      have := ih { s with bs := s.bs + 1, started := true, jc := false } hq hcs
      simp only at this ⊢
      refine ⟨this.1, ?_, this.2.2.1, ?_⟩
      · rw [this.2.1]; simp [flushBs, List.replicate_succ']
      · rw [this.2.2.2]; simp
    · have h1 : pstep v s c = { s with cur := flushBs s ++ [c], bs := 0, started := true, jc := false } := by
        obtain ⟨h1, h2, h3⟩ := hc
        simp [pstep, hb, h3, h1, h2]
      rw [h1]
      have := ih { s with cur := flushBs s ++ [c], bs := 0, started := true, jc := false } hq hcs
      simp only at this ⊢
      refine ⟨this.1, ?_, this.2.2.1, ?_⟩
      · rw [this.2.1]; simp [flushBs]
      · rw [this.2.2.2]; simp

theorem plain_of_not_needsQuote (a : List Nat) (h : needsQuote a = false) :
    a ≠ [] ∧ ∀ c ∈ a, plainUnit c := by
  simp only [needsQuote, Bool.or_eq_false_iff, List.isEmpty_eq_false_iff, List.any_eq_false,
    Bool.or_eq_true, beq_iff_eq, not_or] at h
  refine ⟨h.1, fun c hc => ?_⟩
  have := h.2 c hc
  exact ⟨this.1.1.1.1, this.1.1.1.2, this.2⟩

/-- one rendered argument, parsed from a fresh state -/
theorem fold_arg (v : Variant) (a : List Nat) (acc : List (List Nat)) :
    let s' := (appendQuoted a).foldl (pstep v) (fresh acc)
    s'.inQ = false ∧ flushBs s' = a ∧ s'.acc = acc ∧ s'.started = true := by
  unfold appendQuoted
  by_cases h : needsQuote a = true
  · simp only [h, if_true, List.cons_append, List.foldl_cons]
    have h1 : pstep v (fresh acc) QT =
        { inQ := true, jc := false, bs := 0, cur := [], started := true, acc := acc } := by
      simp [pstep, fresh, QT, BS]
    rw [h1, fold_body v a 0 _ rfl rfl rfl rfl]
    simp [flushBs]
  · have h' : needsQuote a = false := by simpa using h
    obtain ⟨hne, hp⟩ := plain_of_not_needsQuote a h'
    simp only [h', Bool.false_eq_true, if_false]
    have := fold_plain v a (fresh acc) rfl hp
    simp only at this
    refine ⟨this.1, ?_, this.2.2.1, ?_⟩
    · rw [this.2.1]; simp [flushBs, fresh]
    · rw [this.2.2.2]; simp [fresh, hne]

theorem parse_args_acc (v : Variant) (args : List (List Nat)) (acc : List (List Nat)) :
    pfinish ((assembleArgs args).foldl (pstep v) (fresh acc)) = acc ++ args := by
  induction args generalizing acc with
  | nil => simp [assembleArgs, pfinish, fresh]
  | cons a rest ih =>
    cases rest with
    | nil =>
      have := fold_arg v a acc
      simp only at this
      simp only [assembleArgs, pfinish, this.2.2.2, if_true, this.2.2.1, this.2.1]
    | cons b rest =>
      have := fold_arg v a acc
      simp only at this
      simp only [assembleArgs, List.foldl_append, List.foldl_cons]
      have h1 : pstep v ((appendQuoted a).foldl (pstep v) (fresh acc)) SP = fresh (acc ++ [a]) := by
        generalize (appendQuoted a).foldl (pstep v) (fresh acc) = s' at this
        obtain ⟨hq, hf, hacc, hst⟩ := this
        simp [pstep, SP, BS, QT, hq, hst, hf, hacc]
      rw [h1, ih]
      simp

end WinArgv

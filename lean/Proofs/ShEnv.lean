import Proofs.Sh
/-! Helper lemmas for the environment-override part of C19 (core Lean only). -/
namespace Sh

theorem identStart_identChar (c : Char) (h : identStart c = true) : identChar c = true := by
  simp [identChar, h]

theorem identChar_nice (c : Char) (h : identChar c = true) : niceChar c = true := by
  simp only [identChar, identStart, Bool.or_eq_true, Bool.and_eq_true, beq_iff_eq, decide_eq_true_eq] at h
  simp only [niceChar, Bool.or_eq_true, Bool.and_eq_true, beq_iff_eq, decide_eq_true_eq]
  rcases h with ((h | h) | h) | h
  · exact Or.inl (Or.inl (Or.inl (Or.inl (Or.inl (Or.inl (Or.inr h))))))
  · exact Or.inl (Or.inl (Or.inr h))
  · exact Or.inl (Or.inr h)
  · exact Or.inr h

theorem nice_ne_eq (c : Char) (hc : niceChar c = true) : c ≠ '=' := by
  intro h; subst h; simp [niceChar] at hc

theorem ident_all_nice (k : List Char) (h : isIdent k = true) : k.all niceChar = true ∧ k ≠ [] := by
  cases k with
  | nil => simp [isIdent] at h
  | cons c cs =>
    simp only [isIdent, Bool.and_eq_true, List.all_eq_true] at h
    refine ⟨?_, by simp⟩
    simp only [List.all_cons, Bool.and_eq_true, List.all_eq_true]
    exact ⟨identChar_nice c (identStart_identChar c h.1), fun x hx => identChar_nice x (h.2 x hx)⟩

/-- a shell name is printed bare -/
theorem displayEscape_ident (k : List Char) (h : isIdent k = true) : displayEscape k = k := by
  obtain ⟨hn, hne⟩ := ident_all_nice k h
  have : needsQ k = false := by
    cases k with
    | nil => exact absurd rfl hne
    | cons c cs => simp only [needsQ, List.isEmpty_cons, Bool.false_or, hn, Bool.not_true]
  simp [displayEscape, this]

theorem takeAssignTail_ident (cs acc rest : List Char) (h : cs.all identChar = true) :
    takeAssignTail acc (cs ++ '=' :: rest) = some (acc ++ cs, rest) := by
  induction cs generalizing acc with
  | nil => simp [takeAssignTail]
  | cons c cs ih =>
    simp only [List.all_cons, Bool.and_eq_true] at h
    have hne : c ≠ '=' := nice_ne_eq c (identChar_nice c h.1)
    simp only [List.cons_append, takeAssignTail, hne, if_false, h.1, if_true]
    rw [ih _ h.2]; simp

theorem takeAssign_ident (name rest : List Char) (h : isIdent name = true) :
    takeAssign (name ++ '=' :: rest) = some (name, rest) := by
  cases name with
  | nil => simp [isIdent] at h
  | cons c cs =>
    simp only [isIdent, Bool.and_eq_true] at h
    simp only [List.cons_append, takeAssign, h.1, if_true]
    rw [takeAssignTail_ident cs [c] rest h.2]; simp

/-- text that ends a bare word: nothing, or a blank -/
def EndsWord (t : List Char) : Prop := t = [] ∨ ∃ r, t = ' ' :: r

theorem takeAssignTail_nice_none (w acc t : List Char) (hw : w.all niceChar = true) (ht : EndsWord t) :
    takeAssignTail acc (w ++ t) = none := by
  induction w generalizing acc with
  | nil =>
    rcases ht with rfl | ⟨r, rfl⟩
    · simp [takeAssignTail]
    · simp only [List.nil_append, takeAssignTail]
      have h1 : (' ' : Char) ≠ '=' := by decide
      have h2 : identChar ' ' = false := by decide
      simp [h1, h2]
  | cons c cs ih =>
    simp only [List.all_cons, Bool.and_eq_true] at hw
    have hne : c ≠ '=' := nice_ne_eq c hw.1
    simp only [List.cons_append, takeAssignTail, hne, if_false]
    split
    · exact ih _ hw.2
    · rfl

/-- a rendered word followed by the end of the text or a blank is never an assignment: the command
    name cannot be mistaken for one -/
theorem takeAssign_word_none (w t : List Char) (ht : EndsWord t) :
    takeAssign (displayEscape w ++ t) = none := by
  unfold displayEscape
  by_cases h : needsQ w = true
  · simp only [h, if_true, List.cons_append, takeAssign]
    have : identStart '\'' = false := by decide
    simp [this]
  · simp only [h]
    have hq : needsQ w = false := by simpa using h
    simp only [needsQ, Bool.or_eq_false_iff, Bool.not_eq_false'] at hq
    cases w with
    | nil => simp at hq
    | cons c cs =>
      simp only [Bool.false_eq_true, if_false, List.cons_append, takeAssign]
      split
      · have := hq.2
        simp only [List.all_cons, Bool.and_eq_true] at this
        exact takeAssignTail_nice_none cs [c] t this.2 ht
      · rfl

theorem takeAssign_cmdline_none (cmd : List Char) (args : List (List Char)) :
    takeAssign (toCmdline (cmd :: args)) = none := by
  cases args with
  | nil =>
    have := takeAssign_word_none cmd [] (Or.inl rfl)
    simpa [toCmdline, joinSp] using this
  | cons a r =>
    have := takeAssign_word_none cmd (' ' :: joinSp ((a :: r).map displayEscape)) (Or.inr ⟨_, rfl⟩)
    simpa [toCmdline, joinSp] using this

theorem valWord_nice (w rest acc : List Char) (hw : w.all niceChar = true) :
    valWord .plain (w ++ ' ' :: rest) acc = some (acc ++ w, rest) := by
  induction w generalizing acc with
  | nil => simp [valWord]
  | cons c cs ih =>
    simp only [List.all_cons, Bool.and_eq_true] at hw
    obtain ⟨h1, h2, h3, h4, _⟩ := nice_ne c hw.1
    simp only [List.cons_append, valWord, h1, h2, h3, h4, if_false, hw.1, if_true, decide_false, Bool.or_self,
      Bool.false_eq_true]
    rw [ih _ hw.2]; simp

theorem valWord_esc (w rest acc : List Char) :
    valWord .squote (escQuotes w ++ '\'' :: ' ' :: rest) acc = some (acc ++ w, rest) := by
  induction w generalizing acc with
  | nil => simp [escQuotes, valWord]
  | cons c cs ih =>
    by_cases hc : c = '\''
    · subst hc
      simp only [escQuotes, if_true, List.cons_append, valWord]
      have h1 : ('\\' : Char) ≠ '\'' := by decide
      simp only [h1, if_false]
      rw [ih]; simp
    · simp only [escQuotes, hc, if_false, List.cons_append, valWord]
      rw [ih]; simp

/-- the value part of a printed assignment lexes back to the value, and stops after the blank -/
theorem valWord_word (v rest : List Char) :
    valWord .plain (displayEscape v ++ ' ' :: rest) [] = some (v, rest) := by
  unfold displayEscape
  by_cases h : needsQ v = true
  · simp only [h, if_true, List.cons_append, List.append_assoc, valWord]
    have := valWord_esc v rest []
    simpa using this
  · have hq : needsQ v = false := by simpa using h
    simp only [hq, Bool.false_eq_true, if_false]
    simp only [needsQ, Bool.or_eq_false_iff, Bool.not_eq_false'] at hq
    have := valWord_nice v rest [] hq.2
    simpa using this

theorem strip_base (T : List Char) (hT : takeAssign T = none) (n : Nat) : stripAssigns n T = some ([], T) := by
  cases n with
  | zero => rfl
  | succ n => simp [stripAssigns, hT]

theorem strip_sets (sets : List (List Char × List Char)) (U T : List Char)
    (as : List (List Char × List Char)) (k : Nat)
    (hid : ∀ kv ∈ sets, isIdent kv.1 = true)
    (hU : ∀ m, k ≤ m → stripAssigns m U = some (as, T)) :
    ∀ n, sets.length + k ≤ n → stripAssigns n ((sets.map assignText).flatten ++ U) = some (sets ++ as, T) := by
  induction sets with
  | nil => intro n hn; simpa using hU n (by simpa using hn)
  | cons kv sets ih =>
    intro n hn
    obtain ⟨name, v⟩ := kv
    have hname : isIdent name = true := hid (name, v) (by simp)
    cases n with
    | zero => simp at hn
    | succ n =>
      have hn' : sets.length + k ≤ n := by simp at hn; omega
      have ih' := ih (fun kv h => hid kv (by simp [h])) n hn'
      simp only [List.map_cons, List.flatten_cons, assignText, displayEscape_ident name hname,
        List.append_assoc, List.cons_append, List.nil_append, stripAssigns]
      rw [takeAssign_ident name _ hname]
      simp only
      rw [valWord_word v]
      simp only [ih']

theorem strip_unsets (unsets : List (List Char)) (U T : List Char)
    (as : List (List Char × List Char)) (k : Nat)
    (hid : ∀ x ∈ unsets, isIdent x = true)
    (hU : ∀ m, k ≤ m → stripAssigns m U = some (as, T)) :
    ∀ n, unsets.length + k ≤ n →
      stripAssigns n ((unsets.map unsetText).flatten ++ U) = some (unsets.map (fun x => (x, [])) ++ as, T) := by
  induction unsets with
  | nil => intro n hn; simpa using hU n (by simpa using hn)
  | cons name unsets ih =>
    intro n hn
    have hname : isIdent name = true := hid name (by simp)
    cases n with
    | zero => simp at hn
    | succ n =>
      have hn' : unsets.length + k ≤ n := by simp at hn; omega
      have ih' := ih (fun x h => hid x (by simp [h])) n hn'
      simp only [List.map_cons, List.flatten_cons, unsetText, displayEscape_ident name hname,
        List.append_assoc, List.cons_append, List.nil_append, stripAssigns]
      rw [takeAssign_ident name _ hname]
      simp only
      have hv : valWord .plain (' ' :: ((unsets.map unsetText).flatten ++ U)) [] = some ([], (unsets.map unsetText).flatten ++ U) := by
        simp [valWord]
      rw [hv]
      simp only [ih']

theorem assignText_len (kv : List Char × List Char) : 1 ≤ (assignText kv).length := by
  simp [assignText]; omega

theorem unsetText_len (k : List Char) : 1 ≤ (unsetText k).length := by
  simp [unsetText]

theorem flatten_len_ge {α} (f : α → List Char) (l : List α) (h : ∀ a, 1 ≤ (f a).length) :
    l.length ≤ (l.map f).flatten.length := by
  induction l with
  | nil => simp
  | cons a r ih =>
    have := h a
    simp only [List.map_cons, List.flatten_cons, List.length_cons, List.length_append]
    omega

/-! ### What the printed assignments mean, evaluated on top of the parent's environment -/

/-- the shell's variables after the assignments `as`, starting from `e` -/
def assignAll (e : List Char → Option (List Char)) (as : List (List Char × List Char)) : List Char → Option (List Char) :=
  as.foldl (fun e kv => fun k => if k = kv.1 then some kv.2 else e k) e

theorem assignAll_notin (as : List (List Char × List Char)) (e : List Char → Option (List Char)) (k : List Char)
    (h : ∀ kv ∈ as, kv.1 ≠ k) : assignAll e as k = e k := by
  induction as generalizing e with
  | nil => rfl
  | cons a as ih =>
    simp only [assignAll, List.foldl_cons] at ih ⊢
    rw [ih _ (fun kv hkv => h kv (by simp [hkv]))]
    have : a.1 ≠ k := h a (by simp)
    simp [Ne.symm this]

theorem assignAll_mem (as : List (List Char × List Char)) (e : List Char → Option (List Char)) (k v : List Char)
    (hm : (k, v) ∈ as) (hu : ∀ kv ∈ as, kv.1 = k → kv.2 = v) : assignAll e as k = some v := by
  induction as generalizing e with
  | nil => simp at hm
  | cons a as ih =>
    simp only [assignAll, List.foldl_cons] at ih ⊢
    by_cases hin : (k, v) ∈ as
    · exact ih _ hin (fun kv hkv => hu kv (by simp [hkv]))
    · have ha : a = (k, v) := by
        simp only [List.mem_cons] at hm
        rcases hm with h | h
        · exact h.symm
        · exact absurd h hin
      have hno : ∀ kv ∈ as, kv.1 ≠ k := by
        intro kv hkv heq
        have := hu kv (by simp [hkv]) heq
        apply hin
        have : kv = (k, v) := by cases kv; simp_all
        rw [← this]; exact hkv
      have := assignAll_notin as (fun k' => if k' = a.1 then some a.2 else e k') k hno
      simp only [assignAll] at this
      rw [this, ha]; simp

end Sh

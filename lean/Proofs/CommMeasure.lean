import Proofs.CommReady
import Proofs.CommLim
/-!
  Termination of the communicate loop (no time limit in force): a measure on the whole system
  (library + pipes + child script) that every step of either party strictly decreases, the
  single-stream shortcut invariant, and progress (whenever the call has not returned, the library
  or the child can move).
-/
set_option linter.unusedSimpArgs false
namespace Comm

def b2n (b : Bool) : Nat := if b then 1 else 0

def cost : CAct → Nat
  | .write _ d => 1 + 2 * d.length
  | _ => 1

def scriptCost : List CAct → Nat
  | [] => 0
  | a :: l => cost a + scriptCost l

/-- everything that still has to happen: bytes to move (a byte not yet in a pipe counts twice: it
    will enter the pipe and leave it), streams to retire, script actions to run -/
def work (p : Par) (w : World) : Nat :=
  2 * p.input.length + w.inBuf.length + b2n p.stdin + w.outBuf.length + b2n p.outRef + w.errBuf.length + b2n p.errRef +
  scriptCost w.script + b2n w.inRd + b2n w.outWr + b2n w.errWr

def rank : PC → Nat
  | .poll _ _ => 5
  | .wr _ _ => 4
  | .closeIn _ _ => 3
  | .rdOut _ => 2
  | .rdErr => 1
  | .done _ => 0
  | _ => 6

def mu (s : Sys) : Nat := 6 * work s.par s.w + rank s.par.pc

@[simp] theorem b2n_false : b2n false = 0 := rfl
@[simp] theorem b2n_true : b2n true = 1 := rfl

theorem clamp_bounds (n lo hi : Nat) (h : lo ≤ hi) : lo ≤ clamp n lo hi ∧ clamp n lo hi ≤ hi := by
  unfold clamp; omega

theorem child_dec (p : Par) (w w' : World) (c : Choice) (h : childStep p w c = some w') : work p w' < work p w := by
  unfold childStep at h
  split at h
  · -- script empty: the final close
    split at h
    · rename_i hf
      simp only [Option.some.injEq] at h; subst h
      simp only [work, b2n, scriptCost]
      simp only [Bool.or_eq_true] at hf
      rcases hf with (hf | hf) | hf <;> simp [hf] <;> (repeat' split) <;> omega
    · simp at h
  · -- sleep
    rename_i rest hs
    simp only [Option.some.injEq] at h; subst h
    simp only [work, hs, scriptCost, cost]; omega
  · -- closeIn
    rename_i rest hs
    simp only [Option.some.injEq] at h; subst h
    simp only [work, hs, scriptCost, cost, b2n_false]; omega
  · rename_i rest hs
    simp only [Option.some.injEq] at h; subst h
    simp only [work, hs, scriptCost, cost, b2n_false]; omega
  · rename_i rest hs
    simp only [Option.some.injEq] at h; subst h
    simp only [work, hs, scriptCost, cost, b2n_false]; omega
  · -- readIn
    rename_i k rest hs
    split at h
    · simp only [Option.some.injEq] at h; subst h; simp only [work, hs, scriptCost, cost]; omega
    · split at h
      · split at h
        · simp at h
        · simp only [Option.some.injEq] at h; subst h; simp only [work, hs, scriptCost, cost]; omega
      · rename_i hc hb
        simp only [Option.some.injEq] at h; subst h
        simp only [Bool.or_eq_true, not_or, decide_eq_true_eq] at hc
        have hlen : 1 ≤ w.inBuf.length := by
          cases hh : w.inBuf with
          | nil => exact absurd hh hb
          | cons _ _ => simp
        have hk : 1 ≤ k := by omega
        have := clamp_bounds c.n 1 (min k w.inBuf.length) (by omega)
        simp only [work, hs, scriptCost, cost, List.length_drop]
        omega
  · -- write out
    rename_i d rest hs
    split at h
    · simp only [Option.some.injEq] at h; subst h; simp only [work, hs, scriptCost, cost]; omega
    · split at h
      · simp at h
      · rename_i hc hfull
        simp only [Option.some.injEq] at h; subst h
        simp only [Bool.or_eq_true, not_or, decide_eq_true_eq] at hc
        have hd : 1 ≤ d.length := by
          cases hh : d with
          | nil => exact absurd hh hc.1.2
          | cons _ _ => simp
        have := clamp_bounds c.n 1 (min d.length (w.capOut - w.outBuf.length)) (by omega)
        simp only [work, hs, scriptCost, cost, List.length_append, List.length_take]
        split <;> (try simp only [scriptCost, cost, List.length_drop]) <;> omega
  · -- write err
    rename_i d rest hs
    split at h
    · simp only [Option.some.injEq] at h; subst h; simp only [work, hs, scriptCost, cost]; omega
    · split at h
      · simp at h
      · rename_i hc hfull
        simp only [Option.some.injEq] at h; subst h
        simp only [Bool.or_eq_true, not_or, decide_eq_true_eq] at hc
        have hd : 1 ≤ d.length := by
          cases hh : d with
          | nil => exact absurd hh hc.1.2
          | cons _ _ => simp
        have := clamp_bounds c.n 1 (min d.length (w.capErr - w.errBuf.length)) (by omega)
        simp only [work, hs, scriptCost, cost, List.length_append, List.length_take]
        split <;> (try simp only [scriptCost, cost, List.length_drop]) <;> omega

def noClkPc : PC → Bool
  | .poll none _ | .wr _ _ | .closeIn _ _ | .rdOut _ | .rdErr | .done _ => true
  | _ => false

/-- no time limit is in force: no deadline, and the program counter is outside the clock-reading states -/
def NoTime (p : Par) : Prop := p.deadline = none ∧ noClkPc p.pc = true

def parWork (p : Par) : Nat := 2 * p.input.length + b2n p.stdin + b2n p.outRef + b2n p.errRef
def worldWork (w : World) : Nat :=
  w.inBuf.length + w.outBuf.length + w.errBuf.length + scriptCost w.script + b2n w.inRd + b2n w.outWr + b2n w.errWr

theorem work_split (p : Par) (w : World) : work p w = parWork p + worldWork w := by
  simp only [work, parWork, worldWork]; omega

theorem rank_le (pc : PC) (h : noClkPc pc = true) : rank pc ≤ 5 := by
  cases pc <;> simp_all [noClkPc, rank]

theorem loopTop_same (p : Par) : parWork (loopTop p) = parWork p ∧ (loopTop p).deadline = p.deadline := by
  unfold loopTop
  (repeat' split) <;> simp [parWork]

theorem loopTop_noClk (p : Par) (h : p.deadline = none) : noClkPc (loopTop p).pc = true := by
  unfold loopTop
  (repeat' split) <;> simp_all [noClkPc]

theorem rdChainErr_same (p : Par) (e : Bool) : parWork (rdChainErr p e) = parWork p ∧ (rdChainErr p e).deadline = p.deadline := by
  unfold rdChainErr; split
  · simp [parWork]
  · exact loopTop_same p

theorem rdChainErr_noClk (p : Par) (e : Bool) (h : p.deadline = none) : noClkPc (rdChainErr p e).pc = true := by
  unfold rdChainErr; split
  · simp [noClkPc]
  · exact loopTop_noClk p h

theorem rdChain_same (p : Par) (o e : Bool) : parWork (rdChain p o e) = parWork p ∧ (rdChain p o e).deadline = p.deadline := by
  unfold rdChain; split
  · simp [parWork]
  · exact rdChainErr_same p e

theorem rdChain_noClk (p : Par) (o e : Bool) (h : p.deadline = none) : noClkPc (rdChain p o e).pc = true := by
  unfold rdChain; split
  · simp [noClkPc]
  · exact rdChainErr_noClk p e h

theorem afterPoll_same (p : Par) (i o e : Bool) : parWork (afterPoll p i o e) = parWork p ∧ (afterPoll p i o e).deadline = p.deadline := by
  unfold afterPoll
  split
  · simp [parWork]
  · split
    · simp [parWork]
    · have := rdChain_same { p with polled := true, viaPoll := true } o e
      simpa [parWork] using this

/-- after a `poll` the library does not come straight back to `poll`: it writes, reads, or returns -/
theorem afterPoll_rank (p : Par) (i o e : Bool) (h : p.deadline = none) :
    rank (afterPoll p i o e).pc ≤ 4 ∧ noClkPc (afterPoll p i o e).pc = true := by
  unfold afterPoll
  split
  · simp [rank, noClkPc]
  · split
    · simp [rank, noClkPc]
    · rename_i h1 h2
      unfold rdChain
      split
      · simp [rank, noClkPc]
      · unfold rdChainErr
        split
        · simp [rank, noClkPc]
        · rename_i h3 h4
          -- neither read happens although a stream was ready: the size limit is reached
          have hl : limitHit { p with polled := true, viaPoll := true } = true := by
            cases i <;> cases o <;> cases e <;> simp_all
          unfold loopTop
          simp [hl, rank, noClkPc]


theorem mu_lt_of (p p' : Par) (w w' : World)
    (h : 6 * (parWork p' + worldWork w') + rank p'.pc < 6 * (parWork p + worldWork w) + rank p.pc) :
    mu ⟨p', w'⟩ < mu ⟨p, w⟩ := by
  simp only [mu, work_split]; exact h

theorem parStep_some (p p' : Par) (w w' : World) (c : Choice) (h : parStep p w c = some (p', w')) :
    ∃ r data w1, answer w (pendingCall p) c = some (r, data, w1) ∧ p' = feed p r data ∧ w' = pushIn p r w1 := by
  unfold parStep at h
  split at h
  · simp at h
  · rename_i r data w1 ha
    simp only [Option.some.injEq, Prod.mk.injEq] at h
    exact ⟨r, data, w1, ha, h.1.symm, h.2.symm⟩

theorem par_dec_poll (p p' : Par) (w w' : World) (c : Choice) (hd : p.deadline = none) (dl2 : Nat)
    (hp : p.pc = .poll none dl2) (h : parStep p w c = some (p', w')) :
    mu ⟨p', w'⟩ < mu ⟨p, w⟩ ∧ NoTime p' := by
  obtain ⟨r, data, w1, ha, rfl, rfl⟩ := parStep_some p _ w _ c h
  simp only [pendingCall, hp, Option.map_none] at ha
  cases hcf : c.fault with
  | some e =>
    simp only [answer, hcf, Option.some.injEq, Prod.mk.injEq] at ha
    obtain ⟨rfl, rfl, rfl⟩ := ha
    simp only [feed, hp, pushIn]
    refine ⟨mu_lt_of _ _ _ _ ?_, hd, by simp [noClkPc]⟩
    simp [parWork, worldWork, rank, hp]
  | none =>
    simp only [answer, hcf] at ha
    split at ha
    · simp only [Option.some.injEq, Prod.mk.injEq] at ha
      obtain ⟨rfl, rfl, rfl⟩ := ha
      simp only [feed, hp, pushIn, Bool.not_false, Bool.or_true, if_true]
      have hs := afterPoll_same p (p.stdin && ((if p.stdin = true then revIn w else noRev).pout || (if p.stdin = true then revIn w else noRev).phup || (if p.stdin = true then revIn w else noRev).perr))
          (p.outRef && ((if p.outRef = true then revOut w else noRev).pin || (if p.outRef = true then revOut w else noRev).phup || (if p.outRef = true then revOut w else noRev).perr))
          (p.errRef && ((if p.errRef = true then revErr w else noRev).pin || (if p.errRef = true then revErr w else noRev).phup || (if p.errRef = true then revErr w else noRev).perr))
      have hk := afterPoll_rank p (p.stdin && ((if p.stdin = true then revIn w else noRev).pout || (if p.stdin = true then revIn w else noRev).phup || (if p.stdin = true then revIn w else noRev).perr))
          (p.outRef && ((if p.outRef = true then revOut w else noRev).pin || (if p.outRef = true then revOut w else noRev).phup || (if p.outRef = true then revOut w else noRev).perr))
          (p.errRef && ((if p.errRef = true then revErr w else noRev).pin || (if p.errRef = true then revErr w else noRev).phup || (if p.errRef = true then revErr w else noRev).perr)) hd
      refine ⟨mu_lt_of _ _ _ _ ?_, by rw [hs.2]; exact hd, hk.2⟩
      rw [hs.1]
      have hr5 : rank p.pc = 5 := by rw [hp]; rfl
      have hk1 := hk.1
      simp only [worldWork]
      omega
    · simp at ha

theorem clamp_lo_le (n lo hi : Nat) : lo ≤ clamp n lo hi := by unfold clamp; omega

theorem par_dec_wr (p p' : Par) (w w' : World) (c : Choice) (hd : p.deadline = none) (o e : Bool)
    (hp : p.pc = .wr o e) (h : parStep p w c = some (p', w')) :
    mu ⟨p', w'⟩ < mu ⟨p, w⟩ ∧ NoTime p' := by
  obtain ⟨r, data, w1, ha, rfl, rfl⟩ := parStep_some p _ w _ c h
  simp only [pendingCall, hp] at ha
  have hr4 : rank p.pc = 4 := by rw [hp]; rfl
  have herr : ∀ (e' : Nat) (t : Nat),
      mu ⟨feed p (.err e') [], pushIn p (.err e') { w with now := t, since := t }⟩ < mu ⟨p, w⟩ ∧ NoTime (feed p (.err e') []) := by
    intro e' t
    simp only [feed, hp, pushIn]
    refine ⟨mu_lt_of _ _ _ _ ?_, hd, by simp [noClkPc]⟩
    rw [hr4]
    simp only [parWork, worldWork, rank]; omega
  cases hcf : c.fault with
  | some e' =>
    simp only [answer, hcf, Option.some.injEq, Prod.mk.injEq] at ha
    obtain ⟨rfl, rfl, rfl⟩ := ha
    exact herr e' _
  | none =>
    simp only [answer, hcf] at ha
    split at ha
    · simp only [Option.some.injEq, Prod.mk.injEq] at ha
      obtain ⟨rfl, rfl, rfl⟩ := ha
      exact herr EPIPE _
    · split at ha
      · -- nothing to write: zero-length write, then close
        rename_i hm
        simp only [Option.some.injEq, Prod.mk.injEq] at ha
        obtain ⟨rfl, rfl, rfl⟩ := ha
        have hlen : p.input.length = 0 := by
          simp only [WRITE_SIZE] at hm; omega
        simp only [feed, hp, pushIn, hlen, if_true, List.take_zero, List.append_nil]
        refine ⟨mu_lt_of _ _ _ _ ?_, hd, by simp [noClkPc]⟩
        rw [hr4]
        simp only [parWork, worldWork, rank, List.length_nil]; omega
      · split at ha
        · simp at ha
        · rename_i hin hm hfull
          simp only [Option.some.injEq, Prod.mk.injEq] at ha
          obtain ⟨rfl, rfl, rfl⟩ := ha
          have hb := clamp_bounds c.n 1 (min (min WRITE_SIZE p.input.length) (w.capIn - w.inBuf.length)) (by simp only [WRITE_SIZE] at hm ⊢; omega)
          generalize hk : clamp c.n 1 (min (min WRITE_SIZE p.input.length) (w.capIn - w.inBuf.length)) = k at *
          simp only [feed, hp, pushIn]
          split
          · rename_i hkl
            refine ⟨mu_lt_of _ _ _ _ ?_, hd, by simp [noClkPc]⟩
            rw [hr4]
            simp only [parWork, worldWork, rank, List.length_nil, List.length_append, List.length_take]; omega
          · rename_i hkl
            refine ⟨mu_lt_of _ _ _ _ ?_, (rdChain_same _ o e).2.trans hd, rdChain_noClk _ o e hd⟩
            rw [(rdChain_same _ o e).1, hr4]
            have := rank_le _ (rdChain_noClk { p with input := p.input.drop k, pc := PC.wr o e } o e hd)
            simp only [parWork, worldWork, List.length_append, List.length_take, List.length_drop]; omega

theorem par_dec_closeIn (p p' : Par) (w w' : World) (c : Choice) (hd : p.deadline = none) (o e : Bool)
    (hp : p.pc = .closeIn o e) (hst : p.stdin = true) (h : parStep p w c = some (p', w')) :
    mu ⟨p', w'⟩ < mu ⟨p, w⟩ ∧ NoTime p' := by
  obtain ⟨r, data, w1, ha, rfl, rfl⟩ := parStep_some p _ w _ c h
  simp only [pendingCall, hp] at ha
  have hr3 : rank p.pc = 3 := by rw [hp]; rfl
  cases hcf : c.fault with
  | some e' => simp [answer, hcf] at ha
  | none =>
    simp only [answer, hcf, Option.some.injEq, Prod.mk.injEq] at ha
    obtain ⟨rfl, rfl, rfl⟩ := ha
    simp only [feed, hp, pushIn]
    refine ⟨mu_lt_of _ _ _ _ ?_, (rdChain_same _ o e).2.trans hd, rdChain_noClk _ o e hd⟩
    rw [(rdChain_same _ o e).1, hr3]
    have := rank_le _ (rdChain_noClk { p with stdin := false, pc := PC.closeIn o e } o e hd)
    simp only [parWork, worldWork, hst, b2n_true, b2n_false]; omega


theorem par_dec_rdOut (p p' : Par) (w w' : World) (c : Choice) (hd : p.deadline = none) (e : Bool)
    (hp : p.pc = .rdOut e) (hst : p.outRef = true) (h : parStep p w c = some (p', w')) :
    mu ⟨p', w'⟩ < mu ⟨p, w⟩ ∧ NoTime p' := by
  obtain ⟨r, data, w1, ha, rfl, rfl⟩ := parStep_some p _ w _ c h
  simp only [pendingCall, hp] at ha
  have hr2 : rank p.pc = 2 := by rw [hp]; rfl
  cases hcf : c.fault with
  | some e' =>
    simp only [answer, hcf, Option.some.injEq, Prod.mk.injEq] at ha
    obtain ⟨rfl, rfl, rfl⟩ := ha
    simp only [feed, hp, pushIn]
    refine ⟨mu_lt_of _ _ _ _ ?_, hd, by simp [noClkPc]⟩
    rw [hr2]
    simp only [parWork, worldWork, rank]; omega
  | none =>
    simp only [answer, hcf] at ha
    split at ha
    · split at ha
      · simp at ha
      · -- end-of-file: the stream is retired
        simp only [Option.some.injEq, Prod.mk.injEq] at ha
        obtain ⟨rfl, rfl, rfl⟩ := ha
        simp only [feed, hp, pushIn, if_true]
        refine ⟨mu_lt_of _ _ _ _ ?_, (rdChainErr_same _ e).2.trans hd, rdChainErr_noClk _ e hd⟩
        rw [(rdChainErr_same _ e).1, hr2]
        have := rank_le _ (rdChainErr_noClk { p with outRef := false, pc := PC.rdOut e } e hd)
        simp only [parWork, worldWork, hst, b2n_true, b2n_false]; omega
    · rename_i hne
      simp only [Option.some.injEq, Prod.mk.injEq] at ha
      obtain ⟨rfl, rfl, rfl⟩ := ha
      have hk := clamp_lo_le c.n 1 (min (readSize p) w.outBuf.length)
      generalize clamp c.n 1 (min (readSize p) w.outBuf.length) = k at *
      have hk0 : ¬ k = 0 := by omega
      have hlen : 1 ≤ w.outBuf.length := by
        cases hh : w.outBuf with
        | nil => exact absurd hh hne
        | cons _ _ => simp
      simp only [feed, hp, pushIn, hk0, if_false]
      refine ⟨mu_lt_of _ _ _ _ ?_, (rdChainErr_same _ e).2.trans hd, rdChainErr_noClk _ e hd⟩
      rw [(rdChainErr_same _ e).1, hr2]
      have := rank_le _ (rdChainErr_noClk { p with outvec := p.outvec ++ List.take k w.outBuf, pc := PC.rdOut e } e hd)
      simp only [parWork, worldWork, List.length_drop]; omega

theorem par_dec_rdErr (p p' : Par) (w w' : World) (c : Choice) (hd : p.deadline = none)
    (hp : p.pc = .rdErr) (hst : p.errRef = true) (h : parStep p w c = some (p', w')) :
    mu ⟨p', w'⟩ < mu ⟨p, w⟩ ∧ NoTime p' := by
  obtain ⟨r, data, w1, ha, rfl, rfl⟩ := parStep_some p _ w _ c h
  simp only [pendingCall, hp] at ha
  have hr1 : rank p.pc = 1 := by rw [hp]; rfl
  cases hcf : c.fault with
  | some e' =>
    simp only [answer, hcf, Option.some.injEq, Prod.mk.injEq] at ha
    obtain ⟨rfl, rfl, rfl⟩ := ha
    simp only [feed, hp, pushIn]
    refine ⟨mu_lt_of _ _ _ _ ?_, hd, by simp [noClkPc]⟩
    rw [hr1]
    simp only [parWork, worldWork, rank]; omega
  | none =>
    simp only [answer, hcf] at ha
    split at ha
    · split at ha
      · simp at ha
      · simp only [Option.some.injEq, Prod.mk.injEq] at ha
        obtain ⟨rfl, rfl, rfl⟩ := ha
        simp only [feed, hp, pushIn, if_true]
        refine ⟨mu_lt_of _ _ _ _ ?_, (loopTop_same _).2.trans hd, loopTop_noClk _ hd⟩
        rw [(loopTop_same _).1, hr1]
        have := rank_le _ (loopTop_noClk { p with errRef := false, pc := PC.rdErr } hd)
        simp only [parWork, worldWork, hst, b2n_true, b2n_false]; omega
    · rename_i hne
      simp only [Option.some.injEq, Prod.mk.injEq] at ha
      obtain ⟨rfl, rfl, rfl⟩ := ha
      have hk := clamp_lo_le c.n 1 (min (readSize p) w.errBuf.length)
      generalize clamp c.n 1 (min (readSize p) w.errBuf.length) = k at *
      have hk0 : ¬ k = 0 := by omega
      have hlen : 1 ≤ w.errBuf.length := by
        cases hh : w.errBuf with
        | nil => exact absurd hh hne
        | cons _ _ => simp
      simp only [feed, hp, pushIn, hk0, if_false]
      refine ⟨mu_lt_of _ _ _ _ ?_, (loopTop_same _).2.trans hd, loopTop_noClk _ hd⟩
      rw [(loopTop_same _).1, hr1]
      have := rank_le _ (loopTop_noClk { p with errvec := p.errvec ++ List.take k w.errBuf, pc := PC.rdErr } hd)
      simp only [parWork, worldWork, List.length_drop]; omega

theorem par_done_stuck (p : Par) (w : World) (c : Choice) (r : Res) (hp : p.pc = .done r) : parStep p w c = none := by
  unfold parStep
  simp only [pendingCall, hp]
  cases hcf : c.fault <;> simp [answer, hcf]


theorem par_dec (p p' : Par) (w w' : World) (c : Choice) (hr : Ready p w) (hn : NoTime p)
    (h : parStep p w c = some (p', w')) : mu ⟨p', w'⟩ < mu ⟨p, w⟩ ∧ NoTime p' := by
  obtain ⟨hd, hpc⟩ := hn
  cases hp : p.pc with
  | poll tmo dl2 =>
    cases tmo with
    | none => exact par_dec_poll p p' w w' c hd dl2 hp h
    | some t => rw [hp] at hpc; simp [noClkPc] at hpc
  | wr o e => exact par_dec_wr p p' w w' c hd o e hp h
  | closeIn o e =>
    simp only [Ready, hp] at hr
    exact par_dec_closeIn p p' w w' c hd o e hp hr.1 h
  | rdOut e =>
    simp only [Ready, hp] at hr
    exact par_dec_rdOut p p' w w' c hd e hp hr.1 h
  | rdErr =>
    simp only [Ready, hp] at hr
    exact par_dec_rdErr p p' w w' c hd hp hr.1 h
  | done r => rw [par_done_stuck p w c r hp] at h; simp at h
  | clkStart => rw [hp] at hpc; simp [noClkPc] at hpc
  | clkLoop => rw [hp] at hpc; simp [noClkPc] at hpc
  | clkPoll => rw [hp] at hpc; simp [noClkPc] at hpc
  | clkPoll2 t => rw [hp] at hpc; simp [noClkPc] at hpc
  | clkPoll3 t => rw [hp] at hpc; simp [noClkPc] at hpc

/-- every step of either party strictly decreases the measure (no time limit in force) -/
theorem step_dec (s s' : Sys) (who : Who) (c : Choice) (hr : Ready s.par s.w) (hn : NoTime s.par)
    (h : step s who c = some s') : mu s' < mu s ∧ NoTime s'.par := by
  cases who with
  | parent =>
    simp only [step, Option.map_eq_some_iff] at h
    obtain ⟨⟨p', w'⟩, hs, rfl⟩ := h
    exact par_dec s.par p' s.w w' c hr hn hs
  | child =>
    simp only [step, Option.map_eq_some_iff] at h
    obtain ⟨w', hs, rfl⟩ := h
    refine ⟨?_, hn⟩
    have := child_dec s.par s.w w' c hs
    simp only [mu]; omega

def noStart : Ev → Bool
  | .start _ _ => false
  | _ => true

theorem startRead_noTime (p : Par) (l : Option Nat) : NoTime (startRead p l none) := by
  simp only [startRead]
  exact ⟨(loopTop_same _).2.trans rfl, loopTop_noClk _ rfl⟩

/-- if no stream the library still owns is ready, the child is not blocked: it can make a step -/
theorem child_can_step (p : Par) (w : World) (heof : EofInv p w)
    (hcap : 4096 ≤ w.capIn ∧ 1 ≤ w.capOut ∧ 1 ≤ w.capErr)
    (hi : p.stdin = false ∨ (¬ (w.inBuf.length + 4096 ≤ w.capIn) ∧ w.inRd = true))
    (ho : p.outRef = false ∨ (w.outBuf = [] ∧ w.outWr = true))
    (he : p.errRef = false ∨ (w.errBuf = [] ∧ w.errWr = true))
    (hready : (p.stdin || p.outRef || p.errRef) = true) :
    ∃ w', childStep p w {} = some w' := by
  unfold childStep
  cases hs : w.script with
  | nil =>
    simp only
    by_cases hopen : (w.inRd || w.outWr || w.errWr) = true
    · simp [hopen]
    · exfalso
      simp only [Bool.or_eq_true, not_or, Bool.not_eq_true] at hopen
      obtain ⟨⟨h1, h2⟩, h3⟩ := hopen
      have a1 : p.stdin = false := by rcases hi with hi | hi; exact hi; rw [h1] at hi; cases hi.2
      have a2 : p.outRef = false := by rcases ho with ho | ho; exact ho; rw [h2] at ho; cases ho.2
      have a3 : p.errRef = false := by rcases he with he | he; exact he; rw [h3] at he; cases he.2
      simp [a1, a2, a3] at hready
  | cons a rest =>
    cases a with
    | sleep => exact ⟨_, rfl⟩
    | closeIn => exact ⟨_, rfl⟩
    | close s => cases s <;> exact ⟨_, rfl⟩
    | readIn k =>
      simp only
      split
      · exact ⟨_, rfl⟩
      · split
        · rename_i hcond hbuf
          have a1 : p.stdin = false := by
            rcases hi with hi | hi
            · exact hi
            · exfalso; apply hi.1; rw [hbuf]; simp only [List.length_nil]; omega
          simp [a1]
        · exact ⟨_, rfl⟩
    | write s d =>
      cases s with
      | out =>
        simp only
        split
        · exact ⟨_, rfl⟩
        · rename_i hcond
          split
          · rename_i hfull
            exfalso
            simp only [Bool.or_eq_true, Bool.not_eq_true', decide_eq_true_eq, not_or, Bool.not_eq_false] at hcond
            obtain ⟨⟨hwr, _⟩, hho⟩ := hcond
            have hne : w.outBuf ≠ [] := by
              intro h0; rw [h0] at hfull; simp only [List.length_nil] at hfull; omega
            have a2 : p.outRef = false := by
              rcases ho with ho | ho
              · exact ho
              · exact absurd ho.1 hne
            have := (heof.1 hho a2).2
            rw [this] at hwr; cases hwr
          · exact ⟨_, rfl⟩
      | err =>
        simp only
        split
        · exact ⟨_, rfl⟩
        · rename_i hcond
          split
          · rename_i hfull
            exfalso
            simp only [Bool.or_eq_true, Bool.not_eq_true', decide_eq_true_eq, not_or, Bool.not_eq_false] at hcond
            obtain ⟨⟨hwr, _⟩, hhe⟩ := hcond
            have hne : w.errBuf ≠ [] := by
              intro h0; rw [h0] at hfull; simp only [List.length_nil] at hfull; omega
            have a3 : p.errRef = false := by
              rcases he with he | he
              · exact he
              · exact absurd he.1 hne
            have := (heof.2 hhe a3).2
            rw [this] at hwr; cases hwr
          · exact ⟨_, rfl⟩

/-- when the ready flags do not come from a `poll` (single-stream shortcut), exactly the one
    stream the program counter is about to touch is still owned -/
def shortPc (p : Par) : Prop :=
  match p.pc with
  | .wr o e => o = false ∧ e = false ∧ p.outRef = false ∧ p.errRef = false
  | .closeIn o e => o = false ∧ e = false ∧ p.outRef = false ∧ p.errRef = false
  | .rdOut e => e = false ∧ p.stdin = false ∧ p.errRef = false
  | .rdErr => p.stdin = false ∧ p.outRef = false
  | _ => True

def Short (p : Par) : Prop := (p.viaPoll = false → shortPc p) ∧ (p.stdin = true → p.hasIn = true)

theorem loopTop_short (p : Par) (h : p.stdin = true → p.hasIn = true) : Short (loopTop p) := by
  unfold loopTop
  (repeat' split) <;> simp_all [Short, shortPc]

theorem rdChainErr_short (p : Par) (e : Bool) (h : p.stdin = true → p.hasIn = true)
    (hv : p.viaPoll = false → e = false) : Short (rdChainErr p e) := by
  unfold rdChainErr
  split
  · rename_i hc
    refine ⟨?_, h⟩
    intro hvp; simp only at hvp
    have := hv hvp; subst this; simp at hc
  · exact loopTop_short p h

theorem rdChain_short (p : Par) (o e : Bool) (h : p.stdin = true → p.hasIn = true)
    (hv : p.viaPoll = false → o = false ∧ e = false) : Short (rdChain p o e) := by
  unfold rdChain
  split
  · rename_i hc
    refine ⟨?_, h⟩
    intro hvp; simp only at hvp
    have := (hv hvp).1; subst this; simp at hc
  · exact rdChainErr_short p e h (fun hvp => (hv hvp).2)

theorem afterPoll_short (p : Par) (i o e : Bool) (h : p.stdin = true → p.hasIn = true) : Short (afterPoll p i o e) := by
  unfold afterPoll
  split
  · exact ⟨by simp, h⟩
  · split
    · exact ⟨by simp, h⟩
    · exact rdChain_short _ o e h (by simp)

theorem feed_short (p : Par) (r : Resp) (data : List UInt8) (hs : Short p) : Short (feed p r data) := by
  obtain ⟨hv, hin⟩ := hs
  have triv : ∀ q : Par, q.stdin = p.stdin → q.hasIn = p.hasIn → shortPc q → Short q :=
    fun q h1 h2 h3 => ⟨fun _ => h3, by rw [h1, h2]; exact hin⟩
  cases hpc : p.pc with
  | wr o e =>
    cases r with
    | n k =>
      simp only [feed, hpc]
      split
      · refine ⟨?_, hin⟩
        intro hvp
        have := hv hvp
        simp only [shortPc, hpc] at this
        simpa [shortPc] using this
      · refine rdChain_short _ o e (fun h => hin h) ?_
        intro hvp
        have := hv hvp
        simp only [shortPc, hpc] at this
        exact ⟨this.1, this.2.1⟩
    | _ => simp only [feed, hpc]; exact triv _ rfl rfl (by simp [shortPc])
  | closeIn o e =>
    have : Short (rdChain { p with stdin := false } o e) := by
      apply rdChain_short _ o e (by simp)
      intro hvp
      have := hv hvp
      simp only [shortPc, hpc] at this
      exact ⟨this.1, this.2.1⟩
    cases r <;> simp only [feed, hpc] <;> exact this
  | rdOut e =>
    have he : p.viaPoll = false → e = false := by
      intro hvp; have := hv hvp; simp only [shortPc, hpc] at this; exact this.1
    cases r with
    | n k =>
      simp only [feed, hpc]
      split
      · exact rdChainErr_short _ e (fun h => hin h) he
      · exact rdChainErr_short _ e (fun h => hin h) he
    | _ => simp only [feed, hpc]; exact triv _ rfl rfl (by simp [shortPc])
  | rdErr =>
    cases r with
    | n k =>
      simp only [feed, hpc]
      split
      · exact loopTop_short _ (fun h => hin h)
      · exact loopTop_short _ (fun h => hin h)
    | _ => simp only [feed, hpc]; exact triv _ rfl rfl (by simp [shortPc])
  | done r0 => cases r <;> simp only [feed, hpc] <;> exact ⟨hv, hin⟩
  | clkStart =>
    cases r with
    | time t => simp only [feed, hpc]; exact loopTop_short _ (fun h => hin h)
    | _ => simp only [feed, hpc]; exact triv _ rfl rfl (by simp [shortPc])
  | clkLoop =>
    cases r with
    | time t =>
      simp only [feed, hpc]
      (repeat' split) <;> exact triv _ rfl rfl (by simp [shortPc])
    | _ => simp only [feed, hpc]; exact triv _ rfl rfl (by simp [shortPc])
  | clkPoll =>
    cases r with
    | time t =>
      simp only [feed, hpc]
      (repeat' split) <;> exact triv _ rfl rfl (by simp [shortPc])
    | _ => simp only [feed, hpc]; exact triv _ rfl rfl (by simp [shortPc])
  | clkPoll2 tmo =>
    cases r <;> simp only [feed, hpc] <;> exact triv _ rfl rfl (by simp [shortPc])
  | clkPoll3 dl2 =>
    cases r with
    | time t =>
      simp only [feed, hpc]
      split
      · exact afterPoll_short _ _ _ _ hin
      · exact triv _ rfl rfl (by simp [shortPc])
    | _ => simp only [feed, hpc]; exact triv _ rfl rfl (by simp [shortPc])
  | poll tmo dl2 =>
    cases r with
    | revs i o e =>
      cases tmo with
      | none =>
        simp only [feed, hpc]
        split
        · exact afterPoll_short _ _ _ _ hin
        · exact triv _ rfl rfl (by simp [shortPc])
      | some t =>
        simp only [feed, hpc]
        split
        · exact afterPoll_short _ _ _ _ hin
        · exact triv _ rfl rfl (by simp [shortPc])
    | _ => simp only [feed, hpc]; exact triv _ rfl rfl (by simp [shortPc])


theorem sessStep_short (ss ss' : Sess) (e : Ev) (h : Short ss.sys.par) (hs : sessStep ss e = some ss') : Short ss'.sys.par := by
  cases e with
  | child c =>
    simp only [sessStep, Option.map_eq_some_iff] at hs
    obtain ⟨w', _, rfl⟩ := hs; exact h
  | parent c =>
    simp only [sessStep, Option.map_eq_some_iff] at hs
    obtain ⟨⟨p', w'⟩, hw, rfl⟩ := hs
    unfold parStep at hw
    split at hw
    · simp at hw
    · simp only [Option.some.injEq, Prod.mk.injEq] at hw
      obtain ⟨rfl, _⟩ := hw
      exact feed_short _ _ _ h
  | start l t =>
    simp only [sessStep] at hs
    split at hs
    · simp only [Option.some.injEq] at hs; subst hs
      simp only [startRead]
      cases t with
      | some t => exact ⟨by simp [shortPc], h.2⟩
      | none => exact loopTop_short _ (fun hh => h.2 hh)
    · simp at hs

theorem reach_short (stdin : Bool) (input : List UInt8) (hasOut hasErr : Bool) (w0 : World) (evs : List Ev) (ss : Sess)
    (h : runSess (initSess stdin input hasOut hasErr w0) evs = some ss) : Short ss.sys.par := by
  have h0 : Short (initSess stdin input hasOut hasErr w0).sys.par := by
    simp [initSess, mkPar, Short, shortPc]
  generalize initSess stdin input hasOut hasErr w0 = s0 at *
  induction evs generalizing s0 with
  | nil => simp only [runSess, Option.some.injEq] at h; subst h; exact h0
  | cons e es ih =>
    simp only [runSess] at h
    split at h
    · rename_i s2 hs2; exact ih s2 h (sessStep_short _ _ e h0 hs2)
    · simp at h

theorem parStep_of_answer (p : Par) (w : World) (c : Choice) (x : Resp × List UInt8 × World)
    (h : answer w (pendingCall p) c = some x) : ∃ p' w', parStep p w c = some (p', w') := by
  obtain ⟨r, data, w1⟩ := x
  refine ⟨feed p r data, pushIn p r w1, ?_⟩
  simp [parStep, h]

/-- **progress**: while the call has not returned (no time limit), the library or the child can move -/
theorem progress_core (p : Par) (w : World) (hr : Ready p w) (hs : Short p) (heof : EofInv p w) (hn : NoTime p)
    (hcap : 4096 ≤ w.capIn ∧ 1 ≤ w.capOut ∧ 1 ≤ w.capErr) (hnd : isDone p = false) :
    (∃ p' w', parStep p w {} = some (p', w')) ∨ (∃ w', childStep p w {} = some w') := by
  obtain ⟨hd, hpc⟩ := hn
  cases hp : p.pc with
  | poll tmo dl2 =>
    cases tmo with
    | some t => rw [hp] at hpc; simp [noClkPc] at hpc
    | none =>
      cases ha : answer w (pendingCall p) {} with
      | some x => exact Or.inl (parStep_of_answer p w {} x ha)
      | none =>
        right
        simp only [pendingCall, hp, answer, Option.map_none] at ha
        have hnr : ((p.stdin && (revIn w).any) || (p.outRef && (revOut w).any) || (p.errRef && (revErr w).any)) = false := by
          cases hc : ((p.stdin && (revIn w).any) || (p.outRef && (revOut w).any) || (p.errRef && (revErr w).any)) with
          | false => rfl
          | true => simp [hc] at ha
        simp only [Bool.or_eq_false_iff, Bool.and_eq_false_iff, revIn, revOut, revErr, Rev.any, Bool.or_false,
          Bool.false_or, decide_eq_false_iff_not, Bool.not_eq_false', Bool.or_eq_false_iff, Bool.not_eq_eq_eq_not,
          Bool.not_false, Bool.not_true] at hnr
        obtain ⟨⟨hi, ho⟩, he⟩ := hnr
        have hready : (p.stdin || p.outRef || p.errRef) = true := by simpa [Ready, hp] using hr
        refine child_can_step p w heof hcap ?_ ?_ ?_ hready
        · rcases hi with hi | hi
          · exact Or.inl hi
          · exact Or.inr hi
        · rcases ho with ho | ho
          · exact Or.inl ho
          · exact Or.inr ⟨by simpa using ho.1, ho.2⟩
        · rcases he with he | he
          · exact Or.inl he
          · exact Or.inr ⟨by simpa using he.1, he.2⟩
  | wr o e =>
    simp only [Ready, hp] at hr
    cases ha : answer w (pendingCall p) {} with
    | some x => exact Or.inl (parStep_of_answer p w {} x ha)
    | none =>
      right
      simp only [pendingCall, hp, answer] at ha
      split at ha
      · simp at ha
      · split at ha
        · simp at ha
        · split at ha
          · rename_i hin hm hfull
            cases hv : p.viaPoll with
            | true =>
              exfalso
              have := (hr.2.2.2 hv).1
              simp only [Bool.not_eq_true', Bool.not_eq_false] at hin
              rcases this with h1 | h1
              · omega
              · rw [h1] at hin; cases hin
            | false =>
              have hsp := hs.1 hv
              simp only [shortPc, hp] at hsp
              refine child_can_step p w heof hcap (Or.inr ⟨by omega, by simpa using hin⟩) (Or.inl hsp.2.2.1) (Or.inl hsp.2.2.2) (by simp [hr.1])
          · simp at ha
  | closeIn o e =>
    left
    refine parStep_of_answer p w {} (Resp.ok, [], { w with now := w.now + 0, since := w.now + 0 }) ?_
    simp [pendingCall, hp, answer]
  | rdOut e =>
    simp only [Ready, hp] at hr
    cases ha : answer w (pendingCall p) {} with
    | some x => exact Or.inl (parStep_of_answer p w {} x ha)
    | none =>
      right
      simp only [pendingCall, hp, answer] at ha
      split at ha
      · rename_i hbuf
        split at ha
        · rename_i hwr
          cases hv : p.viaPoll with
          | true =>
            exfalso
            rcases (hr.2.2 hv).1 with h1 | h1
            · exact h1 hbuf
            · rw [h1] at hwr; cases hwr
          | false =>
            have hsp := hs.1 hv
            simp only [shortPc, hp] at hsp
            exact child_can_step p w heof hcap (Or.inl hsp.2.1) (Or.inr ⟨hbuf, hwr⟩) (Or.inl hsp.2.2) (by simp [hr.1])
        · simp at ha
      · simp at ha
  | rdErr =>
    simp only [Ready, hp] at hr
    cases ha : answer w (pendingCall p) {} with
    | some x => exact Or.inl (parStep_of_answer p w {} x ha)
    | none =>
      right
      simp only [pendingCall, hp, answer] at ha
      split at ha
      · rename_i hbuf
        split at ha
        · rename_i hwr
          cases hv : p.viaPoll with
          | true =>
            exfalso
            rcases hr.2 hv with h1 | h1
            · exact h1 hbuf
            · rw [h1] at hwr; cases hwr
          | false =>
            have hsp := hs.1 hv
            simp only [shortPc, hp] at hsp
            exact child_can_step p w heof hcap (Or.inl hsp.1) (Or.inl hsp.2) (Or.inr ⟨hbuf, hwr⟩) (by simp [hr.1])
        · simp at ha
      · simp at ha
  | done r => simp [isDone, hp] at hnd
  | clkStart => rw [hp] at hpc; simp [noClkPc] at hpc
  | clkLoop => rw [hp] at hpc; simp [noClkPc] at hpc
  | clkPoll => rw [hp] at hpc; simp [noClkPc] at hpc
  | clkPoll2 t => rw [hp] at hpc; simp [noClkPc] at hpc
  | clkPoll3 t => rw [hp] at hpc; simp [noClkPc] at hpc

end Comm

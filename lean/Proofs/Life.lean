import Model.Life
/-! Helper lemmas for C09, C10, C11 (core Lean only). -/
namespace Life

/-- what an operation returns once the status is known -/
def retFin (op : Op) (st : ExitStatus) : Ret :=
  match op with
  | .poll | .wait | .waitTimeout _ | .exitStatus => .status st
  | .pid => .none
  | _ => .ok

/-- `Finished` is absorbing: no system call, the state stays, only `detach` touches the flag -/
theorem runOp_finished (op : Op) (st : ExitStatus) (det : Bool) (rs : List Resp) :
    runOp op ⟨.finished st, det⟩ rs =
      ⟨⟨.finished st, det || (op == .detach)⟩, retFin op st, [], rs⟩ := by
  cases op <;> simp [runOp, poll, waitTimeout, wait, sendSignal, retFin]

/-- entries of a log that are `waitpid` answers justifying the report of status `s` -/
def Justifies (pid : Nat) (s : ExitStatus) (e : Call × Resp) : Prop :=
  (∃ nh w, e = (.waitpid pid nh, .wp pid w) ∧ s = decode w) ∨
  (∃ nh, e = (.waitpid pid nh, .err ECHILD) ∧ s = .undetermined)

theorem osWait_status (pid : Nat) (det : Bool) (rs : List Resp) (s : ExitStatus)
    (h : (osWait pid det rs).ret = .status s) :
    (osWait pid det rs).p.st = .finished s ∧ ∃ e ∈ (osWait pid det rs).log, Justifies pid s e := by
  induction rs with
  | nil => simp [osWait] at h
  | cons r rs ih =>
    cases r with
    | err e =>
      simp only [osWait] at h ⊢
      split at h
      · rename_i he
        simp only [Ret.status.injEq] at h
        subst h he
        simp only [if_true, true_and]
        exact ⟨_, List.mem_singleton.mpr rfl, Or.inr ⟨false, rfl, rfl⟩⟩
      · simp at h
    | wp po w =>
      simp only [osWait] at h ⊢
      split at h
      · rename_i hp
        simp only [Ret.status.injEq] at h
        subst hp
        simp only [if_true]
        refine ⟨by rw [h], _, List.mem_singleton.mpr rfl, Or.inl ⟨false, w, rfl, h.symm⟩⟩
      · rename_i hp
        simp only [hp, if_false, Out.pre] at h ⊢
        obtain ⟨h1, e, he, hj⟩ := ih h
        exact ⟨h1, e, List.mem_append_right _ he, hj⟩
    | ok => simp [osWait] at h
    | time t => simp [osWait] at h
    | pending => simp [osWait] at h

theorem wtLoop_status (pid : Nat) (det : Bool) (dl delay : Nat) (rs : List Resp) (s : ExitStatus)
    (h : (wtLoop pid det dl delay rs).ret = .status s) :
    (wtLoop pid det dl delay rs).p.st = .finished s ∧
      ∃ e ∈ (wtLoop pid det dl delay rs).log, Justifies pid s e := by
  induction delay, rs using wtLoop.induct pid dl with
  | case1 => unfold wtLoop at h; simp at h
  | case2 delay rs =>
    unfold wtLoop at h ⊢
    simp only [if_true, Ret.status.injEq] at h ⊢
    subst h
    exact ⟨rfl, _, List.mem_singleton.mpr rfl, Or.inr ⟨true, rfl, rfl⟩⟩
  | case3 delay e rs he => unfold wtLoop at h; simp [he] at h
  | case4 delay w rs =>
    unfold wtLoop at h ⊢
    simp only [if_true, Ret.status.injEq] at h ⊢
    exact ⟨by rw [h], _, List.mem_singleton.mpr rfl, Or.inl ⟨true, w, rfl, h.symm⟩⟩
  | case5 delay po w hp => unfold wtLoop at h; simp [hp] at h
  | case6 delay po w hp now rs2 hd => unfold wtLoop at h; simp [hp, hd] at h
  | case7 delay po w hp now hd => unfold wtLoop at h; simp [hp, hd] at h
  | case8 delay po w hp now hd r3 rs3 ih =>
    unfold wtLoop at h ⊢
    simp only [hp, hd, if_false, Out.pre] at h ⊢
    obtain ⟨h1, e, he, hj⟩ := ih h
    exact ⟨h1, e, List.mem_append_right _ he, hj⟩
  | case9 delay po w hp r2 rs2 hr =>
    unfold wtLoop at h
    cases r2 <;> simp_all
  | case10 delay r rs h1 h2 =>
    unfold wtLoop at h
    cases r <;> simp_all

/-- the return value `none` of the time-out loop: the last clock reading is at or past the deadline -/
theorem wtLoop_none (pid : Nat) (det : Bool) (dl delay : Nat) (rs : List Resp)
    (h : (wtLoop pid det dl delay rs).ret = .none) :
    (wtLoop pid det dl delay rs).p.st = .running pid ∧
      ∃ now, (Call.clock, Resp.time now) ∈ (wtLoop pid det dl delay rs).log ∧ dl ≤ now := by
  induction delay, rs using wtLoop.induct pid dl with
  | case1 => unfold wtLoop at h; simp at h
  | case2 delay rs => unfold wtLoop at h; simp at h
  | case3 delay e rs he => unfold wtLoop at h; simp [he] at h
  | case4 delay w rs => unfold wtLoop at h; simp at h
  | case5 delay po w hp => unfold wtLoop at h; simp [hp] at h
  | case6 delay po w hp now rs2 hd =>
    unfold wtLoop at h ⊢
    simp only [hp, hd, if_false, if_true] at h ⊢
    exact ⟨trivial, now, by simp, hd⟩
  | case7 delay po w hp now hd => unfold wtLoop at h; simp [hp, hd] at h
  | case8 delay po w hp now hd r3 rs3 ih =>
    unfold wtLoop at h ⊢
    simp only [hp, hd, if_false, Out.pre] at h ⊢
    obtain ⟨h1, t, ht, hle⟩ := ih h
    exact ⟨h1, t, List.mem_append_right _ ht, hle⟩
  | case9 delay po w hp r2 rs2 hr =>
    unfold wtLoop at h
    cases r2 <;> simp_all
  | case10 delay r rs h1 h2 =>
    unfold wtLoop at h
    cases r <;> simp_all

def isKill (e : Call × Resp) : Bool := match e.1 with | .kill _ _ => true | _ => false
def isBlockingWait (e : Call × Resp) : Bool := match e.1 with | .waitpid _ false => true | _ => false
def isSleep (e : Call × Resp) : Bool := match e.1 with | .sleep _ => true | _ => false
def isWaitpid (e : Call × Resp) : Bool := match e.1 with | .waitpid _ _ => true | _ => false

theorem osWait_log (pid : Nat) (det : Bool) (rs : List Resp) :
    ∀ e ∈ (osWait pid det rs).log, e.1 = .waitpid pid false := by
  induction rs with
  | nil => simp [osWait]
  | cons r rs ih =>
    cases r with
    | err e => simp only [osWait]; split <;> simp
    | wp po w =>
      simp only [osWait]
      split
      · simp
      · simp only [Out.pre, List.mem_append, List.mem_singleton]
        rintro e (rfl | he)
        · rfl
        · exact ih e he
    | ok => simp [osWait]
    | time t => simp [osWait]
    | pending => simp [osWait]

/-- calls of the time-out loop: non-blocking `waitpid` on the child, clock reads, sleeps of at most
    100 ms -/
theorem wtLoop_log (pid : Nat) (det : Bool) (dl delay : Nat) (rs : List Resp) (hd : delay ≤ 100 * ms) :
    ∀ e ∈ (wtLoop pid det dl delay rs).log,
      e.1 = .waitpid pid true ∨ e.1 = .clock ∨ ∃ x, e.1 = .sleep x ∧ x ≤ 100 * ms := by
  induction delay, rs using wtLoop.induct pid dl with
  | case1 => unfold wtLoop; simp
  | case2 delay rs => unfold wtLoop; simp
  | case3 delay e rs he => unfold wtLoop; simp [he]
  | case4 delay w rs => unfold wtLoop; simp
  | case5 delay po w hp => unfold wtLoop; simp [hp]
  | case6 delay po w hp now rs2 hd' => unfold wtLoop; simp [hp, hd']
  | case7 delay po w hp now hd' =>
    unfold wtLoop
    simp only [hp, hd', if_false, List.mem_cons, List.not_mem_nil, or_false]
    rintro e (rfl | rfl | rfl)
    · simp
    · simp
    · exact Or.inr (Or.inr ⟨_, rfl, Nat.le_trans (Nat.min_le_left _ _) hd⟩)
  | case8 delay po w hp now hd' r3 rs3 ih =>
    unfold wtLoop
    simp only [hp, hd', if_false, Out.pre, List.mem_append, List.mem_cons, List.not_mem_nil, or_false]
    rintro e ((rfl | rfl | rfl) | he)
    · simp
    · simp
    · exact Or.inr (Or.inr ⟨_, rfl, Nat.le_trans (Nat.min_le_left _ _) hd⟩)
    · exact ih (Nat.min_le_right _ _) e he
  | case9 delay po w hp r2 rs2 hr =>
    unfold wtLoop
    cases r2 <;> simp_all
  | case10 delay r rs h1 h2 =>
    unfold wtLoop
    cases r <;> simp_all

/-- a `waitpid` answer that reaps the child (carries its pid) or says somebody else did (`ECHILD`) -/
def reapEntry (pid : Nat) (e : Call × Resp) : Bool :=
  match e with
  | (.waitpid q _, .wp po _) => q == pid && po == pid
  | (.waitpid q _, .err x) => q == pid && x == ECHILD
  | _ => false

theorem osWait_reap (pid : Nat) (det : Bool) (rs : List Resp) :
    ∀ e ∈ (osWait pid det rs).log, reapEntry pid e = true → ∃ s, (osWait pid det rs).p.st = .finished s := by
  induction rs with
  | nil => simp [osWait, reapEntry]
  | cons r rs ih =>
    cases r with
    | err e =>
      simp only [osWait]
      split
      · intro _ _ _; exact ⟨_, rfl⟩
      · rename_i he; simp [reapEntry, he]
    | wp po w =>
      simp only [osWait]
      split
      · intro _ _ _; exact ⟨_, rfl⟩
      · rename_i hp
        simp only [Out.pre, List.mem_append, List.mem_singleton]
        rintro e (rfl | he) hr
        · simp [reapEntry, hp] at hr
        · exact ih e he hr
    | ok => simp [osWait, reapEntry]
    | time t => simp [osWait, reapEntry]
    | pending => simp [osWait, reapEntry]

theorem wtLoop_reap (pid : Nat) (det : Bool) (dl delay : Nat) (rs : List Resp) :
    ∀ e ∈ (wtLoop pid det dl delay rs).log, reapEntry pid e = true →
      ∃ s, (wtLoop pid det dl delay rs).p.st = .finished s := by
  induction delay, rs using wtLoop.induct pid dl with
  | case1 => unfold wtLoop; simp [reapEntry]
  | case2 delay rs => unfold wtLoop; simp
  | case3 delay e rs he => unfold wtLoop; simp [he, reapEntry]
  | case4 delay w rs => unfold wtLoop; simp
  | case5 delay po w hp => unfold wtLoop; simp [hp, reapEntry]
  | case6 delay po w hp now rs2 hd' => unfold wtLoop; simp [hp, hd', reapEntry]
  | case7 delay po w hp now hd' => unfold wtLoop; simp [hp, hd', reapEntry]
  | case8 delay po w hp now hd' r3 rs3 ih =>
    unfold wtLoop
    simp only [hp, hd', if_false, Out.pre, List.mem_append, List.mem_cons, List.not_mem_nil, or_false]
    rintro e ((rfl | rfl | rfl) | he) hr
    · simp [reapEntry, hp] at hr
    · simp [reapEntry] at hr
    · simp [reapEntry] at hr
    · exact ih e he hr
  | case9 delay po w hp r2 rs2 hr =>
    unfold wtLoop
    cases r2 <;> simp_all [reapEntry]
  | case10 delay r rs h1 h2 =>
    unfold wtLoop
    cases r <;> simp_all [reapEntry]

/-- the state after an operation on a running child is still `Running` with the same pid, or
    `Finished` -/
theorem osWait_state (pid : Nat) (det : Bool) (rs : List Resp) :
    (osWait pid det rs).p = ⟨.running pid, det⟩ ∨ ∃ s, (osWait pid det rs).p = ⟨.finished s, det⟩ := by
  induction rs with
  | nil => simp [osWait]
  | cons r rs ih =>
    cases r with
    | err e => simp only [osWait]; split <;> simp
    | wp po w => simp only [osWait]; split <;> simp [Out.pre, ih]
    | ok => simp [osWait]
    | time t => simp [osWait]
    | pending => simp [osWait]

theorem wtLoop_state (pid : Nat) (det : Bool) (dl delay : Nat) (rs : List Resp) :
    (wtLoop pid det dl delay rs).p = ⟨.running pid, det⟩ ∨
      ∃ s, (wtLoop pid det dl delay rs).p = ⟨.finished s, det⟩ := by
  induction delay, rs using wtLoop.induct pid dl with
  | case1 => unfold wtLoop; simp
  | case2 delay rs => unfold wtLoop; simp
  | case3 delay e rs he => unfold wtLoop; simp [he]
  | case4 delay w rs => unfold wtLoop; simp
  | case5 delay po w hp => unfold wtLoop; simp [hp]
  | case6 delay po w hp now rs2 hd' => unfold wtLoop; simp [hp, hd']
  | case7 delay po w hp now hd' => unfold wtLoop; simp [hp, hd']
  | case8 delay po w hp now hd' r3 rs3 ih =>
    unfold wtLoop
    simp only [hp, hd', if_false, Out.pre]
    exact ih
  | case9 delay po w hp r2 rs2 hr =>
    unfold wtLoop
    cases r2 <;> simp_all
  | case10 delay r rs h1 h2 =>
    unfold wtLoop
    cases r <;> simp_all

end Life

namespace Life

/-- `wait_timeout` answers "still running" only right after a status check that said so and a clock reading at or
    past the deadline: never after a nap that was not followed by another check -/
theorem wtLoop_none_ends_with_check (pid : Nat) (det : Bool) (dl delay : Nat) (rs : List Resp) :
    (wtLoop pid det dl delay rs).ret = .none →
      ∃ pre po w now, (wtLoop pid det dl delay rs).log = pre ++ [(.waitpid pid true, .wp po w), (.clock, .time now)] ∧
        po ≠ pid ∧ dl ≤ now := by
  induction delay, rs using wtLoop.induct pid dl with
  | case1 => unfold wtLoop; simp
  | case2 delay rs => unfold wtLoop; simp
  | case3 delay e rs he => unfold wtLoop; simp [he]
  | case4 delay w rs => unfold wtLoop; simp
  | case5 delay po w hp => unfold wtLoop; simp [hp]
  | case6 delay po w hp now rs2 hd' =>
    unfold wtLoop
    simp only [hp, hd', if_false, if_true]
    intro _
    exact ⟨[], po, w, now, rfl, hp, hd'⟩
  | case7 delay po w hp now hd' => unfold wtLoop; simp [hp, hd']
  | case8 delay po w hp now hd' r3 rs3 ih =>
    unfold wtLoop
    simp only [hp, hd', if_false, Out.pre]
    intro h
    obtain ⟨pre, po', w', now', hl, hne, hle⟩ := ih h
    exact ⟨_ ++ pre, po', w', now', by rw [hl, List.append_assoc], hne, hle⟩
  | case9 delay po w hp r2 rs2 hr =>
    unfold wtLoop
    cases r2 <;> simp_all
  | case10 delay r rs h1 h2 =>
    unfold wtLoop
    cases r <;> simp_all

/-- every nap directly follows a clock reading `now` that is still before the deadline, is not empty (no busy-waiting
    by zero-length naps) and does not reach past the deadline (`nap ≤ deadline - now`) -/
def NapsOK (dl : Nat) : List (Call × Resp) → Prop
  | [] => True
  | (.clock, .time now) :: (.sleep x, _) :: l => now < dl ∧ 0 < x ∧ x ≤ dl - now ∧ NapsOK dl l
  | (.sleep _, _) :: _ => False
  | _ :: l => NapsOK dl l

theorem wtLoop_naps (pid : Nat) (det : Bool) (dl delay : Nat) (rs : List Resp) (hd : 0 < delay) :
    NapsOK dl (wtLoop pid det dl delay rs).log := by
  induction delay, rs using wtLoop.induct pid dl with
  | case1 => unfold wtLoop; simp [NapsOK]
  | case2 delay rs => unfold wtLoop; simp [NapsOK]
  | case3 delay e rs he => unfold wtLoop; simp [he, NapsOK]
  | case4 delay w rs => unfold wtLoop; simp [NapsOK]
  | case5 delay po w hp => unfold wtLoop; simp [hp, NapsOK]
  | case6 delay po w hp now rs2 hd' => unfold wtLoop; simp [hp, hd', NapsOK]
  | case7 delay po w hp now hd' =>
    unfold wtLoop
    simp only [hp, hd', if_false, NapsOK]
    refine ⟨by omega, by omega, by omega, trivial⟩
  | case8 delay po w hp now hd' r3 rs3 ih =>
    unfold wtLoop
    simp only [hp, hd', if_false, Out.pre, List.cons_append, List.nil_append, NapsOK]
    have h100 : 0 < 100 * ms := by simp [ms]
    refine ⟨by omega, by omega, by omega, ih (by omega)⟩
  | case9 delay po w hp r2 rs2 hr =>
    unfold wtLoop
    cases r2 <;> simp_all [NapsOK]
  | case10 delay r rs h1 h2 =>
    unfold wtLoop
    cases r <;> simp_all [NapsOK]

/-- bounded latency: every clock reading is at most `J` later than the previous reading plus the naps taken since -/
def ClockUB (J : Nat) : Nat → List (Call × Resp) → Prop
  | _, [] => True
  | cur, (.clock, .time t) :: l => t ≤ cur + J ∧ ClockUB J t l
  | cur, (.sleep x, _) :: l => ClockUB J (cur + x) l
  | cur, _ :: l => ClockUB J cur l

theorem wtLoop_readings (pid : Nat) (det : Bool) (dl delay J : Nat) (rs : List Resp) (hd : 0 < delay) :
    ∀ cur, cur ≤ dl → ClockUB J cur (wtLoop pid det dl delay rs).log →
      ∀ t, (Call.clock, Resp.time t) ∈ (wtLoop pid det dl delay rs).log → t ≤ dl + J := by
  induction delay, rs using wtLoop.induct pid dl with
  | case1 => unfold wtLoop; simp
  | case2 delay rs => unfold wtLoop; simp
  | case3 delay e rs he => unfold wtLoop; simp [he]
  | case4 delay w rs => unfold wtLoop; simp
  | case5 delay po w hp => unfold wtLoop; simp [hp]
  | case6 delay po w hp now rs2 hd' =>
    unfold wtLoop
    simp only [hp, hd', if_false, if_true]
    intro cur hc hub t ht
    simp [ClockUB] at hub ht
    omega
  | case7 delay po w hp now hd' =>
    unfold wtLoop
    simp only [hp, hd', if_false]
    intro cur hc hub t ht
    simp [ClockUB] at hub ht
    omega
  | case8 delay po w hp now hd' r3 rs3 ih =>
    unfold wtLoop
    simp only [hp, hd', if_false, Out.pre, List.cons_append, List.nil_append]
    intro cur hc hub t ht
    simp only [ClockUB] at hub
    have h100 : 0 < 100 * ms := by simp [ms]
    simp only [List.mem_cons, Prod.mk.injEq, reduceCtorEq, false_and, Resp.time.injEq, true_and, false_or] at ht
    rcases ht with rfl | ht
    · omega
    · exact ih (by omega) (now + min delay (dl - now)) (by omega) hub.2 t ht
  | case9 delay po w hp r2 rs2 hr =>
    unfold wtLoop
    cases r2 <;> simp_all
  | case10 delay r rs h1 h2 =>
    unfold wtLoop
    cases r <;> simp_all

end Life

import Model.Spawn
/-! Lemmas about the spawn model (core Lean only). -/
namespace Spawn

def closedBy (calls : List SCall) : List Nat := calls.filterMap (fun c => match c with | .close f => some f | _ => none)
def hasFork (calls : List SCall) : Bool := calls.any (· == .fork)
def hasWait (calls : List SCall) : Bool := calls.any (· == .waitpid)
/-- descriptors on which `F_SETFD` with the close-on-exec bit was issued -/
def cloexecd (calls : List SCall) : List Nat :=
  calls.filterMap (fun c => match c with | .setfd f fl => if fl % 2 = 1 then some f else none | _ => none)
/-- descriptors a call touches destructively -/
def touched (calls : List SCall) : List Nat :=
  calls.filterMap (fun c => match c with | .close f => some f | .setfd f _ => some f | .dup2 _ d => some d | _ => none)

@[simp] theorem closedBy_append (a b : List SCall) : closedBy (a ++ b) = closedBy a ++ closedBy b := by simp [closedBy]
@[simp] theorem hasFork_append (a b : List SCall) : hasFork (a ++ b) = (hasFork a || hasFork b) := by simp [hasFork]
@[simp] theorem hasWait_append (a b : List SCall) : hasWait (a ++ b) = (hasWait a || hasWait b) := by simp [hasWait]
@[simp] theorem cloexecd_append (a b : List SCall) : cloexecd (a ++ b) = cloexecd a ++ cloexecd b := by simp [cloexecd]
@[simp] theorem touched_append (a b : List SCall) : touched (a ++ b) = touched a ++ touched b := by simp [touched]
@[simp] theorem closedBy_closeAll (l : List Nat) : closedBy (closeAll l) = l := by
  induction l with
  | nil => rfl
  | cons x xs ih => simp [closeAll, closedBy] at ih ⊢; exact ih
@[simp] theorem hasFork_closeAll (l : List Nat) : hasFork (closeAll l) = false := by simp [hasFork, closeAll]
@[simp] theorem hasWait_closeAll (l : List Nat) : hasWait (closeAll l) = false := by simp [hasWait, closeAll]
@[simp] theorem cloexecd_closeAll (l : List Nat) : cloexecd (closeAll l) = [] := by
  induction l with
  | nil => rfl
  | cons x xs ih => simp [closeAll, cloexecd] at ih ⊢
@[simp] theorem touched_closeAll (l : List Nat) : touched (closeAll l) = l := by
  induction l with
  | nil => rfl
  | cons x xs ih => simp [closeAll, touched] at ih ⊢; exact ih

/-- `cloexec fd`: only `fcntl` calls on `fd`; success means the close-on-exec bit was set on it -/
theorem cloexec_spec (fd : Nat) (rs : List SResp) :
    closedBy (cloexec fd rs).1 = [] ∧ hasFork (cloexec fd rs).1 = false ∧ hasWait (cloexec fd rs).1 = false ∧
    (∀ f ∈ touched (cloexec fd rs).1, f = fd) ∧
    ((cloexec fd rs).2.1 = none → cloexecd (cloexec fd rs).1 = [fd]) := by
  unfold cloexec
  (repeat' split) <;> simp [closedBy, hasFork, hasWait, touched, cloexecd, FD_CLOEXEC] <;> omega

/-- `streamPipe`: `pipe()` + close-on-exec on the parent's end -/
theorem streamPipe_spec (pw : Bool) (rs : List SResp) :
    closedBy (streamPipe pw rs).1 = [] ∧ hasFork (streamPipe pw rs).1 = false ∧ hasWait (streamPipe pw rs).1 = false ∧
    (∀ f ∈ touched (streamPipe pw rs).1, f ∈ pipeFds (streamPipe pw rs).2.1) ∧
    ((streamPipe pw rs).2.2.1 = none →
      ∃ r w, (streamPipe pw rs).2.1 = some (r, w) ∧ cloexecd (streamPipe pw rs).1 = [if pw then w else r]) := by
  unfold streamPipe
  split
  · simp [closedBy, hasFork, hasWait, touched, pipeFds]
  · simp [closedBy, hasFork, hasWait, touched, pipeFds]
  · rename_i r w rs'
    have h := cloexec_spec (if pw then w else r) rs'
    obtain ⟨h1, h2, h3, h4, h5⟩ := h
    simp only
    refine ⟨?_, ?_, ?_, ?_, ?_⟩
    · simp [closedBy] at h1 ⊢; exact h1
    · simp [hasFork] at h2 ⊢; exact h2
    · simp [hasWait] at h3 ⊢; exact h3
    · intro f hf
      simp only [touched, List.filterMap_cons] at hf
      have := h4 f (by simpa [touched] using hf)
      simp only [pipeFds]; cases pw <;> simp_all
    · intro he
      refine ⟨r, w, rfl, ?_⟩
      have := h5 he
      simp only [cloexecd, List.filterMap_cons] at this ⊢
      exact this
  · simp [closedBy, hasFork, hasWait, touched, pipeFds]

end Spawn

namespace Spawn

/-- invariant of the pre-fork part: nothing closed but what was released by design, no process yet, everything
    touched is owned (or was, and is released), every descriptor obtained is owned or released, everything recorded as marked had its close-on-exec bit set,
    and the parent end of every completely set-up stream pipe is marked -/
structure AInv (c : Cfg) (s : AState) : Prop where
  noClose : closedBy s.calls = s.released
  noFork : hasFork s.calls = false
  noWait : hasWait s.calls = false
  touchedOwned : ∀ f ∈ touched s.calls, f ∈ s.owned ∨ f ∈ s.released
  files : ∀ f ∈ cfgFiles c, f ∈ s.owned ∨ f ∈ s.released
  gotOwned : ∀ f ∈ s.got, f ∈ s.owned ∨ f ∈ s.released
  status : ∀ f ∈ pipeFds s.status, f ∈ s.got
  pin : ∀ f ∈ pipeFds s.pipes.pin, f ∈ s.got
  pout : ∀ f ∈ pipeFds s.pipes.pout, f ∈ s.got
  perr : ∀ f ∈ pipeFds s.pipes.perr, f ∈ s.got
  marked : ∀ f ∈ s.marked, f ∈ cloexecd s.calls
  mIn : ∀ r w, s.pipes.pin = some (r, w) → w ∈ s.marked
  mOut : ∀ r w, s.pipes.pout = some (r, w) → r ∈ s.marked
  mErr : ∀ r w, s.pipes.perr = some (r, w) → r ∈ s.marked
  ownedFrom : ∀ f ∈ s.owned, f ∈ cfgFiles c ∨ f ∈ s.got
  releasedGot : ∀ f ∈ s.released, f ∈ s.got
  lowGot : ∀ l, s.low = some l → l ∈ s.got

theorem init_ainv (c : Cfg) : AInv c { owned := cfgFiles c } := by
  constructor <;> simp [closedBy, hasFork, hasWait, touched, pipeFds, cloexecd]

theorem cloexec_stage_ainv (c : Cfg) (s : AState) (fd : Nat) (rs : List SResp) (h : AInv c s)
    (hfd : fd ∈ s.owned ∨ fd ∈ s.released) :
    AInv c { s with calls := s.calls ++ (cloexec fd rs).1,
                    marked := s.marked ++ (if (cloexec fd rs).2.1 = none then [fd] else []) } := by
  obtain ⟨c1, c2, c3, c4, c5⟩ := cloexec_spec fd rs
  obtain ⟨h1, h2, h3, h4, h5, h6, h7, h8, h9, h10, h11, h12, h13, h14, h15, h16, h17⟩ := h
  constructor <;> simp only [closedBy_append, hasFork_append, hasWait_append, touched_append, cloexecd_append,
    List.mem_append, h1, h2, h3, c1, c2, c3, List.append_nil, Bool.or_self] <;> (try assumption)
  · rintro f (hf | hf)
    · exact h4 f hf
    · rw [c4 f hf]; exact hfd
  · rintro f (hf | hf)
    · exact Or.inl (h11 f hf)
    · split at hf
      · rename_i he; simp only [List.mem_singleton] at hf; subst hf; right; rw [c5 he]; simp
      · simp at hf
  · intro r w hp; exact Or.inl (h12 r w hp)
  · intro r w hp; exact Or.inl (h13 r w hp)
  · intro r w hp; exact Or.inl (h14 r w hp)

theorem applyStream_ainv (c : Cfg) (i : Nat) (s : AState) (cs : List SCall) (po : Option (Nat × Nat)) (e : Option Nat)
    (rs1 : List SResp) (h : AInv c s)
    (p1 : closedBy cs = []) (p2 : hasFork cs = false) (p3 : hasWait cs = false)
    (p4 : ∀ f ∈ touched cs, f ∈ pipeFds po)
    (p5 : e = none → ∃ r w, po = some (r, w) ∧ cloexecd cs = [if (i == 0) = true then w else r]) :
    AInv c (applyStream i s (cs, po, e, rs1)).s := by
  obtain ⟨h1, h2, h3, h4, h5, h6, h7, h8, h9, h10, h11, h12, h13, h14, h15, h16, h17⟩ := h
  unfold applyStream
  constructor <;> simp only [closedBy_append, hasFork_append, hasWait_append, touched_append, cloexecd_append,
    List.mem_append, h1, h2, h3, p1, p2, p3, List.append_nil, Bool.or_self] <;> (try assumption)
  · rintro f (hf | hf)
    · rcases h4 f hf with h | h
      · exact Or.inl (Or.inl h)
      · exact Or.inr h
    · exact Or.inl (Or.inr (p4 f hf))
  · intro f hf
    rcases h5 f hf with h | h
    · exact Or.inl (Or.inl h)
    · exact Or.inr h
  · rintro f (hf | hf)
    · rcases h6 f hf with h | h
      · exact Or.inl (Or.inl h)
      · exact Or.inr h
    · exact Or.inl (Or.inr hf)
  · intro f hf; exact Or.inl (h7 f hf)
  · intro f hf
    split at hf
    · unfold setPipe at hf; (repeat' split at hf) <;> first | exact Or.inl (h8 f hf) | exact Or.inr hf
    · exact Or.inl (h8 f hf)
  · intro f hf
    split at hf
    · unfold setPipe at hf; (repeat' split at hf) <;> first | exact Or.inl (h9 f hf) | exact Or.inr hf
    · exact Or.inl (h9 f hf)
  · intro f hf
    split at hf
    · unfold setPipe at hf; (repeat' split at hf) <;> first | exact Or.inl (h10 f hf) | exact Or.inr hf
    · exact Or.inl (h10 f hf)
  · rintro f (hf | hf)
    · exact Or.inl (h11 f hf)
    · split at hf
      · rename_i he
        obtain ⟨r, w, hpo, hce⟩ := p5 he
        subst hpo; simp only [List.mem_singleton] at hf
        right; rw [hce, hf]; simp
      · simp at hf
  · intro r w hp
    split at hp
    · rename_i he
      unfold setPipe at hp
      (repeat' split at hp)
      · rename_i hi0; simp only at hp; right; simp [he, hp, hi0]
      · exact Or.inl (h12 r w hp)
      · exact Or.inl (h12 r w hp)
    · exact Or.inl (h12 r w hp)
  · intro r w hp
    split at hp
    · rename_i he
      unfold setPipe at hp
      (repeat' split at hp)
      · exact Or.inl (h13 r w hp)
      · rename_i hi0 hi1; simp only at hp; right
        have : (i == 0) = false := by simp [hi0]
        simp [he, hp, this]
      · exact Or.inl (h13 r w hp)
    · exact Or.inl (h13 r w hp)
  · intro r w hp
    split at hp
    · rename_i he
      unfold setPipe at hp
      (repeat' split at hp)
      · exact Or.inl (h14 r w hp)
      · exact Or.inl (h14 r w hp)
      · rename_i hi0 hi1; simp only at hp; right
        have : (i == 0) = false := by simp [hi0]
        simp [he, hp, this]
    · exact Or.inl (h14 r w hp)
  · rintro f (hf | hf)
    · rcases h15 f hf with h | h
      · exact Or.inl h
      · exact Or.inr (Or.inl h)
    · exact Or.inr (Or.inr hf)
  · intro f hf; exact Or.inl (h16 f hf)
  · intro l hl; exact Or.inl (h17 l hl)

theorem ainv_add_quiet (c : Cfg) (s : AState) (cs : List SCall) (h : AInv c s)
    (p1 : closedBy cs = []) (p2 : hasFork cs = false) (p3 : hasWait cs = false) (p4 : touched cs = []) :
    AInv c { s with calls := s.calls ++ cs } := by
  obtain ⟨h1, h2, h3, h4, h5, h6, h7, h8, h9, h10, h11, h12, h13, h14, h15, h16, h17⟩ := h
  constructor <;> simp only [closedBy_append, hasFork_append, hasWait_append, touched_append, cloexecd_append,
    List.mem_append, h1, h2, h3, p1, p2, p3, p4, List.append_nil, Bool.or_self] <;> (try assumption)
  intro f hf; exact Or.inl (h11 f hf)

theorem ainv_status (c : Cfg) (s : AState) (sr sw : Nat) (h : AInv c s) :
    AInv c { s with calls := s.calls ++ [.pipe], owned := s.owned ++ [sr, sw], got := s.got ++ [sr, sw], status := some (sr, sw) } := by
  obtain ⟨h1, h2, h3, h4, h5, h6, h7, h8, h9, h10, h11, h12, h13, h14, h15, h16, h17⟩ := h
  constructor <;> simp only [closedBy_append, hasFork_append, hasWait_append, touched_append, cloexecd_append,
    List.mem_append, h1, h2, h3, List.append_nil, Bool.or_self] <;> (try assumption)
  · simp [closedBy]
  · simp [hasFork]
  · simp [hasWait]
  · rintro f (hf | hf)
    · rcases h4 f hf with h | h
      · exact Or.inl (Or.inl h)
      · exact Or.inr h
    · simp [touched] at hf
  · intro f hf
    rcases h5 f hf with h | h
    · exact Or.inl (Or.inl h)
    · exact Or.inr h
  · rintro f (hf | hf)
    · rcases h6 f hf with h | h
      · exact Or.inl (Or.inl h)
      · exact Or.inr h
    · exact Or.inl (Or.inr hf)
  · intro f hf; right; simpa [pipeFds] using hf
  · intro f hf; exact Or.inl (h8 f hf)
  · intro f hf; exact Or.inl (h9 f hf)
  · intro f hf; exact Or.inl (h10 f hf)
  · intro f hf; exact Or.inl (h11 f hf)
  · rintro f (hf | hf)
    · rcases h15 f hf with h | h
      · exact Or.inl h
      · exact Or.inr (Or.inl h)
    · exact Or.inr (Or.inr hf)
  · intro f hf; exact Or.inl (h16 f hf)
  · intro l hl; exact Or.inl (h17 l hl)


theorem mem_erase_or_eq (f l : Nat) (xs : List Nat) (h : f ∈ xs) : f ∈ xs.erase l ∨ f = l := by
  by_cases hfl : f = l
  · exact Or.inr hfl
  · exact Or.inl ((List.mem_erase_of_ne hfl).mpr h)

/-- the status write end is moved above 2: a new descriptor is obtained and owned, the original stays owned -/
theorem ainv_relocate (c : Cfg) (s : AState) (sr sw n : Nat) (h : AInv c s) (hs : s.status = some (sr, sw)) :
    AInv c { s with calls := s.calls ++ [.dupfd sw], owned := s.owned ++ [n], got := s.got ++ [n],
                    status := some (sr, n), low := some sw } := by
  obtain ⟨h1, h2, h3, h4, h5, h6, h7, h8, h9, h10, h11, h12, h13, h14, h15, h16, h17⟩ := h
  constructor <;> simp only [closedBy_append, hasFork_append, hasWait_append, touched_append, cloexecd_append,
    List.mem_append, h1, h2, h3, List.append_nil, Bool.or_self] <;> (try assumption)
  · simp [closedBy]
  · simp [hasFork]
  · simp [hasWait]
  · rintro f (hf | hf)
    · rcases h4 f hf with h | h
      · exact Or.inl (Or.inl h)
      · exact Or.inr h
    · simp [touched] at hf
  · intro f hf
    rcases h5 f hf with h | h
    · exact Or.inl (Or.inl h)
    · exact Or.inr h
  · rintro f (hf | hf)
    · rcases h6 f hf with h | h
      · exact Or.inl (Or.inl h)
      · exact Or.inr h
    · exact Or.inl (Or.inr hf)
  · intro f hf
    simp only [pipeFds, List.mem_cons, List.not_mem_nil, or_false] at hf
    rcases hf with rfl | rfl
    · exact Or.inl (h7 f (by simp [hs, pipeFds]))
    · right; simp
  · intro f hf; exact Or.inl (h8 f hf)
  · intro f hf; exact Or.inl (h9 f hf)
  · intro f hf; exact Or.inl (h10 f hf)
  · intro f hf; exact Or.inl (h11 f hf)
  · rintro f (hf | hf)
    · rcases h15 f hf with h | h
      · exact Or.inl h
      · exact Or.inr (Or.inl h)
    · exact Or.inr (Or.inr hf)
  · intro f hf; exact Or.inl (h16 f hf)
  · intro l hl
    simp only [Option.some.injEq] at hl; subst hl
    exact Or.inl (h7 _ (by simp [hs, pipeFds]))

/-- the original of the moved write end is closed again: it leaves `owned` and enters `released` -/
theorem ainv_release (c : Cfg) (s : AState) (l : Nat) (h : AInv c s) (hl : s.low = some l) :
    AInv c { s with calls := s.calls ++ [.close l], owned := s.owned.erase l, released := s.released ++ [l], low := none } := by
  obtain ⟨h1, h2, h3, h4, h5, h6, h7, h8, h9, h10, h11, h12, h13, h14, h15, h16, h17⟩ := h
  have key : ∀ f, (f ∈ s.owned ∨ f ∈ s.released) → (f ∈ s.owned.erase l ∨ (f ∈ s.released ∨ f ∈ [l])) := by
    rintro f (hf | hf)
    · rcases mem_erase_or_eq f l s.owned hf with h | h
      · exact Or.inl h
      · exact Or.inr (Or.inr (by simp [h]))
    · exact Or.inr (Or.inl hf)
  constructor <;> simp only [closedBy_append, hasFork_append, hasWait_append, touched_append, cloexecd_append,
    List.mem_append, h1, h2, h3, List.append_nil, Bool.or_self] <;> (try assumption)
  · simp [closedBy]
  · simp [hasFork]
  · simp [hasWait]
  · rintro f (hf | hf)
    · exact key f (h4 f hf)
    · simp only [touched, List.filterMap_cons, List.filterMap_nil] at hf
      exact Or.inr (Or.inr hf)
  · intro f hf; exact key f (h5 f hf)
  · intro f hf; exact key f (h6 f hf)
  · intro f hf; exact Or.inl (h11 f hf)
  · intro f hf; exact h15 f (List.mem_of_mem_erase hf)
  · rintro f (hf | hf)
    · exact h16 f hf
    · simp only [List.mem_singleton] at hf; subst hf; exact h17 _ hl
  · intro l' hl'; simp at hl'

/-- every step before the fork preserves the invariant, whether it succeeds or fails -/
theorem acquire_ainv (c : Cfg) (a : Acq) (ha : ∀ (_ : a = .forkStep), False) (s : AState) (rs : List SResp) (h : AInv c s) :
    AInv c (acquire a s rs).s := by
  cases a with
  | statusPipe =>
    unfold acquire
    simp only
    split
    · exact h
    · split
      · exact ainv_add_quiet c s [.pipe] h rfl rfl rfl rfl
      · exact ainv_add_quiet c s [.pipe] h rfl rfl rfl rfl
      · exact ainv_status c s _ _ h
      · exact ainv_add_quiet c s [.pipe] h rfl rfl rfl rfl
  | relocateStatusW =>
    simp only [acquire]
    split
    · exact h
    · rename_i sr sw hs
      split
      · split
        · exact ainv_add_quiet c s [.dupfd sw] h rfl rfl rfl rfl
        · exact ainv_add_quiet c s [.dupfd sw] h rfl rfl rfl rfl
        · split
          · exact ainv_add_quiet c s [.dupfd sw] h rfl rfl rfl rfl
          · exact ainv_relocate c s sr sw _ h hs
        · exact ainv_add_quiet c s [.dupfd sw] h rfl rfl rfl rfl
      · exact h
  | releaseLow =>
    simp only [acquire]
    split
    · exact h
    · rename_i l hl
      exact ainv_release c s l h hl
  | cloexecStatusR =>
    simp only [acquire]
    split
    · exact h
    · rename_i sr sw hs
      apply cloexec_stage_ainv c s sr rs h
      exact h.gotOwned _ (h.status _ (by simp [hs, pipeFds]))
  | cloexecStatusW =>
    simp only [acquire]
    split
    · exact h
    · rename_i sr sw hs
      apply cloexec_stage_ainv c s sw rs h
      exact h.gotOwned _ (h.status _ (by simp [hs, pipeFds]))
  | check ok r => exact h
  | streamPipe i =>
    obtain ⟨p1, p2, p3, p4, p5⟩ := streamPipe_spec (i == 0) rs
    simp only [acquire]
    generalize streamPipe (i == 0) rs = o at p1 p2 p3 p4 p5 ⊢
    obtain ⟨cs, po, e, rs1⟩ := o
    simp only at p1 p2 p3 p4 p5
    exact applyStream_ainv c i s cs po e rs1 h p1 p2 p3 p4 p5
  | forkStep => exact absurd rfl (fun h => ha h)

end Spawn

namespace Spawn

/-- stream pipes exist only for streams configured as `Pipe` -/
def PipesOK (c : Cfg) (s : AState) : Prop :=
  (s.pipes.pin ≠ none → c.sin = .pipe) ∧ (s.pipes.pout ≠ none → c.sout = .pipe) ∧ (s.pipes.perr ≠ none → c.serr = .pipe)

def StageOK (c : Cfg) (a : Acq) : Prop :=
  a ≠ .forkStep ∧ ∀ i, a = .streamPipe i → (i = 0 ∧ c.sin = .pipe) ∨ (i = 1 ∧ c.sout = .pipe) ∨ (i = 2 ∧ c.serr = .pipe)

theorem acquire_pipesOK (c : Cfg) (a : Acq) (ha : StageOK c a) (s : AState) (rs : List SResp) (h : PipesOK c s) :
    PipesOK c (acquire a s rs).s := by
  cases a with
  | statusPipe => simp only [acquire]; (repeat' split) <;> exact h
  | relocateStatusW => simp only [acquire]; (repeat' split) <;> exact h
  | releaseLow => simp only [acquire]; split <;> exact h
  | cloexecStatusR => simp only [acquire]; split <;> exact h
  | cloexecStatusW => simp only [acquire]; split <;> exact h
  | check ok r => exact h
  | forkStep => exact absurd rfl ha.1
  | streamPipe i =>
    simp only [acquire, applyStream]
    rcases ha.2 i rfl with ⟨rfl, hc⟩ | ⟨rfl, hc⟩ | ⟨rfl, hc⟩ <;>
      (unfold PipesOK at *; split <;> simp_all [setPipe])

theorem stagesOf_pre (c : Cfg) : ∃ pre, stagesOf c = pre ++ [.forkStep] ∧ (∀ a ∈ pre, StageOK c a) ∧
    (c.nul = true → Acq.check false (.err EINVAL) ∈ pre) ∧
    ((c.sin = .merge ∨ (c.sout = .merge ∧ c.serr = .merge)) → Acq.check false .logic ∈ pre) := by
  refine ⟨[.statusPipe, .relocateStatusW, .cloexecStatusR, .cloexecStatusW,
     .check (!(c.sout = .merge && c.serr = .merge)) .logic, .check (!(c.sin = .merge)) .logic] ++
    (if c.sin = .pipe then [.streamPipe 0] else []) ++ (if c.sout = .pipe then [.streamPipe 1] else []) ++
    (if c.serr = .pipe then [.streamPipe 2] else []) ++ [.releaseLow, .check (!c.nul) (.err EINVAL)], by simp [stagesOf], ?_, ?_, ?_⟩
  · intro a ha
    simp only [List.mem_append, List.mem_cons, List.not_mem_nil, or_false, List.mem_ite_nil_right, List.mem_singleton] at ha
    rcases ha with ((((rfl | rfl | rfl | rfl | rfl | rfl) | ⟨h, rfl⟩) | ⟨h, rfl⟩) | ⟨h, rfl⟩) | rfl | rfl <;>
      (refine ⟨by simp, ?_⟩; intro i hi; simp at hi; try (subst hi; simp_all))
  · intro hn; simp [hn]
  · rintro (h | ⟨h1, h2⟩)
    · simp [h]
    · simp [h1, h2]

/-- running a list of pre-fork steps: the invariants hold in the final state -/
theorem acquireAll_inv (c : Cfg) (l : List Acq) (hl : ∀ a ∈ l, StageOK c a) (s : AState) (rs : List SResp)
    (h : AInv c s) (hp : PipesOK c s) :
    AInv c (acquireAll l s rs).s ∧ PipesOK c (acquireAll l s rs).s := by
  induction l generalizing s rs with
  | nil => exact ⟨h, hp⟩
  | cons a as ih =>
    have ha := hl a (by simp)
    have h1 := acquire_ainv c a (fun e => ha.1 e) s rs h
    have h2 := acquire_pipesOK c a ha s rs hp
    simp only [acquireAll]
    split
    · exact ⟨h1, h2⟩
    · exact ih (fun b hb => hl b (by simp [hb])) _ _ h1 h2

/-- a failing `check` stops the run -/
theorem acquireAll_check_fails (l : List Acq) (r : Res) (hm : Acq.check false r ∈ l) (s : AState) (rs : List SResp) :
    (acquireAll l s rs).fail ≠ none := by
  induction l generalizing s rs with
  | nil => simp at hm
  | cons a as ih =>
    simp only [acquireAll]
    split
    · simp
    · rename_i hnone
      simp only [List.mem_cons] at hm
      rcases hm with rfl | hm
      · simp [acquire] at hnone
      · exact ih hm _ _

theorem acquireAll_append_fail (l1 l2 : List Acq) (s : AState) (rs : List SResp) (r : Res)
    (h : (acquireAll l1 s rs).fail = some r) : acquireAll (l1 ++ l2) s rs = acquireAll l1 s rs := by
  induction l1 generalizing s rs with
  | nil => simp [acquireAll] at h
  | cons a as ih =>
    simp only [List.cons_append, acquireAll] at h ⊢
    split at h
    · rfl
    · exact ih _ _ h

theorem acquireAll_append_ok (l1 l2 : List Acq) (s : AState) (rs : List SResp)
    (h : (acquireAll l1 s rs).fail = none) :
    acquireAll (l1 ++ l2) s rs = acquireAll l2 (acquireAll l1 s rs).s (acquireAll l1 s rs).rest := by
  induction l1 generalizing s rs with
  | nil => simp [acquireAll]
  | cons a as ih =>
    simp only [List.cons_append, acquireAll] at h ⊢
    split at h
    · simp at h
    · exact ih _ _ h

end Spawn

namespace Spawn

def s0 (c : Cfg) : AState := { owned := cfgFiles c }

theorem forkStep_state (s : AState) (rs : List SResp) :
    (acquireAll [.forkStep] s rs).s = { s with calls := s.calls ++ [.fork] } := by
  simp only [acquireAll, acquire]
  cases rs with
  | nil => rfl
  | cons r rs => cases r <;> rfl

/-- the state in which the pre-fork part of `parentRun` ends (failed or not), and what is known
    about it: everything obtained is owned or was released by design, nothing else has been closed, nothing waited for, everything
    touched is owned, marks are real, pipes exist only for `Pipe` streams -/
theorem prefork_facts (c : Cfg) (rs : List SResp) :
    let A := acquireAll (stagesOf c) (s0 c) rs
    closedBy A.s.calls = A.s.released ∧ hasWait A.s.calls = false ∧
    (∀ f ∈ touched A.s.calls, f ∈ A.s.owned ∨ f ∈ A.s.released) ∧ (∀ f ∈ cfgFiles c, f ∈ A.s.owned ∨ f ∈ A.s.released) ∧
    (∀ f ∈ A.s.got, f ∈ A.s.owned ∨ f ∈ A.s.released) ∧
    (∀ f ∈ pipeFds A.s.status, f ∈ A.s.got) ∧
    (∀ f ∈ A.s.marked, f ∈ cloexecd A.s.calls) ∧
    (∀ r w, A.s.pipes.pin = some (r, w) → w ∈ A.s.marked) ∧ (∀ r w, A.s.pipes.pout = some (r, w) → r ∈ A.s.marked) ∧
    (∀ r w, A.s.pipes.perr = some (r, w) → r ∈ A.s.marked) ∧ PipesOK c A.s ∧
    ((c.nul = true ∨ c.sin = .merge ∨ (c.sout = .merge ∧ c.serr = .merge)) → A.fail ≠ none ∧ hasFork A.s.calls = false) ∧
    (∀ f ∈ A.s.owned, f ∈ cfgFiles c ∨ f ∈ A.s.got) ∧ (∀ f ∈ A.s.released, f ∈ A.s.got) := by
  intro A
  obtain ⟨pre, hst, hok, hnul, hinv⟩ := stagesOf_pre c
  have hB := acquireAll_inv c pre hok (s0 c) rs (init_ainv c) (by simp [PipesOK, s0])
  cases hf : (acquireAll pre (s0 c) rs).fail with
  | some r =>
    have hA : A = acquireAll pre (s0 c) rs := by
      show acquireAll (stagesOf c) (s0 c) rs = _
      rw [hst]; exact acquireAll_append_fail pre _ _ _ r hf
    obtain ⟨⟨h1, h2, h3, h4, h5, h6, h7, h8, h9, h10, h11, h12, h13, h14, h15, h16, h17⟩, hp⟩ := hB
    rw [hA]
    refine ⟨h1, h3, h4, h5, h6, h7, h11, h12, h13, h14, hp, fun _ => ⟨by rw [hf]; simp, h2⟩, h15, h16⟩
  | none =>
    have hA : A = acquireAll [.forkStep] (acquireAll pre (s0 c) rs).s (acquireAll pre (s0 c) rs).rest := by
      show acquireAll (stagesOf c) (s0 c) rs = _
      rw [hst]; exact acquireAll_append_ok pre _ _ _ hf
    obtain ⟨⟨h1, h2, h3, h4, h5, h6, h7, h8, h9, h10, h11, h12, h13, h14, h15, h16, h17⟩, hp⟩ := hB
    have hs := forkStep_state (acquireAll pre (s0 c) rs).s (acquireAll pre (s0 c) rs).rest
    rw [hA, hs]
    refine ⟨by rw [closedBy_append, h1]; simp [closedBy], by rw [hasWait_append, h3]; rfl, ?_, h5, h6, h7, ?_, h12, h13, h14, hp, ?_, h15, h16⟩
    · intro f hf'; simp only [touched_append, List.mem_append] at hf'
      rcases hf' with hf' | hf'
      · exact h4 f hf'
      · simp [touched] at hf'
    · intro f hf'; simp only [cloexecd_append, List.mem_append]; exact Or.inl (h11 f hf')
    · intro hbad
      exfalso
      rcases hbad with hn | hm
      · exact acquireAll_check_fails pre _ (hnul hn) _ _ hf
      · exact acquireAll_check_fails pre _ (hinv hm) _ _ hf

theorem parentRun_fail (c : Cfg) (rs : List SResp) (ha : c.argvEmpty = false) (r : Res)
    (hf : (acquireAll (stagesOf c) (s0 c) rs).fail = some r) :
    (parentRun c rs).calls = (acquireAll (stagesOf c) (s0 c) rs).s.calls ++ closeAll (acquireAll (stagesOf c) (s0 c) rs).s.owned ∧
    (parentRun c rs).res = r := by
  unfold parentRun
  simp only [ha, Bool.false_eq_true, if_false]
  have : (acquireAll (stagesOf c) { owned := cfgFiles c } rs).fail = some r := hf
  simp [this, s0]

theorem parentRun_ok (c : Cfg) (rs : List SResp) (ha : c.argvEmpty = false)
    (hf : (acquireAll (stagesOf c) (s0 c) rs).fail = none) :
    parentRun c rs = afterFork c (acquireAll (stagesOf c) (s0 c) rs).s (acquireAll (stagesOf c) (s0 c) rs).rest := by
  unfold parentRun
  simp only [ha, Bool.false_eq_true, if_false]
  have : (acquireAll (stagesOf c) { owned := cfgFiles c } rs).fail = none := hf
  simp [this, s0]

end Spawn

import Model.Spawn
/-! Lemmas about the spawn model (core Lean only). -/
namespace Spawn

/-- descriptors opened by the attempt according to the record it returns -/
def opened (c : Cfg) (o : POut) : List Nat :=
  pipeFds o.status ++ pipeFds o.pipes.pin ++ pipeFds o.pipes.pout ++ pipeFds o.pipes.perr ++ cfgFiles c

def closedBy (calls : List SCall) : List Nat := calls.filterMap (fun c => match c with | .close f => some f | _ => none)

def hasFork (calls : List SCall) : Bool := calls.any (· == .fork)

theorem nul_no_fork (c : Cfg) (h : c.nul = true) (rs : List SResp) : hasFork (parentRun c rs).calls = false := by
  unfold parentRun
  sorry

end Spawn

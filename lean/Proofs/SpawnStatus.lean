import Proofs.Spawn
namespace Spawn

/-! ### The status write end is above the standard descriptors when the child is forked -/

def StatusHigh (s : AState) : Prop := ∃ sr sw, s.status = some (sr, sw) ∧ 2 < sw

/-- only the first two steps assign the status pipe -/
theorem acquire_status_eq (a : Acq) (h1 : a ≠ .statusPipe) (h2 : a ≠ .relocateStatusW) (s : AState) (rs : List SResp) :
    (acquire a s rs).s.status = s.status := by
  cases a with
  | statusPipe => exact absurd rfl h1
  | relocateStatusW => exact absurd rfl h2
  | releaseLow => simp only [acquire]; split <;> rfl
  | cloexecStatusR => simp only [acquire]; split <;> rfl
  | cloexecStatusW => simp only [acquire]; split <;> rfl
  | check ok r => rfl
  | streamPipe i => simp only [acquire, applyStream]
  | forkStep => simp only [acquire]; (repeat' split) <;> rfl

theorem acquireAll_status_eq (l : List Acq) (hl : ∀ a ∈ l, a ≠ .statusPipe ∧ a ≠ .relocateStatusW) (s : AState) (rs : List SResp) :
    (acquireAll l s rs).s.status = s.status := by
  induction l generalizing s rs with
  | nil => rfl
  | cons a as ih =>
    have ha := hl a (by simp)
    simp only [acquireAll]
    split
    · exact acquire_status_eq a ha.1 ha.2 s rs
    · rw [ih (fun b hb => hl b (by simp [hb]))]; exact acquire_status_eq a ha.1 ha.2 s rs

/-- a run that gets past the first two steps holds a status write end above 2: either `pipe()` answered
    one, or it was moved there -/
theorem status_high_after_relocate (s : AState) (rs : List SResp)
    (h : (acquireAll [.statusPipe, .relocateStatusW] s rs).fail = none) :
    StatusHigh (acquireAll [.statusPipe, .relocateStatusW] s rs).s := by
  simp only [acquireAll] at h ⊢
  cases h1 : (acquire .statusPipe s rs).fail with
  | some r => simp [h1] at h
  | none =>
    simp only [h1] at h ⊢
    -- the status pipe exists after the first step
    have hst : ∃ sr sw, (acquire .statusPipe s rs).s.status = some (sr, sw) := by
      by_cases hsome : s.status.isSome
      · simp [acquire, hsome] at h1
      · cases rs with
        | nil => simp [acquire, hsome] at h1
        | cons r rs' => cases r <;> simp [acquire, hsome] at h1 ⊢
    obtain ⟨sr, sw, hs⟩ := hst
    generalize (acquire .statusPipe s rs).s = s1 at hs h ⊢
    generalize (acquire .statusPipe s rs).rest = rs1 at h ⊢
    cases h2 : (acquire .relocateStatusW s1 rs1).fail with
    | some r => simp [h2] at h
    | none =>
      simp only [h2]
      by_cases hle : sw ≤ 2
      · cases rs1 with
        | nil => simp [acquire, hs, hle] at h2
        | cons r rs' =>
          cases r with
          | val n =>
            by_cases hn : n ≤ 2
            · simp [acquire, hs, hle, hn] at h2
            · exact ⟨sr, n, by simp [acquire, hs, hle, hn], by omega⟩
          | ok => simp [acquire, hs, hle] at h2
          | fds a b => simp [acquire, hs, hle] at h2
          | err e => simp [acquire, hs, hle] at h2
          | nbytes a b => simp [acquire, hs, hle] at h2
          | started => simp [acquire, hs, hle] at h2
      · exact ⟨sr, sw, by simp [acquire, hs, hle], by omega⟩

theorem acquireAll_prefix_ok (l1 l2 : List Acq) (s : AState) (rs : List SResp)
    (h : (acquireAll (l1 ++ l2) s rs).fail = none) : (acquireAll l1 s rs).fail = none := by
  cases h1 : (acquireAll l1 s rs).fail with
  | none => rfl
  | some r => rw [acquireAll_append_fail l1 l2 s rs r h1, h1] at h; simp at h

/-- **at the fork the status write end is not a standard descriptor** -/
theorem status_high_at_fork (c : Cfg) (rs : List SResp) (h : (acquireAll (stagesOf c) (s0 c) rs).fail = none) :
    StatusHigh (acquireAll (stagesOf c) (s0 c) rs).s := by
  have hsplit : stagesOf c = [.statusPipe, .relocateStatusW] ++ (stagesOf c).drop 2 := by simp [stagesOf]
  have hrest : ∀ a ∈ (stagesOf c).drop 2, a ≠ .statusPipe ∧ a ≠ .relocateStatusW := by
    intro a ha
    constructor <;> (intro heq; subst heq; simp [stagesOf] at ha)
  rw [hsplit] at h ⊢
  have h1 := acquireAll_prefix_ok _ _ _ _ h
  rw [acquireAll_append_ok _ _ _ _ h1]
  obtain ⟨sr, sw, hs, hgt⟩ := status_high_after_relocate (s0 c) rs h1
  refine ⟨sr, sw, ?_, hgt⟩
  rw [acquireAll_status_eq _ hrest]; exact hs

theorem dupStep_target (i : Nat) (e : End) (later : List End) (f d : Nat) (h : SCall.dup2 f d ∈ dupStep i e later) : d = i := by
  unfold dupStep at h
  split at h
  · simp at h
  · simp only [List.mem_append] at h
    rcases h with h | h
    · split at h <;> simp at h; exact h.2
    · split at h <;> simp at h
  · split at h <;> simp at h; exact h.2
  · split at h <;> simp at h; exact h.2

/-- the child's stream set-up duplicates onto 0, 1 and 2 only -/
theorem childSteps_dup2_target (c : Cfg) (p : Pipes) (sr f d : Nat) (h : SCall.dup2 f d ∈ childSteps c p sr) : d ≤ 2 := by
  simp only [childSteps, List.mem_append] at h
  rcases h with (((((((h | h) | h) | h) | h) | h) | h) | h) | h
  · simp at h
  · split at h <;> simp at h
  · have := dupStep_target _ _ _ _ _ h; omega
  · have := dupStep_target _ _ _ _ _ h; omega
  · have := dupStep_target _ _ _ _ _ h; omega
  · simp at h
  · split at h <;> simp at h
  · split at h <;> simp at h
  · split at h <;> simp at h

end Spawn

namespace Spawn

/-! ### The placeholder of a relocated status write end is gone before the fork -/

theorem acquire_low_eq (a : Acq) (h1 : a ≠ .relocateStatusW) (h2 : a ≠ .releaseLow) (s : AState) (rs : List SResp) :
    (acquire a s rs).s.low = s.low := by
  cases a with
  | relocateStatusW => exact absurd rfl h1
  | releaseLow => exact absurd rfl h2
  | statusPipe => simp only [acquire]; (repeat' split) <;> rfl
  | cloexecStatusR => simp only [acquire]; split <;> rfl
  | cloexecStatusW => simp only [acquire]; split <;> rfl
  | check ok r => rfl
  | streamPipe i => simp only [acquire, applyStream]
  | forkStep => simp only [acquire]; (repeat' split) <;> rfl

theorem acquireAll_low_eq (l : List Acq) (hl : ∀ a ∈ l, a ≠ .relocateStatusW ∧ a ≠ .releaseLow) (s : AState) (rs : List SResp) :
    (acquireAll l s rs).s.low = s.low := by
  induction l generalizing s rs with
  | nil => rfl
  | cons a as ih =>
    have ha := hl a (by simp)
    simp only [acquireAll]
    split
    · exact acquire_low_eq a ha.1 ha.2 s rs
    · rw [ih (fun b hb => hl b (by simp [hb]))]; exact acquire_low_eq a ha.1 ha.2 s rs

theorem release_low_none (s : AState) (rs : List SResp) : (acquire .releaseLow s rs).s.low = none ∧ (acquire .releaseLow s rs).fail = none := by
  simp only [acquire]
  split
  · rename_i h; exact ⟨h, rfl⟩
  · exact ⟨rfl, rfl⟩

/-- **whenever the process is forked, the original of a moved status write end has been closed again**: no copy of
    the status channel is left on a standard descriptor for the child to inherit -/
theorem low_released_at_fork (c : Cfg) (rs : List SResp) (h : (acquireAll (stagesOf c) (s0 c) rs).fail = none) :
    (acquireAll (stagesOf c) (s0 c) rs).s.low = none := by
  have hsplit : stagesOf c = (stagesOf c).take ((stagesOf c).length - 3) ++ [.releaseLow, .check (!c.nul) (.err EINVAL), .forkStep] := by
    simp only [stagesOf]
    by_cases h1 : c.sin = .pipe <;> by_cases h2 : c.sout = .pipe <;> by_cases h3 : c.serr = .pipe <;> simp [h1, h2, h3]
  rw [hsplit] at h ⊢
  have h1 := acquireAll_prefix_ok _ _ _ _ h
  rw [acquireAll_append_ok _ _ _ _ h1]
  generalize (acquireAll _ (s0 c) rs).s = s1
  generalize (acquireAll _ (s0 c) rs).rest = rs1
  simp only [acquireAll, (release_low_none s1 rs1).2]
  have hrest : ∀ a ∈ [Acq.check (!c.nul) (.err EINVAL), .forkStep], a ≠ .relocateStatusW ∧ a ≠ .releaseLow := by
    intro a ha; simp only [List.mem_cons, List.not_mem_nil, or_false] at ha; rcases ha with rfl | rfl <;> simp
  have := acquireAll_low_eq [Acq.check (!c.nul) (.err EINVAL), .forkStep] hrest (acquire .releaseLow s1 rs1).s (acquire .releaseLow s1 rs1).rest
  simp only [acquireAll] at this
  rw [this]; exact (release_low_none s1 rs1).1

end Spawn

import Model.Comm
/-! Invariants of the `comm` model: data-flow equations (C02/C03/C04-resumable). -/
namespace Comm

/-- the data carried by the library state -/
@[simp] theorem loopTop_outvec (p : Par) : (loopTop p).outvec = p.outvec := by
  unfold loopTop; (repeat' split) <;> rfl
@[simp] theorem loopTop_errvec (p : Par) : (loopTop p).errvec = p.errvec := by
  unfold loopTop; (repeat' split) <;> rfl
@[simp] theorem loopTop_input (p : Par) : (loopTop p).input = p.input := by
  unfold loopTop; (repeat' split) <;> rfl
@[simp] theorem rdChainErr_outvec (p : Par) (e : Bool) : (rdChainErr p e).outvec = p.outvec := by
  unfold rdChainErr; split <;> simp
@[simp] theorem rdChainErr_errvec (p : Par) (e : Bool) : (rdChainErr p e).errvec = p.errvec := by
  unfold rdChainErr; split <;> simp
@[simp] theorem rdChainErr_input (p : Par) (e : Bool) : (rdChainErr p e).input = p.input := by
  unfold rdChainErr; split <;> simp
@[simp] theorem rdChain_outvec (p : Par) (o e : Bool) : (rdChain p o e).outvec = p.outvec := by
  unfold rdChain; split <;> simp
@[simp] theorem rdChain_errvec (p : Par) (o e : Bool) : (rdChain p o e).errvec = p.errvec := by
  unfold rdChain; split <;> simp
@[simp] theorem rdChain_input (p : Par) (o e : Bool) : (rdChain p o e).input = p.input := by
  unfold rdChain; split <;> simp
@[simp] theorem afterPoll_outvec (p : Par) (i o e : Bool) : (afterPoll p i o e).outvec = p.outvec := by
  unfold afterPoll; (repeat' split) <;> simp
@[simp] theorem afterPoll_errvec (p : Par) (i o e : Bool) : (afterPoll p i o e).errvec = p.errvec := by
  unfold afterPoll; (repeat' split) <;> simp
@[simp] theorem afterPoll_input (p : Par) (i o e : Bool) : (afterPoll p i o e).input = p.input := by
  unfold afterPoll; (repeat' split) <;> simp

/-- **the data-flow invariant** (C02): nothing lost, duplicated, reordered or credited to the other
    stream; each input byte handed over once, in order.  `ro`/`re` = bytes returned by earlier
    `read()` calls (including the captures of failed ones). -/
structure CInv (orig ro re : List UInt8) (s : Sys) : Prop where
  out : s.w.gOut = ro ++ s.par.outvec ++ s.w.outBuf
  err : s.w.gErr = re ++ s.par.errvec ++ s.w.errBuf
  inp : orig = s.w.gIn ++ s.w.inBuf ++ s.par.input

theorem child_cinv (orig ro re : List UInt8) (p : Par) (w w' : World) (c : Choice)
    (h : CInv orig ro re ⟨p, w⟩) (hs : childStep p w c = some w') : CInv orig ro re ⟨p, w'⟩ := by
  obtain ⟨h1, h2, h3⟩ := h
  simp only at h1 h2 h3
  unfold childStep at hs
  repeat' (first | split at hs | (dsimp only at hs; split at hs))
  all_goals (try (simp at hs; done))
  all_goals (simp only [Option.some.injEq] at hs; subst hs)
  all_goals (refine ⟨?_, ?_, ?_⟩ <;> simp only [*, List.append_assoc, List.take_append_drop])


/-! ### What one `feed` does to the data -/

/-- bytes appended to `outvec` by this answer -/
def outAdd (p : Par) (r : Resp) (data : List UInt8) : List UInt8 :=
  match p.pc, r with
  | .rdOut _, .n k => if k = 0 then [] else data
  | _, _ => []

def errAdd (p : Par) (r : Resp) (data : List UInt8) : List UInt8 :=
  match p.pc, r with
  | .rdErr, .n k => if k = 0 then [] else data
  | _, _ => []

/-- input bytes consumed by this answer -/
def inDrop (p : Par) (r : Resp) : Nat :=
  match p.pc, r with
  | .wr _ _, .n k => if k = p.input.length then p.input.length else k
  | _, _ => 0

theorem feed_outvec (p : Par) (r : Resp) (data : List UInt8) :
    (feed p r data).outvec = p.outvec ++ outAdd p r data := by
  unfold feed outAdd
  cases p.pc <;> cases r <;> simp <;> (repeat' split) <;> simp

theorem feed_errvec (p : Par) (r : Resp) (data : List UInt8) :
    (feed p r data).errvec = p.errvec ++ errAdd p r data := by
  unfold feed errAdd
  cases p.pc <;> cases r <;> simp <;> (repeat' split) <;> simp

theorem feed_input (p : Par) (r : Resp) (data : List UInt8) :
    (feed p r data).input = p.input.drop (inDrop p r) := by
  unfold feed inDrop
  cases p.pc <;> cases r <;> simp <;> (repeat' split) <;> simp_all


/-! ### What one `answer` does to the world -/

def outTaken (call : Call) (r : Resp) (data : List UInt8) : List UInt8 :=
  match call, r with
  | .read .out _, .n _ => data
  | _, _ => []

def errTaken (call : Call) (r : Resp) (data : List UInt8) : List UInt8 :=
  match call, r with
  | .read .err _, .n _ => data
  | _, _ => []

theorem answer_frame (w w' : World) (call : Call) (c : Choice) (r : Resp) (data : List UInt8)
    (h : answer w call c = some (r, data, w')) :
    w'.gIn = w.gIn ∧ w'.gOut = w.gOut ∧ w'.gErr = w.gErr ∧ w'.inBuf = w.inBuf ∧
    w.outBuf = outTaken call r data ++ w'.outBuf ∧ w.errBuf = errTaken call r data ++ w'.errBuf ∧
    (r = .n 0 → data = []) ∧
    w'.inRd = w.inRd ∧ w'.outWr = w.outWr ∧ w'.errWr = w.errWr ∧ w'.script = w.script ∧
    w'.capIn = w.capIn ∧ w'.capOut = w.capOut ∧ w'.capErr = w.capErr := by
  unfold answer at h
  repeat' (first | split at h | (dsimp only at h; split at h))
  all_goals (try (simp at h; done))
  all_goals (simp only [Option.some.injEq, Prod.mk.injEq] at h; obtain ⟨rfl, rfl, rfl⟩ := h)
  all_goals (simp [outTaken, errTaken, List.take_append_drop])
  all_goals (try (intro h0; left; exact h0))
  all_goals (try (intro h0; simp only [clamp] at h0; omega))

theorem pushIn_spec (p : Par) (r : Resp) (w : World) :
    (pushIn p r w).inBuf = w.inBuf ++ p.input.take (inDrop p r) ∧
    (pushIn p r w).gIn = w.gIn ∧ (pushIn p r w).gOut = w.gOut ∧ (pushIn p r w).gErr = w.gErr ∧
    (pushIn p r w).outBuf = w.outBuf ∧ (pushIn p r w).errBuf = w.errBuf ∧
    (pushIn p r w).inRd = w.inRd ∧ (pushIn p r w).outWr = w.outWr ∧ (pushIn p r w).errWr = w.errWr ∧
    (pushIn p r w).script = w.script ∧ (pushIn p r w).capIn = w.capIn ∧ (pushIn p r w).capOut = w.capOut ∧
    (pushIn p r w).capErr = w.capErr ∧ (pushIn p r w).now = w.now := by
  unfold pushIn inDrop
  cases p.pc <;> cases r <;> simp
  split <;> simp_all

/-- `parStep` preserves the data-flow invariant -/
theorem par_cinv (orig ro re : List UInt8) (p p' : Par) (w w' : World) (c : Choice)
    (h : CInv orig ro re ⟨p, w⟩) (hs : parStep p w c = some (p', w')) : CInv orig ro re ⟨p', w'⟩ := by
  obtain ⟨h1, h2, h3⟩ := h
  simp only at h1 h2 h3
  unfold parStep at hs
  split at hs
  · simp at hs
  · rename_i r data w1 ha
    simp only [Option.some.injEq, Prod.mk.injEq] at hs
    obtain ⟨rfl, rfl⟩ := hs
    obtain ⟨f1, f2, f3, f4, f5, f6, f7, -⟩ := answer_frame w w1 (pendingCall p) c r data ha
    obtain ⟨g1, g2, g3, g4, g5, g6, -⟩ := pushIn_spec p r w1
    have ho := feed_outvec p r data
    have he := feed_errvec p r data
    have hi := feed_input p r data
    -- what the library appended is what the OS took out of the pipes
    have hout : outAdd p r data = outTaken (pendingCall p) r data := by
      unfold outAdd outTaken pendingCall
      cases hpc : p.pc <;> cases r <;> simp
      intro hk; subst hk; exact f7 rfl
    have herr : errAdd p r data = errTaken (pendingCall p) r data := by
      unfold errAdd errTaken pendingCall
      cases hpc : p.pc <;> cases r <;> simp
      intro hk; subst hk; exact f7 rfl
    refine ⟨?_, ?_, ?_⟩
    · simp only [ho, hout, g3, g5, f2, h1, f5, List.append_assoc]
    · simp only [he, herr, g4, g6, f3, h2, f6, List.append_assoc]
    · simp only [hi, g1, g2, f1, f4, h3, List.append_assoc, List.take_append_drop]


/-! ### `close(stdin)` is scheduled only by the write that delivers the last byte -/

def NotClose (p : Par) : Prop := ∀ o e, p.pc ≠ .closeIn o e

theorem loopTop_notClose (p : Par) : NotClose (loopTop p) := by
  intro o e; unfold loopTop; (repeat' split) <;> simp
theorem rdChainErr_notClose (p : Par) (e : Bool) : NotClose (rdChainErr p e) := by
  intro o e'; unfold rdChainErr; split
  · simp
  · exact loopTop_notClose p o e'
theorem rdChain_notClose (p : Par) (o e : Bool) : NotClose (rdChain p o e) := by
  intro o' e'; unfold rdChain; split
  · simp
  · exact rdChainErr_notClose p e o' e'
theorem afterPoll_notClose (p : Par) (i o e : Bool) : NotClose (afterPoll p i o e) := by
  intro o' e'; unfold afterPoll; (repeat' split)
  · simp
  · simp
  · exact rdChain_notClose _ o e o' e'


theorem feed_notClose (p : Par) (r : Resp) (data : List UInt8) (hnot : NotClose p)
    (hw : ¬ ∃ o e k, p.pc = .wr o e ∧ r = .n k ∧ k = p.input.length) : NotClose (feed p r data) := by
  unfold feed
  cases hpc : p.pc <;> cases r <;> simp only [] <;> (repeat' split) <;>
    first
    | exact loopTop_notClose _
    | exact rdChain_notClose _ _ _
    | exact rdChainErr_notClose _ _
    | exact afterPoll_notClose _ _ _ _
    | exact hnot
    | (intro o e; simp; done)
    | exact absurd hpc (hnot _ _)
    | (rename_i hk; exact absurd ⟨_, _, _, hpc, rfl, hk⟩ hw)

end Comm

import Proofs.CommLim
/-! Time-limit invariants of the `comm` model (C04). -/
namespace Comm

@[simp] theorem loopTop_dl (p : Par) : (loopTop p).deadline = p.deadline ∧ (loopTop p).tlimit = p.tlimit := by
  unfold loopTop; (repeat' split) <;> simp
@[simp] theorem rdChainErr_dl (p : Par) (e : Bool) : (rdChainErr p e).deadline = p.deadline ∧ (rdChainErr p e).tlimit = p.tlimit := by
  unfold rdChainErr; split <;> simp
@[simp] theorem rdChain_dl (p : Par) (o e : Bool) : (rdChain p o e).deadline = p.deadline ∧ (rdChain p o e).tlimit = p.tlimit := by
  unfold rdChain; split <;> simp
@[simp] theorem afterPoll_dl (p : Par) (i o e : Bool) : (afterPoll p i o e).deadline = p.deadline ∧ (afterPoll p i o e).tlimit = p.tlimit := by
  unfold afterPoll; (repeat' split) <;> simp

/-- the time-related facts the program counter carries, relative to the virtual clock -/
def TInv (p : Par) (w : World) : Prop :=
  match p.pc with
  | .clkStart => True
  | .clkLoop => ∃ d, p.deadline = some d
  | .clkPoll => ∃ d, p.deadline = some d
  | .clkPoll2 tmo => ∃ d, p.deadline = some d ∧ d ≤ w.now + tmo
  | .poll (some tmo) dl2 => ∃ d, p.deadline = some d ∧ d ≤ w.since + tmo ∧ d ≤ dl2
  | .poll none _ => p.deadline = none
  | .clkPoll3 dl2 => ∃ d, p.deadline = some d ∧ d ≤ dl2
  | .done .timedOut => ∃ d, p.deadline = some d ∧ d ≤ w.now + 999999
  | _ => True

/-- pcs that can be the target of the structural functions never carry time facts, except
    `clkLoop`/`clkPoll` (deadline set) and `poll none` (deadline not set) -/
theorem loopTop_tinv (p : Par) (w : World) : TInv (loopTop p) w := by
  unfold loopTop
  (repeat' split) <;> simp_all [TInv]
  all_goals (first | (cases hd : p.deadline <;> simp_all) | skip)
theorem rdChainErr_tinv (p : Par) (w : World) (e : Bool) : TInv (rdChainErr p e) w := by
  unfold rdChainErr; split
  · simp [TInv]
  · exact loopTop_tinv p w
theorem rdChain_tinv (p : Par) (w : World) (o e : Bool) : TInv (rdChain p o e) w := by
  unfold rdChain; split
  · simp [TInv]
  · exact rdChainErr_tinv p w e

/-- time only moves forward, and `since ≤ now` -/
theorem child_time (p : Par) (w w' : World) (c : Choice) (hs : childStep p w c = some w') :
    w.now ≤ w'.now ∧ w'.since = w.since := by
  unfold childStep at hs
  repeat' (first | split at hs | (dsimp only at hs; split at hs))
  all_goals (try (simp at hs; done))
  all_goals (simp only [Option.some.injEq] at hs; subst hs; simp)

theorem answer_time (w w' : World) (call : Call) (c : Choice) (r : Resp) (data : List UInt8)
    (h : answer w call c = some (r, data, w')) :
    w'.now = w.now + c.dt ∧ w'.since = w.now + c.dt ∧ (∀ t, r = .time t → t = w.now + c.dt) := by
  unfold answer at h
  repeat' (first | split at h | (dsimp only at h; split at h))
  all_goals (try (simp at h; done))
  all_goals (simp only [Option.some.injEq, Prod.mk.injEq] at h; obtain ⟨rfl, rfl, rfl⟩ := h; simp)

/-- `poll`: either a flag the library tests is set, or nothing at all is reported and the
    (clamped) timeout has elapsed since the call was issued -/
theorem answer_poll (w w' : World) (fi fo fe : Bool) (tmo : Option Nat) (c : Choice) (i o e : Rev) (data : List UInt8)
    (h : answer w (.poll fi fo fe tmo) c = some (.revs i o e, data, w')) :
    ((fi && (i.pout || i.phup || i.perr)) || (fo && (o.pin || o.phup || o.perr)) || (fe && (e.pin || e.phup || e.perr))) = true ∨
    (i.any = false ∧ o.any = false ∧ e.any = false ∧ ∃ ms, tmo = some ms ∧ w.since + ms * NS_PER_MS ≤ w.now + c.dt) := by
  unfold answer at h
  cases hf : c.fault with
  | some e => simp [hf] at h
  | none =>
    simp only [hf] at h
    by_cases hr : ((fi && (revIn w).any) || (fo && (revOut w).any) || (fe && (revErr w).any)) = true
    · simp only [hr, if_true, Option.some.injEq, Prod.mk.injEq, Resp.revs.injEq] at h
      obtain ⟨⟨rfl, rfl, rfl⟩, -, -⟩ := h
      left
      simp only [revIn, revOut, revErr, Rev.any, noRev, Bool.or_eq_true, Bool.and_eq_true] at hr ⊢
      cases fi <;> cases fo <;> cases fe <;> simp_all
    · simp only [hr, Bool.false_eq_true, if_false] at h
      cases tmo with
      | none => simp at h
      | some ms =>
        simp only at h
        split at h
        · rename_i hle
          simp only [Option.some.injEq, Prod.mk.injEq, Resp.revs.injEq] at h
          obtain ⟨⟨rfl, rfl, rfl⟩, -, -⟩ := h
          right
          exact ⟨rfl, rfl, rfl, ms, rfl, hle⟩
        · simp at h


theorem afterPoll_tinv (p : Par) (w : World) (i o e : Bool)
    (h : (i || o || e) = true ∨ ∃ d, p.deadline = some d ∧ d ≤ w.now + 999999) : TInv (afterPoll p i o e) w := by
  unfold afterPoll
  split
  · rename_i hn
    rcases h with h | h
    · simp only [Bool.and_eq_true, Bool.not_eq_true'] at hn
      obtain ⟨⟨rfl, rfl⟩, rfl⟩ := hn
      simp at h
    · simpa [TInv] using h
  · split
    · simp [TInv]
    · exact rdChain_tinv _ w o e

theorem answer_clock (w w' : World) (c : Choice) (r : Resp) (data : List UInt8)
    (h : answer w .clock c = some (r, data, w')) : r = .time (w.now + c.dt) := by
  unfold answer at h
  cases hf : c.fault <;> simp [hf] at h
  exact h.1.symm

theorem clamp_ge (tmo : Nat) (h : overflow tmo = false) : tmo ≤ clampMs tmo * NS_PER_MS + 999999 := by
  unfold overflow at h
  unfold clampMs NS_PER_MS at *
  simp only [decide_eq_false_iff_not, Nat.not_lt] at h
  simp only [h, if_true]
  omega

/-- `parStep` preserves the time invariant -/
theorem par_tinv (p p' : Par) (w w' : World) (c : Choice) (h : TInv p w)
    (hs : parStep p w c = some (p', w')) : TInv p' w' := by
  unfold parStep at hs
  split at hs
  · simp at hs
  · rename_i r data w1 ha
    simp only [Option.some.injEq, Prod.mk.injEq] at hs
    obtain ⟨rfl, rfl⟩ := hs
    obtain ⟨t1, t2, -⟩ := answer_time w w1 (pendingCall p) c r data ha
    obtain ⟨-, -, -, -, -, -, -, -, -, -, -, -, -, g14⟩ := pushIn_spec p r w1
    have gsince : (pushIn p r w1).since = w1.since := by
      unfold pushIn; cases p.pc <;> cases r <;> simp
    -- abbreviations for the new clock values
    cases hpc : p.pc with
    | clkStart =>
      have hr := answer_clock w w1 c r data (by simpa [pendingCall, hpc] using ha)
      subst hr
      simp only [feed, hpc]
      exact loopTop_tinv _ _
    | clkLoop =>
      have hr := answer_clock w w1 c r data (by simpa [pendingCall, hpc] using ha)
      subst hr
      simp only [TInv, hpc] at h
      obtain ⟨d, hd⟩ := h
      simp only [feed, hpc, hd]
      split
      · rename_i hle
        simp only [TInv]
        exact ⟨d, by first | exact hd | rfl, by rw [g14, t1]; omega⟩
      · simp only [TInv]; exact ⟨d, by first | exact hd | rfl⟩
    | clkPoll =>
      have hr := answer_clock w w1 c r data (by simpa [pendingCall, hpc] using ha)
      subst hr
      simp only [TInv, hpc] at h
      obtain ⟨d, hd⟩ := h
      simp only [feed, hpc, hd, TInv]
      exact ⟨d, by first | exact hd | rfl, by rw [g14, t1]; omega⟩
    | clkPoll2 tmo =>
      have hr := answer_clock w w1 c r data (by simpa [pendingCall, hpc] using ha)
      subst hr
      simp only [TInv, hpc] at h
      obtain ⟨d, hd, hle⟩ := h
      simp only [feed, hpc, TInv]
      exact ⟨d, hd, by rw [gsince, t2]; omega, by omega⟩
    | clkPoll3 dl2 =>
      have hr := answer_clock w w1 c r data (by simpa [pendingCall, hpc] using ha)
      subst hr
      simp only [TInv, hpc] at h
      obtain ⟨d, hd, hle⟩ := h
      simp only [feed, hpc]
      split
      · rename_i hle2
        exact afterPoll_tinv _ _ _ _ _ (Or.inr ⟨d, hd, by rw [g14, t1]; omega⟩)
      · simp only [TInv]
        exact ⟨d, hd, by rw [gsince, t2]; omega, hle⟩
    | poll tmo dl2 =>
      cases r with
      | revs i o e =>
        have hp := answer_poll w w1 p.stdin p.outRef p.errRef (tmo.map clampMs) c i o e data
          (by simpa [pendingCall, hpc] using ha)
        cases tmo with
        | none =>
          simp only [feed, hpc, Bool.not_false, Bool.or_true, if_true]
          apply afterPoll_tinv
          rcases hp with hp | ⟨-, -, -, ms, hms, -⟩
          · left; exact hp
          · simp at hms
        | some t =>
          simp only [TInv, hpc] at h
          obtain ⟨d, hd, hle1, hle2⟩ := h
          simp only [feed, hpc]
          split
          · rename_i hcond
            apply afterPoll_tinv
            rcases hp with hp | ⟨hi, ho, he, ms, hms, hle⟩
            · left; exact hp
            · -- nothing reported: the (unclamped) timeout has elapsed
              right
              simp only [Option.map_some, Option.some.injEq] at hms
              subst hms
              simp only [hi, ho, he, Bool.or_self, Bool.false_or, Bool.not_eq_true'] at hcond
              have := clamp_ge t hcond
              exact ⟨d, hd, by rw [g14, t1]; omega⟩
          · -- clamped wait returned 0: re-poll
            simp only [TInv]
            exact ⟨d, hd, hle2⟩
      | err e => simp [feed, hpc, TInv]
      | time t => simp [feed, hpc, TInv]
      | n k => simp [feed, hpc, TInv]
      | ok => simp [feed, hpc, TInv]
    | wr o e =>
      cases r <;> simp only [feed, hpc] <;> first
        | exact rdChain_tinv _ _ _ _
        | (simp [TInv]; done)
        | (split <;> first | exact rdChain_tinv _ _ _ _ | (simp [TInv]; done))
    | closeIn o e =>
      cases r <;> simp only [feed, hpc] <;> exact rdChain_tinv _ _ _ _
    | rdOut e =>
      cases r <;> simp only [feed, hpc] <;> first
        | (simp [TInv]; done)
        | (split <;> exact rdChainErr_tinv _ _ _)
    | rdErr =>
      cases r <;> simp only [feed, hpc] <;> first
        | (simp [TInv]; done)
        | (split <;> exact loopTop_tinv _ _)
    | done res =>
      -- no call is pending: `answer` of `ret` is `none`
      simp [pendingCall, hpc, answer] at ha
      cases hf : c.fault <;> simp [hf] at ha

theorem child_tinv (p : Par) (w w' : World) (c : Choice) (h : TInv p w) (hs : childStep p w c = some w') : TInv p w' := by
  obtain ⟨h1, h2⟩ := child_time p w w' c hs
  unfold TInv at *
  cases hpc : p.pc <;> simp only [hpc] at h ⊢ <;> try exact h
  · obtain ⟨d, hd, hle⟩ := h; exact ⟨d, hd, by omega⟩
  · rename_i tmo dl2
    cases tmo with
    | none => exact h
    | some t => obtain ⟨d, hd, hle, hle2⟩ := h; exact ⟨d, hd, by rw [h2]; exact hle, hle2⟩
  · rename_i res
    cases res <;> simp only at h ⊢ <;> try exact h
    obtain ⟨d, hd, hle⟩ := h; exact ⟨d, hd, by omega⟩

theorem startRead_tinv (p : Par) (w : World) (l t : Option Nat) : TInv (startRead p l t) w := by
  unfold startRead; split
  · simp [TInv]
  · exact loopTop_tinv _ _

end Comm

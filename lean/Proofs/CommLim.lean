import Proofs.CommInv
/-! Size-limit invariants of the `comm` model (C03). -/
namespace Comm

@[simp] theorem loopTop_limit (p : Par) : (loopTop p).limit = p.limit := by
  unfold loopTop; (repeat' split) <;> rfl
@[simp] theorem rdChainErr_limit (p : Par) (e : Bool) : (rdChainErr p e).limit = p.limit := by
  unfold rdChainErr; split <;> simp
@[simp] theorem rdChain_limit (p : Par) (o e : Bool) : (rdChain p o e).limit = p.limit := by
  unfold rdChain; split <;> simp
@[simp] theorem afterPoll_limit (p : Par) (i o e : Bool) : (afterPoll p i o e).limit = p.limit := by
  unfold afterPoll; (repeat' split) <;> simp

theorem feed_limit (p : Par) (r : Resp) (data : List UInt8) : (feed p r data).limit = p.limit := by
  unfold feed
  cases p.pc <;> cases r <;> simp <;> (repeat' split) <;> simp

/-- whenever a `read` is the pending call the size limit has not been reached -/
def RdOK (p : Par) : Prop :=
  match p.pc with
  | .rdOut _ => limitHit p = false
  | .rdErr => limitHit p = false
  | _ => True

theorem loopTop_rdOK (p : Par) : RdOK (loopTop p) := by
  unfold loopTop
  (repeat' split) <;> simp_all [RdOK, limitHit, total] <;> assumption
theorem rdChainErr_rdOK (p : Par) (e : Bool) : RdOK (rdChainErr p e) := by
  unfold rdChainErr
  split
  · rename_i h; simp only [Bool.and_eq_true, Bool.not_eq_true'] at h; simp only [RdOK]; exact h.2
  · exact loopTop_rdOK p
theorem rdChain_rdOK (p : Par) (o e : Bool) : RdOK (rdChain p o e) := by
  unfold rdChain
  split
  · rename_i h; simp only [Bool.and_eq_true, Bool.not_eq_true'] at h; simp only [RdOK]; exact h.2
  · exact rdChainErr_rdOK p e
theorem afterPoll_rdOK (p : Par) (i o e : Bool) : RdOK (afterPoll p i o e) := by
  unfold afterPoll
  (repeat' split)
  · simp [RdOK]
  · simp [RdOK]
  · exact rdChain_rdOK _ o e

theorem feed_rdOK (p : Par) (r : Resp) (data : List UInt8) (h : RdOK p) : RdOK (feed p r data) := by
  unfold feed
  cases hpc : p.pc <;> cases r <;> simp only [] <;> (repeat' split) <;>
    first
    | exact loopTop_rdOK _
    | exact rdChain_rdOK _ _ _
    | exact rdChainErr_rdOK _ _
    | exact afterPoll_rdOK _ _ _ _
    | (simp [RdOK]; done)
    | (simpa [RdOK, hpc] using h)

/-- the size-limit invariant: the bytes collected by the current call never exceed the limit -/
def LInv (p : Par) : Prop := (∀ l, p.limit = some l → total p ≤ l) ∧ RdOK p

theorem readSize_pos (p : Par) (h : limitHit p = false) : 1 ≤ readSize p ∧ ∀ l, p.limit = some l → total p + readSize p ≤ l := by
  unfold readSize limitHit at *
  cases hl : p.limit with
  | none => simp
  | some l =>
    simp only [hl, decide_eq_false_iff_not, Nat.not_le] at h
    simp only [Option.some.injEq, forall_eq']
    split <;> omega

theorem answer_read_len (w w' : World) (s : Strm) (m : Nat) (c : Choice) (r : Resp) (data : List UInt8)
    (h : answer w (.read s m) c = some (r, data, w')) (hm : 1 ≤ m) : data.length ≤ m := by
  unfold answer at h
  repeat' (first | split at h | (dsimp only at h; split at h))
  all_goals (try (simp at h; done))
  all_goals (simp only [Option.some.injEq, Prod.mk.injEq] at h; obtain ⟨rfl, rfl, rfl⟩ := h)
  all_goals (try (simp; done))
  all_goals (
    rename_i heq hne
    simp only [Call.read.injEq] at heq
    obtain ⟨-, rfl⟩ := heq
    have h1 := List.length_pos_iff.mpr hne
    simp only [clamp, List.length_take]
    omega)

theorem par_linv (p p' : Par) (w w' : World) (c : Choice) (h : LInv p)
    (hs : parStep p w c = some (p', w')) : LInv p' := by
  unfold parStep at hs
  split at hs
  · simp at hs
  · rename_i r data w1 ha
    simp only [Option.some.injEq, Prod.mk.injEq] at hs
    obtain ⟨rfl, rfl⟩ := hs
    refine ⟨?_, feed_rdOK p r data h.2⟩
    intro l hl
    rw [feed_limit] at hl
    have hT : total (feed p r data) = total p + (outAdd p r data).length + (errAdd p r data).length := by
      simp only [total, feed_outvec, feed_errvec, List.length_append]; omega
    rw [hT]
    have h0 := h.1 l hl
    cases hpc : p.pc with
    | rdOut e =>
      have hok : limitHit p = false := by have := h.2; simpa [RdOK, hpc] using this
      obtain ⟨hp1, hp2⟩ := readSize_pos p hok
      have hcall : pendingCall p = .read .out (readSize p) := by simp [pendingCall, hpc]
      rw [hcall] at ha
      have hlen := answer_read_len w w1 .out (readSize p) c r data ha hp1
      have := hp2 l hl
      have e0 : (errAdd p r data).length = 0 := by simp [errAdd, hpc]
      have o0 : (outAdd p r data).length ≤ data.length := by
        unfold outAdd; rw [hpc]; cases r <;> simp; split <;> simp
      omega
    | rdErr =>
      have hok : limitHit p = false := by have := h.2; simpa [RdOK, hpc] using this
      obtain ⟨hp1, hp2⟩ := readSize_pos p hok
      have hcall : pendingCall p = .read .err (readSize p) := by simp [pendingCall, hpc]
      rw [hcall] at ha
      have hlen := answer_read_len w w1 .err (readSize p) c r data ha hp1
      have := hp2 l hl
      have o0 : (outAdd p r data).length = 0 := by simp [outAdd, hpc]
      have e0 : (errAdd p r data).length ≤ data.length := by
        unfold errAdd; rw [hpc]; cases r <;> simp; split <;> simp
      omega
    | _ =>
      have o0 : (outAdd p r data).length = 0 := by simp [outAdd, hpc]
      have e0 : (errAdd p r data).length = 0 := by simp [errAdd, hpc]
      omega

theorem startRead_linv (p : Par) (l t : Option Nat) : LInv (startRead p l t) := by
  unfold startRead
  split
  · refine ⟨?_, by simp [RdOK]⟩
    intro l' _; simp [total]
  · refine ⟨?_, loopTop_rdOK _⟩
    intro l' _; simp [total]

end Comm

namespace Comm

/-! ### A successful return with nothing collected means every stream is finished -/

/-- `Ok` is returned only because the limit was reached or no stream is left -/
def DoneInv (p : Par) : Prop :=
  p.pc = .done .ok → limitHit p = true ∨ (p.stdin = false ∧ p.outRef = false ∧ p.errRef = false)

theorem loopTop_doneInv (p : Par) : DoneInv (loopTop p) := by
  unfold loopTop DoneInv
  (repeat' split) <;> simp_all [limitHit, total] <;> (first | (left; assumption) | skip)
theorem rdChainErr_doneInv (p : Par) (e : Bool) : DoneInv (rdChainErr p e) := by
  unfold rdChainErr; split
  · simp [DoneInv]
  · exact loopTop_doneInv p
theorem rdChain_doneInv (p : Par) (o e : Bool) : DoneInv (rdChain p o e) := by
  unfold rdChain; split
  · simp [DoneInv]
  · exact rdChainErr_doneInv p e
theorem afterPoll_doneInv (p : Par) (i o e : Bool) : DoneInv (afterPoll p i o e) := by
  unfold afterPoll; (repeat' split)
  · simp [DoneInv]
  · simp [DoneInv]
  · exact rdChain_doneInv _ o e

theorem feed_doneInv (p : Par) (r : Resp) (data : List UInt8) (h : DoneInv p) : DoneInv (feed p r data) := by
  unfold feed
  cases hpc : p.pc <;> cases r <;> simp only [] <;> (repeat' split) <;>
    first
    | exact loopTop_doneInv _
    | exact rdChain_doneInv _ _ _
    | exact rdChainErr_doneInv _ _
    | exact afterPoll_doneInv _ _ _ _
    | (simp [DoneInv]; done)
    | exact h

theorem startRead_doneInv (p : Par) (l t : Option Nat) : DoneInv (startRead p l t) := by
  unfold startRead; split
  · simp [DoneInv]
  · exact loopTop_doneInv _

/-- a stream retired during this call (`*_ref = None` although it is piped) has really reached
    end-of-file: the pipe is empty and nobody holds the write end -/
def EofInv (p : Par) (w : World) : Prop :=
  (p.hasOut = true → p.outRef = false → w.outBuf = [] ∧ w.outWr = false) ∧
  (p.hasErr = true → p.errRef = false → w.errBuf = [] ∧ w.errWr = false)

@[simp] theorem loopTop_refs (p : Par) :
    (loopTop p).outRef = p.outRef ∧ (loopTop p).errRef = p.errRef ∧ (loopTop p).hasOut = p.hasOut ∧ (loopTop p).hasErr = p.hasErr := by
  unfold loopTop; (repeat' split) <;> simp
@[simp] theorem rdChainErr_refs (p : Par) (e : Bool) :
    (rdChainErr p e).outRef = p.outRef ∧ (rdChainErr p e).errRef = p.errRef ∧ (rdChainErr p e).hasOut = p.hasOut ∧ (rdChainErr p e).hasErr = p.hasErr := by
  unfold rdChainErr; split <;> simp
@[simp] theorem rdChain_refs (p : Par) (o e : Bool) :
    (rdChain p o e).outRef = p.outRef ∧ (rdChain p o e).errRef = p.errRef ∧ (rdChain p o e).hasOut = p.hasOut ∧ (rdChain p o e).hasErr = p.hasErr := by
  unfold rdChain; split <;> simp
@[simp] theorem afterPoll_refs (p : Par) (i o e : Bool) :
    (afterPoll p i o e).outRef = p.outRef ∧ (afterPoll p i o e).errRef = p.errRef ∧ (afterPoll p i o e).hasOut = p.hasOut ∧ (afterPoll p i o e).hasErr = p.hasErr := by
  unfold afterPoll; (repeat' split) <;> simp

/-- `feed` retires stdout only on a zero-length read of stdout (same for stderr) -/
theorem feed_refs (p : Par) (r : Resp) (data : List UInt8) :
    (feed p r data).hasOut = p.hasOut ∧ (feed p r data).hasErr = p.hasErr ∧
    ((feed p r data).outRef = p.outRef ∨ ((feed p r data).outRef = false ∧ ∃ e, p.pc = .rdOut e ∧ r = .n 0)) ∧
    ((feed p r data).errRef = p.errRef ∨ ((feed p r data).errRef = false ∧ p.pc = .rdErr ∧ r = .n 0)) := by
  unfold feed
  cases hpc : p.pc <;> cases r <;> simp only [] <;> (repeat' split) <;> simp_all

theorem answer_eof (w w' : World) (m : Nat) (c : Choice) (data : List UInt8) (hm : 1 ≤ m) :
    (answer w (.read .out m) c = some (.n 0, data, w') → w.outBuf = [] ∧ w.outWr = false) ∧
    (answer w (.read .err m) c = some (.n 0, data, w') → w.errBuf = [] ∧ w.errWr = false) := by
  constructor <;> intro h <;> unfold answer at h <;>
    (repeat' (first | split at h | (dsimp only at h; split at h))) <;>
    (try (simp at h; done)) <;>
    (simp only [Option.some.injEq, Prod.mk.injEq, Resp.n.injEq] at h) <;>
    (first
      | (simp_all; done)
      | (exfalso; obtain ⟨h0, -⟩ := h; simp only [clamp] at h0; omega))

theorem child_eof (p : Par) (w w' : World) (c : Choice) (hs : childStep p w c = some w') :
    (w.outBuf = [] ∧ w.outWr = false → w'.outBuf = [] ∧ w'.outWr = false) ∧
    (w.errBuf = [] ∧ w.errWr = false → w'.errBuf = [] ∧ w'.errWr = false) := by
  unfold childStep at hs
  repeat' (first | split at hs | (dsimp only at hs; split at hs))
  all_goals (try (simp at hs; done))
  all_goals (simp only [Option.some.injEq] at hs; subst hs)
  all_goals (constructor <;> intro h <;> simp_all)

theorem par_eofInv (p p' : Par) (w w' : World) (c : Choice) (h : EofInv p w) (hok : RdOK p)
    (hs : parStep p w c = some (p', w')) : EofInv p' w' := by
  unfold parStep at hs
  split at hs
  · simp at hs
  · rename_i r data w1 ha
    simp only [Option.some.injEq, Prod.mk.injEq] at hs
    obtain ⟨rfl, rfl⟩ := hs
    obtain ⟨-, -, -, -, f5, f6, -, -, f9, f10, -⟩ := answer_frame w w1 (pendingCall p) c r data ha
    obtain ⟨-, -, -, -, g5, g6, -, g8, g9, -⟩ := pushIn_spec p r w1
    obtain ⟨r1, r2, r3, r4⟩ := feed_refs p r data
    refine ⟨?_, ?_⟩
    · intro ho hr
      rw [r1] at ho
      rw [g5, g8, f9]
      rcases r3 with r3 | ⟨-, e, hpc, rfl⟩
      · rw [r3] at hr
        obtain ⟨hb, hw⟩ := h.1 ho hr
        rw [hb] at f5
        have : w1.outBuf = [] := by
          have := congrArg List.length f5; simp at this; exact List.length_eq_zero_iff.mp (by omega)
        exact ⟨this, hw⟩
      · have hlim : limitHit p = false := by simpa [RdOK, hpc] using hok
        have hcall : pendingCall p = .read .out (readSize p) := by simp [pendingCall, hpc]
        rw [hcall] at ha
        obtain ⟨hb, hw⟩ := (answer_eof w w1 (readSize p) c data (readSize_pos p hlim).1).1 ha
        rw [hb] at f5
        have : w1.outBuf = [] := by
          have := congrArg List.length f5; simp at this; exact List.length_eq_zero_iff.mp (by omega)
        exact ⟨this, hw⟩
    · intro ho hr
      rw [r2] at ho
      rw [g6, g9, f10]
      rcases r4 with r4 | ⟨-, hpc, rfl⟩
      · rw [r4] at hr
        obtain ⟨hb, hw⟩ := h.2 ho hr
        rw [hb] at f6
        have : w1.errBuf = [] := by
          have := congrArg List.length f6; simp at this; exact List.length_eq_zero_iff.mp (by omega)
        exact ⟨this, hw⟩
      · have hlim : limitHit p = false := by simpa [RdOK, hpc] using hok
        have hcall : pendingCall p = .read .err (readSize p) := by simp [pendingCall, hpc]
        rw [hcall] at ha
        obtain ⟨hb, hw⟩ := (answer_eof w w1 (readSize p) c data (readSize_pos p hlim).1).2 ha
        rw [hb] at f6
        have : w1.errBuf = [] := by
          have := congrArg List.length f6; simp at this; exact List.length_eq_zero_iff.mp (by omega)
        exact ⟨this, hw⟩

end Comm

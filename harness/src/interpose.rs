//! Link-time interposition of the libc entry points the library uses.
//!
//! The `harness` binary defines these symbols itself, so the `libc` crate's and `std`'s references
//! resolve here.  Each function asks the active simulated kernel (if the calling thread is the one
//! under test) and otherwise forwards to the real system call.
#![allow(clippy::missing_safety_doc, dead_code)]

use libc::{c_int, c_long, c_void, pid_t, size_t, ssize_t};
use std::sync::atomic::{AtomicBool, AtomicI32, Ordering};

/// What a simulated kernel says about one call.
pub enum Ans<T> {
    /// not mine: forward to the real kernel
    Pass,
    /// answer with this value (>= 0) …
    Ret(T),
    /// … or fail with this errno
    Err(c_int),
}

/// A simulated kernel.  Every method defaults to pass-through.
pub trait Kernel {
    fn poll(&mut self, _fds: &mut [libc::pollfd], _timeout_ms: c_int) -> Ans<c_int> {
        Ans::Pass
    }
    fn read(&mut self, _fd: c_int, _buf: &mut [u8]) -> Ans<usize> {
        Ans::Pass
    }
    fn write(&mut self, _fd: c_int, _buf: &[u8]) -> Ans<usize> {
        Ans::Pass
    }
    /// `Ret(())` = handled bookkeeping, but the real close is still performed
    fn close(&mut self, _fd: c_int) -> Ans<()> {
        Ans::Pass
    }
    fn waitpid(&mut self, _pid: pid_t, _flags: c_int) -> Ans<(pid_t, c_int)> {
        Ans::Pass
    }
    fn kill(&mut self, _pid: pid_t, _sig: c_int) -> Ans<()> {
        Ans::Pass
    }
    /// CLOCK_MONOTONIC in ns
    fn clock(&mut self) -> Ans<u64> {
        Ans::Pass
    }
    fn sleep(&mut self, _ns: u64) -> Ans<()> {
        Ans::Pass
    }
}

static ACTIVE_TID: AtomicI32 = AtomicI32::new(0);
static IN_SIM: AtomicBool = AtomicBool::new(false);
static mut SIM: Option<*mut dyn Kernel> = None;

fn gettid() -> i32 {
    unsafe { libc::syscall(libc::SYS_gettid) as i32 }
}

/// Run `f` with `k` answering the calls of the current thread.
pub fn with_kernel<R>(k: &mut dyn Kernel, f: impl FnOnce() -> R) -> R {
    unsafe {
        let kp: *mut dyn Kernel = std::mem::transmute::<&mut dyn Kernel, *mut dyn Kernel>(k);
        SIM = Some(kp);
    }
    ACTIVE_TID.store(gettid(), Ordering::SeqCst);
    let r = f();
    ACTIVE_TID.store(0, Ordering::SeqCst);
    unsafe {
        SIM = None;
    }
    r
}

#[inline]
unsafe fn ask<T>(f: impl FnOnce(&mut dyn Kernel) -> Ans<T>) -> Ans<T> {
    let t = ACTIVE_TID.load(Ordering::Relaxed);
    if t == 0 || t != gettid() || IN_SIM.load(Ordering::Relaxed) {
        return Ans::Pass;
    }
    #[allow(static_mut_refs)]
    let k = match SIM {
        Some(k) => k,
        None => return Ans::Pass,
    };
    IN_SIM.store(true, Ordering::Relaxed);
    let r = f(&mut *k);
    IN_SIM.store(false, Ordering::Relaxed);
    r
}

unsafe fn set_errno(e: c_int) {
    *libc::__errno_location() = e;
}

// ------------------------------------------------------------------ real calls (raw system calls)
pub unsafe fn real_read(fd: c_int, buf: *mut c_void, n: size_t) -> ssize_t {
    libc::syscall(libc::SYS_read, fd as c_long, buf, n) as ssize_t
}
pub unsafe fn real_write(fd: c_int, buf: *const c_void, n: size_t) -> ssize_t {
    libc::syscall(libc::SYS_write, fd as c_long, buf, n) as ssize_t
}
pub unsafe fn real_close(fd: c_int) -> c_int {
    libc::syscall(libc::SYS_close, fd as c_long) as c_int
}
pub unsafe fn real_waitpid(pid: pid_t, status: *mut c_int, flags: c_int) -> pid_t {
    libc::syscall(libc::SYS_wait4, pid as c_long, status, flags as c_long, 0 as c_long) as pid_t
}
pub unsafe fn real_kill(pid: pid_t, sig: c_int) -> c_int {
    libc::syscall(libc::SYS_kill, pid as c_long, sig as c_long) as c_int
}

// ------------------------------------------------------------------ interposed symbols
#[no_mangle]
pub unsafe extern "C" fn poll(fds: *mut libc::pollfd, nfds: libc::nfds_t, timeout: c_int) -> c_int {
    let sl = if fds.is_null() { &mut [][..] } else { std::slice::from_raw_parts_mut(fds, nfds as usize) };
    match ask(|k| k.poll(sl, timeout)) {
        Ans::Pass => libc::syscall(libc::SYS_poll, fds, nfds as c_long, timeout as c_long) as c_int,
        Ans::Ret(n) => n,
        Ans::Err(e) => {
            set_errno(e);
            -1
        }
    }
}

#[no_mangle]
pub unsafe extern "C" fn read(fd: c_int, buf: *mut c_void, n: size_t) -> ssize_t {
    if let Some(r) = crate::trace::trace_read(fd, buf, n) {
        return r;
    }
    let t = ACTIVE_TID.load(Ordering::Relaxed);
    if t != 0 {
        let sl = std::slice::from_raw_parts_mut(buf as *mut u8, n);
        match ask(|k| k.read(fd, sl)) {
            Ans::Pass => {}
            Ans::Ret(m) => return m as ssize_t,
            Ans::Err(e) => {
                set_errno(e);
                return -1;
            }
        }
    }
    real_read(fd, buf, n)
}

#[no_mangle]
pub unsafe extern "C" fn write(fd: c_int, buf: *const c_void, n: size_t) -> ssize_t {
    if let Some(r) = crate::trace::trace_write(fd, buf, n) {
        return r;
    }
    let t = ACTIVE_TID.load(Ordering::Relaxed);
    if t != 0 {
        let sl = std::slice::from_raw_parts(buf as *const u8, n);
        match ask(|k| k.write(fd, sl)) {
            Ans::Pass => {}
            Ans::Ret(m) => return m as ssize_t,
            Ans::Err(e) => {
                set_errno(e);
                return -1;
            }
        }
    }
    real_write(fd, buf, n)
}

#[no_mangle]
pub unsafe extern "C" fn close(fd: c_int) -> c_int {
    if let Some(r) = crate::trace::trace_close(fd) {
        return r;
    }
    let t = ACTIVE_TID.load(Ordering::Relaxed);
    if t != 0 {
        match ask(|k| k.close(fd)) {
            Ans::Pass | Ans::Ret(()) => {}
            Ans::Err(e) => {
                real_close(fd);
                set_errno(e);
                return -1;
            }
        }
    }
    real_close(fd)
}

#[no_mangle]
pub unsafe extern "C" fn waitpid(pid: pid_t, status: *mut c_int, flags: c_int) -> pid_t {
    if let Some(r) = crate::trace::trace_waitpid(pid, status, flags) {
        return r;
    }
    match ask(|k| k.waitpid(pid, flags)) {
        Ans::Pass => real_waitpid(pid, status, flags),
        Ans::Ret((p, st)) => {
            if !status.is_null() {
                *status = st;
            }
            p
        }
        Ans::Err(e) => {
            set_errno(e);
            -1
        }
    }
}

#[no_mangle]
pub unsafe extern "C" fn kill(pid: pid_t, sig: c_int) -> c_int {
    match ask(|k| k.kill(pid, sig)) {
        Ans::Pass => real_kill(pid, sig),
        Ans::Ret(()) => 0,
        Ans::Err(e) => {
            set_errno(e);
            -1
        }
    }
}

/// any other way of sending a signal is routed to the same kernel hook, with the target the kernel would see
/// (a process group is a negative pid): the oracle demands "exactly the child's process id"
#[no_mangle]
pub unsafe extern "C" fn killpg(pgrp: pid_t, sig: c_int) -> c_int {
    match ask(|k| k.kill(-pgrp, sig)) {
        Ans::Pass => libc::syscall(libc::SYS_kill, (-pgrp) as c_long, sig as c_long) as c_int,
        Ans::Ret(()) => 0,
        Ans::Err(e) => {
            set_errno(e);
            -1
        }
    }
}

#[no_mangle]
pub unsafe extern "C" fn clock_gettime(clk: libc::clockid_t, ts: *mut libc::timespec) -> c_int {
    if clk == libc::CLOCK_MONOTONIC {
        if let Ans::Ret(ns) = ask(|k| k.clock()) {
            (*ts).tv_sec = (ns / 1_000_000_000) as libc::time_t;
            (*ts).tv_nsec = (ns % 1_000_000_000) as c_long;
            return 0;
        }
    }
    libc::syscall(libc::SYS_clock_gettime, clk as c_long, ts) as c_int
}

unsafe fn ts_ns(ts: *const libc::timespec) -> u64 {
    ((*ts).tv_sec as u64).saturating_mul(1_000_000_000).saturating_add((*ts).tv_nsec as u64)
}

#[no_mangle]
pub unsafe extern "C" fn nanosleep(req: *const libc::timespec, rem: *mut libc::timespec) -> c_int {
    if let Ans::Ret(()) = ask(|k| k.sleep(ts_ns(req))) {
        return 0;
    }
    libc::syscall(libc::SYS_nanosleep, req, rem) as c_int
}

#[no_mangle]
pub unsafe extern "C" fn clock_nanosleep(
    clk: libc::clockid_t,
    flags: c_int,
    req: *const libc::timespec,
    rem: *mut libc::timespec,
) -> c_int {
    if flags == 0 {
        if let Ans::Ret(()) = ask(|k| k.sleep(ts_ns(req))) {
            return 0;
        }
    }
    let r = libc::syscall(libc::SYS_clock_nanosleep, clk as c_long, flags as c_long, req, rem);
    if r == -1 {
        *libc::__errno_location()
    } else {
        r as c_int
    }
}

//! Engine `spawn` (C05 C06 C07 C08 C15 C17 C18): the real `Popen::create` in trace mode.
//! Reads case specifications (one per line), runs each against the real kernel with the fault plan
//! of the case, and dumps the facts: call log of parent and child, result, descriptor tables,
//! object identities, allocation counter, leftover children.
use crate::proto::{hex, unhex};
use crate::trace::{self, Fault};
use libc::c_int;
use std::ffi::OsString;
use std::fs::File;
use std::io::{BufRead, Write};
use std::os::unix::ffi::OsStringExt;
use std::os::unix::io::{AsRawFd, FromRawFd};
use std::rc::Rc;
use subprocess::{Popen, PopenConfig, PopenError, Redirection};

pub struct Out(pub File);
impl Out {
    pub fn line(&mut self, s: &str) {
        let _ = self.0.write_all(s.as_bytes());
        let _ = self.0.write_all(b"\n");
    }
}

pub fn ident(fd: c_int) -> String {
    unsafe {
        let mut st: libc::stat = std::mem::zeroed();
        if libc::fstat(fd, &mut st) != 0 {
            return "-".into();
        }
        let fl = libc::fcntl(fd, libc::F_GETFL);
        format!("{}:{}:{}", st.st_dev, st.st_ino, fl & 3)
    }
}

pub fn fd_table() -> String {
    let mut v = vec![];
    for fd in 0..256 {
        let r = unsafe { libc::syscall(libc::SYS_fcntl, fd as libc::c_long, libc::F_GETFD as libc::c_long, 0 as libc::c_long) };
        if r >= 0 {
            // ... and the status flags of the open file description (O_NONBLOCK, O_APPEND): they are shared with whoever
            // inherits the descriptor, so a child-side "fix-up" of them changes the parent's stream too
            let fl = unsafe { libc::syscall(libc::SYS_fcntl, fd as libc::c_long, libc::F_GETFL as libc::c_long, 0 as libc::c_long) };
            v.push(format!("{}:{}:{}:fl{:x}", fd, r & 1, ident(fd), fl & (libc::O_NONBLOCK | libc::O_APPEND) as i64));
        }
    }
    v.join(",")
}

pub struct Spec {
    pub kv: std::collections::HashMap<String, String>,
}
impl Spec {
    pub fn parse(line: &str) -> Spec {
        let mut kv = std::collections::HashMap::new();
        for t in line.split_whitespace() {
            if let Some((k, v)) = t.split_once('=') {
                kv.insert(k.to_string(), v.to_string());
            }
        }
        Spec { kv }
    }
    pub fn get(&self, k: &str) -> &str {
        self.kv.get(k).map(|s| s.as_str()).unwrap_or("-")
    }
}

pub struct Objects {
    pub dir: String,
    pub files: Vec<Option<File>>,   // F0..F2 (consumed by Redirection::File)
    pub rcs: Vec<Option<Rc<File>>>, // R0..R1
    pub idents: Vec<(String, String)>,
}

fn open_tmp(dir: &str, name: &str) -> File {
    std::fs::OpenOptions::new().read(true).write(true).create(true).truncate(true).open(format!("{}/{}", dir, name)).expect("tmp file")
}

/// point the harness's own 0,1,2 at three fresh, distinct files (so that "inherited" is identifiable
/// and differs from case to case)
pub fn repoint_std(dir: &str, tag: usize) -> Vec<(String, String)> {
    let mut ids = vec![];
    // a previous case may have closed some of 0-2: fill them first, so that the files opened below land above 2
    loop {
        let fd = unsafe { libc::open(b"/dev/null\0".as_ptr() as *const libc::c_char, libc::O_RDWR) };
        if fd > 2 || fd < 0 {
            unsafe { libc::syscall(libc::SYS_close, fd as libc::c_long) };
            break;
        }
    }
    for fd in 0..3 {
        let f = open_tmp(dir, &format!("std{}_{}", fd, tag % 2));
        unsafe {
            libc::dup2(f.as_raw_fd(), fd);
        }
        ids.push((format!("p{}", fd), ident(fd)));
    }
    ids
}

pub fn redirection(tok: &str, obj: &mut Objects) -> Redirection {
    match tok {
        "N" => Redirection::None,
        "P" => Redirection::Pipe,
        "M" => Redirection::Merge,
        t if t.starts_with('F') => {
            let i: usize = t[1..].parse().unwrap();
            Redirection::File(obj.files[i].take().expect("file used twice"))
        }
        t if t.starts_with('R') => {
            let i: usize = t[1..].parse().unwrap();
            Redirection::RcFile(Rc::clone(obj.rcs[i].as_ref().unwrap()))
        }
        _ => panic!("bad redirection {}", tok),
    }
}

pub fn make_objects(dir: &str, spec_text: &str) -> Objects {
    let mut obj = Objects { dir: dir.to_string(), files: vec![None, None, None], rcs: vec![None, None], idents: vec![] };
    for i in 0..3 {
        if spec_text.contains(&format!("F{}", i)) {
            let f = open_tmp(dir, &format!("F{}", i));
            obj.idents.push((format!("F{}", i), ident(f.as_raw_fd())));
            obj.idents.push((format!("F{}fd", i), f.as_raw_fd().to_string()));
            obj.files[i] = Some(f);
        }
    }
    for i in 0..2 {
        if spec_text.contains(&format!("R{}", i)) {
            let f = open_tmp(dir, &format!("R{}", i));
            obj.idents.push((format!("R{}", i), ident(f.as_raw_fd())));
            obj.idents.push((format!("R{}fd", i), f.as_raw_fd().to_string()));
            obj.rcs[i] = Some(Rc::new(f));
        }
    }
    obj
}

pub fn parse_faults(s: &str) -> Vec<Fault> {
    let mut v = vec![];
    if s == "-" {
        return v;
    }
    for f in s.split(';') {
        let p: Vec<&str> = f.split('.').collect();
        if p.len() == 4 {
            if let Some(k) = trace::kind_of(p[1]) {
                v.push(Fault { child: p[0] == "C", kind: k, nth: p[2].parse().unwrap_or(0), errno: p[3].parse().unwrap_or(5) });
            }
        }
    }
    v
}

pub fn os(b: &str) -> OsString {
    OsString::from_vec(unhex(b))
}

pub fn build_config(spec: &Spec, obj: &mut Objects) -> (Vec<OsString>, PopenConfig) {
    let argv: Vec<OsString> = if spec.get("argv") == "-" || spec.get("argv").is_empty() {
        vec![]
    } else {
        spec.get("argv").split(',').map(os).collect()
    };
    let mut cfg = PopenConfig::default();
    cfg.stdin = redirection(spec.get("in"), obj);
    cfg.stdout = redirection(spec.get("out"), obj);
    cfg.stderr = redirection(spec.get("err"), obj);
    cfg.detached = spec.get("det") == "1";
    if spec.get("exe") != "-" {
        cfg.executable = Some(os(spec.get("exe")));
    }
    match spec.get("env") {
        "-" => {}
        "none" => cfg.env = Some(vec![]),
        e => {
            cfg.env = Some(
                e.split(',')
                    .map(|kv| {
                        let (k, v) = kv.split_once(':').unwrap();
                        (os(k), os(v))
                    })
                    .collect(),
            )
        }
    }
    if spec.get("cwd") != "-" {
        cfg.cwd = Some(os(spec.get("cwd")));
    }
    if spec.get("uid") != "-" {
        cfg.setuid = spec.get("uid").parse().ok();
    }
    if spec.get("gid") != "-" {
        cfg.setgid = spec.get("gid").parse().ok();
    }
    cfg.setpgid = spec.get("pgid") == "1";
    (argv, cfg)
}

pub fn set_path(spec: &Spec) {
    match spec.get("path") {
        "-" | "keep" => {}
        "unset" => std::env::remove_var("PATH"),
        p => std::env::set_var("PATH", os(p)),
    }
}

pub fn set_mask(bits: u64) {
    unsafe {
        let mut set: libc::sigset_t = std::mem::zeroed();
        libc::sigemptyset(&mut set);
        for s in 1..64 {
            if bits & (1 << s) != 0 && s != libc::SIGKILL && s != libc::SIGSTOP {
                libc::sigaddset(&mut set, s);
            }
        }
        libc::pthread_sigmask(libc::SIG_SETMASK, &set, std::ptr::null_mut());
    }
}

static mut WINDOW_OUT: Option<(String, String)> = None; // (parent's pipe descriptors at the window, the other child's)
static mut WINDOW_DIR: Option<String> = None;

/// the "other thread": a complete, unrelated launch run inside the window; its child reports the pipes it holds
fn sigflip_hook() {
    unsafe {
        libc::signal(libc::SIGPIPE, libc::SIG_IGN);
    }
}

fn window_hook() {
    let dir = unsafe { WINDOW_DIR.clone().unwrap_or_else(|| "/tmp".into()) };
    let path = format!("{}/window_fds", dir);
    let _ = std::fs::remove_file(&path);
    let mut parent = vec![];
    for fd in 0..256 {
        unsafe {
            let mut st: libc::stat = std::mem::zeroed();
            if libc::fstat(fd, &mut st) == 0 && (st.st_mode & libc::S_IFMT) == libc::S_IFIFO {
                parent.push(format!("{}:{}", fd, st.st_ino));
            }
        }
    }
    let me = std::env::current_exe().unwrap();
    let hplain = me.parent().unwrap().join("hplain");
    if let Ok(mut p) = Popen::create(&[hplain.as_os_str(), std::ffi::OsStr::new("fdlist"), std::ffi::OsStr::new(&path)], PopenConfig::default()) {
        let _ = p.wait();
    }
    let other = std::fs::read_to_string(&path).unwrap_or_default();
    unsafe { WINDOW_OUT = Some((parent.join(" "), other)) };
}

pub fn leftover() -> String {
    unsafe {
        let mut st = 0;
        let r = libc::syscall(libc::SYS_wait4, -1 as libc::c_long, &mut st as *mut c_int, libc::WNOHANG as libc::c_long, 0 as libc::c_long);
        if r > 0 {
            format!("K{}:{}", r, st)
        } else if r == 0 {
            "running".into()
        } else {
            "none".into()
        }
    }
}

pub fn reap_all() {
    unsafe {
        loop {
            let mut st = 0;
            let r = libc::syscall(libc::SYS_wait4, -1 as libc::c_long, &mut st as *mut c_int, 0 as libc::c_long, 0 as libc::c_long);
            if r <= 0 {
                break;
            }
        }
    }
}

fn run_case(idx: usize, line: &str, dir: &str, out: &mut Out) {
    let spec = Spec::parse(line);
    out.line(&format!("CASE {}", idx));
    out.line(&format!("SPEC {}", line));
    let mut ids = repoint_std(dir, idx);
    // tty=<digits>: these standard descriptors of the caller are a terminal (the slave side of a fresh pty)
    let mut _pty_master: Option<File> = None;
    if !spec.get("tty").is_empty() && spec.get("tty") != "-" {
        unsafe {
            let m = libc::posix_openpt(libc::O_RDWR | libc::O_NOCTTY);
            if m >= 0 && libc::grantpt(m) == 0 && libc::unlockpt(m) == 0 {
                let mut name = [0 as libc::c_char; 128];
                if libc::ptsname_r(m, name.as_mut_ptr(), name.len()) == 0 {
                    let sfd = libc::open(name.as_ptr(), libc::O_RDWR | libc::O_NOCTTY);
                    if sfd >= 0 {
                        for ch in spec.get("tty").chars() {
                            if let Some(d) = ch.to_digit(3) {
                                libc::dup2(sfd, d as c_int);
                                for e in ids.iter_mut() {
                                    if e.0 == format!("p{}", d) {
                                        e.1 = ident(d as c_int);
                                    }
                                }
                            }
                        }
                        libc::syscall(libc::SYS_close, sfd as libc::c_long);
                    }
                }
                _pty_master = Some(File::from_raw_fd(libc::fcntl(m, libc::F_DUPFD_CLOEXEC, 210)));
                libc::syscall(libc::SYS_close, m as libc::c_long);
            }
        }
    }
    // samefile=<digits>: these standard descriptors of the caller are SEPARATE opens of one and the same file (`prog >log 2>log`):
    // same device and inode, but each with an offset of its own
    if !spec.get("samefile").is_empty() && spec.get("samefile") != "-" {
        for ch in spec.get("samefile").chars() {
            if let Some(d) = ch.to_digit(3) {
                let f = std::fs::OpenOptions::new().read(true).write(true).create(true).open(format!("{}/std_same_{}", dir, idx % 2)).expect("tmp file");
                unsafe { libc::dup2(f.as_raw_fd(), d as c_int) };
                for e in ids.iter_mut() {
                    if e.0 == format!("p{}", d) {
                        e.1 = ident(d as c_int);
                    }
                }
            }
        }
    }
    let spec_text = format!("{} {} {}", spec.get("in"), spec.get("out"), spec.get("err"));
    let mut obj = make_objects(dir, &spec_text);
    // nonblock=<digits>: the caller keeps these standard descriptors (and every file it passes) in non-blocking mode
    if !spec.get("nonblock").is_empty() && spec.get("nonblock") != "-" {
        let mut fds: Vec<c_int> = spec.get("nonblock").chars().filter_map(|c| c.to_digit(3)).map(|d| d as c_int).collect();
        for f in obj.files.iter().flatten() {
            fds.push(f.as_raw_fd());
        }
        for r in obj.rcs.iter().flatten() {
            fds.push(r.as_raw_fd());
        }
        for fd in fds {
            unsafe {
                let fl = libc::syscall(libc::SYS_fcntl, fd as libc::c_long, libc::F_GETFL as libc::c_long, 0 as libc::c_long);
                libc::syscall(libc::SYS_fcntl, fd as libc::c_long, libc::F_SETFL as libc::c_long, (fl | libc::O_NONBLOCK as i64) as libc::c_long);
            }
        }
    }
    ids.extend(obj.idents.clone());
    out.line(&format!("OBJ {}", ids.iter().map(|(k, v)| format!("{}={}", k, v)).collect::<Vec<_>>().join(" ")));
    let saved_path = std::env::var_os("PATH");
    set_path(&spec);
    // other live Popens whose pipe ends must not leak into this child
    let nlive: usize = spec.get("live").parse().unwrap_or(0);
    let mut live = vec![];
    for _ in 0..nlive {
        let mut c = PopenConfig::default();
        c.stdin = Redirection::Pipe;
        c.stdout = Redirection::Pipe;
        if let Ok(p) = Popen::create(&["/bin/true"], c) {
            live.push(p);
        }
    }
    // livecomm=1: the earlier Popens have been talked to through a Communicator with a time limit (whose pipe ends stay
    // open while this launch happens): nothing it did to those descriptors may make them inheritable
    let mut live_comms = vec![];
    if spec.get("livecomm") == "1" {
        for p in live.iter_mut() {
            let mut c = p.communicate_start(Some(b"x".to_vec())).limit_time(std::time::Duration::from_millis(1)).limit_size(1);
            let _ = c.read();
            live_comms.push(c);
        }
    }
    let (argv, cfg) = build_config(&spec, &mut obj);
    // viaclone=1: the configuration that is launched is a `try_clone()` of the one that was built (what `Exec::clone`
    // and every caller that keeps a template do); the original stays alive until the end of the case
    let (cfg, _cfg_original) = if spec.get("viaclone") == "1" {
        let c = cfg.try_clone().expect("try_clone");
        (c, Some(cfg))
    } else if spec.get("viaclone") == "2" {
        // ... or the other way round: a clone is made and kept (a template, a retry copy) while the original is launched
        let c = cfg.try_clone().expect("try_clone");
        (cfg, Some(c))
    } else {
        (cfg, None)
    };
    // closed=<digits>: the caller runs daemon-style with some of its standard descriptors closed, so the pipes the library
    // creates land on descriptors 0-2 (they are re-pointed at the start of the next case)
    for ch in spec.get("closed").chars() {
        if let Some(d) = ch.to_digit(3) {
            unsafe { libc::syscall(libc::SYS_close, d as libc::c_long) };
        }
    }
    // descriptors the caller keeps (Rc files) are part of the "before" table; owned Files are passed in
    let before = fd_table();
    let mask = u64::from_str_radix(spec.get("mask").trim_start_matches('-'), 16).unwrap_or(0);
    if mask != 0 {
        set_mask(mask);
    }
    unsafe {
        libc::signal(libc::SIGPIPE, if spec.get("sigpipe") == "dfl" { libc::SIG_DFL } else { libc::SIG_IGN });
    }
    let faults = parse_faults(spec.get("faults"));
    let in_thread = spec.get("thread") == "1";
    let detached = spec.get("det") == "1";
    // window=<k>: right after the k-th pipe(); window=r: at the read of the launch-status channel (after the fork)
    let window_at_read = spec.get("window") == "r";
    let window: usize = spec.get("window").parse().unwrap_or(0);
    unsafe {
        WINDOW_OUT = None;
        WINDOW_DIR = Some(dir.to_string());
        trace::PIPE_HOOK_AT = window;
        trace::READ_HOOK_ON = window_at_read;
        trace::PIPE_HOOK = if window > 0 || window_at_read { Some(window_hook) } else { None };
    }
    // sigflip=<k>: "another thread" changes the process-wide SIGPIPE disposition to SIG_IGN right after this launch's k-th
    // pipe(): whatever the launch has sampled before, the child inherits what holds at the fork
    let sigflip: usize = spec.get("sigflip").parse().unwrap_or(0);
    if sigflip > 0 {
        unsafe {
            trace::PIPE_HOOK_AT = sigflip;
            trace::PIPE_HOOK = Some(sigflip_hook);
        }
    }
    let core = move || {
        trace::start(&faults, true);
        let res = match std::panic::catch_unwind(std::panic::AssertUnwindSafe(|| {
            let r = Popen::create(&argv, cfg);
            trace::escape_guard();
            r
        })) {
            Ok(r) => r,
            Err(_) => Err(PopenError::LogicError("PANIC in Popen::create")),
        };
        trace::escape_guard(); // also a copy that panicked its way out of the call
        let res_line = match &res {
            Ok(p) => {
                let f = |o: &Option<File>| o.as_ref().map_or("0".to_string(), |f| format!("{}/{}", f.as_raw_fd(), ident(f.as_raw_fd())));
                format!("RES ok in={} out={} err={} pid=K{}", f(&p.stdin), f(&p.stdout), f(&p.stderr), p.pid().unwrap_or(0))
            }
            Err(PopenError::IoError(e)) => format!("RES err {}", e.raw_os_error().unwrap_or(-1)),
            Err(PopenError::LogicError(m)) => format!("RES logic {}", m.replace(' ', "_")),
            Err(_) => "RES other".to_string(),
        };
        let after_create = fd_table();
        let left_before_drop = if res.is_err() { leftover() } else { "-".to_string() };
        drop(res);
        let (log, allocs, abytes) = trace::stop();
        (res_line, after_create, left_before_drop, log, allocs, abytes)
    };
    let (res_line, after_create, left_before_drop, log, allocs, abytes) = if in_thread {
        // Redirection holds Rc, so the configuration cannot cross threads: rebuild it inside
        drop(core);
        let line2 = line.to_string();
        let dir2 = dir.to_string();
        std::thread::spawn(move || {
            let spec = Spec::parse(&line2);
            let spec_text = format!("{} {} {}", spec.get("in"), spec.get("out"), spec.get("err"));
            let mut obj = make_objects(&dir2, &spec_text);
            let (argv, cfg) = build_config(&spec, &mut obj);
            let faults = parse_faults(spec.get("faults"));
            trace::start(&faults, true);
            let res = Popen::create(&argv, cfg);
            trace::escape_guard();
            let res_line = match &res {
                Ok(p) => {
                    let f = |o: &Option<File>| o.as_ref().map_or("0".to_string(), |f| format!("{}/{}", f.as_raw_fd(), ident(f.as_raw_fd())));
                    format!("RES ok in={} out={} err={} pid=K{}", f(&p.stdin), f(&p.stdout), f(&p.stderr), p.pid().unwrap_or(0))
                }
                Err(PopenError::IoError(e)) => format!("RES err {}", e.raw_os_error().unwrap_or(-1)),
                Err(PopenError::LogicError(m)) => format!("RES logic {}", m.replace(' ', "_")),
                Err(_) => "RES other".to_string(),
            };
            let after_create = fd_table();
            let left_before_drop = if res.is_err() { leftover() } else { "-".to_string() };
            drop(res);
            let (log, allocs, abytes) = trace::stop();
            (res_line, after_create, left_before_drop, log, allocs, abytes)
        })
        .join()
        .unwrap()
    } else {
        core()
    };
    let after_drop = fd_table();
    if mask != 0 {
        set_mask(0);
    }
    out.line(&res_line);
    out.line(&format!("PFD before={}", before));
    out.line(&format!("PFD created={}", after_create));
    out.line(&format!("PFD dropped={}", after_drop));
    for l in log.lines() {
        out.line(&format!("LOG {}", l));
    }
    out.line(&format!("ALLOC {} {}", allocs, abytes));
    unsafe {
        trace::PIPE_HOOK_AT = 0;
        trace::READ_HOOK_ON = false;
        if let Some((parent, other)) = WINDOW_OUT.take() {
            out.line(&format!("WINDOW parent={} other={}", if parent.is_empty() { "-".into() } else { parent.replace(' ', ",") }, if other.is_empty() { "-".into() } else { other.replace(' ', ",") }));
        }
    }
    out.line(&format!("LEFT errpath={} end={} detached={}", left_before_drop, leftover(), detached as u8));
    drop(live_comms);
    drop(live);
    reap_all();
    drop(obj);
    match saved_path {
        Some(p) => std::env::set_var("PATH", p),
        None => std::env::remove_var("PATH"),
    }
    out.line("END");
}

pub fn run(casefile: &str) {
    // keep the real stdout on a high, close-on-exec descriptor: 0,1,2 are re-pointed per case
    let out_fd = unsafe { libc::fcntl(1, libc::F_DUPFD_CLOEXEC, 200) };
    let mut out = Out(unsafe { File::from_raw_fd(out_fd) });
    let dir = format!("/tmp/verif-spawn-{}", std::process::id());
    std::fs::create_dir_all(&dir).unwrap();
    let lines: Vec<String> = if casefile == "-" {
        std::io::stdin().lock().lines().map(|l| l.unwrap()).collect()
    } else {
        std::fs::read_to_string(casefile).unwrap().lines().map(|s| s.to_string()).collect()
    };
    for (i, l) in lines.iter().enumerate() {
        if l.trim().is_empty() {
            continue;
        }
        run_case(i, l, &dir, &mut out);
    }
    let _ = std::fs::remove_dir_all(&dir);
    let _ = hex(&[]);
}

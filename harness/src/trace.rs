//! Trace mode of the interposer (engine `spawn`): calls go to the real kernel but are logged — in the
//! forked child too, through a shared anonymous mapping and without allocating — and a fault plan can
//! make the k-th call of a kind fail.  `exec` is intercepted: the child's descriptor table, signal
//! state, identity and allocation counter are snapshotted, then the attempt is answered (errno, or
//! "started": the child exits 0, which closes the close-on-exec status pipe like a real exec would).
#![allow(static_mut_refs, dead_code)]
use libc::{c_char, c_int, c_long, c_void};
use std::fmt::{self, Write};
use std::sync::atomic::{AtomicU64, Ordering};

pub const NK: usize = 16;
#[derive(Clone, Copy, PartialEq, Eq, Debug)]
#[repr(usize)]
pub enum Kind {
    Pipe = 0,
    Fcntl,
    Fork,
    Close,
    Read,
    Dup2,
    Chdir,
    Sigmask,
    Signal,
    Setuid,
    Setgid,
    Setpgid,
    Exec,
    Write,
    Waitpid,
    Exit,
}

pub fn kind_of(s: &str) -> Option<Kind> {
    Some(match s {
        "pipe" => Kind::Pipe,
        "fcntl" => Kind::Fcntl,
        "fork" => Kind::Fork,
        "close" => Kind::Close,
        "read" => Kind::Read,
        "dup2" => Kind::Dup2,
        "chdir" => Kind::Chdir,
        "sigmask" => Kind::Sigmask,
        "signal" => Kind::Signal,
        "setuid" => Kind::Setuid,
        "setgid" => Kind::Setgid,
        "setpgid" => Kind::Setpgid,
        "exec" => Kind::Exec,
        "write" => Kind::Write,
        "waitpid" => Kind::Waitpid,
        _ => return None,
    })
}

#[derive(Clone, Copy)]
pub struct Fault {
    pub child: bool,
    pub kind: Kind,
    pub nth: u32, // 0-based occurrence of this kind in this role
    pub errno: c_int,
}

const BUF_CAP: usize = 8 << 20;
#[repr(C)]
struct Header {
    len: AtomicU64,
    child_allocs: AtomicU64,
    child_alloc_bytes: AtomicU64,
    lock: AtomicU64,
}

struct State {
    on: bool,
    tid: i32,
    in_child: bool,
    buf: *mut u8,
    faults: [Option<Fault>; 8],
    counters: [[u32; NK]; 2],
    fake_exec: bool,
}
static mut ST: State = State { on: false, tid: 0, in_child: false, buf: std::ptr::null_mut(), faults: [None; 8], counters: [[0; NK]; 2], fake_exec: true };
pub static mut ALLOC_WINDOW: bool = false;
/// "another thread forks here": after the parent's PIPE_HOOK_AT-th `pipe()` of a traced launch the hook is run
/// with tracing suspended (what it forks inherits exactly what a concurrent spawn would inherit at this point)
pub static mut PIPE_HOOK_AT: usize = 0;
pub static mut PIPE_HOOK: Option<fn()> = None;
static mut PIPE_SEEN: usize = 0;
static mut IN_HOOK: bool = false;

unsafe fn maybe_pipe_hook() {
    if ST.in_child || IN_HOOK || PIPE_HOOK_AT == 0 {
        return;
    }
    PIPE_SEEN += 1;
    if PIPE_SEEN == PIPE_HOOK_AT {
        if let Some(h) = PIPE_HOOK {
            IN_HOOK = true;
            let was = ST.on;
            ST.on = false;
            h();
            ST.on = was;
            IN_HOOK = false;
        }
    }
}

/// the same hook at the parent's first `read` of a traced launch -- the read of the launch-status channel, which lasts for
/// the child's whole pre-exec phase: what a spawn issued by another thread during that time inherits
pub static mut READ_HOOK_ON: bool = false;
static mut READ_FIRED: bool = false;

unsafe fn maybe_read_hook() {
    if ST.in_child || IN_HOOK || !READ_HOOK_ON || READ_FIRED {
        return;
    }
    READ_FIRED = true;
    if let Some(h) = PIPE_HOOK {
        IN_HOOK = true;
        let was = ST.on;
        ST.on = false;
        h();
        ST.on = was;
        IN_HOOK = false;
    }
}

/// log a line before a waitpid blocks (pipe engine: what the parent holds while it waits)
pub static mut VERBOSE_WAIT: bool = false;

/// suspend / resume tracing (returns the previous state): what runs in between is invisible to the log and fault plan
pub fn set_on(on: bool) -> bool {
    unsafe {
        let was = ST.on;
        ST.on = on;
        was
    }
}

/// the log so far, without stopping (watchdog)
pub fn peek() -> String {
    unsafe {
        if ST.buf.is_null() {
            return String::new();
        }
        let h = header();
        let n = h.len.load(Ordering::SeqCst) as usize;
        let start = std::mem::size_of::<Header>();
        let s = std::slice::from_raw_parts(ST.buf.add(start), n);
        String::from_utf8_lossy(s).into_owned()
    }
}

fn gettid() -> i32 {
    unsafe { libc::syscall(libc::SYS_gettid) as i32 }
}

unsafe fn header() -> &'static Header {
    &*(ST.buf as *const Header)
}

/// called by the global allocator
#[inline]
pub fn note_alloc(size: usize) {
    unsafe {
        if ALLOC_WINDOW && !ST.buf.is_null() {
            header().child_allocs.fetch_add(1, Ordering::Relaxed);
            header().child_alloc_bytes.fetch_add(size as u64, Ordering::Relaxed);
        }
    }
}

pub fn in_child() -> bool {
    unsafe { ST.in_child }
}

#[inline]
pub fn active() -> bool {
    unsafe { ST.on && (ST.in_child || ST.tid == gettid()) }
}

struct ShWriter;
impl fmt::Write for ShWriter {
    fn write_str(&mut self, s: &str) -> fmt::Result {
        unsafe {
            let h = header();
            let off = h.len.load(Ordering::Relaxed) as usize;
            let start = std::mem::size_of::<Header>();
            if start + off + s.len() >= BUF_CAP {
                return Ok(());
            }
            std::ptr::copy_nonoverlapping(s.as_ptr(), ST.buf.add(start + off), s.len());
            h.len.store((off + s.len()) as u64, Ordering::Relaxed);
        }
        Ok(())
    }
}

pub struct Hex<'a>(pub &'a [u8]);
impl fmt::Display for Hex<'_> {
    fn fmt(&self, f: &mut fmt::Formatter<'_>) -> fmt::Result {
        if self.0.is_empty() {
            return f.write_str("-");
        }
        const D: &[u8; 16] = b"0123456789abcdef";
        for b in self.0 {
            f.write_char(D[(b >> 4) as usize] as char)?;
            f.write_char(D[(b & 15) as usize] as char)?;
        }
        Ok(())
    }
}

unsafe fn lock() {
    let h = header();
    while h.lock.compare_exchange(0, 1, Ordering::Acquire, Ordering::Relaxed).is_err() {
        std::hint::spin_loop();
    }
}
unsafe fn unlock() {
    header().lock.store(0, Ordering::Release);
}

/// append one line `<role> <text>\n` (no heap allocation)
pub fn log(args: fmt::Arguments<'_>) {
    unsafe {
        lock();
        let mut w = ShWriter;
        let _ = w.write_str(if ST.in_child { "C " } else { "P " });
        let _ = fmt::write(&mut w, args);
        let _ = w.write_str("\n");
        unlock();
    }
}

/// is the next call of this kind planned to fail?  (also counts it)
pub fn fault(kind: Kind) -> Option<c_int> {
    unsafe {
        let role = ST.in_child as usize;
        let n = ST.counters[role][kind as usize];
        ST.counters[role][kind as usize] = n + 1;
        for f in ST.faults.iter().flatten() {
            if f.child == ST.in_child && f.kind == kind && f.nth == n {
                return Some(f.errno);
            }
        }
        None
    }
}

pub fn start(faults: &[Fault], fake_exec: bool) {
    unsafe {
        if ST.buf.is_null() {
            let p = libc::mmap(std::ptr::null_mut(), BUF_CAP, libc::PROT_READ | libc::PROT_WRITE, libc::MAP_SHARED | libc::MAP_ANONYMOUS, -1, 0);
            assert!(p != libc::MAP_FAILED);
            ST.buf = p as *mut u8;
        }
        let h = header();
        h.len.store(0, Ordering::SeqCst);
        h.child_allocs.store(0, Ordering::SeqCst);
        h.child_alloc_bytes.store(0, Ordering::SeqCst);
        h.lock.store(0, Ordering::SeqCst);
        ST.faults = [None; 8];
        for (i, f) in faults.iter().take(8).enumerate() {
            ST.faults[i] = Some(*f);
        }
        ST.counters = [[0; NK]; 2];
        PIPE_SEEN = 0;
        READ_FIRED = false;
        ST.tid = gettid();
        ST.in_child = false;
        ST.fake_exec = fake_exec;
        ST.on = true;
    }
}

pub fn stop() -> (String, u64, u64) {
    unsafe {
        ST.on = false;
        let h = header();
        let n = h.len.load(Ordering::SeqCst) as usize;
        let start = std::mem::size_of::<Header>();
        let s = std::slice::from_raw_parts(ST.buf.add(start), n);
        (String::from_utf8_lossy(s).into_owned(), h.child_allocs.load(Ordering::SeqCst), h.child_alloc_bytes.load(Ordering::SeqCst))
    }
}

unsafe fn set_errno(e: c_int) {
    *libc::__errno_location() = e;
}
unsafe fn errno() -> c_int {
    *libc::__errno_location()
}

type ForkFn = unsafe extern "C" fn() -> libc::pid_t;
type SignalFn = unsafe extern "C" fn(c_int, libc::sighandler_t) -> libc::sighandler_t;
type SigmaskFn = unsafe extern "C" fn(c_int, *const libc::sigset_t, *mut libc::sigset_t) -> c_int;

unsafe fn next_sym(name: &[u8]) -> *mut c_void {
    libc::dlsym(libc::RTLD_NEXT, name.as_ptr() as *const c_char)
}

struct ResFmt(c_long);
impl fmt::Display for ResFmt {
    fn fmt(&self, f: &mut fmt::Formatter<'_>) -> fmt::Result {
        if self.0 < 0 {
            write!(f, "E{}", unsafe { errno() })
        } else {
            write!(f, "{}", self.0)
        }
    }
}

// ---------------------------------------------------------------- interposed symbols (trace mode only)
#[no_mangle]
pub unsafe extern "C" fn pipe(fds: *mut c_int) -> c_int {
    if !active() {
        return libc::syscall(libc::SYS_pipe2, fds, 0) as c_int;
    }
    if let Some(e) = fault(Kind::Pipe) {
        set_errno(e);
        log(format_args!("pipe -> E{}", e));
        return -1;
    }
    let r = libc::syscall(libc::SYS_pipe2, fds, 0) as c_int;
    if r == 0 {
        // the pipe's identity (st_dev:st_ino), so that a copy of either end can be recognised in a child's table
        let mut st: libc::stat = std::mem::zeroed();
        libc::syscall(libc::SYS_fstat, *fds as c_long, &mut st as *mut libc::stat);
        log(format_args!("pipe -> {} {} id={}:{}", *fds, *fds.add(1), st.st_dev, st.st_ino));
        maybe_pipe_hook();
    } else {
        log(format_args!("pipe -> E{}", errno()));
    }
    r
}

#[no_mangle]
pub unsafe extern "C" fn pipe2(fds: *mut c_int, flags: c_int) -> c_int {
    if !active() {
        return libc::syscall(libc::SYS_pipe2, fds, flags as c_long) as c_int;
    }
    if let Some(e) = fault(Kind::Pipe) {
        set_errno(e);
        log(format_args!("pipe2 {} -> E{}", flags, e));
        return -1;
    }
    let r = libc::syscall(libc::SYS_pipe2, fds, flags as c_long) as c_int;
    if r == 0 {
        log(format_args!("pipe2 {} -> {} {}", flags, *fds, *fds.add(1)));
    } else {
        log(format_args!("pipe2 {} -> E{}", flags, errno()));
    }
    r
}

/// `fcntl` is variadic in C; on x86-64 the third argument arrives in the same register either way.
#[no_mangle]
pub unsafe extern "C" fn fcntl(fd: c_int, cmd: c_int, arg: c_long) -> c_int {
    if active() && (cmd == libc::F_DUPFD_CLOEXEC || cmd == libc::F_DUPFD) {
        // `File::try_clone`: a copy at or above `arg`
        let name = if cmd == libc::F_DUPFD_CLOEXEC { "DUPFD_CLOEXEC" } else { "DUPFD" };
        if let Some(e) = fault(Kind::Fcntl) {
            set_errno(e);
            log(format_args!("fcntl {} {} {} -> E{}", fd, name, arg, e));
            return -1;
        }
        let r = libc::syscall(libc::SYS_fcntl, fd as c_long, cmd as c_long, arg) as c_int;
        log(format_args!("fcntl {} {} {} -> {}", fd, name, arg, ResFmt(r as c_long)));
        return r;
    }
    if !active() || (cmd != libc::F_GETFD && cmd != libc::F_SETFD) {
        return libc::syscall(libc::SYS_fcntl, fd as c_long, cmd as c_long, arg) as c_int;
    }
    if let Some(e) = fault(Kind::Fcntl) {
        set_errno(e);
        if cmd == libc::F_GETFD {
            log(format_args!("fcntl {} GETFD -> E{}", fd, e));
        } else {
            log(format_args!("fcntl {} SETFD {} -> E{}", fd, arg, e));
        }
        return -1;
    }
    let r = libc::syscall(libc::SYS_fcntl, fd as c_long, cmd as c_long, arg) as c_int;
    if cmd == libc::F_GETFD {
        log(format_args!("fcntl {} GETFD -> {}", fd, ResFmt(r as c_long)));
    } else {
        log(format_args!("fcntl {} SETFD {} -> {}", fd, arg, ResFmt(r as c_long)));
    }
    r
}

#[no_mangle]
pub unsafe extern "C" fn dup2(old: c_int, new: c_int) -> c_int {
    if !active() {
        return libc::syscall(libc::SYS_dup2, old as c_long, new as c_long) as c_int;
    }
    if let Some(e) = fault(Kind::Dup2) {
        set_errno(e);
        log(format_args!("dup2 {} {} -> E{}", old, new, e));
        return -1;
    }
    let r = libc::syscall(libc::SYS_dup2, old as c_long, new as c_long) as c_int;
    log(format_args!("dup2 {} {} -> {}", old, new, ResFmt(r as c_long)));
    r
}

#[no_mangle]
pub unsafe extern "C" fn fork() -> libc::pid_t {
    let real: ForkFn = std::mem::transmute(next_sym(b"fork\0"));
    if !active() {
        return real();
    }
    if let Some(e) = fault(Kind::Fork) {
        set_errno(e);
        log(format_args!("fork -> E{}", e));
        return -1;
    }
    let r = real();
    if r == 0 {
        ST.in_child = true;
        ST.counters[1] = [0; NK];
        ALLOC_WINDOW = true;
    } else if r > 0 {
        log(format_args!("fork -> K{}", r));
    } else {
        log(format_args!("fork -> E{}", errno()));
    }
    r
}

#[no_mangle]
pub unsafe extern "C" fn chdir(path: *const c_char) -> c_int {
    if !active() {
        return libc::syscall(libc::SYS_chdir, path) as c_int;
    }
    let p = std::ffi::CStr::from_ptr(path).to_bytes();
    if let Some(e) = fault(Kind::Chdir) {
        set_errno(e);
        log(format_args!("chdir {} -> E{}", Hex(p), e));
        return -1;
    }
    let r = libc::syscall(libc::SYS_chdir, path) as c_int;
    log(format_args!("chdir {} -> {}", Hex(p), ResFmt(r as c_long)));
    r
}

macro_rules! idcall {
    ($name:ident, $kind:expr, $sys:expr, $label:expr) => {
        #[no_mangle]
        pub unsafe extern "C" fn $name(id: libc::uid_t) -> c_int {
            if !active() {
                return libc::syscall($sys, id as c_long) as c_int;
            }
            if let Some(e) = fault($kind) {
                set_errno(e);
                log(format_args!("{} {} -> E{}", $label, id, e));
                return -1;
            }
            // only the forked child really changes identity
            let r = if ST.in_child { libc::syscall($sys, id as c_long) as c_int } else { 0 };
            log(format_args!("{} {} -> {}", $label, id, ResFmt(r as c_long)));
            r
        }
    };
}
idcall!(setuid, Kind::Setuid, libc::SYS_setuid, "setuid");
idcall!(setgid, Kind::Setgid, libc::SYS_setgid, "setgid");

#[no_mangle]
pub unsafe extern "C" fn setpgid(pid: libc::pid_t, pgid: libc::pid_t) -> c_int {
    if !active() {
        return libc::syscall(libc::SYS_setpgid, pid as c_long, pgid as c_long) as c_int;
    }
    if let Some(e) = fault(Kind::Setpgid) {
        set_errno(e);
        log(format_args!("setpgid {} {} -> E{}", pid, pgid, e));
        return -1;
    }
    let r = libc::syscall(libc::SYS_setpgid, pid as c_long, pgid as c_long) as c_int;
    log(format_args!("setpgid {} {} -> {}", pid, pgid, ResFmt(r as c_long)));
    r
}

fn sigset_bits(set: &libc::sigset_t) -> u64 {
    let mut bits = 0u64;
    for s in 1..64 {
        if unsafe { libc::sigismember(set, s) } == 1 {
            bits |= 1 << s;
        }
    }
    bits
}

#[no_mangle]
pub unsafe extern "C" fn pthread_sigmask(how: c_int, set: *const libc::sigset_t, old: *mut libc::sigset_t) -> c_int {
    let real: SigmaskFn = std::mem::transmute(next_sym(b"pthread_sigmask\0"));
    if !active() || set.is_null() {
        return real(how, set, old);
    }
    if let Some(e) = fault(Kind::Sigmask) {
        log(format_args!("sigmask {} {:x} -> E{}", how, sigset_bits(&*set), e));
        return e; // pthread_sigmask returns the error number
    }
    let r = real(how, set, old);
    log(format_args!("sigmask {} {:x} -> {}", how, sigset_bits(&*set), r));
    r
}

#[no_mangle]
pub unsafe extern "C" fn signal(sig: c_int, handler: libc::sighandler_t) -> libc::sighandler_t {
    let real: SignalFn = std::mem::transmute(next_sym(b"signal\0"));
    if !active() {
        return real(sig, handler);
    }
    if let Some(e) = fault(Kind::Signal) {
        set_errno(e);
        log(format_args!("signal {} {} -> E{}", sig, handler, e));
        return libc::SIG_ERR;
    }
    let r = real(sig, handler);
    log(format_args!("signal {} {} -> {}", sig, handler, if r == libc::SIG_ERR { -1 } else { 0 }));
    r
}

unsafe fn snapshot() {
    snapshot_as("C snapshot")
}

/// Called by the engines right after the library's launch call returns.  In the process that made the call this is nothing;
/// in a forked child that has *returned* from the launch call instead of ending in exec or _exit (a second copy of the caller,
/// holding every descriptor the caller had at fork time) it records the copy's descriptor table and ends the copy.
pub fn escape_guard() {
    unsafe {
        if ST.in_child {
            snapshot_as("C escaped");
            libc::syscall(libc::SYS_exit_group, 98 as c_long);
        }
    }
}

unsafe fn snapshot_as(label: &str) {
    lock();
    let mut w = ShWriter;
    let _ = w.write_str(label);
    for fd in 0..48 {
        let mut st: libc::stat = std::mem::zeroed();
        if libc::syscall(libc::SYS_fstat, fd as c_long, &mut st as *mut libc::stat) == 0 {
            let fl = libc::syscall(libc::SYS_fcntl, fd as c_long, libc::F_GETFL as c_long, 0 as c_long);
            let fdfl = libc::syscall(libc::SYS_fcntl, fd as c_long, libc::F_GETFD as c_long, 0 as c_long);
            let _ = write!(w, " fd{}={}:{}:{}:{}", fd, st.st_dev, st.st_ino, fl & 3, fdfl & 1);
        }
    }
    // which of the standard descriptors are one open file description (they share the offset), for regular files on the same
    // inode: " shr12=1" -- `2>&1` gives that, two opens of one file do not
    for (a, b) in [(0, 1), (1, 2), (0, 2)] {
        let mut sa: libc::stat = std::mem::zeroed();
        let mut sb: libc::stat = std::mem::zeroed();
        if libc::syscall(libc::SYS_fstat, a as c_long, &mut sa as *mut libc::stat) == 0
            && libc::syscall(libc::SYS_fstat, b as c_long, &mut sb as *mut libc::stat) == 0
            && sa.st_mode & libc::S_IFMT == libc::S_IFREG
            && sa.st_dev == sb.st_dev
            && sa.st_ino == sb.st_ino
        {
            let oa = libc::syscall(libc::SYS_lseek, a as c_long, 0 as c_long, libc::SEEK_CUR as c_long);
            let ob = libc::syscall(libc::SYS_lseek, b as c_long, 0 as c_long, libc::SEEK_CUR as c_long);
            libc::syscall(libc::SYS_lseek, a as c_long, 7654321 as c_long, libc::SEEK_SET as c_long);
            let ob2 = libc::syscall(libc::SYS_lseek, b as c_long, 0 as c_long, libc::SEEK_CUR as c_long);
            libc::syscall(libc::SYS_lseek, a as c_long, oa as c_long, libc::SEEK_SET as c_long);
            if ob2 != 7654321 {
                libc::syscall(libc::SYS_lseek, b as c_long, ob as c_long, libc::SEEK_SET as c_long);
            }
            let _ = write!(w, " shr{}{}={}", a, b, (ob2 == 7654321) as u8);
        }
    }
    let real: SigmaskFn = std::mem::transmute(next_sym(b"pthread_sigmask\0"));
    let mut cur: libc::sigset_t = std::mem::zeroed();
    real(libc::SIG_SETMASK, std::ptr::null(), &mut cur);
    let mut act: libc::sigaction = std::mem::zeroed();
    libc::sigaction(libc::SIGPIPE, std::ptr::null(), &mut act);
    let disp = if act.sa_sigaction == libc::SIG_DFL { "DFL" } else if act.sa_sigaction == libc::SIG_IGN { "IGN" } else { "H" };
    let mut cwd = [0u8; 4200];
    let n = libc::syscall(libc::SYS_getcwd, cwd.as_mut_ptr(), cwd.len() as c_long);
    let cwdlen = if n > 0 { (n - 1) as usize } else { 0 };
    let h = header();
    let _ = write!(
        w,
        " mask={:x} sigpipe={} cwd={} uid={} gid={} euid={} egid={} pgid={} pid={} allocs={} allocbytes={}\n",
        sigset_bits(&cur),
        disp,
        Hex(&cwd[..cwdlen]),
        libc::syscall(libc::SYS_getuid),
        libc::syscall(libc::SYS_getgid),
        libc::syscall(libc::SYS_geteuid),
        libc::syscall(libc::SYS_getegid),
        libc::syscall(libc::SYS_getpgid, 0 as c_long),
        libc::syscall(libc::SYS_getpid),
        h.child_allocs.load(Ordering::Relaxed),
        h.child_alloc_bytes.load(Ordering::Relaxed),
    );
    unlock();
}

unsafe fn log_vec(label: &str, v: *const *const c_char) {
    lock();
    let mut w = ShWriter;
    let _ = write!(w, "C {}", label);
    if v.is_null() {
        let _ = w.write_str(" inherit");
    } else {
        let mut i = 0;
        loop {
            let p = *v.add(i);
            if p.is_null() {
                break;
            }
            let b = std::ffi::CStr::from_ptr(p).to_bytes();
            let _ = write!(w, " {}", Hex(b));
            i += 1;
        }
        if i == 0 {
            let _ = w.write_str(" none");
        }
    }
    let _ = w.write_str("\n");
    unlock();
}

unsafe fn do_exec(path: *const c_char, argv: *const *const c_char, envp: *const *const c_char, with_env: bool) -> c_int {
    let p = std::ffi::CStr::from_ptr(path).to_bytes();
    if ST.counters[1][Kind::Exec as usize] == 0 {
        // first attempt of this child: what it is about to run with, and in which state
        log_vec("argv", argv);
        if with_env {
            log_vec("envp", envp);
        } else {
            log_vec("envp", std::ptr::null());
        }
        snapshot();
    } else {
        // a later attempt (PATH search, fallbacks): the state the program would start in NOW
        snapshot_as("C resnapshot");
    }
    if let Some(e) = fault(Kind::Exec) {
        set_errno(e);
        log(format_args!("exec {} -> E{}", Hex(p), e));
        return -1;
    }
    // would the real exec start the program?
    let mut st: libc::stat = std::mem::zeroed();
    let outcome = if libc::syscall(libc::SYS_stat, path, &mut st as *mut libc::stat) != 0 {
        errno()
    } else if st.st_mode & libc::S_IFMT != libc::S_IFREG {
        libc::EACCES
    } else if libc::syscall(libc::SYS_faccessat, libc::AT_FDCWD as c_long, path, libc::X_OK as c_long, 0 as c_long) != 0 {
        errno()
    } else {
        0
    };
    if outcome != 0 {
        set_errno(outcome);
        log(format_args!("exec {} -> E{}", Hex(p), outcome));
        return -1;
    }
    log(format_args!("exec {} -> OK", Hex(p)));
    ALLOC_WINDOW = false;
    if ST.fake_exec {
        libc::syscall(libc::SYS_exit_group, 0 as c_long);
    }
    if with_env {
        libc::syscall(libc::SYS_execve, path, argv, envp) as c_int
    } else {
        extern "C" {
            static environ: *const *const c_char;
        }
        libc::syscall(libc::SYS_execve, path, argv, environ) as c_int
    }
}

#[no_mangle]
pub unsafe extern "C" fn execve(path: *const c_char, argv: *const *const c_char, envp: *const *const c_char) -> c_int {
    if !active() {
        return libc::syscall(libc::SYS_execve, path, argv, envp) as c_int;
    }
    do_exec(path, argv, envp, true)
}

#[no_mangle]
pub unsafe extern "C" fn execv(path: *const c_char, argv: *const *const c_char) -> c_int {
    extern "C" {
        static environ: *const *const c_char;
    }
    if !active() {
        return libc::syscall(libc::SYS_execve, path, argv, environ) as c_int;
    }
    do_exec(path, argv, std::ptr::null(), false)
}

#[no_mangle]
pub unsafe extern "C" fn _exit(status: c_int) -> ! {
    if active() {
        ALLOC_WINDOW = false;
        let h = header();
        log(format_args!("_exit {} allocs={} allocbytes={}", status, h.child_allocs.load(Ordering::Relaxed), h.child_alloc_bytes.load(Ordering::Relaxed)));
    }
    libc::syscall(libc::SYS_exit_group, status as c_long);
    loop {}
}

// ---- hooks called from interpose.rs for the calls it already owns
pub unsafe fn trace_close(fd: c_int) -> Option<c_int> {
    if !active() {
        return None;
    }
    if let Some(e) = fault(Kind::Close) {
        libc::syscall(libc::SYS_close, fd as c_long);
        set_errno(e);
        log(format_args!("close {} -> E{}", fd, e));
        return Some(-1);
    }
    let r = libc::syscall(libc::SYS_close, fd as c_long) as c_int;
    log(format_args!("close {} -> {}", fd, ResFmt(r as c_long)));
    Some(r)
}

pub unsafe fn trace_read(fd: c_int, buf: *mut c_void, n: usize) -> Option<isize> {
    if !active() {
        return None;
    }
    maybe_read_hook();
    if let Some(e) = fault(Kind::Read) {
        set_errno(e);
        log(format_args!("read {} {} -> E{}", fd, n, e));
        return Some(-1);
    }
    let r = libc::syscall(libc::SYS_read, fd as c_long, buf, n) as isize;
    if r >= 0 {
        log(format_args!("read {} {} -> {} {}", fd, n, r, Hex(std::slice::from_raw_parts(buf as *const u8, (r as usize).min(32)))));
    } else {
        log(format_args!("read {} {} -> E{}", fd, n, errno()));
    }
    Some(r)
}

pub unsafe fn trace_write(fd: c_int, buf: *const c_void, n: usize) -> Option<isize> {
    if !active() || fd <= 2 {
        return None;
    }
    if let Some(e) = fault(Kind::Write) {
        set_errno(e);
        log(format_args!("write {} {} -> E{}", fd, n, e));
        return Some(-1);
    }
    let r = libc::syscall(libc::SYS_write, fd as c_long, buf, n) as isize;
    log(format_args!("write {} {} {} -> {}", fd, n, Hex(std::slice::from_raw_parts(buf as *const u8, n.min(64))), ResFmt(r as c_long)));
    Some(r)
}

pub unsafe fn trace_waitpid(pid: libc::pid_t, status: *mut c_int, flags: c_int) -> Option<libc::pid_t> {
    if !active() {
        return None;
    }
    if let Some(e) = fault(Kind::Waitpid) {
        set_errno(e);
        log(format_args!("waitpid K{} {} -> E{}", pid, flags, e));
        return Some(-1);
    }
    if VERBOSE_WAIT {
        log(format_args!("waitpid-enter K{} {}", pid, flags));
    }
    let r = libc::syscall(libc::SYS_wait4, pid as c_long, status, flags as c_long, 0 as c_long) as libc::pid_t;
    if r >= 0 {
        log(format_args!("waitpid K{} {} -> K{} {}", pid, flags, r, if status.is_null() { 0 } else { *status }));
    } else {
        log(format_args!("waitpid K{} {} -> E{}", pid, flags, errno()));
    }
    Some(r)
}

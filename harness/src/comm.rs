//! Engine `comm` (C01–C04): the real `Communicator` runs against virtual pipes, a scripted child and a
//! virtual clock.  Every `poll/read/write/close/clock_gettime` on the three stream descriptors is
//! answered by `CommWorld`, whose rules are the ones of `Model/Comm.lean` (`childStep`, `answer`).
use crate::interpose::{self, Ans, Kernel};
use crate::proto::{hex, Rng};
use libc::c_int;
use std::fs::File;
use std::io::ErrorKind;
use std::os::unix::io::FromRawFd;
use std::time::Duration;
use subprocess::{Popen, PopenConfig};

const NS_PER_MS: u64 = 1_000_000;
const POLLIN: i16 = 1;
const POLLOUT: i16 = 4;
const POLLERR: i16 = 8;
const POLLHUP: i16 = 16;

#[derive(Clone, Debug)]
pub enum CAct {
    ReadIn(usize),
    Write(bool, Vec<u8>), // true = stderr
    CloseIn,
    Close(bool),
    Sleep,
}

impl CAct {
    fn show(&self) -> String {
        match self {
            CAct::ReadIn(k) => format!("r{}", k),
            CAct::Write(e, d) => format!("w{}{}", if *e { 'e' } else { 'o' }, hex(d)),
            CAct::CloseIn => "ci".into(),
            CAct::Close(e) => format!("c{}", if *e { 'e' } else { 'o' }),
            CAct::Sleep => "z".into(),
        }
    }
}

#[derive(Clone)]
pub struct Case {
    pub has_in: bool,
    pub has_out: bool,
    pub has_err: bool,
    pub input: Vec<u8>,
    pub cap_in: usize,
    pub cap_out: usize,
    pub cap_err: usize,
    pub script: Vec<CAct>,
    pub session: Vec<(Option<usize>, Option<u64>)>, // per read(): size limit, time limit (ns), as in force
    pub wseed: u64,
    pub eager_child: u64, // how many child steps are tried before each parent call (max)
    pub dt_max: u64,
    pub long_sleep: u64, // a child `sleep` taken while the parent waits in poll may last about this long (0 = off)
    pub fault_pm: u64,
    pub string_api: bool,
    pub tiny_ok: bool, // byte-sized transfers allowed (only for small cases: keeps the event logs short)
}

struct CommWorld {
    rd_out_call: Vec<u8>, // bytes handed to the parent from stdout / stderr during the current library call
    rd_err_call: Vec<u8>,
    fd_in: c_int,
    fd_out: c_int,
    fd_err: c_int,
    par_in: bool, // the parent still holds the write end of stdin
    has_in: bool,
    has_out: bool,
    has_err: bool,
    cap_in: usize,
    cap_out: usize,
    cap_err: usize,
    in_buf: Vec<u8>,
    out_buf: Vec<u8>,
    err_buf: Vec<u8>,
    in_rd: bool,
    out_wr: bool,
    err_wr: bool,
    script: std::collections::VecDeque<CAct>,
    now: u64,
    since: u64,
    g_in: Vec<u8>,
    g_out: Vec<u8>,
    g_err: Vec<u8>,
    rng: Rng,
    eager_child: u64,
    dt_max: u64,
    long_sleep: u64,
    limited: bool, // some read() of the session has a size limit
    poll_until: Option<u64>, // set while the parent waits in a poll with a timeout: the moment that poll gives up
    in_poll: bool,
    fault_pm: u64,
    tiny_ok: bool,
    string_api: bool,
    returning: bool, // (string api) an error answer was given: the next close belongs to the drop
    events: Vec<String>,
    // oracle facts
    input: Vec<u8>,
    delivered: usize,
    problems: Vec<(String, String)>,
    no_progress: u32,
    parent_calls: u64,
    deadline: Option<u64>,
    calls_past_deadline: u32,
    first_clock_pending: Option<u64>, // time limit of the read() whose first clock reading is awaited
    expect_close_next: bool,
    expect_write_next: bool, // the last poll reported the stdin pipe writable: this round must write
    aborted: bool,
    had_timeout: bool,
}

fn clampn(n: usize, lo: usize, hi: usize) -> usize {
    std::cmp::max(lo, std::cmp::min(n, hi))
}

impl CommWorld {
    fn choice(&mut self) -> (usize, u64) {
        let n = match self.rng.below(6) {
            0 if self.tiny_ok => 1,
            1 if self.tiny_ok => 1 + self.rng.below(16) as usize,
            0 | 1 => 200 + self.rng.below(3000) as usize,
            2 => 1 + self.rng.below(5000) as usize,
            3 => 4096,
            _ => 1 << 30,
        };
        let dt = if self.dt_max == 0 { 0 } else { self.rng.below(self.dt_max + 1) };
        (n, dt)
    }

    /// `childStep` of the Lean model
    fn child_step(&mut self) -> bool {
        let (n, mut dt) = self.choice();
        let head = self.script.front().cloned();
        if let Some(CAct::Sleep) = head {
            // while the parent is blocked in poll the child may be silent for long (a slow child)
            if self.in_poll && self.long_sleep > 0 && self.rng.below(2) == 0 {
                dt = self.long_sleep / 2 + self.rng.below(self.long_sleep);
            }
        }
        if let Some(u) = self.poll_until {
            // nothing the child does after the poll has given up can be seen by that poll
            if self.now + dt > u {
                return false;
            }
        }
        let ok = match head {
            None => {
                if self.in_rd || self.out_wr || self.err_wr {
                    self.in_rd = false;
                    self.out_wr = false;
                    self.err_wr = false;
                    true
                } else {
                    false
                }
            }
            Some(CAct::Sleep) => {
                self.script.pop_front();
                true
            }
            Some(CAct::CloseIn) => {
                self.script.pop_front();
                self.in_rd = false;
                true
            }
            Some(CAct::Close(e)) => {
                self.script.pop_front();
                if e {
                    self.err_wr = false
                } else {
                    self.out_wr = false
                }
                true
            }
            Some(CAct::ReadIn(k)) => {
                if !self.in_rd || k == 0 || !self.has_in {
                    self.script.pop_front();
                    true
                } else if self.in_buf.is_empty() {
                    if self.par_in {
                        false
                    } else {
                        self.script.pop_front();
                        true
                    }
                } else {
                    let m = clampn(n, 1, std::cmp::min(k, self.in_buf.len()));
                    let taken: Vec<u8> = self.in_buf.drain(..m).collect();
                    self.g_in.extend_from_slice(&taken);
                    self.script.pop_front();
                    true
                }
            }
            Some(CAct::Write(e, d)) => {
                let (wr, piped, cap, len) = if e {
                    (self.err_wr, self.has_err, self.cap_err, self.err_buf.len())
                } else {
                    (self.out_wr, self.has_out, self.cap_out, self.out_buf.len())
                };
                if !wr || d.is_empty() || !piped {
                    self.script.pop_front();
                    true
                } else if cap <= len {
                    false
                } else {
                    let m = clampn(n, 1, std::cmp::min(d.len(), cap - len));
                    if e {
                        self.err_buf.extend_from_slice(&d[..m]);
                        self.g_err.extend_from_slice(&d[..m]);
                    } else {
                        self.out_buf.extend_from_slice(&d[..m]);
                        self.g_out.extend_from_slice(&d[..m]);
                    }
                    self.script.pop_front();
                    if m != d.len() {
                        self.script.push_front(CAct::Write(e, d[m..].to_vec()));
                    }
                    true
                }
            }
        };
        if ok {
            self.now += dt;
            self.events.push(format!("c:{}:{}", n, dt));
            self.no_progress = 0;
        }
        ok
    }

    fn rev_in(&self) -> i16 {
        let mut r = 0;
        if self.in_buf.len() + 4096 <= self.cap_in {
            r |= POLLOUT
        }
        if !self.in_rd {
            r |= POLLERR
        }
        r
    }
    fn rev_out(&self) -> i16 {
        (if !self.out_buf.is_empty() { POLLIN } else { 0 }) | (if !self.out_wr { POLLHUP } else { 0 })
    }
    fn rev_err(&self) -> i16 {
        (if !self.err_buf.is_empty() { POLLIN } else { 0 }) | (if !self.err_wr { POLLHUP } else { 0 })
    }

    fn problem(&mut self, prop: &str, msg: String) {
        if self.problems.len() < 8 {
            self.problems.push((prop.into(), msg));
        }
    }

    /// bookkeeping common to every parent call; returns Some(errno) when the case must be aborted
    fn parent_enter(&mut self, what: &str) -> Option<c_int> {
        self.parent_calls += 1;
        HEARTBEAT.fetch_add(1, std::sync::atomic::Ordering::Relaxed);
        self.no_progress += 1;
        if self.aborted {
            return Some(libc::ECANCELED);
        }
        if self.expect_close_next && what != "close" {
            let m = format!("stdin was not closed right after the last input byte was written (next call: {})", what);
            self.problem("C02", m);
        }
        self.expect_close_next = false;
        if self.expect_write_next && what != "write" {
            let m = format!(
                "poll reported the stdin pipe writable but this round did not write (next call: {}): delivery of the input is \
                 postponed while output is pending, so a child that keeps producing output never gets its input or end-of-file",
                what
            );
            self.problem("C02", m);
        }
        self.expect_write_next = false;
        if let Some(d) = self.deadline {
            if self.now >= d {
                self.calls_past_deadline += 1;
                if self.calls_past_deadline == 13 {
                    let m = format!(
                        "read() still issuing system calls ({}) 12 calls after the time limit expired (virtual now {} > deadline {})",
                        what, self.now, d
                    );
                    self.problem("C04", m);
                }
            }
        }
        if self.no_progress > 300 {
            self.problem("C01", format!("parent spins: 300 consecutive system calls ({} …) without any byte moved, stream retired, or time passing", what));
            self.aborted = true;
            return Some(libc::ECANCELED);
        }
        if self.parent_calls > 400_000 {
            self.problem("C01", "parent issued more than 400,000 system calls in one case".into());
            self.aborted = true;
            return Some(libc::ECANCELED);
        }
        // let the child run first, sometimes
        let k = self.rng.below(self.eager_child + 1);
        for _ in 0..k {
            if !self.child_step() {
                break;
            }
        }
        None
    }

    fn fault(&mut self, allowed: &[c_int]) -> Option<c_int> {
        if self.fault_pm > 0 && self.rng.below(1000) < self.fault_pm {
            self.returning = true;
            Some(*self.rng.pick(allowed))
        } else {
            None
        }
    }

    fn deadlock(&mut self, what: &str) -> c_int {
        let m = format!(
            "deadlock: parent blocked in {} while the child cannot move (script left {}, pipes in={}/{} out={}/{} err={}/{})",
            what,
            self.script.len(),
            self.in_buf.len(),
            self.cap_in,
            self.out_buf.len(),
            self.cap_out,
            self.err_buf.len(),
            self.cap_err
        );
        self.problem("C01", m);
        self.aborted = true;
        libc::EDEADLK
    }
}

impl Kernel for CommWorld {
    fn clock(&mut self) -> Ans<u64> {
        if let Some(e) = self.parent_enter("clock") {
            let _ = e;
        }
        let (n, dt) = self.choice();
        self.now += dt;
        self.since = self.now;
        self.events.push(format!("p:clock:{}:{}:-=t{}", n, dt, self.now));
        if let Some(tl) = self.first_clock_pending.take() {
            self.deadline = Some(self.now + tl);
            self.calls_past_deadline = 0;
        }
        Ans::Ret(self.now)
    }

    fn poll(&mut self, fds: &mut [libc::pollfd], timeout_ms: c_int) -> Ans<c_int> {
        let mine = |fd: c_int, w: &CommWorld| fd >= 0 && (fd == w.fd_in || fd == w.fd_out || fd == w.fd_err);
        if !fds.iter().any(|f| mine(f.fd, self)) {
            return Ans::Pass;
        }
        if let Some(e) = self.parent_enter("poll") {
            return Ans::Err(e);
        }
        let fi = fds.len() > 0 && fds[0].fd == self.fd_in && self.fd_in >= 0;
        let fo = fds.len() > 1 && fds[1].fd == self.fd_out && self.fd_out >= 0;
        let fe = fds.len() > 2 && fds[2].fd == self.fd_err && self.fd_err >= 0;
        let callstr = format!(
            "poll/{}{}{}/{}",
            fi as u8,
            fo as u8,
            fe as u8,
            if timeout_ms < 0 { "-".to_string() } else { timeout_ms.to_string() }
        );
        // the library must poll every stream it still owns (C01): checked by the model comparison, and here:
        if (self.par_in && self.has_in && !fi) && (fo || fe) {
            self.problem("C01", "poll() does not include the stdin descriptor although input is still pending".into());
        }
        if let Some(e) = self.fault(&[libc::EINTR]) {
            let (n, mut dt) = self.choice();
            // a signal interrupts a wait that is under way: with nothing ready, part of the timeout has already elapsed
            let ready_now = (fi && self.rev_in() != 0) || (fo && self.rev_out() != 0) || (fe && self.rev_err() != 0);
            if !ready_now && timeout_ms > 0 {
                let whole = timeout_ms as u64 * NS_PER_MS;
                dt += whole / 10 * (3 + self.rng.below(6));
            }
            self.now += dt;
            self.since = self.now;
            self.events.push(format!("p:{}:{}:{}:{}=e{}", callstr, n, dt, e, e));
            return Ans::Err(e);
        }
        self.in_poll = true;
        self.poll_until = if timeout_ms >= 0 { Some(self.since + timeout_ms as u64 * NS_PER_MS) } else { None };
        let r = loop {
            let (n, dt) = self.choice();
            let ri = if fi { self.rev_in() } else { 0 };
            let ro = if fo { self.rev_out() } else { 0 };
            let re = if fe { self.rev_err() } else { 0 };
            if ri != 0 || ro != 0 || re != 0 {
                self.now += dt;
                self.since = self.now;
                self.events.push(format!("p:{}:{}:{}:-=r{}.{}.{}", callstr, n, dt, ri, ro, re));
                if fds.len() > 0 {
                    fds[0].revents = ri;
                }
                self.expect_write_next = ri != 0;
                if fds.len() > 1 {
                    fds[1].revents = ro;
                }
                if fds.len() > 2 {
                    fds[2].revents = re;
                }
                break Ans::Ret((ri != 0) as c_int + (ro != 0) as c_int + (re != 0) as c_int);
            }
            // nothing ready: the child moves, or time passes until the timeout
            if self.child_step() {
                continue;
            }
            if timeout_ms >= 0 {
                let until = self.since + timeout_ms as u64 * NS_PER_MS;
                let dt2 = std::cmp::max(dt, until.saturating_sub(self.now));
                self.now += dt2;
                self.since = self.now;
                self.no_progress = 0;
                self.events.push(format!("p:{}:{}:{}:-=r0.0.0", callstr, n, dt2));
                for f in fds.iter_mut() {
                    f.revents = 0;
                }
                break Ans::Ret(0);
            }
            break Ans::Err(self.deadlock("poll(-1)"));
        };
        self.in_poll = false;
        self.poll_until = None;
        r
    }

    fn write(&mut self, fd: c_int, buf: &[u8]) -> Ans<usize> {
        if fd != self.fd_in || fd < 0 {
            return Ans::Pass;
        }
        if let Some(e) = self.parent_enter("write") {
            return Ans::Err(e);
        }
        let callstr = format!("write/{}", buf.len());
        // the bytes offered must be the next bytes of the input, in order (C02: once, in order)
        let from = std::cmp::min(self.input.len(), self.delivered);
        let want = &self.input[from..std::cmp::min(self.input.len(), self.delivered + buf.len())];
        if want != buf {
            let m = format!(
                "write() offers {} bytes that are not input[{}..{}] (input delivered twice, skipped or reordered)",
                buf.len(),
                self.delivered,
                self.delivered + buf.len()
            );
            self.problem("C02", m.clone());
            if self.limited {
                // across size-limited reads the remaining input keeps being delivered, once and in order (C03)
                self.problem("C03", format!("across size-limited reads: {}", m));
            }
            if self.had_timeout {
                // resumption after a timed-out read: the rest of the input must be delivered exactly once (C04)
                self.problem("C04", format!("after a timed-out read: {}", m));
            }
        }
        if buf.len() > 4096 {
            self.problem("C01", format!("write() of {} bytes: more than PIPE_BUF can block although poll reported POLLOUT", buf.len()));
        }
        if let Some(e) = self.fault(&[libc::EINTR, libc::EIO]) {
            let (n, dt) = self.choice();
            self.now += dt;
            self.since = self.now;
            self.events.push(format!("p:{}:{}:{}:{}=e{}", callstr, n, dt, e, e));
            return Ans::Err(e);
        }
        loop {
            let (n, dt) = self.choice();
            if !self.in_rd {
                self.now += dt;
                self.since = self.now;
                self.no_progress = 0;
                self.events.push(format!("p:{}:{}:{}:-=e32", callstr, n, dt));
                self.returning = true;
                return Ans::Err(libc::EPIPE);
            }
            if buf.is_empty() {
                self.now += dt;
                self.since = self.now;
                self.events.push(format!("p:{}:{}:{}:-=n0", callstr, n, dt));
                if self.delivered == self.input.len() {
                    self.expect_close_next = true;
                }
                return Ans::Ret(0);
            }
            if buf.len() > 4096 && buf.len() > self.cap_in - std::cmp::min(self.cap_in, self.in_buf.len()) {
                // A blocking write of more than PIPE_BUF that does not fit: the kernel takes what fits and keeps the caller
                // blocked until the reader has made room for all of it (A2).  Time passes with the child's steps.
                let mut done = 0;
                self.in_poll = true; // the parent is blocked: the child may be slow
                let r = loop {
                    let room = self.cap_in - std::cmp::min(self.cap_in, self.in_buf.len());
                    let take = std::cmp::min(room, buf.len() - done);
                    self.in_buf.extend_from_slice(&buf[done..done + take]);
                    self.delivered += take;
                    done += take;
                    if done == buf.len() {
                        break Ans::Ret(done);
                    }
                    if !self.in_rd {
                        break Ans::Err(libc::EPIPE);
                    }
                    if !self.child_step() {
                        break Ans::Err(self.deadlock("write(stdin) of more than PIPE_BUF"));
                    }
                };
                self.in_poll = false;
                self.now += dt;
                self.since = self.now;
                self.no_progress = 0;
                self.events.push(format!("p:{}:{}:{}:-=n{}", callstr, n, dt, done));
                if self.delivered == self.input.len() {
                    self.expect_close_next = true;
                }
                return r;
            }
            if self.cap_in > self.in_buf.len() {
                let k = clampn(n, 1, std::cmp::min(buf.len(), self.cap_in - self.in_buf.len()));
                self.in_buf.extend_from_slice(&buf[..k]);
                self.delivered += k;
                self.now += dt;
                self.since = self.now;
                self.no_progress = 0;
                self.events.push(format!("p:{}:{}:{}:-=n{}", callstr, n, dt, k));
                if self.delivered == self.input.len() {
                    self.expect_close_next = true;
                }
                return Ans::Ret(k);
            }
            if self.child_step() {
                continue;
            }
            return Ans::Err(self.deadlock("write(stdin)"));
        }
    }

    fn read(&mut self, fd: c_int, buf: &mut [u8]) -> Ans<usize> {
        if fd < 0 || (fd != self.fd_out && fd != self.fd_err) {
            return Ans::Pass;
        }
        let is_err = fd == self.fd_err;
        if let Some(e) = self.parent_enter("read") {
            return Ans::Err(e);
        }
        let callstr = format!("read/{}/{}", if is_err { 'e' } else { 'o' }, buf.len());
        if let Some(e) = self.fault(&[libc::EINTR, libc::EIO]) {
            let (n, dt) = self.choice();
            self.now += dt;
            self.since = self.now;
            self.events.push(format!("p:{}:{}:{}:{}=e{}", callstr, n, dt, e, e));
            return Ans::Err(e);
        }
        if buf.is_empty() {
            // POSIX: a read of 0 bytes returns 0 at once and consumes nothing -- it says nothing about end-of-file.
            // The library never needs one (it stops before reading once the size limit is reached).
            let (n, dt) = self.choice();
            self.now += dt;
            self.since = self.now;
            self.events.push(format!("p:{}:{}:{}:-=n0", callstr, n, dt));
            return Ans::Ret(0);
        }
        loop {
            let (n, dt) = self.choice();
            let (len, wr) = if is_err { (self.err_buf.len(), self.err_wr) } else { (self.out_buf.len(), self.out_wr) };
            if len > 0 {
                let k = clampn(n, 1, std::cmp::min(buf.len(), len));
                let src = if is_err { &mut self.err_buf } else { &mut self.out_buf };
                let data: Vec<u8> = src.drain(..k).collect();
                buf[..k].copy_from_slice(&data);
                if is_err {
                    self.rd_err_call.extend_from_slice(&data);
                } else {
                    self.rd_out_call.extend_from_slice(&data);
                }
                self.now += dt;
                self.since = self.now;
                self.no_progress = 0;
                self.events.push(format!("p:{}:{}:{}:-=n{}", callstr, n, dt, k));
                return Ans::Ret(k);
            }
            if !wr {
                self.now += dt;
                self.since = self.now;
                self.events.push(format!("p:{}:{}:{}:-=n0", callstr, n, dt));
                // an EOF answer is progress only the first time: a parent that keeps reading it spins
                return Ans::Ret(0);
            }
            // the pipe is empty and a writer exists: the parent is blocked in read(), so the child may be slow (as in poll)
            self.in_poll = true;
            let stepped = self.child_step();
            self.in_poll = false;
            if stepped {
                continue;
            }
            return Ans::Err(self.deadlock(if is_err { "read(stderr)" } else { "read(stdout)" }));
        }
    }

    fn close(&mut self, fd: c_int) -> Ans<()> {
        if fd >= 0 && (fd == self.fd_in || fd == self.fd_out || fd == self.fd_err) && self.string_api
            && (fd != self.fd_in || self.delivered != self.input.len() || self.returning)
        {
            // Popen::communicate() drops its Communicator before it returns: the exchange is over
            self.fd_in = -1;
            self.fd_out = -1;
            self.fd_err = -1;
            return Ans::Pass;
        }
        if fd >= 0 && fd == self.fd_in {
            self.parent_calls += 1;
            if self.delivered != self.input.len() {
                let m = format!("stdin closed after {} of {} input bytes", self.delivered, self.input.len());
                self.problem("C02", m);
            }
            self.expect_close_next = false;
            let (n, dt) = self.choice();
            self.now += dt;
            self.since = self.now;
            self.no_progress = 0;
            self.par_in = false;
            self.fd_in = -1;
            self.events.push(format!("p:close:{}:{}:-=ok", n, dt));
            return Ans::Ret(());
        }
        if fd >= 0 && (fd == self.fd_out || fd == self.fd_err) {
            // the communicator never closes its read ends while it is alive
            self.problem("C02", "an output descriptor was closed during communicate".into());
        }
        Ans::Pass
    }
}

fn devnull_fd() -> c_int {
    unsafe {
        let p = std::ffi::CString::new("/dev/null").unwrap();
        libc::open(p.as_ptr(), libc::O_RDWR | libc::O_CLOEXEC)
    }
}

pub struct CaseOut {
    pub req: String,
    pub obs: String,
    pub problems: Vec<(String, String)>,
    pub stat: String,
}

fn show_res(out: &Option<Vec<u8>>, err: &Option<Vec<u8>>) -> String {
    let f = |v: &Option<Vec<u8>>| match v {
        None => "~".to_string(),
        Some(b) => hex(b),
    };
    format!("{}:{}", f(out), f(err))
}

pub fn run_case(p: &mut Popen, c: &Case) -> CaseOut {
    let fd_in = if c.has_in { devnull_fd() } else { -1 };
    let fd_out = if c.has_out { devnull_fd() } else { -1 };
    let fd_err = if c.has_err { devnull_fd() } else { -1 };
    unsafe {
        p.stdin = if c.has_in { Some(File::from_raw_fd(fd_in)) } else { None };
        p.stdout = if c.has_out { Some(File::from_raw_fd(fd_out)) } else { None };
        p.stderr = if c.has_err { Some(File::from_raw_fd(fd_err)) } else { None };
    }
    let mut w = CommWorld {
        fd_in,
        fd_out,
        fd_err,
        par_in: c.has_in,
        has_in: c.has_in,
        has_out: c.has_out,
        has_err: c.has_err,
        cap_in: c.cap_in,
        cap_out: c.cap_out,
        cap_err: c.cap_err,
        in_buf: vec![],
        out_buf: vec![],
        err_buf: vec![],
        in_rd: true,
        out_wr: true,
        err_wr: true,
        script: c.script.iter().cloned().collect(),
        now: 1_000_000_000,
        since: 1_000_000_000,
        g_in: vec![],
        g_out: vec![],
        g_err: vec![],
        rng: Rng(c.wseed),
        eager_child: c.eager_child,
        dt_max: c.dt_max,
        long_sleep: c.long_sleep,
        limited: c.session.iter().any(|(l, _)| l.is_some()),
        poll_until: None,
        in_poll: false,
        fault_pm: c.fault_pm,
        tiny_ok: c.tiny_ok,
        string_api: c.string_api,
        returning: false,
        events: vec![],
        input: c.input.clone(),
        delivered: 0,
        problems: vec![],
        no_progress: 0,
        parent_calls: 0,
        deadline: None,
        calls_past_deadline: 0,
        first_clock_pending: None,
        expect_close_next: false,
        expect_write_next: false,
        aborted: false,
        had_timeout: false,
        rd_out_call: vec![],
        rd_err_call: vec![],
    };
    let wp: *mut CommWorld = &mut w;
    let mut results: Vec<String> = vec![];
    let mut ret_out: Vec<u8> = vec![];
    let mut ret_err: Vec<u8> = vec![];
    let session = c.session.clone();
    let input = if c.has_in { Some(c.input.clone()) } else { None };
    interpose::with_kernel(&mut w, || {
        let w: &mut CommWorld = unsafe { &mut *wp };
        if c.string_api {
            // Popen::communicate(Option<&str>): one unlimited exchange, text result
            let s = input.as_ref().map(|v| String::from_utf8(v.clone()).expect("string api needs utf8 input"));
            w.events.push("s:-:-".into());
            let r = p.communicate(s.as_deref());
            match r {
                Ok((o, e)) => {
                    // the text must be the lossy decoding of what the child wrote
                    let eo = String::from_utf8_lossy(&w.g_out).into_owned();
                    let ee = String::from_utf8_lossy(&w.g_err).into_owned();
                    if c.has_out && o.as_deref() != Some(eo.as_str()) {
                        w.problem("C02", "communicate(): stdout text is not the lossy UTF-8 decoding of the bytes written".into());
                    }
                    if c.has_err && e.as_deref() != Some(ee.as_str()) {
                        w.problem("C02", "communicate(): stderr text is not the lossy UTF-8 decoding of the bytes written".into());
                    }
                    if o.is_some() != c.has_out || e.is_some() != c.has_err {
                        w.problem("C02", "communicate(): Option shape does not match the piped streams".into());
                    }
                    // for the model comparison report the bytes the child wrote (the model returns bytes)
                    let ob = if c.has_out { Some(w.g_out.clone()) } else { None };
                    let eb = if c.has_err { Some(w.g_err.clone()) } else { None };
                    w.events.push("r:ok".into());
                    results.push(format!("ok:{}", show_res(&ob, &eb)));
                }
                Err(e) => {
                    let tag = if e.kind() == ErrorKind::TimedOut { "timedout".to_string() } else { format!("e{}", e.raw_os_error().unwrap_or(-1)) };
                    w.events.push(format!("r:{}", tag));
                    results.push(format!("{}:?", tag));
                }
            }
            return;
        }
        let mut comm = p.communicate_start(input.clone());
        // two calling styles: the limits are given again before every read, or only when they change (set once, read many:
        // a limit stays in force for all later reads, each of which gets the full time again)
        let rearm_each_time = c.wseed & 1 == 0;
        let (mut cur_lim, mut cur_tl): (Option<usize>, Option<u64>) = (None, None);
        for (lim, tl) in &session {
            if let Some(l) = lim {
                if rearm_each_time || cur_lim != Some(*l) {
                    comm = comm.limit_size(*l);
                    cur_lim = Some(*l);
                }
            }
            if let Some(t) = tl {
                if rearm_each_time || cur_tl != Some(*t) {
                    comm = comm.limit_time(Duration::from_nanos(*t));
                    cur_tl = Some(*t);
                }
            }
            w.events.push(format!(
                "s:{}:{}",
                lim.map_or("-".to_string(), |x| x.to_string()),
                tl.map_or("-".to_string(), |x| x.to_string())
            ));
            w.deadline = None;
            w.first_clock_pending = *tl;
            w.calls_past_deadline = 0;
            let t_start = w.now;
            w.rd_out_call.clear();
            w.rd_err_call.clear();
            // text mode (a share of the cases): the same exchange through `read_string()`.  Its result is the lossy decoding of
            // what this call took from the pipes; for the comparisons below the bytes themselves stand in for it, except that
            // "all strings empty" is kept as such (it is what tells the caller that the exchange is over)
            let text_mode = c.wseed & 6 == 6;
            let r = match std::panic::catch_unwind(std::panic::AssertUnwindSafe(|| {
                if text_mode {
                    match comm.read_string() {
                        Ok((o, e)) => {
                            let empty = o.as_ref().map_or(true, |s| s.is_empty()) && e.as_ref().map_or(true, |s| s.is_empty());
                            let lossy_ok = o.as_deref().map_or(true, |s| s == String::from_utf8_lossy(&w.rd_out_call))
                                && e.as_deref().map_or(true, |s| s == String::from_utf8_lossy(&w.rd_err_call));
                            if !empty && !lossy_ok {
                                w.problem("C02", "read_string(): the text is not the lossy UTF-8 decoding of the bytes this call took from the pipes".into());
                            }
                            if empty {
                                Ok((o.map(|_| vec![]), e.map(|_| vec![])))
                            } else {
                                Ok((o.map(|_| w.rd_out_call.clone()), e.map(|_| w.rd_err_call.clone())))
                            }
                        }
                        Err(e) => Err(subprocess::CommunicateError { error: e.error, capture: (e.capture.0.map(|_| w.rd_out_call.clone()), e.capture.1.map(|_| w.rd_err_call.clone())) }),
                    }
                } else {
                    comm.read()
                }
            })) {
                Ok(r) => r,
                Err(_) => {
                    // no result at all: whatever the limits were, a read either returns data or an error
                    let which = if lim.is_some() { "C03" } else { "C02" };
                    w.problem(which, format!("read() panicked (size limit {:?}, time limit {:?} ns)", lim, tl));
                    w.events.push("r:panic".to_string());
                    results.push("panic:?".to_string());
                    break;
                }
            };
            let (tag, out, err) = match r {
                Ok((o, e)) => ("ok".to_string(), o, e),
                Err(e) => {
                    let tag = if e.kind() == ErrorKind::TimedOut && e.error.raw_os_error().is_none() {
                        "timedout".to_string()
                    } else {
                        format!("e{}", e.error.raw_os_error().unwrap_or(-1))
                    };
                    (tag, e.capture.0, e.capture.1)
                }
            };
            w.events.push(format!("r:{}", tag));
            results.push(format!("{}:{}", tag, show_res(&out, &err)));
            if tag == "timedout" {
                w.had_timeout = true;
            }
            // ---------------- direct oracles
            if out.is_some() != c.has_out || err.is_some() != c.has_err {
                w.problem("C02", format!("read(): Option shape ({}, {}) does not match the piped streams ({}, {})", out.is_some(), err.is_some(), c.has_out, c.has_err));
            }
            let ol = out.as_ref().map_or(0, |v| v.len());
            let el = err.as_ref().map_or(0, |v| v.len());
            if let Some(v) = &out {
                ret_out.extend_from_slice(v);
            }
            if let Some(v) = &err {
                ret_err.extend_from_slice(v);
            }
            // C02/C03: nothing lost, duplicated, reordered or moved to the other stream, across reads
            let mut exp_out = ret_out.clone();
            exp_out.extend_from_slice(&w.out_buf);
            let mut exp_err = ret_err.clone();
            exp_err.extend_from_slice(&w.err_buf);
            let limited = c.session.iter().any(|(l, _)| l.is_some());
            if c.has_out && exp_out != w.g_out {
                if limited {
                    w.problem("C03", format!("stdout across size-limited reads: returned so far ({} bytes) + still in the pipe ({}) differs from what the child wrote ({}): bytes lost or repeated between reads", ret_out.len(), w.out_buf.len(), w.g_out.len()));
                }
                w.problem("C02", format!("stdout: returned so far ({} bytes) + still in the pipe ({}) differs from what the child wrote ({})", ret_out.len(), w.out_buf.len(), w.g_out.len()));
            }
            if c.has_err && exp_err != w.g_err {
                if limited {
                    w.problem("C03", format!("stderr across size-limited reads: returned so far ({} bytes) + still in the pipe ({}) differs from what the child wrote ({}): bytes lost or repeated between reads", ret_err.len(), w.err_buf.len(), w.g_err.len()));
                }
                w.problem("C02", format!("stderr: returned so far ({} bytes) + still in the pipe ({}) differs from what the child wrote ({})", ret_err.len(), w.err_buf.len(), w.g_err.len()));
            }
            let mut got_in = w.g_in.clone();
            got_in.extend_from_slice(&w.in_buf);
            if c.has_in && got_in[..] != c.input[..std::cmp::min(got_in.len(), c.input.len())] {
                w.problem("C02", "the child's stdin does not carry a prefix of the supplied input".into());
            }
            if c.has_in && got_in.len() > c.input.len() {
                w.problem("C02", format!("the child received {} bytes for {} bytes of input", got_in.len(), c.input.len()));
            }
            // C03: size limit
            if let Some(l) = lim {
                if ol + el > *l {
                    w.problem("C03", format!("read() with limit {} returned {} + {} = {} bytes", l, ol, el, ol + el));
                }
            }
            if tag == "ok" && ol + el == 0 && lim.map_or(true, |l| l > 0) {
                let all_eof = (!c.has_out || (!w.out_wr && w.out_buf.is_empty())) && (!c.has_err || (!w.err_wr && w.err_buf.is_empty()));
                if !all_eof {
                    w.problem("C03", "a successful read returned all-empty data although a captured stream has not reached end-of-file".into());
                    if !w.out_buf.is_empty() || !w.err_buf.is_empty() {
                        // all-empty means end-of-file to the caller: the bytes still in the pipe are lost to it (C02)
                        w.problem("C02", format!("a successful read returned all-empty data while {} + {} bytes the child wrote are still unread: they are lost to the caller", w.out_buf.len(), w.err_buf.len()));
                    }
                }
            }
            // C01/C02: a successful unlimited exchange ends only at EOF of everything, with the input delivered and stdin closed
            if tag == "ok" && lim.is_none() {
                if c.has_in && (w.par_in || w.delivered != c.input.len()) {
                    w.problem("C02", format!("unlimited read returned Ok with {} of {} input bytes delivered, stdin still open: {}", w.delivered, c.input.len(), w.par_in));
                }
                if (c.has_out && (w.out_wr || !w.out_buf.is_empty())) || (c.has_err && (w.err_wr || !w.err_buf.is_empty())) {
                    w.problem("C02", "unlimited read returned Ok before end-of-file on a captured stream".into());
                }
            }
            // C04: truthful
            if tag == "timedout" {
                match (tl, w.deadline) {
                    (None, _) => w.problem("C04", "TimedOut reported although no time limit was set".into()),
                    (Some(_), Some(d)) => {
                        if w.now + NS_PER_MS <= d {
                            w.problem("C04", format!("TimedOut reported {} ns before the limit elapsed", d - w.now));
                        }
                    }
                    (Some(t), None) => {
                        if w.now < t_start + *t {
                            w.problem("C04", "TimedOut reported without any clock reading".into());
                        }
                    }
                }
            }
            // C04: no later than the limit plus one bounded step -- whatever the read returned
            if let (Some(_), Some(d)) = (tl, w.deadline) {
                let slack = 2 * NS_PER_MS + 80 * w.dt_max;
                if w.now > d + slack {
                    w.problem(
                        "C04",
                        format!("read() with a time limit returned ({}) {} ns after the limit had expired (one round of I/O, at most {} ns here, is allowed)", tag, w.now - d, slack),
                    );
                }
            }
            if w.aborted {
                break;
            }
        }
        // the rest of the exchange is not part of the case: stop answering before the communicator is dropped
        w.fd_in = -1;
        w.fd_out = -1;
        w.fd_err = -1;
        drop(comm);
    });
    // release the placeholder descriptors the library did not take (string api keeps none; communicate_start takes all)
    p.stdin.take();
    p.stdout.take();
    p.stderr.take();
    let script_s: Vec<String> = c.script.iter().map(|a| a.show()).collect();
    let req = format!(
        "comm {} {} {} {} {} {} {} | {} | {}",
        c.has_in as u8,
        c.has_out as u8,
        c.has_err as u8,
        hex(&c.input),
        c.cap_in,
        c.cap_out,
        c.cap_err,
        script_s.join(" "),
        w.events.join(" ")
    );
    let obs = format!("ok {}", results.join(" "));
    let stat = format!(
        "calls={} events={} input={} out={} err={} reads={} deadlock={} script={}",
        w.parent_calls,
        w.events.len(),
        c.input.len(),
        w.g_out.len(),
        w.g_err.len(),
        results.len(),
        w.aborted,
        c.script.len()
    );
    CaseOut { req, obs, problems: w.problems, stat }
}

// ------------------------------------------------------------------------------------ generator
const SIZES: [usize; 14] = [0, 1, 2, 100, 4095, 4096, 4097, 8191, 8192, 8193, 20000, 65535, 65536, 65537];

fn pattern(rng: &mut Rng, n: usize, utf8: bool) -> Vec<u8> {
    // position-dependent bytes, so that reordering, duplication and cross-stream leaks are visible
    let a = rng.below(251) as usize + 1;
    let b = rng.below(256) as usize;
    if utf8 {
        (0..n).map(|i| b'a' + ((i * a + b) % 26) as u8).collect()
    } else {
        (0..n).map(|i| ((i * a + b) % 256) as u8).collect()
    }
}

pub fn gen_case(rng: &mut Rng, idx: usize, big: bool) -> Case {
    let kind = rng.below(13);
    let string_api = kind >= 11;
    let has_in = rng.chance(2, 3);
    let mut has_out = rng.chance(4, 5);
    let has_err = rng.chance(1, 2);
    if !has_in && !has_out && !has_err {
        has_out = true;
    }
    let in_len = if !has_in {
        0
    } else if big && rng.chance(1, 6) {
        *rng.pick(&[200_000usize, 1 << 20])
    } else {
        *rng.pick(&SIZES)
    };
    let input = pattern(rng, in_len, string_api);
    let cap = |rng: &mut Rng| *rng.pick(&[4096usize, 4097, 8192, 65536, 65536, 65536, 100_000]);
    let (cap_in, cap_out, cap_err) = (cap(rng), *rng.pick(&[1usize, 100, 4096, 65536, 65536]), *rng.pick(&[1usize, 4096, 65536]));
    // child script
    let mut script = vec![];
    let style = rng.below(9);
    let nact = 1 + rng.below(if big { 60 } else { 14 }) as usize;
    let mut produced = 0usize;
    for i in 0..nact {
        let a = match style {
            // cat-like: read a bit, write a bit
            0 => {
                if i % 2 == 0 {
                    CAct::ReadIn(*rng.pick(&[1usize, 100, 4096, 65536]))
                } else {
                    let n = *rng.pick(&[1usize, 10, 4096, 5000]);
                    CAct::Write(rng.chance(1, 4), pattern(rng, n, false))
                }
            }
            // writer: produces a lot before reading anything (the classic deadlock shape)
            1 => {
                let n = *rng.pick(&SIZES);
                CAct::Write(rng.chance(1, 3), pattern(rng, n, false))
            }
            // reader only
            2 => CAct::ReadIn(*rng.pick(&[1usize, 7, 4096, 100_000])),
            // flood: many page-sized writes (time limits must still fire)
            3 => CAct::Write(false, pattern(rng, 4096, false)),
            // closes early
            4 => match rng.below(6) {
                0 => CAct::CloseIn,
                1 => CAct::Close(false),
                2 => CAct::Close(true),
                3 => CAct::Sleep,
                4 => CAct::ReadIn(*rng.pick(&[1usize, 4096])),
                _ => {
                    let n = *rng.pick(&SIZES);
                    CAct::Write(rng.chance(1, 2), pattern(rng, n, false))
                }
            },
            // sleepy trickle
            5 => {
                if i % 2 == 0 {
                    CAct::Sleep
                } else {
                    let n = 1 + rng.below(20) as usize;
                    CAct::Write(rng.chance(1, 2), pattern(rng, n, false))
                }
            }
            // whole blocks on one stream (which then stays open and silent), then more than a pipe holds on the other:
            // a parent that keeps reading the first stream "while the reads come back full" blocks there
            7 => {
                let first = i == 0 || (i % 4 == 0);
                if first {
                    let n = 4096 * (1 + rng.below(3) as usize);
                    CAct::Write(i % 8 == 4, pattern(rng, n, false))
                } else if i % 4 == 1 {
                    let n = *rng.pick(&[70_000usize, 140_000]);
                    CAct::Write(i % 8 != 5, pattern(rng, n, false))
                } else {
                    CAct::Sleep
                }
            }
            // a slow, mostly silent child that keeps its streams open: time limits have to fire while nothing happens
            8 => {
                if i == 3 {
                    let n = 1 + rng.below(20) as usize;
                    CAct::Write(rng.chance(1, 2), pattern(rng, n, false))
                } else {
                    CAct::Sleep
                }
            }
            _ => match rng.below(5) {
                0 => CAct::ReadIn(*rng.pick(&SIZES)),
                1 | 2 => {
                    let n = *rng.pick(&SIZES);
                    CAct::Write(rng.chance(1, 2), pattern(rng, n, false))
                }
                3 => CAct::Sleep,
                _ => CAct::ReadIn(1 << 20),
            },
        };
        if let CAct::Write(_, d) = &a {
            produced += d.len();
        }
        script.push(a);
    }
    if style != 4 && rng.chance(2, 3) {
        // most children read their input to the end before exiting
        script.push(CAct::ReadIn(1 << 30));
        for _ in 0..(in_len / 65536 + 2) {
            script.push(CAct::ReadIn(1 << 30));
        }
    }
    if big && style == 3 {
        for _ in 0..200 {
            script.push(CAct::Write(false, pattern(rng, 4096, false)));
        }
    }
    if string_api {
        // text variants: what the child writes is (mostly) UTF-8 text with multi-byte characters, cut at an arbitrary
        // byte -- so a stream may end in the middle of a character -- or carrying a stray invalid byte
        for stream in [false, true] {
            let style = rng.below(3);
            if style == 0 {
                continue; // arbitrary bytes, as generated
            }
            let total: usize = script.iter().map(|a| if let CAct::Write(e, d) = a { if *e == stream { d.len() } else { 0 } } else { 0 }).sum();
            let unit = "a\u{e9}\u{20ac}\u{1f600}z\u{4e2d}".as_bytes();
            let off = rng.below(unit.len() as u64) as usize;
            let mut text: Vec<u8> = (0..total + unit.len()).map(|i| unit[(i + off) % unit.len()]).collect();
            // start on a character boundary
            while !text.is_empty() && (text[0] & 0xC0) == 0x80 {
                text.remove(0);
            }
            text.truncate(total);
            if style == 2 && total > 2 {
                let k = rng.below(total as u64) as usize;
                text[k] = 0xFF;
            }
            let mut pos = 0;
            for a in script.iter_mut() {
                if let CAct::Write(e, d) = a {
                    if *e == stream {
                        let n = d.len().min(text.len() - pos.min(text.len()));
                        let m = d.len();
                        d.clear();
                        d.extend_from_slice(&text[pos.min(text.len())..pos.min(text.len()) + n]);
                        while d.len() < m {
                            d.push(b'.');
                        }
                        pos += m;
                    }
                }
            }
        }
    }
    // session of read() calls
    let mut session = vec![];
    if string_api || kind < 4 {
        session.push((None, None)); // plain communicate
    } else {
        let nreads = 1 + rng.below(6) as usize;
        let mut lim: Option<usize> = None;
        let mut tl: Option<u64> = None;
        let use_size = kind % 2 == 0 || kind >= 9;
        let use_time = kind % 2 == 1 || kind >= 9;
        for _ in 0..nreads {
            if use_size && rng.chance(2, 3) {
                lim = Some(*rng.pick(&[1usize, 2, 100, 4095, 4096, 4097, 8191, 8192, 70_000, produced.max(1), produced + 1, usize::MAX, usize::MAX - 1]));
            }
            if use_time && rng.chance(2, 3) {
                tl = Some(*rng.pick(&[
                    0u64,
                    1,
                    999_999,
                    NS_PER_MS,
                    5 * NS_PER_MS,
                    100 * NS_PER_MS,
                    2_000 * NS_PER_MS,
                    3_000_000_000 * NS_PER_MS, // > 2^31 ms
                    (1u64 << 31) * NS_PER_MS,
                    ((1u64 << 32) + 150) * NS_PER_MS, // >= 2^32 ms: the low 32 bits are a small number
                ]));
            }
            session.push((lim, tl));
        }
        // finish with reads that can complete the exchange
        for _ in 0..3 {
            session.push((lim, tl));
        }
    }
    if style == 8 && !string_api {
        // the silent child is there for the time limits: every read of the session has one
        if session.iter().all(|(_, t)| t.is_none()) {
            session = vec![(None, None); 1 + rng.below(3) as usize];
        }
        for r in session.iter_mut() {
            // ... including limits that have expired by the time the first wait is computed (0, 1 ns, half a millisecond)
            r.1 = Some(*rng.pick(&[0, 1, 500_000, 100 * NS_PER_MS, 2_000 * NS_PER_MS, 100 * NS_PER_MS, 2_000 * NS_PER_MS, 100 * NS_PER_MS, 2_000 * NS_PER_MS]));
        }
    }
    let _ = idx;
    let tiny_ok = in_len + produced <= 3000;
    let (cap_out, cap_err) = if tiny_ok { (cap_out, cap_err) } else { (cap_out.max(4096), cap_err.max(4096)) };
    Case {
        tiny_ok,
        has_in,
        has_out,
        has_err,
        input,
        cap_in,
        cap_out,
        cap_err,
        script,
        session,
        wseed: rng.next(),
        eager_child: *rng.pick(&[0u64, 1, 1, 3, 8]),
        dt_max: if style == 8 { *rng.pick(&[1000u64, 300_000]) } else { *rng.pick(&[0u64, 1000, 300_000, 3 * NS_PER_MS, 400 * NS_PER_MS]) },
        long_sleep: if style == 8 { 1500 * NS_PER_MS } else { *rng.pick(&[0u64, 0, 3 * NS_PER_MS, 60 * NS_PER_MS, 1500 * NS_PER_MS]) },
        fault_pm: if style == 8 { *rng.pick(&[0u64, 120, 300]) } else { *rng.pick(&[0u64, 0, 0, 0, 15, 120]) },
        string_api,
    }
}

/// Directed families, one case in ten: shapes that stored seeded changes needed and that the random generator only hits by
/// luck (so that a change to the generator cannot silently lose them).  The random choices inside come from a COPY of the
/// generator state: the stream of the other cases is not disturbed.
fn direct(c: &mut Case, idx: usize, mut rng: Rng) {
    if c.string_api {
        return;
    }
    // (a limit of 2^32 ms and more must not be taken for its low 32 bits)
    let big_limits = [100 * NS_PER_MS, 2_000 * NS_PER_MS, ((1u64 << 32) + 150) * NS_PER_MS, (3 * (1u64 << 32) + 20) * NS_PER_MS];
    match idx % 40 {
        // stdin is the only stream, the input does not fit the pipe, the child is slow to read it, every read has a time limit
        7 | 27 => {
            c.has_in = true;
            c.has_out = false;
            c.has_err = false;
            let n = *rng.pick(&[5_000usize, 70_000, 70_000, 150_000]);
            c.input = pattern(&mut rng, n, false);
            c.cap_in = *rng.pick(&[4096usize, 65536, 65536]);
            c.script = vec![CAct::Sleep, CAct::ReadIn(1000), CAct::Sleep, CAct::Sleep, CAct::ReadIn(4096), CAct::Sleep, CAct::ReadIn(1 << 30)];
            let t = *rng.pick(&big_limits);
            c.session = vec![(None, Some(t)); 6];
            c.long_sleep = 1500 * NS_PER_MS;
            c.dt_max = 300_000;
            c.fault_pm = 0;
            c.tiny_ok = false;
        }
        // a child that says a little and then nothing for long stretches, both outputs captured, limits well above one round
        // of I/O: the wait must end at the limit, not at a multiple of it
        17 | 37 => {
            c.has_out = true;
            c.has_err = true;
            c.script = vec![CAct::Sleep, CAct::Write(false, pattern(&mut rng, 10, false)), CAct::Sleep, CAct::Sleep, CAct::Sleep,
                            CAct::Write(true, pattern(&mut rng, 5, false)), CAct::Sleep, CAct::Sleep, CAct::ReadIn(1 << 30)];
            let t = *rng.pick(&big_limits);
            c.session = vec![(None, Some(t)); 5];
            c.long_sleep = 1500 * NS_PER_MS;
            c.dt_max = *rng.pick(&[1000u64, 300_000]);
            c.fault_pm = *rng.pick(&[0u64, 0, 120]);
            c.cap_out = c.cap_out.max(4096);
            c.cap_err = c.cap_err.max(4096);
            c.tiny_ok = false;
        }
        // no input to feed; the child says exactly k whole 4096-byte blocks on one stream and then nothing for a long time,
        // with the stream left open: a read that came back with a full buffer says nothing about what is still pending
        3 | 23 => {
            c.has_in = false;
            c.input = vec![];
            c.has_out = true;
            let k = *rng.pick(&[1usize, 1, 2, 3]);
            let on_err = c.has_err && rng.chance(1, 3);
            c.script = vec![CAct::Write(on_err, pattern(&mut rng, 4096 * k, false)), CAct::Sleep, CAct::Sleep, CAct::Sleep,
                            CAct::Write(false, pattern(&mut rng, 4, false))];
            c.cap_out = 65536;
            c.cap_err = 65536;
            c.session = vec![(None, Some(*rng.pick(&[100 * NS_PER_MS, 300 * NS_PER_MS]))); 5];
            c.long_sleep = 1500 * NS_PER_MS;
            c.dt_max = *rng.pick(&[1000u64, 300_000]);
            c.fault_pm = 0;
            c.eager_child = 8;
            c.tiny_ok = false;
        }
        _ => {}
    }
}

pub static HEARTBEAT: std::sync::atomic::AtomicU64 = std::sync::atomic::AtomicU64::new(0);
pub static CUR_CASE: std::sync::atomic::AtomicU64 = std::sync::atomic::AtomicU64::new(u64::MAX);

/// A case in which the library neither returns nor issues a system call for 20 s of real time is a
/// spin the sim-kernel cannot see (e.g. a loop that takes the poll-free shortcut and does nothing).
fn start_watchdog() {
    use std::sync::atomic::Ordering::SeqCst;
    std::thread::spawn(|| {
        let mut last = (u64::MAX, 0u64);
        let mut idle = 0;
        loop {
            std::thread::sleep(Duration::from_secs(1));
            let cur = (CUR_CASE.load(SeqCst), HEARTBEAT.load(SeqCst));
            if cur == last && cur.0 != u64::MAX {
                idle += 1;
            } else {
                idle = 0;
                last = cur;
            }
            if idle >= 20 {
                let msg = format!(
                    "CASE {}\nHANG C01 the library neither returned nor made a system call for 20 s (spinning without progress, or blocked in a call the library should not make)\n",
                    cur.0
                );
                unsafe {
                    crate::interpose::real_write(1, msg.as_ptr() as *const libc::c_void, msg.len());
                    libc::_exit(3);
                }
            }
        }
    });
}

pub fn run(seed: u64, n: usize, only: Option<usize>, big: bool) {
    use std::io::Write;
    start_watchdog();
    let out = std::io::stdout();
    let mut out = std::io::BufWriter::new(out.lock());
    let mut p = Popen::create(&["/bin/true"], PopenConfig::default()).expect("spawn /bin/true");
    let _ = p.wait();
    let mut rng = Rng(seed ^ 0xc077);
    for i in 0..n {
        let mut c = gen_case(&mut rng, i, big);
        direct(&mut c, i, rng.clone());
        if let Some(k) = only {
            if k != i {
                continue;
            }
        }
        out.flush().unwrap();
        CUR_CASE.store(i as u64, std::sync::atomic::Ordering::SeqCst);
        let r = run_case(&mut p, &c);
        CUR_CASE.store(u64::MAX, std::sync::atomic::Ordering::SeqCst);
        writeln!(out, "CASE {}", i).unwrap();
        writeln!(out, "REQ {}", r.req).unwrap();
        writeln!(out, "OBS {}", r.obs).unwrap();
        writeln!(out, "STAT {}", r.stat).unwrap();
        for (pr, m) in &r.problems {
            writeln!(out, "ORACLE {} {}", pr, m).unwrap();
        }
    }
}

//! Engine `pipe` (C12 C13 C14): real `Exec` / `Pipeline` terminators with real scripted children
//! (`hplain stage ..`) in trace mode (real exec).  Dumps the parent's call log (pipe / fcntl / fork /
//! close / waitpid), each child's descriptor snapshot at exec, the data that came out, the exit status,
//! what is left to reap, the descriptor count and the wall time.  A watchdog reports a hang.
use crate::spawn::{Out, Spec};
use crate::trace;
use std::fs::File;
use std::io::{Read, Write};
use std::os::unix::io::{AsRawFd, FromRawFd};
use std::sync::atomic::{AtomicU64, Ordering::SeqCst};
use std::time::{Duration, Instant};
use subprocess::{Exec, ExitStatus, Pipeline, Redirection};

static DEADLINE_MS: AtomicU64 = AtomicU64::new(u64::MAX);
static CUR: AtomicU64 = AtomicU64::new(0);
static mut OUT_FD: i32 = 1;

fn now_ms() -> u64 {
    let mut ts = libc::timespec { tv_sec: 0, tv_nsec: 0 };
    unsafe { libc::syscall(libc::SYS_clock_gettime, libc::CLOCK_MONOTONIC as libc::c_long, &mut ts as *mut libc::timespec) };
    ts.tv_sec as u64 * 1000 + ts.tv_nsec as u64 / 1_000_000
}

fn start_watchdog() {
    std::thread::spawn(|| loop {
        std::thread::sleep(Duration::from_millis(100));
        let d = DEADLINE_MS.load(SeqCst);
        if d != u64::MAX && now_ms() > d {
            let mut msg = format!("HANG {}\n", CUR.load(SeqCst));
            for l in trace::peek().lines() {
                if l.starts_with("P write") || (l.starts_with("P read") && l.split_whitespace().nth(3) != Some("4")) {
                    continue;
                }
                msg.push_str("LOG ");
                msg.push_str(l);
                msg.push('\n');
            }
            msg.push_str("END\n");
            unsafe {
                libc::syscall(libc::SYS_write, OUT_FD as libc::c_long, msg.as_ptr(), msg.len());
                // the children of the stuck case go with us
                libc::kill(0, libc::SIGKILL);
                libc::_exit(3);
            }
        }
    });
}

fn count_fds() -> usize {
    (0..256).filter(|fd| unsafe { libc::syscall(libc::SYS_fcntl, *fd as libc::c_long, libc::F_GETFD as libc::c_long, 0 as libc::c_long) } >= 0).count()
}

fn fnv(b: &[u8]) -> u64 {
    let mut h: u64 = 0xcbf29ce484222325;
    for x in b {
        h ^= *x as u64;
        h = h.wrapping_mul(0x100000001b3);
    }
    h
}

fn status_str(s: &ExitStatus) -> String {
    match s {
        ExitStatus::Exited(c) => format!("exit{}", c),
        ExitStatus::Signaled(c) => format!("sig{}", c),
        ExitStatus::Other(c) => format!("other{}", c),
        ExitStatus::Undetermined => "undet".to_string(),
    }
}

fn repoint(fd: i32, path: &str, write: bool) {
    let f = if write {
        std::fs::OpenOptions::new().write(true).create(true).truncate(true).open(path).unwrap()
    } else {
        File::open(path).unwrap()
    };
    unsafe { libc::dup2(f.as_raw_fd(), fd) };
}

fn summarize(label: &str, data: &[u8], out: &mut Out) {
    // lines sorted for stderr-like multisets are handled by the reader; here: length, hash, head
    let head: Vec<u8> = data.iter().cloned().take(48).collect();
    out.line(&format!("{} len={} fnv={:016x} head={}", label, data.len(), fnv(data), crate::proto::hex(&head)));
}

fn summarize_lines(label: &str, data: &[u8], out: &mut Out) {
    let mut lines: Vec<&[u8]> = data.split(|b| *b == b'\n').filter(|l| !l.is_empty()).collect();
    lines.sort();
    let mut joined = Vec::new();
    for l in &lines {
        joined.extend_from_slice(l);
        joined.push(b'\n');
    }
    let head: Vec<u8> = joined.iter().cloned().take(48).collect();
    out.line(&format!("{} lines={} fnv={:016x} head={}", label, lines.len(), fnv(&joined), crate::proto::hex(&head)));
}

enum Pv {
    One(Exec),
    Many(Pipeline),
}

fn run_case(idx: usize, line: &str, dir: &str, stage_bin: &str, out: &mut Out) {
    let spec = Spec::parse(line);
    out.line(&format!("CASE {}", idx));
    out.line(&format!("SPEC {}", line));
    let n: usize = spec.get("n").parse().unwrap();
    let stages: Vec<&str> = spec.get("stages").split(',').collect();
    let det: Vec<bool> = spec.get("det").chars().map(|c| c == '1').collect();
    let nlines: usize = spec.get("data").parse().unwrap_or(0);
    let mut input = Vec::new();
    for i in 0..nlines {
        input.extend_from_slice(format!("L{}\n", i).as_bytes());
    }
    let inpath = format!("{}/in", dir);
    std::fs::write(&inpath, &input).unwrap();
    let (outpath, errpath, filepath, errto) = (format!("{}/out", dir), format!("{}/err", dir), format!("{}/file", dir), format!("{}/errto", dir));
    for p in [&outpath, &errpath, &filepath, &errto] {
        std::fs::write(p, b"").unwrap();
    }
    // the harness's own streams: what "inherit" means for the children
    // the harness's own stdin is what "inherit" means; when the pipeline's input is DATA it holds a decoy: if anything of it
    // shows up downstream, the first command was not given the configured input (e.g. zero bytes of data = immediate EOF)
    let decoy = format!("{}/decoy", dir);
    std::fs::write(&decoy, b"LEAK1\nLEAK2\n").unwrap();
    repoint(0, if spec.get("in") == "I" { &inpath } else if spec.get("in") == "D" { &decoy } else { "/dev/null" }, false);
    repoint(1, &outpath, true);
    repoint(2, &errpath, true);
    let fds_before = count_fds();
    // sigblock=1: the calling thread runs with SIGPIPE blocked (as worker threads do in programs that route signals to one
    // sigwait thread); the commands must start with an empty mask all the same, or a writer nobody reads is never ended
    unsafe {
        let mut set: libc::sigset_t = std::mem::zeroed();
        libc::sigemptyset(&mut set);
        libc::sigaddset(&mut set, libc::SIGPIPE);
        let how = if spec.get("sigblock") == "1" { libc::SIG_BLOCK } else { libc::SIG_UNBLOCK };
        libc::syscall(libc::SYS_rt_sigprocmask, how as libc::c_long, &set as *const libc::sigset_t, 0 as libc::c_long, 8 as libc::c_long);
    }
    let mk = |i: usize| -> Exec {
        let e = if stages[i] == "nosuch" {
            Exec::cmd("/nonexistent/verif-no-such-program")
        } else if stages[i] == "W" {
            // a writer that is not a Rust program (those ignore SIGPIPE themselves): a shell loop that keeps echoing for
            // 4 s whatever happens to its writes -- it ends at once only if SIGPIPE has its default disposition
            Exec::cmd("/bin/sh").arg("-c").arg("end=$(( $(date +%s) + 4 )); while [ $(date +%s) -lt $end ]; do i=0; while [ $i -lt 3000 ]; do echo yyyyyyyyyyyyyyyyyyyyyyyyyyyyyyyy; i=$((i+1)); done; done 2>/dev/null")
        } else {
            Exec::cmd(stage_bin).arg("stage").arg(stages[i])
        };
        // perr=<digits>: these commands have a stderr pipe of their own (`Exec::stderr(Redirection::Pipe)` inside a pipeline);
        // its read end lives in that command's Popen
        let e = if spec.get("perr").contains(&i.to_string()) && i < 10 { e.stderr(Redirection::Pipe) } else { e };
        if det.get(i).cloned().unwrap_or(false) {
            e.detached()
        } else {
            e
        }
    };
    let shape = spec.get("shape").to_string();
    let in_kind = spec.get("in").to_string();
    let out_kind = spec.get("out").to_string();
    let err_kind = spec.get("err").to_string();
    let open_rw = |p: &str| std::fs::OpenOptions::new().read(true).write(true).open(p).unwrap();
    // ring=1: the pipeline's stdin is the read end and its stdout the write end of one and the same pipe (made by the caller,
    // close-on-exec): the first command sees end-of-file only when every copy of the write end is gone, the parent's included
    let ring: std::cell::RefCell<Option<(File, File)>> = std::cell::RefCell::new(None);
    if spec.get("ring") == "1" {
        let mut fds = [0 as libc::c_int; 2];
        if unsafe { libc::pipe2(fds.as_mut_ptr(), libc::O_CLOEXEC) } == 0 {
            *ring.borrow_mut() = Some(unsafe { (File::from_raw_fd(fds[0]), File::from_raw_fd(fds[1])) });
        }
    }
    let set_in = |p: Pipeline, input: &Vec<u8>| -> Pipeline {
        if ring.borrow().is_some() {
            let (r, w) = ring.borrow_mut().take().unwrap();
            return p.stdin(r).stdout(w);
        }
        match in_kind.as_str() {
            "P" => p.stdin(Redirection::Pipe),
            "F" => p.stdin(File::open(&inpath).unwrap()),
            "D" => p.stdin(input.clone()),
            _ => p,
        }
    };
    let set_out = |p: Pipeline| -> Pipeline {
        if spec.get("ring") == "1" {
            return p; // already given together with stdin
        }
        match out_kind.as_str() {
            "P" => p.stdout(Redirection::Pipe),
            "F" => p.stdout(open_rw(&filepath)),
            _ => p,
        }
    };
    // building the value can panic too (`from_exec_iter` has a documented panic for fewer than two commands)
    let pv: Option<Pv> = std::panic::catch_unwind(std::panic::AssertUnwindSafe(|| if n == 1 {
        let mut e = mk(0);
        e = match in_kind.as_str() {
            "P" => e.stdin(Redirection::Pipe),
            "F" => e.stdin(File::open(&inpath).unwrap()),
            "D" => e.stdin(input.clone()),
            _ => e,
        };
        e = match out_kind.as_str() {
            "P" => e.stdout(Redirection::Pipe),
            "F" => e.stdout(open_rw(&filepath)),
            _ => e,
        };
        e = match err_kind.as_str() {
            "P" => e.stderr(Redirection::Pipe),
            "F" => e.stderr(open_rw(&errto)),
            _ => e,
        };
        Pv::One(e)
    } else {
        // `stderr_to` given early: right after the first two commands were combined, before the rest is appended
        let early = spec.get("errto") == "1" && spec.get("errwhen") == "early";
        let chain = |from: usize, to: usize| -> Pipeline {
            let mut p = mk(from) | mk(from + 1);
            if early && from == 0 {
                p = p.stderr_to(open_rw(&errto));
            }
            for i in from + 2..to {
                p = p | mk(i);
            }
            p
        };
        let mut p = if shape == "I" {
            set_out(set_in(Pipeline::from_exec_iter((0..n).map(|i| mk(i)).collect::<Vec<_>>()), &input))
        } else if shape == "J" {
            // an iterator that does not know its length in advance (size_hint = (0, Some(n)))
            set_out(set_in(Pipeline::from_exec_iter((0..n).map(|i| mk(i)).filter(|_| true)), &input))
        } else if shape == "K" {
            // ... and one with no upper bound either (size_hint = (0, None))
            let mut i = 0;
            set_out(set_in(
                Pipeline::from_exec_iter(std::iter::from_fn(|| {
                    i += 1;
                    if i <= n { Some(mk(i - 1)) } else { None }
                })),
                &input,
            ))
        } else if let Some(rest) = shape.strip_prefix('P') {
            // (first m) | (rest), settings given before ('b') or after ('a') the composition
            let before = rest.ends_with('b');
            let m: usize = rest.trim_end_matches(|c| c == 'a' || c == 'b').parse().unwrap();
            if before {
                // the left side's stdout and the right side's stdin settings are ones the composition must discard
                let l = set_in(chain(0, m), &input).stdout(Redirection::Pipe);
                let r = set_out(chain(m, n)).stdin(Redirection::Pipe);
                l | r
            } else {
                set_out(set_in(chain(0, m) | chain(m, n), &input))
            }
        } else {
            set_out(set_in(chain(0, n), &input))
        };
        if spec.get("errto") == "1" && !(early && !matches!(shape.as_str(), "I" | "J" | "K")) {
            p = p.stderr_to(open_rw(&errto));
        }
        Pv::Many(p)
    }))
    .ok();
    let term = spec.get("term").to_string();
    let panic_drop = spec.get("panic") == "1";
    let rd = spec.get("read").to_string();
    let wr: usize = spec.get("write").parse().unwrap_or(0);
    let mut got_out: Option<Vec<u8>> = None;
    let mut got_err: Option<Vec<u8>> = None;
    let mut status: Option<ExitStatus> = None;
    // an unrelated child started while the handle is alive and living on after it (sib=1): it must not matter
    let want_sibling = spec.get("sib") == "1";
    let sibling: std::cell::RefCell<Option<subprocess::Popen>> = std::cell::RefCell::new(None);
    let stage_bin_s = stage_bin.to_string();
    let pause_ms: u64 = spec.get("pause").parse().unwrap_or(0);
    let at_user = || {
        trace::log(format_args!("user"));
        if pause_ms > 0 {
            // the caller keeps the handle for a while: children that end quickly have ended by the time it is dropped
            std::thread::sleep(Duration::from_millis(pause_ms));
        }
        if want_sibling {
            let was = trace::set_on(false);
            let r = subprocess::Popen::create(
                &[stage_bin_s.as_str(), "stage", "Z"],
                subprocess::PopenConfig { detached: true, ..Default::default() },
            );
            trace::set_on(was);
            *sibling.borrow_mut() = r.ok();
        }
    };
    CUR.store(idx as u64, SeqCst);
    DEADLINE_MS.store(now_ms() + 5000, SeqCst);
    unsafe { trace::VERBOSE_WAIT = true };
    trace::start(&[], false);
    let t0 = Instant::now();
    let user_read = |r: &mut dyn Read, got: &mut Option<Vec<u8>>| {
        let mut v = Vec::new();
        if rd == "all" {
            let _ = r.read_to_end(&mut v);
        } else {
            let want: usize = rd.parse().unwrap_or(0);
            let mut buf = vec![0u8; want];
            let mut have = 0;
            while have < want {
                match r.read(&mut buf[have..]) {
                    Ok(0) | Err(_) => break,
                    Ok(k) => have += k,
                }
            }
            v.extend_from_slice(&buf[..have]);
        }
        *got = Some(v);
    };
    let user_write = |w: &mut dyn Write| {
        let mut ok = true;
        for i in 0..wr {
            if w.write_all(format!("L{}\n", i).as_bytes()).is_err() {
                ok = false;
                break;
            }
        }
        ok
    };
    let res: Result<(), String> = std::panic::catch_unwind(std::panic::AssertUnwindSafe(|| -> Result<(), String> {
        let e2s = |e: subprocess::PopenError| format!("{:?}", e).chars().take(60).collect::<String>().replace(' ', "_");
        let pv = match pv {
            Some(p) => p,
            None => return Err("panic-while-building-the-pipeline".into()),
        };
        match (pv, term.as_str()) {
            // panic=1: the handle is not dropped by falling out of scope but by a panic unwinding the caller's stack (and caught
            // further up): it is dropped all the same, with the same obligations
            (Pv::One(e), "popen") => {
                let p = e.popen().map_err(e2s)?;
                at_user();
                if panic_drop {
                    let _ = std::panic::catch_unwind(std::panic::AssertUnwindSafe(move || {
                        let _keep = p;
                        std::panic::resume_unwind(Box::new(()));
                    }));
                } else {
                    drop(p);
                }
            }
            (Pv::Many(p), "popen") => {
                let v = p.popen().map_err(e2s)?;
                at_user();
                if panic_drop {
                    let _ = std::panic::catch_unwind(std::panic::AssertUnwindSafe(move || {
                        let _keep = v;
                        std::panic::resume_unwind(Box::new(()));
                    }));
                } else {
                    drop(v);
                }
            }
            (Pv::One(e), "join") => status = Some(e.join().map_err(e2s)?),
            (Pv::Many(p), "join") => status = Some(p.join().map_err(e2s)?),
            (Pv::One(e), "stream_stdout") => {
                let mut r = e.stream_stdout().map_err(e2s)?;
                at_user();
                user_read(&mut r, &mut got_out);
                drop(r);
            }
            (Pv::Many(p), "stream_stdout") => {
                let mut r = p.stream_stdout().map_err(e2s)?;
                at_user();
                user_read(&mut r, &mut got_out);
                drop(r);
            }
            (Pv::One(e), "stream_stderr") => {
                let mut r = e.stream_stderr().map_err(e2s)?;
                at_user();
                user_read(&mut r, &mut got_err);
                drop(r);
            }
            (Pv::One(e), "stream_stdin") => {
                let mut w = e.stream_stdin().map_err(e2s)?;
                at_user();
                user_write(&mut w);
                drop(w);
            }
            (Pv::Many(p), "stream_stdin") => {
                let mut w = p.stream_stdin().map_err(e2s)?;
                at_user();
                user_write(&mut w);
                drop(w);
            }
            (Pv::One(e), "capture") => {
                let c = e.capture().map_err(e2s)?;
                got_out = Some(c.stdout);
                got_err = Some(c.stderr);
                status = Some(c.exit_status);
            }
            (Pv::Many(p), "capture") => {
                let c = p.capture().map_err(e2s)?;
                got_out = Some(c.stdout);
                got_err = Some(c.stderr);
                status = Some(c.exit_status);
            }
            (Pv::One(e), "communicate") => {
                let mut c = e.communicate().map_err(e2s)?;
                at_user();
                if rd == "all" {
                    if let Ok((o, er)) = c.read() {
                        got_out = o;
                        got_err = er;
                    }
                }
                drop(c);
            }
            (Pv::Many(p), "communicate") => {
                let mut c = p.communicate().map_err(e2s)?;
                at_user();
                if rd == "all" {
                    if let Ok((o, er)) = c.read() {
                        got_out = o;
                        got_err = er;
                    }
                }
                drop(c);
            }
            _ => return Err("bad-terminator".into()),
        }
        Ok(())
    }))
    .unwrap_or_else(|_| Err("panic".to_string()));
    let ms = t0.elapsed().as_millis();
    let (log, _, _) = trace::stop();
    unsafe { trace::VERBOSE_WAIT = false };
    if let Some(mut sp) = sibling.borrow_mut().take() {
        let _ = sp.kill();
        let _ = sp.wait();
    }
    DEADLINE_MS.store(u64::MAX, SeqCst);
    let fds_after = count_fds();
    // what is left of the attempt, per child: z = exited but unreaped when the handle was gone,
    // l = was still running then and ended by itself a little later, r = still running after 1.5 s (killed here),
    // g = already reaped by the library
    let mut pids: Vec<i32> = vec![];
    for l in log.lines() {
        if let Some(p) = l.strip_prefix("P fork -> K") {
            if let Ok(p) = p.trim().parse::<i32>() {
                pids.push(p);
            }
        }
    }
    let settle = Instant::now();
    let mut state: Vec<(i32, char)> = pids.iter().map(|p| (*p, '?')).collect();
    let mut first_pass = true;
    loop {
        let mut pending = false;
        for (p, st) in state.iter_mut() {
            if *st != '?' {
                continue;
            }
            let mut ws = 0;
            let r = unsafe { libc::syscall(libc::SYS_wait4, *p as libc::c_long, &mut ws as *mut i32, libc::WNOHANG as libc::c_long, 0 as libc::c_long) };
            if r == *p as i64 {
                *st = if first_pass { 'z' } else { 'l' };
            } else if r == 0 {
                pending = true;
            } else {
                *st = 'g';
            }
        }
        first_pass = false;
        if !pending || settle.elapsed() > Duration::from_millis(1500) {
            break;
        }
        std::thread::sleep(Duration::from_millis(20));
    }
    for (p, st) in state.iter_mut() {
        if *st == '?' {
            *st = 'r';
            unsafe {
                libc::kill(*p, libc::SIGKILL);
                let mut ws = 0;
                libc::syscall(libc::SYS_wait4, *p as libc::c_long, &mut ws as *mut i32, 0 as libc::c_long, 0 as libc::c_long);
            }
        }
    }
    let left: Vec<String> = state.iter().map(|(p, c)| format!("K{}={}", p, c)).collect();
    match &res {
        Ok(()) => out.line(&format!("RES ok {}", status.as_ref().map_or("-".to_string(), status_str))),
        Err(e) => out.line(&format!("RES err {}", e)),
    }
    out.line(&format!("STAT ms={} fds_before={} fds_after={} left={}", ms, fds_before, fds_after, left.join(",")));
    if let Some(o) = &got_out {
        summarize("GOTOUT", o, out);
    }
    if let Some(e) = &got_err {
        summarize_lines("GOTERR", e, out);
    }
    summarize("FILEOUT", &std::fs::read(&outpath).unwrap_or_default(), out);
    summarize("FILEFILE", &std::fs::read(&filepath).unwrap_or_default(), out);
    summarize_lines("FILEERR", &std::fs::read(&errpath).unwrap_or_default(), out);
    summarize_lines("FILEERRTO", &std::fs::read(&errto).unwrap_or_default(), out);
    for l in log.lines() {
        if l.starts_with("P read") || l.starts_with("P write") {
            // data exchange: only the 4-byte launch-status reads matter to the reader
            if !(l.starts_with("P read") && l.split_whitespace().nth(3) == Some("4")) {
                continue;
            }
        }
        out.line(&format!("LOG {}", l));
    }
    out.line("END");
}

pub fn run(casefile: &str, first: usize) {
    let out_fd = unsafe { libc::fcntl(1, libc::F_DUPFD_CLOEXEC, 200) };
    unsafe { OUT_FD = out_fd };
    let mut out = Out(unsafe { File::from_raw_fd(out_fd) });
    let dir = std::env::var("VERIF_PIPE_DIR").unwrap_or_else(|_| format!("/tmp/verif-pipe-{}", std::process::id()));
    std::fs::create_dir_all(&dir).unwrap();
    let me = std::env::current_exe().unwrap();
    let stage_bin = me.parent().unwrap().join("hplain").to_string_lossy().into_owned();
    start_watchdog();
    let lines: Vec<String> = std::fs::read_to_string(casefile).unwrap().lines().map(|s| s.to_string()).collect();
    for (i, l) in lines.iter().enumerate() {
        if i < first || l.trim().is_empty() {
            continue;
        }
        run_case(i, l, &dir, &stage_bin, &mut out);
    }
    let _ = std::fs::remove_dir_all(&dir);
}

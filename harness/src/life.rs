//! Engine `life` (C09, C10, C11): a real `Popen` whose `waitpid/kill/clock_gettime/sleep` calls are
//! answered by a scripted child world on a virtual clock.
use crate::interpose::{self, Ans, Kernel};
use crate::proto::Rng;
use libc::{c_int, pid_t};
use std::fmt::Write as _;
use std::time::Duration;
use subprocess::unix::PopenExt;
use subprocess::{ExitStatus, Popen, PopenConfig};

const MS: u64 = 1_000_000;
const CANON_PID: i64 = 1000;

#[derive(Clone, Debug)]
enum Op {
    Poll,
    Wait,
    WaitTimeout(u64),
    Terminate,
    Kill,
    SendSignal(i32),
    Detach,
    Pid,
    ExitStatus,
    Drop,
    /// another, unrelated process is started through the library while this Popen is alive (not an operation on this Popen:
    /// the model is not told about it; it must not touch this Popen's child in any way)
    SpawnOther,
}

impl Op {
    fn show(&self) -> String {
        match self {
            Op::Poll => "poll".into(),
            Op::Wait => "wait".into(),
            Op::WaitTimeout(d) => format!("wt:{}", d),
            Op::Terminate => "term".into(),
            Op::Kill => "kill".into(),
            Op::SendSignal(s) => format!("sig:{}", s),
            Op::Detach => "detach".into(),
            Op::Pid => "pid".into(),
            Op::ExitStatus => "status".into(),
            Op::Drop => "drop".into(),
            Op::SpawnOther => "spawn".into(),
        }
    }
    fn parse(s: &str) -> Op {
        if let Some(d) = s.strip_prefix("wt:") {
            return Op::WaitTimeout(d.parse().unwrap());
        }
        if let Some(d) = s.strip_prefix("sig:") {
            return Op::SendSignal(d.parse().unwrap());
        }
        match s {
            "poll" => Op::Poll,
            "wait" => Op::Wait,
            "term" => Op::Terminate,
            "kill" => Op::Kill,
            "detach" => Op::Detach,
            "pid" => Op::Pid,
            "status" => Op::ExitStatus,
            "drop" => Op::Drop,
            _ => panic!("bad op {}", s),
        }
    }
}

/// The scripted world of one child.
struct World {
    pid: pid_t,
    now: u64,
    exit_at: Option<u64>,
    word: i32,
    ext_reap_at: Option<u64>,
    reaped: bool,
    rng: Rng,
    lat_max: u64,    // latency of a call
    jitter_max: u64, // oversleep of a sleep
    eintr_pm: u64,   // per-mille of EINTR on a blocking waitpid
    foreign_pm: u64, // per-mille of a waitpid answer carrying another pid
    calls: Vec<String>,
    resps: Vec<String>,
    // facts for the direct oracles
    kills_after_reap: Vec<String>,
    kills: Vec<(pid_t, c_int)>,
    reap_seen_at_call: Option<usize>, // index in `calls` of the waitpid that carried the pid or ECHILD
    waitpids: usize,
    sleeps: Vec<u64>,
    stopped: bool,           // the child is stopped (SIGSTOP/SIGTSTP received, no SIGCONT yet): alive, not terminated
    stop_reported: bool,     // a waitpid(WUNTRACED) has already reported this stop
    stalled_calls: u64,      // consecutive calls during which the virtual clock did not move
    spin: Option<String>,    // set when the library was caught busy-waiting (and the clock was pushed on to end the case)
}

impl World {
    fn exited(&self) -> bool {
        self.exit_at.map_or(false, |t| self.now >= t)
    }
    fn gone(&self) -> bool {
        self.reaped || self.ext_reap_at.map_or(false, |t| self.now >= t && self.exited())
    }
    fn tick(&mut self) {
        let before = self.now;
        self.now += self.rng.below(self.lat_max + 1);
        self.note_progress(before);
    }
    /// a library that polls without letting time pass (sleep(0), or no sleep at all) would never end under a
    /// virtual clock: after 3000 such calls it is recorded as busy-waiting and the clock is pushed on
    fn note_progress(&mut self, before: u64) {
        if self.now != before {
            self.stalled_calls = 0;
            return;
        }
        self.stalled_calls += 1;
        if self.stalled_calls > 3000 {
            if self.spin.is_none() {
                self.spin = Some(format!("{} consecutive system calls without time passing (last: {})", self.stalled_calls, self.calls.last().cloned().unwrap_or_default()));
            }
            self.now += 200 * MS;
            self.stalled_calls = 0;
        }
    }
    fn canon(&self, p: pid_t) -> i64 {
        if p == self.pid {
            CANON_PID
        } else {
            p as i64
        }
    }
}

impl Kernel for World {
    fn waitpid(&mut self, pid: pid_t, flags: c_int) -> Ans<(pid_t, c_int)> {
        let nohang = flags & libc::WNOHANG != 0;
        self.waitpids += 1;
        self.tick();
        // the raw flags: 0 (blocking) and 1 (WNOHANG) are what the model knows; anything else shows up as a divergence
        self.calls.push(format!("wp:{}:{}", self.canon(pid), flags));
        if pid != self.pid {
            self.resps.push("err:3".into());
            return Ans::Err(libc::ESRCH);
        }
        if !nohang && !self.exited() && !self.gone() {
            // blocking wait: EINTR now and then, otherwise time passes until the child exits
            if self.rng.below(1000) < self.eintr_pm || self.exit_at.is_none() {
                self.resps.push("err:4".into());
                return Ans::Err(libc::EINTR);
            }
            self.now = self.exit_at.unwrap();
        }
        if self.gone() {
            if self.reap_seen_at_call.is_none() {
                self.reap_seen_at_call = Some(self.calls.len() - 1);
            }
            self.resps.push("err:10".into());
            return Ans::Err(libc::ECHILD);
        }
        if flags & libc::WUNTRACED != 0 && self.stopped && !self.stop_reported && !self.exited() {
            // what the kernel answers to a caller that asks for stop reports: "stopped by SIGSTOP" -- the child lives on
            self.stop_reported = true;
            self.resps.push(format!("wp:{}:{}", CANON_PID, 0x137f));
            return Ans::Ret((self.pid, 0x137f));
        }
        if self.rng.below(1000) < self.foreign_pm {
            // an answer about some other pid (exercises the `pid_out == pid` guard)
            // (never the child's own pid: real pids wrap around at 32768 and do reach 1001)
            let fp = if self.pid == 1001 { 1002 } else { 1001 };
            self.resps.push(format!("wp:{}:{}", fp, 0));
            return Ans::Ret((fp, 0));
        }
        if self.exited() {
            self.reaped = true;
            self.reap_seen_at_call = Some(self.calls.len() - 1);
            self.resps.push(format!("wp:{}:{}", CANON_PID, self.word));
            return Ans::Ret((self.pid, self.word));
        }
        self.resps.push("wp:0:0".into());
        Ans::Ret((0, 0))
    }
    fn kill(&mut self, pid: pid_t, sig: c_int) -> Ans<()> {
        self.tick();
        self.calls.push(format!("kill:{}:{}", self.canon(pid), sig));
        self.kills.push((pid, sig));
        if sig < 0 || sig > 64 {
            // not a signal number: the kernel refuses and delivers nothing
            self.resps.push("err:22".into());
            return Ans::Err(libc::EINVAL);
        }
        if self.reap_seen_at_call.is_some() || self.gone() {
            // The property forbids a signal once the library has *observed* the end of the child (a waitpid of
            // its own returned the pid, or ECHILD told it that someone else reaped it).  A child reaped by
            // someone else that the library has not asked about yet is a race it cannot know of: not a violation.
            if self.reap_seen_at_call.is_some() {
                self.kills_after_reap.push(format!("kill({}, {}) issued after the child was reaped", self.canon(pid), sig));
            }
            self.resps.push("err:3".into());
            return Ans::Err(libc::ESRCH);
        }
        if pid == self.pid && !self.exited() && (sig == 19 || sig == 20) {
            self.stopped = true;
            self.stop_reported = false;
        }
        if pid == self.pid && sig == 18 {
            self.stopped = false;
        }
        if pid == self.pid && !self.exited() && [1, 2, 9, 15].contains(&sig) && (!self.stopped || sig == 9) {
            let t = self.now + self.rng.below(3 * MS);
            if self.exit_at.map_or(true, |e| e > t) {
                self.exit_at = Some(t);
                self.word = sig;
            }
        }
        self.resps.push("ok".into());
        Ans::Ret(())
    }
    fn clock(&mut self) -> Ans<u64> {
        self.tick();
        self.calls.push("clock".into());
        self.resps.push(format!("t:{}", self.now));
        Ans::Ret(self.now)
    }
    /// a wait on no descriptors is a nap with millisecond resolution (`poll(&[], ms)`): virtual time, like `sleep`
    fn poll(&mut self, fds: &mut [libc::pollfd], timeout_ms: c_int) -> Ans<c_int> {
        if !fds.is_empty() {
            return Ans::Pass;
        }
        if timeout_ms < 0 {
            // would never return: let the library see a failure instead of hanging the harness
            self.calls.push("poll:-1".into());
            self.resps.push("err:4".into());
            return Ans::Err(libc::EINTR);
        }
        let _ = self.sleep(timeout_ms as u64 * 1_000_000);
        Ans::Ret(0)
    }
    fn sleep(&mut self, ns: u64) -> Ans<()> {
        self.calls.push(format!("sleep:{}", ns));
        self.sleeps.push(ns);
        let before = self.now;
        // a request may be absurdly long (`Duration::from_millis(u64::MAX)` after an arithmetic slip in the library): the clock
        // saturates in the far future instead of wrapping around, so that the call returns and the oracles see the one long sleep
        self.now = self.now.saturating_add(ns.min(1u64 << 62)).saturating_add(self.rng.below(self.jitter_max + 1)).min(1u64 << 62);
        // a sleep that comes after no status check at all since the previous sleep: the library is napping its way to a far
        // deadline without looking (each nap is <= 100 ms, the deadline may be weeks away).  After a few thousand of those the
        // clock is moved to the far future so that the operation ends; the oracles see the run of unchecked naps.
        let unchecked = self.calls.len() >= 2 && self.calls[..self.calls.len() - 1].iter().rev().take_while(|c| !c.starts_with("wp:")).filter(|c| c.starts_with("sleep:")).count() >= 3000;
        if unchecked {
            self.now = self.now.saturating_add(1u64 << 62);
        }
        self.note_progress(before);
        self.resps.push("ok".into());
        Ans::Ret(())
    }
}

fn show_status(s: ExitStatus) -> String {
    match s {
        ExitStatus::Exited(c) => format!("st:E{}", c),
        ExitStatus::Signaled(s) => format!("st:S{}", s),
        ExitStatus::Other(w) => format!("st:O{}", w),
        ExitStatus::Undetermined => "st:U".into(),
    }
}

/// independent statement of what a status word means (arithmetic, not the libc macros)
fn expect_status(word: i32) -> String {
    let w = word as u32;
    if w % 128 == 0 {
        format!("st:E{}", (w / 256) % 256)
    } else if w % 128 != 127 {
        format!("st:S{}", w % 128)
    } else {
        format!("st:O{}", word)
    }
}

fn errno_of(e: &subprocess::PopenError) -> i64 {
    match e {
        subprocess::PopenError::IoError(e) => e.raw_os_error().unwrap_or(-1) as i64,
        _ => -2,
    }
}

struct Case {
    ops: Vec<Op>,
    exit_at: Option<u64>,
    word: i32,
    ext_reap_at: Option<u64>,
    lat_max: u64,
    jitter_max: u64,
    eintr_pm: u64,
    foreign_pm: u64,
    wseed: u64,
    setpgid: bool, // the child was started as the leader of its own process group
}

const DURS: [u64; 12] = [
    0,
    1,
    999_000,
    MS,
    3 * MS,
    150 * MS,
    777 * MS,
    10_000 * MS,
    3_600_000 * MS,
    30 * 86_400_000 * MS,
    100 * MS,
    127 * MS,
];

fn gen_case(rng: &mut Rng, idx: usize) -> Case {
    let nops = 1 + rng.below(9) as usize;
    let mut ops = vec![];
    let mut blocking_wait = false;
    for _ in 0..nops {
        let op = match rng.below(14) {
            0 | 1 => Op::Poll,
            2 => {
                blocking_wait = true;
                Op::Wait
            }
            3 | 4 | 5 => Op::WaitTimeout(*rng.pick(&DURS)),
            6 => Op::Terminate,
            7 => Op::Kill,
            8 => Op::SendSignal(*rng.pick(&[0, 1, 2, 10, 15, 18, 19, 19, 23, 9, 64, 65, 256, 271, 1 << 20])),
            9 => Op::Detach,
            10 | 11 => Op::Pid,
            _ => Op::ExitStatus,
        };
        ops.push(op);
    }
    if idx % 10 == 5 {
        // an unrelated launch somewhere in the sequence, often after a detach (choices from a copy of the generator state)
        let mut r2 = rng.clone();
        let at = r2.below(ops.len() as u64 + 1) as usize;
        ops.insert(at, Op::SpawnOther);
        if r2.chance(2, 3) {
            ops.insert(r2.below(at as u64 + 1) as usize, Op::Detach);
        }
    }
    if rng.chance(1, 2) {
        ops.push(Op::Drop);
    }
    // exhaustive sweep of the low status words first (decode truth), then random ones
    let word: i32 = if idx < 65536 && idx % 4 == 0 {
        (idx / 4 * 4 + (idx / 4) % 4) as i32 % 65536
    } else {
        match rng.below(5) {
            0 => (rng.below(256) as i32) << 8,
            1 => rng.range(1, 126) as i32,
            2 => rng.range(1, 126) as i32 | 0x80,
            3 => rng.below(65536) as i32,
            _ => 0,
        }
    };
    // exit instants: before the first call, inside a back-off interval, exactly at a deadline, never
    let exit_at = match rng.below(8) {
        0 => Some(0),
        1 => None,
        2 => Some(*rng.pick(&DURS)),
        3 => Some(rng.below(200 * MS)),
        4 => Some(rng.below(2000 * MS)),
        5 => Some(*rng.pick(&[MS, 3 * MS, 7 * MS, 15 * MS, 31 * MS, 63 * MS, 127 * MS, 227 * MS])),
        _ => Some(rng.below(20 * MS)),
    };
    let exit_at = if blocking_wait && exit_at.is_none() && rng.chance(2, 3) { Some(rng.below(500 * MS)) } else { exit_at };
    // a log of millions of back-off iterations is useless: long time-outs only with a child that exits early
    let long = ops.iter().any(|o| matches!(o, Op::WaitTimeout(d) if *d > 10_000 * MS));
    let exit_at = if long && exit_at.map_or(true, |t| t > 2000 * MS) { Some(rng.below(2000 * MS)) } else { exit_at };
    let ext_reap_at = if rng.chance(1, 6) { Some(exit_at.unwrap_or(0) + rng.below(50 * MS)) } else { None };
    Case {
        ops,
        exit_at,
        word,
        ext_reap_at,
        lat_max: *rng.pick(&[0, 0, 1000, 50_000, 2 * MS]),
        jitter_max: *rng.pick(&[0, 0, 60_000, MS, 30 * MS]),
        eintr_pm: *rng.pick(&[0, 0, 0, 100]),
        foreign_pm: *rng.pick(&[0, 0, 0, 0, 150]),
        wseed: rng.next(),
        setpgid: rng.chance(1, 3),
    }
}

pub struct CaseResult {
    pub req: String,
    pub obs: String,
    pub oracle: Vec<(String, String)>, // (property, message)
    pub stats: String,
}

fn run_case(c: &Case) -> CaseResult {
    // a real Popen: /bin/true exits at once and stays a zombie until the harness reaps it for real
    let mut p = Popen::create(&["/bin/true"], PopenConfig { setpgid: c.setpgid, ..PopenConfig::default() }).expect("spawn /bin/true");
    let pid = p.pid().unwrap() as pid_t;
    let mut w = World {
        pid,
        now: 1_000_000_000,
        exit_at: c.exit_at.map(|t| t + 1_000_000_000),
        word: c.word,
        ext_reap_at: c.ext_reap_at.map(|t| t + 1_000_000_000),
        reaped: false,
        rng: Rng(c.wseed),
        lat_max: c.lat_max,
        jitter_max: c.jitter_max,
        eintr_pm: c.eintr_pm,
        foreign_pm: c.foreign_pm,
        calls: vec![],
        resps: vec![],
        kills_after_reap: vec![],
        kills: vec![],
        reap_seen_at_call: None,
        waitpids: 0,
        sleeps: vec![],
        stopped: false,
        stop_reported: false,
        stalled_calls: 0,
        spin: None,
    };
    let mut rets: Vec<String> = vec![];
    let mut oracle: Vec<(String, String)> = vec![];
    let mut first_status: Option<(usize, String)> = None; // (calls.len() at that time, status)
    let mut popen = Some(p);
    let wp: *mut World = &mut w;
    let ops = c.ops.clone();
    interpose::with_kernel(&mut w, || {
        let w: &mut World = unsafe { &mut *wp };
        for op in &ops {
            let p = match popen.as_mut() {
                Some(p) => p,
                None => break,
            };
            let calls_before = w.calls.len();
            let wps_before = w.waitpids;
            let sleeps_before = w.sleeps.len();
            let start = w.now;
            let was_running_world = !w.exited() && !w.gone();
            let known_before = p.exit_status();
            let mut reported: Option<String> = None;
            let ret = match op {
                Op::Poll => match p.poll() {
                    None => "none".to_string(),
                    Some(s) => {
                        reported = Some(show_status(s));
                        show_status(s)
                    }
                },
                Op::Wait => match p.wait() {
                    Ok(s) => {
                        reported = Some(show_status(s));
                        show_status(s)
                    }
                    Err(e) => format!("err:{}", errno_of(&e)),
                },
                Op::WaitTimeout(d) => match std::panic::catch_unwind(std::panic::AssertUnwindSafe(|| p.wait_timeout(Duration::from_nanos(*d)))) {
                    Ok(Ok(None)) => "none".to_string(),
                    Ok(Ok(Some(s))) => {
                        reported = Some(show_status(s));
                        show_status(s)
                    }
                    Ok(Err(e)) => format!("err:{}", errno_of(&e)),
                    Err(_) => {
                        oracle.push(("C11".into(), format!("wait_timeout({} ns) panicked instead of answering (clock arithmetic?)", d)));
                        "panic".to_string()
                    }
                },
                Op::Terminate => match p.terminate() {
                    Ok(()) => "ok".into(),
                    Err(e) => format!("err:{}", e.raw_os_error().unwrap_or(-1)),
                },
                Op::Kill => match p.kill() {
                    Ok(()) => "ok".into(),
                    Err(e) => format!("err:{}", e.raw_os_error().unwrap_or(-1)),
                },
                Op::SendSignal(s) => match p.send_signal(*s) {
                    Ok(()) => "ok".into(),
                    Err(e) => format!("err:{}", e.raw_os_error().unwrap_or(-1)),
                },
                Op::Detach => {
                    p.detach();
                    "ok".into()
                }
                Op::SpawnOther => {
                    if let Ok(mut other) = Popen::create(&["/bin/true"], PopenConfig { detached: true, ..PopenConfig::default() }) {
                        let opid = other.pid().unwrap_or(0) as pid_t;
                        other.detach();
                        drop(other);
                        unsafe {
                            let mut st = 0;
                            interpose::real_waitpid(opid, &mut st, 0);
                        }
                    }
                    "ok".into()
                }
                Op::Pid => match p.pid() {
                    Some(x) => format!("pid:{}", if x as pid_t == pid { CANON_PID } else { x as i64 }),
                    None => "none".into(),
                },
                Op::ExitStatus => match p.exit_status() {
                    Some(s) => {
                        reported = Some(show_status(s));
                        show_status(s)
                    }
                    None => "none".into(),
                },
                Op::Drop => {
                    let detached_drop_calls = w.calls.len();
                    drop(popen.take());
                    let _ = detached_drop_calls;
                    "ok".into()
                }
            };
            let new_calls = &w.calls[calls_before..];
            if let Op::SpawnOther = op {
                // nothing about this Popen's child may be asked or done on that occasion
                if let Some(cl) = new_calls.iter().find(|c| c.starts_with(&format!("wp:{}:", CANON_PID)) || c.starts_with(&format!("kill:{}:", CANON_PID))) {
                    oracle.push(("C10".into(), format!("starting an unrelated process made the library issue {} about this Popen's child behind the Popen's back (its state still says running)", cl)));
                }
                continue;
            }
            rets.push(ret.clone());
            // ---------------- direct oracles on the implementation's own behaviour
            // C09: truth
            if let Some(st) = &reported {
                if first_status.is_none() {
                    // the first report must be what the kernel said
                    let last_resp = w.resps.last().cloned().unwrap_or_default();
                    let via_echild = w.resps[..].iter().rev().take(new_calls.len()).any(|r| r == "err:10");
                    // ECHILD excuses "Undetermined" only if somebody ELSE collected the status: when an earlier waitpid of the
                    // library itself was answered with the pid (w.reaped), the truth was in its hands
                    let expect = if via_echild && !w.reaped { "st:U".to_string() } else { expect_status(w.word) };
                    if known_before.is_none() {
                        if was_running_world && !w.exited() && !w.gone() {
                            oracle.push(("C09".into(), format!("{} reported {} while the child is still running", op.show(), st)));
                        } else if *st != expect {
                            oracle.push(("C09".into(), format!("{} reported {} but the kernel's status word {} means {} (last answer {})", op.show(), st, w.word, expect, last_resp)));
                        }
                    }
                    first_status = Some((w.calls.len(), st.clone()));
                } else if let Some((_, fst)) = &first_status {
                    if st != fst {
                        oracle.push(("C09".into(), format!("{} returned {} after {} had been reported", op.show(), st, fst)));
                    }
                }
            }
            if let Some((_, fst)) = &first_status {
                let is_query = matches!(op, Op::Poll | Op::Wait | Op::WaitTimeout(_) | Op::ExitStatus);
                if is_query && reported.as_deref() != Some(fst.as_str()) {
                    oracle.push(("C09".into(), format!("{} returned {} although {} was already reported", op.show(), ret, fst)));
                }
                if matches!(op, Op::Pid) && ret != "none" {
                    oracle.push(("C09".into(), format!("pid() = {} after the status {} was reported", ret, fst)));
                }
                if reported.is_none() || known_before.is_some() {
                    if new_calls.iter().any(|c| c.starts_with("wp:") || c.starts_with("kill:")) {
                        oracle.push(("C09".into(), format!("{} issued {:?} after the status {} was known", op.show(), new_calls, fst)));
                    }
                }
                if matches!(op, Op::Terminate | Op::Kill | Op::SendSignal(_)) && ret != "ok" {
                    oracle.push(("C10".into(), format!("{} returned {} after the child's termination was observed", op.show(), ret)));
                }
            }
            // C09: the library asks about ITS child only: waitpid(-1 / 0 / another pid) collects -- and then drops -- the status
            // of an unrelated child of the process, which that child's owner will never see
            for cl in new_calls.iter() {
                if let Some(rest) = cl.strip_prefix("wp:") {
                    let pid_tok = rest.split(':').next().unwrap_or("");
                    if pid_tok != CANON_PID.to_string() {
                        oracle.push(("C09".into(), format!("{} waited for pid {} which is not its child (-1 / 0 = any child): the exit status of an unrelated child can be collected and lost", op.show(), pid_tok)));
                    }
                }
            }
            // C09: reaped by someone else => Undetermined, not an error
            if matches!(op, Op::Poll | Op::Wait | Op::WaitTimeout(_)) && known_before.is_none() {
                let saw_echild = w.resps.iter().rev().take(new_calls.len()).any(|r| r == "err:10");
                if saw_echild && !w.reaped && reported.as_deref() != Some("st:U") {
                    oracle.push(("C09".into(), format!("{} returned {} although waitpid said ECHILD (expected Undetermined)", op.show(), ret)));
                }
            }
            // C10: exactly the requested signal to exactly the pid, once, while not reaped
            if let Op::Terminate | Op::Kill | Op::SendSignal(_) = op {
                let want = match op {
                    Op::Terminate => 15,
                    Op::Kill => 9,
                    Op::SendSignal(s) => *s,
                    _ => 0,
                };
                let ks: Vec<&String> = new_calls.iter().filter(|c| c.starts_with("kill:")).collect();
                if known_before.is_none() && first_status.is_none() {
                    if ks.len() != 1 || *ks[0] != format!("kill:{}:{}", CANON_PID, want) {
                        oracle.push(("C10".into(), format!("{} issued {:?}, expected exactly kill({}, {})", op.show(), ks, CANON_PID, want)));
                    }
                } else if w.reap_seen_at_call.is_none() && ks.is_empty() {
                    // the library believes the child is finished although no waitpid of its own ever returned the child
                    // or ECHILD: the child has not been reaped, so the signal had to be delivered
                    oracle.push((
                        "C10".into(),
                        format!("{} sent no signal although the child has not been reaped (no waitpid answer ever reported its end)", op.show()),
                    ));
                }
                if new_calls.iter().any(|c| !c.starts_with("kill:")) {
                    oracle.push(("C10".into(), format!("{} issued other calls {:?}", op.show(), new_calls)));
                }
            } else if new_calls.iter().any(|c| c.starts_with("kill:")) {
                oracle.push(("C10".into(), format!("{} sent a signal: {:?}", op.show(), new_calls)));
            }
            // C11
            match op {
                Op::Poll => {
                    if w.sleeps.len() != sleeps_before {
                        oracle.push(("C11".into(), "poll slept".into()));
                    }
                    if w.waitpids - wps_before > 1 {
                        oracle.push(("C11".into(), format!("poll issued {} waitpid calls", w.waitpids - wps_before)));
                    }
                    if new_calls.iter().any(|c| c.ends_with(":0") && c.starts_with("wp:")) {
                        oracle.push(("C11".into(), "poll issued a blocking waitpid".into()));
                    }
                }
                Op::WaitTimeout(d) => {
                    if known_before.is_some() && !new_calls.is_empty() {
                        oracle.push(("C11".into(), format!("wait_timeout with a known status issued {:?}", new_calls)));
                    }
                    if ret == "none" && w.now < start + d {
                        oracle.push(("C11".into(), format!("wait_timeout({} ns) reported 'still running' after only {} ns", d, w.now - start)));
                    }
                    // "reports the exit within roughly a tenth of a second": every nap is followed by a status check, so an exit
                    // during the last nap is seen by this very call
                    if ret == "none" && w.exited() && !w.gone() {
                        let last_wp = new_calls.iter().rposition(|c| c.starts_with("wp:"));
                        let last_sleep = new_calls.iter().rposition(|c| c.starts_with("sleep:"));
                        if let (Some(sl), wp) = (last_sleep, last_wp) {
                            if wp.map_or(true, |i| i < sl) {
                                oracle.push(("C11".into(), format!("wait_timeout({} ns) reported 'still running' although the child had exited during its last nap: no status check followed that nap", d)));
                            }
                        }
                    }
                    // every nap is preceded by a status check that found the child still running: once a check has been answered
                    // with the child's pid or with ECHILD the call must return, not go on napping
                    {
                        let mut seen_end: Option<String> = None;
                        for (cl, rs) in new_calls.iter().zip(w.resps[w.resps.len() - new_calls.len()..].iter()) {
                            if cl.starts_with("wp:") && (rs == "err:10" || rs.starts_with(&format!("wp:{}:", CANON_PID))) {
                                seen_end = Some(rs.clone());
                            } else if cl.starts_with("sleep:") {
                                if let Some(ans) = &seen_end {
                                    oracle.push(("C11".into(), format!("wait_timeout({} ns) went on napping after a status check had told it that the child is gone (answer {})", d, ans)));
                                    break;
                                }
                            }
                        }
                    }
                    let nwp = w.waitpids - wps_before;
                    if (nwp as u64) > 9 + d / (100 * MS) {
                        oracle.push(("C11".into(), format!("wait_timeout({} ns) issued {} status checks (bound {})", d, nwp, 9 + d / (100 * MS))));
                    }
                    let slp = &w.sleeps[sleeps_before..];
                    if nwp > 1 && slp.len() + 1 < nwp {
                        oracle.push(("C11".into(), format!("wait_timeout: {} status checks with only {} sleeps in between (spinning)", nwp, slp.len())));
                    }
                    if let Some(bad) = slp.iter().find(|&&s| s > 100 * MS) {
                        oracle.push(("C11".into(), format!("wait_timeout slept {} ns in one piece (> 100 ms)", bad)));
                    }
                    if new_calls.iter().any(|c| c.starts_with("wp:") && c.ends_with(":0")) {
                        oracle.push(("C11".into(), "wait_timeout issued a blocking waitpid".into()));
                    }
                    // lateness: at most one sleep (<= 100 ms + jitter) + a few latencies after the deadline / the exit
                    let slack = 100 * MS + c.jitter_max + 8 * c.lat_max + 1;
                    if ret == "none" && w.now > start + d + slack {
                        oracle.push(("C11".into(), format!("wait_timeout({} ns) returned 'still running' {} ns late", d, w.now - start - d)));
                    }
                    // (an answer about a foreign pid, which no real kernel gives for waitpid(pid > 0), costs one more round)
                    if let (Some(ex), true) = (w.exit_at, ret.starts_with("st:") && known_before.is_none() && c.foreign_pm == 0) {
                        if ex >= start && w.now > ex + slack {
                            oracle.push(("C11".into(), format!("wait_timeout reported the exit {} ns after it happened", w.now - ex)));
                        }
                    }
                }
                _ => {}
            }
        }
        // implicit drop at the end of the case
        if let Some(p) = popen.take() {
            let calls_before = w.calls.len();
            let detached = { /* not observable; compare through the model */ false };
            let _ = detached;
            drop(p);
            rets.push("ok".into());
            let _ = calls_before;
        }
    });
    for k in &w.kills_after_reap {
        oracle.push(("C10".into(), k.clone()));
    }
    if let Some(m) = &w.spin {
        oracle.push(("C11".into(), format!("busy-waiting: {}", m)));
    }
    for (kp, _) in &w.kills {
        if *kp != pid {
            oracle.push((
                "C10".into(),
                format!(
                    "a signal was sent to {} which is not the child's process id{}",
                    if *kp == -pid { "the child's whole process group".to_string() } else { format!("pid {}", kp) },
                    if c.setpgid { " (child started with setpgid)" } else { "" }
                ),
            ));
        }
    }
    // reap the real child
    unsafe {
        let mut st = 0;
        interpose::real_waitpid(pid, &mut st, 0);
    }
    let mut ops_s: Vec<String> = c.ops.iter().filter(|o| !matches!(o, Op::SpawnOther)).map(|o| o.show()).collect();
    if !matches!(c.ops.last(), Some(Op::Drop)) {
        ops_s.push("drop".into());
    }
    let mut req = String::new();
    write!(req, "life {} | {}", ops_s.join(" "), w.resps.join(" ")).unwrap();
    let obs = format!("{} | {}", rets.join(" "), w.calls.join(" "));
    let stats = format!(
        "ops={} calls={} wps={} sleeps={} exit={} ext={} kills={}",
        ops_s.len(),
        w.calls.len(),
        w.waitpids,
        w.sleeps.len(),
        c.exit_at.is_some(),
        c.ext_reap_at.is_some(),
        w.kills.len()
    );
    CaseResult { req, obs, oracle, stats }
}

pub fn run(seed: u64, n: usize, replay: Option<&str>) {
    use std::io::Write;
    let out = std::io::stdout();
    let mut out = std::io::BufWriter::new(out.lock());
    let mut rng = Rng(seed ^ 0x11fe);
    for i in 0..n {
        let mut c = gen_case(&mut rng, i);
        if let Some(spec) = replay {
            // replay-spec: "<case index>" -> run only that case
            let want: usize = spec.parse().unwrap_or(usize::MAX);
            if want != i {
                continue;
            }
        }
        // keep op lists that contain drop in the middle out: drop is always last
        if let Some(pos) = c.ops.iter().position(|o| matches!(o, Op::Drop)) {
            c.ops.truncate(pos + 1);
        }
        let r = run_case(&c);
        writeln!(out, "CASE {}", i).unwrap();
        writeln!(out, "REQ {}", r.req).unwrap();
        writeln!(out, "OBS {}", r.obs).unwrap();
        writeln!(out, "STAT {}", r.stats).unwrap();
        for (p, m) in &r.oracle {
            writeln!(out, "ORACLE {} {}", p, m).unwrap();
        }
        // one flush per case: when a later case hangs, what was finished is on the pipe and the hanging case is the next one
        out.flush().unwrap();
    }
    let _ = Op::parse; // used by replays from files (kept for the protocol's symmetry)
}

//! `harness`: engines that run the real library against a simulated kernel through link-time
//! interposition of libc symbols (sim mode), or trace its real system calls (trace mode).
//!   harness life  <seed> <ncases>     -- C09 C10 C11
#[path = "../interpose.rs"]
mod interpose;
#[path = "../comm.rs"]
mod comm;
#[path = "../life.rs"]
mod life;
#[path = "../proto.rs"]
mod proto;

fn main() {
    let args: Vec<String> = std::env::args().collect();
    let mode = args.get(1).map(|s| s.as_str()).unwrap_or("");
    let seed: u64 = args.get(2).and_then(|s| s.parse().ok()).unwrap_or(1);
    let n: usize = args.get(3).and_then(|s| s.parse().ok()).unwrap_or(100);
    match mode {
        "life" => life::run(seed, n, args.get(4).map(|s| s.as_str())),
        "comm" | "commbig" => comm::run(seed, n, args.get(4).and_then(|s| s.parse().ok()), mode == "commbig"),
        _ => {
            eprintln!("usage: harness life <seed> <ncases> [replay-spec]");
            std::process::exit(2);
        }
    }
}

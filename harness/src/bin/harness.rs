//! `harness`: engines that run the real library against a simulated kernel through link-time
//! interposition of libc symbols (sim mode), or trace its real system calls (trace mode).
//!   harness life  <seed> <ncases>     -- C09 C10 C11
#[path = "../interpose.rs"]
mod interpose;
#[path = "../builder.rs"]
mod builder;
#[path = "../comm.rs"]
mod comm;
#[path = "../pipe.rs"]
mod pipe;
#[path = "../life.rs"]
mod life;
#[path = "../proto.rs"]
mod proto;
#[path = "../spawn.rs"]
mod spawn;
#[path = "../trace.rs"]
mod trace;

/// counts allocations made by the forked child between fork and exec / _exit (C17)
struct CountingAlloc;
unsafe impl std::alloc::GlobalAlloc for CountingAlloc {
    unsafe fn alloc(&self, l: std::alloc::Layout) -> *mut u8 {
        trace::note_alloc(l.size());
        std::alloc::System.alloc(l)
    }
    unsafe fn dealloc(&self, p: *mut u8, l: std::alloc::Layout) {
        std::alloc::System.dealloc(p, l)
    }
    unsafe fn realloc(&self, p: *mut u8, l: std::alloc::Layout, n: usize) -> *mut u8 {
        trace::note_alloc(n);
        std::alloc::System.realloc(p, l, n)
    }
    unsafe fn alloc_zeroed(&self, l: std::alloc::Layout) -> *mut u8 {
        trace::note_alloc(l.size());
        std::alloc::System.alloc_zeroed(l)
    }
}
#[global_allocator]
static GLOBAL: CountingAlloc = CountingAlloc;

fn main() {
    // a panic in a forked child must not unwind into the harness (the child would go on running the remaining cases)
    let default_hook = std::panic::take_hook();
    let quiet = std::env::var_os("VERIF_QUIET_PANIC").is_some();
    std::panic::set_hook(Box::new(move |info| {
        if trace::in_child() {
            unsafe { libc::syscall(libc::SYS_exit_group, 101) };
        }
        if !quiet {
            default_hook(info)
        }
    }));
    let args: Vec<String> = std::env::args().collect();
    let mode = args.get(1).map(|s| s.as_str()).unwrap_or("");
    let seed: u64 = args.get(2).and_then(|s| s.parse().ok()).unwrap_or(1);
    let n: usize = args.get(3).and_then(|s| s.parse().ok()).unwrap_or(100);
    match mode {
        "life" => life::run(seed, n, args.get(4).map(|s| s.as_str())),
        "comm" | "commbig" => comm::run(seed, n, args.get(4).and_then(|s| s.parse().ok()), mode == "commbig"),
        "spawn" => spawn::run(args.get(2).map(|s| s.as_str()).unwrap_or("-")),
        "pipe" => pipe::run(args.get(2).map(|s| s.as_str()).unwrap_or("-"), args.get(3).and_then(|s| s.parse().ok()).unwrap_or(0)),
        "builder" => builder::run(args.get(2).map(|s| s.as_str()).unwrap_or("-")),
        _ => {
            eprintln!("usage: harness life|comm|commbig <seed> <ncases> [index] | spawn <casefile>");
            std::process::exit(2);
        }
    }
}

//! `hplain`: harness engines that need no libc interposition.
//!   hplain sh        -- C19: render Exec / Pipeline Debug text (requests on stdin, answers on stdout)
//!   hplain shreal    -- C19: evaluate rendered text with the real /bin/sh (direct oracle)
#[path = "../proto.rs"]
mod proto;
use proto::*;
use std::io::{self, BufRead, Write};
use subprocess::{Exec, Pipeline};

fn s(b: &[u8]) -> String {
    String::from_utf8(b.to_vec()).expect("utf8 argument")
}

fn mk_exec(argv: &[Vec<u8>]) -> Exec {
    let mut e = Exec::cmd(s(&argv[0]));
    for a in &argv[1..] {
        e = e.arg(s(a));
    }
    e
}

/// the pretty Debug form (`{:#?}`, what `dbg!` prints) is Debug output too: when its text between the braces differs from the
/// plain form it is reported as ` alt=<hex>` and evaluated by the shell as well
fn alt_form(pretty: &str, name: &str, plain_inner: &str) -> String {
    let inner = pretty
        .strip_prefix(name)
        .map(|r| r.trim_start())
        .and_then(|r| r.strip_prefix('{'))
        .and_then(|r| r.strip_suffix('}'))
        .map(|r| r.trim_matches(|c| c == ' ' || c == '\n'));
    match inner {
        Some(t) if t == plain_inner => String::new(),
        Some(t) => format!(" alt={}", hex(t.as_bytes())),
        None => format!(" alt={}", hex(pretty.as_bytes())),
    }
}

/// `sh <arg>+`  /  `shp <arg>+ / <arg>+ ...` -> `ok <hex of the text between the braces>`
fn engine_sh() {
    let stdin = io::stdin();
    let out = io::stdout();
    let mut out = io::BufWriter::new(out.lock());
    for line in stdin.lock().lines() {
        let line = line.unwrap();
        let toks: Vec<&str> = line.split_whitespace().collect();
        if toks.is_empty() {
            writeln!(out, "bad-request").unwrap();
            continue;
        }
        // a rendering that panics is an answer too (`panic`), not the end of the run
        let caught = std::panic::catch_unwind(std::panic::AssertUnwindSafe(|| {
        let mut out: Vec<u8> = Vec::new();
        match toks[0] {
            "sh" if toks.len() >= 2 => {
                let argv: Vec<Vec<u8>> = toks[1..].iter().map(|t| unhex(t)).collect();
                let e = mk_exec(&argv);
                let cl = e.to_cmdline_lossy();
                let dbg = format!("{:?}", e);
                // the Debug forms are "Exec { <command line> }"; whatever they print instead is evaluated by the shell too
                writeln!(out, "ok {}{}{}", hex(cl.as_bytes()), alt_form(&dbg, "Exec", &cl), alt_form(&format!("{:#?}", e), "Exec", &cl)).unwrap();
            }
            // `sha <k> <arg>+`: the command is printed while it is being built (after the first k words), then extended with
            // `args(..)` (and, for odd k, cloned first), then printed again: the text must describe the command as it is NOW
            "sha" if toks.len() >= 3 => {
                let k: usize = toks[1].parse().unwrap_or(1).max(1);
                let argv: Vec<Vec<u8>> = toks[2..].iter().map(|t| unhex(t)).collect();
                let k = k.min(argv.len());
                let mut e = mk_exec(&argv[..k]);
                let _ = e.to_cmdline_lossy();
                let _ = format!("{:?} {:#?}", e, e);
                if k % 2 == 1 {
                    e = e.clone();
                }
                let rest: Vec<String> = argv[k..].iter().map(|a| s(a)).collect();
                e = e.args(&rest);
                let cl = e.to_cmdline_lossy();
                let dbg = format!("{:?}", e);
                // the Debug forms are "Exec { <command line> }"; whatever they print instead is evaluated by the shell too
                writeln!(out, "ok {}{}{}", hex(cl.as_bytes()), alt_form(&dbg, "Exec", &cl), alt_form(&format!("{:#?}", e), "Exec", &cl)).unwrap();
            }
            // `she <name>:<value>[,<name>:<value>]* <arg>+`: the same command with environment overrides (`Exec::env`): they are
            // printed in front of the command as assignments
            "she" if toks.len() >= 3 => {
                let argv: Vec<Vec<u8>> = toks[2..].iter().map(|t| unhex(t)).collect();
                let mut e = mk_exec(&argv);
                for kv in toks[1].split(',') {
                    let mut it = kv.splitn(2, ':');
                    let (k, v) = (it.next().unwrap_or(""), it.next().unwrap_or(""));
                    // `<name>:-` removes the variable (`Exec::env_remove`): a removed variable of the parent is printed as `NAME=`
                    if v == "-" {
                        e = e.env_remove(s(&unhex(k)));
                    } else {
                        e = e.env(s(&unhex(k)), s(&unhex(v)));
                    }
                }
                let cl = e.to_cmdline_lossy();
                let dbg = format!("{:?}", e);
                // the Debug forms are "Exec { <command line> }"; whatever they print instead is evaluated by the shell too
                writeln!(out, "ok {}{}{}", hex(cl.as_bytes()), alt_form(&dbg, "Exec", &cl), alt_form(&format!("{:#?}", e), "Exec", &cl)).unwrap();
            }
            "shp" => {
                let mut stages: Vec<Vec<Vec<u8>>> = vec![vec![]];
                for t in &toks[1..] {
                    if *t == "/" {
                        stages.push(vec![]);
                    } else {
                        stages.last_mut().unwrap().push(unhex(t));
                    }
                }
                if stages.len() < 2 || stages.iter().any(|st| st.is_empty()) {
                    writeln!(out, "bad-request").unwrap();
                    return out;
                }
                // alternate the composition shape with the stage count: from_exec_iter / chained `|`
                let p: Pipeline = if stages.len() % 2 == 0 {
                    Pipeline::from_exec_iter(stages.iter().map(|st| mk_exec(st)))
                } else {
                    let mut it = stages.iter().map(|st| mk_exec(st));
                    let a = it.next().unwrap();
                    let b = it.next().unwrap();
                    let mut p = a | b;
                    for e in it {
                        p = p | e;
                    }
                    p
                };
                let dbg = format!("{:?}", p);
                match dbg.strip_prefix("Pipeline { ").and_then(|r| r.strip_suffix(" }")) {
                    Some(inner) => writeln!(out, "ok {}{}", hex(inner.as_bytes()), alt_form(&format!("{:#?}", p), "Pipeline", inner)).unwrap(),
                    // not the documented shape at all: the whole text is what a reader would paste into a shell
                    None => writeln!(out, "ok {}", hex(dbg.as_bytes())).unwrap(),
                }
            }
            _ => writeln!(out, "bad-request").unwrap(),
        }
        out
        }));
        match caught {
            Ok(bytes) => out.write_all(&bytes).unwrap(),
            Err(_) => writeln!(out, "panic").unwrap(),
        }
    }
}

/// `words <hex text>`: what does the real sh make of this text in argument position?
///   -> `some <w>*` | `none` (syntax error)
/// `cmds <dir> <hex text>`: run the text as a command line with PATH=<dir> (a directory of links to the
///   argv dumper); -> `some <w>* / <w>* ...` in log order | `none`
fn engine_shreal() {
    let stdin = io::stdin();
    let lines: Vec<String> = stdin.lock().lines().map(|l| l.unwrap()).collect();
    let n = lines.len();
    let results = std::sync::Mutex::new(vec![String::new(); n]);
    let next = std::sync::atomic::AtomicUsize::new(0);
    let nthreads = std::thread::available_parallelism().map(|x| x.get()).unwrap_or(4).min(16);
    std::thread::scope(|sc| {
        for tid in 0..nthreads {
            let lines = &lines;
            let results = &results;
            let next = &next;
            sc.spawn(move || loop {
                let i = next.fetch_add(1, std::sync::atomic::Ordering::SeqCst);
                if i >= n {
                    break;
                }
                let r = shreal_one(&lines[i], tid);
                results.lock().unwrap()[i] = r;
            });
        }
    });
    let out = io::stdout();
    let mut out = io::BufWriter::new(out.lock());
    for r in results.into_inner().unwrap() {
        writeln!(out, "{}", r).unwrap();
    }
}

fn shreal_one(line: &str, tid: usize) -> String {
    use std::process::{Command, Stdio};
    let toks: Vec<&str> = line.split_whitespace().collect();
    match toks.get(0).copied() {
        Some("words") if toks.len() == 2 => {
            let text = unhex(toks[1]);
            let mut script = b"set -- ".to_vec();
            script.extend_from_slice(&text);
            script.extend_from_slice(b"\nprintf '%s\\0' \"$#\" \"$@\"\n");
            if script.contains(&0) {
                return "unrepresentable".into();
            }
            use std::os::unix::ffi::OsStrExt;
            let o = Command::new("/bin/sh")
                .arg("-c")
                .arg(std::ffi::OsStr::from_bytes(&script))
                .stdin(Stdio::null())
                .stderr(Stdio::null())
                .output()
                .unwrap();
            if !o.status.success() {
                return "none".into();
            }
            let mut parts: Vec<&[u8]> = o.stdout.split(|&b| b == 0).collect();
            parts.pop(); // trailing empty after the last NUL
            if parts.is_empty() {
                return "none".into();
            }
            let cnt: usize = std::str::from_utf8(parts[0]).ok().and_then(|x| x.parse().ok()).unwrap_or(usize::MAX);
            if cnt != parts.len() - 1 {
                return "garbled".into();
            }
            let mut r = "some".to_string();
            for p in &parts[1..] {
                r.push(' ');
                r.push_str(&hex(p));
            }
            r
        }
        // `cmdse <dir> <name>,<name>.. <text>`: as `cmds`, and the started program also reports the values it sees for the named variables
        Some("cmds") | Some("cmdse") if toks.len() == 3 || (toks[0] == "cmdse" && toks.len() == 4) => {
            let dir = toks[1];
            let names = if toks[0] == "cmdse" { toks[2] } else { "" };
            let text = unhex(toks[toks.len() - 1]);
            if text.contains(&0) {
                return "unrepresentable".into();
            }
            let log = format!("{}/log.{}.{}", dir, std::process::id(), tid);
            let _ = std::fs::remove_file(&log);
            use std::os::unix::ffi::OsStrExt;
            let st = Command::new("/bin/sh")
                .arg("-c")
                .arg("--") // the text may start with '-' (a program called -x): it is the command string, not an option
                .arg(std::ffi::OsStr::from_bytes(&text))
                .env("PATH", format!("{}/bin", dir))
                .env("ARGV_DUMP_LOG", &log)
                .env("ARGV_DUMP_ENV", names)
                .stdin(Stdio::null())
                .stdout(Stdio::null())
                .stderr(Stdio::null())
                .status()
                .unwrap();
            let data = std::fs::read(&log).unwrap_or_default();
            let _ = std::fs::remove_file(&log);
            if !st.success() {
                return "none".into();
            }
            // records: `<len>:<bytes>` per argument, one record per line (netstring style, so that any
            // byte may occur inside an argument)
            let mut recs: Vec<String> = vec![];
            let mut i = 0;
            while i < data.len() {
                let mut args: Vec<String> = vec![];
                while i < data.len() && data[i] != b'\n' {
                    let mut n = 0usize;
                    while data[i] != b':' {
                        n = n * 10 + (data[i] - b'0') as usize;
                        i += 1;
                    }
                    i += 1;
                    args.push(hex(&data[i..i + n]));
                    i += n;
                }
                i += 1;
                recs.push(args.join(" "));
            }
            recs.sort(); // stages of a pipeline run concurrently: compare as a multiset
            format!("some {}", recs.join(" / "))
        }
        _ => "bad-request".into(),
    }
}

/// argv dumper used through PATH links: appends one netstring-encoded record per invocation to $ARGV_DUMP_LOG
fn argv_dump() {
    use std::os::unix::ffi::OsStrExt;
    let mut rec = vec![];
    for (i, a) in std::env::args_os().enumerate() {
        let b = a.as_bytes();
        let b = if i == 0 { b.rsplit(|&c| c == b'/').next().unwrap() } else { b };
        rec.extend_from_slice(format!("{}:", b.len()).as_bytes());
        rec.extend_from_slice(b);
    }
    // the variables named in $ARGV_DUMP_ENV, as extra items `=<name>=<value>` (only those that are set)
    if let Ok(names) = std::env::var("ARGV_DUMP_ENV") {
        for n in names.split(',').filter(|n| !n.is_empty()) {
            if let Some(v) = std::env::var_os(n) {
                let mut item = format!("={}=", n).into_bytes();
                item.extend_from_slice(v.as_bytes());
                rec.extend_from_slice(format!("{}:", item.len()).as_bytes());
                rec.extend_from_slice(&item);
            }
        }
    }
    rec.push(b'\n');
    if let Some(p) = std::env::var_os("ARGV_DUMP_LOG") {
        use std::fs::OpenOptions;
        let mut f = OpenOptions::new().create(true).append(true).open(p).unwrap();
        f.write_all(&rec).unwrap();
    }
}

/// Scripted pipeline stage (children of the `pipe` engine).  Behaviours:
///   T<tag>:<code>:<errlines>  filter: every input line gets "|<tag>" appended; the first <errlines> lines also
///                             produce "E<tag><lineno>" on stderr; exits with <code> at end of input
///   G<count>:<code>           generator: ignores stdin, writes <count> lines "L<i>", exits with <code>
///   Y / YE                    unbounded writer to stdout / stderr (ends only when the pipe breaks)
///   C                         cat;   S  sink (reads to end of input, writes nothing);   X<code>  exits at once
/// A failed write ends the stage with status 141 (Rust ignores SIGPIPE).
fn stage_main(beh: &str) -> ! {
    use std::io::{BufRead, Write};
    fn die() -> ! {
        std::process::exit(141)
    }
    let stdin = std::io::stdin();
    let stdout = std::io::stdout();
    let mut out = std::io::BufWriter::with_capacity(1 << 16, stdout.lock());
    let code_of = |s: &str| -> i32 { s.parse().unwrap_or(0) };
    if let Some(rest) = beh.strip_prefix('T') {
        let parts: Vec<&str> = rest.split(':').collect();
        let tag = parts[0];
        let code = code_of(parts.get(1).unwrap_or(&"0"));
        let errlines: usize = parts.get(2).and_then(|s| s.parse().ok()).unwrap_or(0);
        let mut lineno = 0usize;
        let mut buf = Vec::new();
        let mut inp = stdin.lock();
        loop {
            buf.clear();
            match inp.read_until(b'\n', &mut buf) {
                Ok(0) => break,
                Ok(_) => {}
                Err(_) => std::process::exit(99),
            }
            if buf.last() == Some(&b'\n') {
                buf.pop();
            }
            buf.extend_from_slice(b"|");
            buf.extend_from_slice(tag.as_bytes());
            buf.push(b'\n');
            if out.write_all(&buf).is_err() {
                die();
            }
            if lineno < errlines {
                let msg = format!("E{}{}\n", tag, lineno);
                if std::io::stderr().write_all(msg.as_bytes()).is_err() {
                    die();
                }
            }
            lineno += 1;
        }
        if out.flush().is_err() {
            die();
        }
        std::process::exit(code);
    }
    if let Some(rest) = beh.strip_prefix('G') {
        let parts: Vec<&str> = rest.split(':').collect();
        let count: usize = parts[0].parse().unwrap_or(0);
        let code = code_of(parts.get(1).unwrap_or(&"0"));
        for i in 0..count {
            if writeln!(out, "L{}", i).is_err() {
                die();
            }
        }
        if out.flush().is_err() {
            die();
        }
        std::process::exit(code);
    }
    if let Some(ms) = beh.strip_prefix("SS") {
        // stops itself (SIGSTOP) and is continued <ms> later by a helper that holds none of its streams; then copies its
        // input and exits normally: whoever waits for it must wait for the EXIT, not for the stop
        let ms: u64 = ms.parse().unwrap_or(300);
        unsafe {
            let me = libc::getpid();
            if libc::fork() == 0 {
                libc::close(0);
                libc::close(1);
                libc::close(2);
                libc::usleep((ms * 1000) as libc::c_uint);
                libc::kill(me, libc::SIGCONT);
                libc::_exit(0);
            }
            libc::raise(libc::SIGSTOP);
        }
        let mut inp = stdin.lock();
        let _ = std::io::copy(&mut inp, &mut out);
        let _ = out.flush();
        std::process::exit(0);
    }
    if let Some(n) = beh.strip_prefix("EC") {
        // writes <n> bytes to its stderr (more than a pipe holds, if nobody reads them it blocks there), then copies
        let n: usize = n.parse().unwrap_or(200_000);
        let chunk = [b'e'; 4096];
        let mut left = n;
        let err = std::io::stderr();
        let mut e = err.lock();
        while left > 0 {
            let k = left.min(chunk.len());
            if e.write_all(&chunk[..k]).is_err() {
                die();
            }
            left -= k;
        }
        drop(e);
        let mut inp = stdin.lock();
        if std::io::copy(&mut inp, &mut out).is_err() {
            die();
        }
        let _ = out.flush();
        std::process::exit(0);
    }
    if let Some(ms) = beh.strip_prefix('K') {
        // says one line, closes its stdout and stderr, and lives on for a while: the reader must see end-of-file at once
        let _ = out.write_all(b"k\n");
        let _ = out.flush();
        unsafe {
            libc::close(1);
            libc::close(2);
        }
        std::thread::sleep(std::time::Duration::from_millis(ms.parse().unwrap_or(1000)));
        unsafe { libc::_exit(0) };
    }
    match beh {
        "Z" => {
            // an unrelated long-running process: touches none of its streams
            std::thread::sleep(std::time::Duration::from_secs(30));
            std::process::exit(0);
        }
        "Y" => loop {
            if out.write_all(b"yyyyyyyyyyyyyyyyyyyyyyyyyyyyyyyyyyyyyyyyyyyyyyyyyyyyyyyyyyyyyyy\n").is_err() {
                die();
            }
        },
        "YC" => {
            // closes its stdin at once (whoever feeds it gets EPIPE) and then writes without bound
            unsafe { libc::close(0) };
            loop {
                if out.write_all(b"yyyyyyyyyyyyyyyyyyyyyyyyyyyyyyyyyyyyyyyyyyyyyyyyyyyyyyyyyyyyyyy\n").is_err() {
                    die();
                }
            }
        }
        "YE" => {
            let err = std::io::stderr();
            let mut e = err.lock();
            loop {
                if e.write_all(b"eeeeeeeeeeeeeeeeeeeeeeeeeeeeeeeeeeeeeeeeeeeeeeeeeeeeeeeeeeeeeee\n").is_err() {
                    die();
                }
            }
        }
        "C" => {
            let mut inp = stdin.lock();
            match std::io::copy(&mut inp, &mut out) {
                Ok(_) => {}
                Err(_) => die(),
            }
            if out.flush().is_err() {
                die();
            }
            std::process::exit(0);
        }
        "S" => {
            let mut inp = stdin.lock();
            let _ = std::io::copy(&mut inp, &mut std::io::sink());
            std::process::exit(0);
        }
        _ => {
            if let Some(c) = beh.strip_prefix('X') {
                std::process::exit(code_of(c));
            }
            std::process::exit(98);
        }
    }
}

/// write the descriptors this process was started with that are pipes: "fd:ino fd:ino ..."
fn fdlist_main(path: &str) {
    let mut v = vec![];
    for fd in 0..256 {
        unsafe {
            let mut st: libc::stat = std::mem::zeroed();
            if libc::fstat(fd, &mut st) == 0 && (st.st_mode & libc::S_IFMT) == libc::S_IFIFO {
                v.push(format!("{}:{}", fd, st.st_ino));
            }
        }
    }
    let _ = std::fs::write(path, v.join(" "));
}

fn main() {
    let a0 = std::env::args().next().unwrap_or_default();
    if !a0.ends_with("hplain") {
        argv_dump();
        return;
    }
    let mode = std::env::args().nth(1).unwrap_or_default();
    match mode.as_str() {
        "sh" => engine_sh(),
        "shreal" => engine_shreal(),
        "stage" => stage_main(&std::env::args().nth(2).unwrap_or_default()),
        "fdlist" => fdlist_main(&std::env::args().nth(2).unwrap_or_default()),
        _ => {
            eprintln!("usage: hplain sh|shreal");
            std::process::exit(2);
        }
    }
}

//! Line protocol helpers shared by the harness binaries.
#![allow(dead_code)]

pub fn hex(b: &[u8]) -> String {
    if b.is_empty() {
        return "-".to_string();
    }
    let mut s = String::with_capacity(b.len() * 2);
    for x in b {
        s.push_str(&format!("{:02x}", x));
    }
    s
}

pub fn unhex(s: &str) -> Vec<u8> {
    if s == "-" {
        return vec![];
    }
    let b = s.as_bytes();
    (0..b.len() / 2)
        .map(|i| u8::from_str_radix(std::str::from_utf8(&b[2 * i..2 * i + 2]).unwrap(), 16).unwrap())
        .collect()
}

/// SplitMix64: every random choice of a case derives from one state, so a case replays exactly.
#[derive(Clone)]
pub struct Rng(pub u64);
impl Rng {
    pub fn next(&mut self) -> u64 {
        self.0 = self.0.wrapping_add(0x9E3779B97F4A7C15);
        let mut z = self.0;
        z = (z ^ (z >> 30)).wrapping_mul(0xBF58476D1CE4E5B9);
        z = (z ^ (z >> 27)).wrapping_mul(0x94D049BB133111EB);
        z ^ (z >> 31)
    }
    pub fn below(&mut self, n: u64) -> u64 {
        if n == 0 {
            0
        } else {
            self.next() % n
        }
    }
    pub fn range(&mut self, lo: u64, hi: u64) -> u64 {
        lo + self.below(hi - lo + 1)
    }
    pub fn chance(&mut self, num: u64, den: u64) -> bool {
        self.below(den) < num
    }
    pub fn pick<'a, T>(&mut self, xs: &'a [T]) -> &'a T {
        &xs[self.below(xs.len() as u64) as usize]
    }
}

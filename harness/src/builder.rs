//! Engine `builder` (C16): random builder call sequences on the real `Exec`, terminator run in trace
//! mode; what reaches `execve` (argv, envp), `chdir`, the number of stream pipes and panics are dumped.
use crate::proto::unhex;
use crate::spawn::{os, reap_all, Out};
use crate::trace;
use std::ffi::OsString;
use std::fs::File;
use std::os::unix::ffi::OsStrExt;
use std::os::unix::io::FromRawFd;
use subprocess::{Exec, NullFile, Redirection};

fn redir(t: &str, dir: &str) -> Redirection {
    match t {
        "N" => Redirection::None,
        "P" => Redirection::Pipe,
        "M" => Redirection::Merge,
        _ => Redirection::File(std::fs::OpenOptions::new().read(true).write(true).create(true).open(format!("{}/bf", dir)).unwrap()),
    }
}

/// `keep` collects the other copies made by clone(): they stay alive until the terminator has run (a clone
/// must be independent of its source *while both exist*)
fn apply_ops(mut e: Exec, ops: &[&str], dir: &str, keep: &mut Vec<Exec>) -> Exec {
    for op in ops {
        let (k, v) = op.split_once(':').unwrap_or((op, ""));
        e = match k {
            "arg" => e.arg(os(v)),
            "args" => {
                let l: Vec<OsString> = if v.is_empty() { vec![] } else { v.split(',').map(os).collect() };
                e.args(&l)
            }
            "env" => {
                let (a, b) = v.split_once(':').unwrap();
                e.env(os(a), os(b))
            }
            "ext" => {
                let l: Vec<(OsString, OsString)> = if v.is_empty() {
                    vec![]
                } else {
                    v.split(',').map(|kv| { let (a, b) = kv.split_once(':').unwrap(); (os(a), os(b)) }).collect()
                };
                e.env_extend(&l)
            }
            "rm" => e.env_remove(os(v)),
            "clear" => e.env_clear(),
            "cwd" => e.cwd(os(v)),
            "in" => {
                if v == "0" {
                    e.stdin(NullFile)
                } else {
                    e.stdin(redir(v, dir))
                }
            }
            "data" => e.stdin(unhex(v)),
            "out" => {
                if v == "0" {
                    e.stdout(NullFile)
                } else {
                    e.stdout(redir(v, dir))
                }
            }
            "err" => {
                if v == "0" {
                    e.stderr(NullFile)
                } else {
                    e.stderr(redir(v, dir))
                }
            }
            "det" => e.detached(),
            "clone" => {
                // continue with the clone; the original receives decoy edits and is dropped
                let c = e.clone();
                let decoy = e.arg("DECOY").env("DECOY", "1").env_remove("A");
                keep.push(decoy);
                c
            }
            "clonekeep" => {
                // continue with the original; the clone receives decoy edits and is dropped
                let c = e.clone();
                let decoy = c.arg("DECOY").env("DECOY", "1").env_clear();
                keep.push(decoy);
                e
            }
            _ => panic!("bad op {}", op),
        };
    }
    e
}

fn run_case(idx: usize, line: &str, dir: &str, out: &mut Out) {
    out.line(&format!("CASE {}", idx));
    out.line(&format!("SPEC {}", line));
    let toks: Vec<&str> = line.split_whitespace().collect();
    let cmd = toks[0].strip_prefix("cmd=").unwrap();
    let shell = toks[0].starts_with("cmd=sh:");
    let term = toks.last().unwrap().strip_prefix("term:").unwrap().to_string();
    let ops: Vec<&str> = toks[1..toks.len() - 1].to_vec();
    let base: Vec<String> = std::env::vars_os()
        .map(|(k, v)| format!("{}:{}", crate::proto::hex(k.as_bytes()), crate::proto::hex(v.as_bytes())))
        .collect();
    out.line(&format!("BASE {}", base.join(",")));
    let mut keep: Vec<Exec> = vec![];
    let built = std::panic::catch_unwind(std::panic::AssertUnwindSafe(|| {
        let e = if shell { Exec::shell(os(&cmd[3..])) } else { Exec::cmd(os(cmd)) };
        apply_ops(e, &ops, dir, &mut keep)
    }));
    let e = match built {
        Ok(e) => e,
        Err(_) => {
            out.line("RES panic-build");
            out.line("END");
            return;
        }
    };
    trace::start(&[], true);
    let r = std::panic::catch_unwind(std::panic::AssertUnwindSafe(|| match term.as_str() {
        "popen" => e.popen().map(|p| drop(p)).is_ok(),
        "join" => e.join().is_ok(),
        "stream_stdout" => e.stream_stdout().map(|s| drop(s)).is_ok(),
        "stream_stderr" => e.stream_stderr().map(|s| drop(s)).is_ok(),
        "stream_stdin" => e.stream_stdin().map(|s| drop(s)).is_ok(),
        "capture" => e.capture().is_ok(),
        "communicate" => e.communicate().map(|c| drop(c)).is_ok(),
        _ => panic!("bad terminator"),
    }));
    let (log, _, _) = trace::stop();
    drop(keep);
    match r {
        Ok(ok) => out.line(&format!("RES {}", if ok { "ok" } else { "err" })),
        Err(_) => out.line("RES panic-term"),
    }
    for l in log.lines() {
        out.line(&format!("LOG {}", l));
    }
    reap_all();
    out.line("END");
}

pub fn run(casefile: &str) {
    let out_fd = unsafe { libc::fcntl(1, libc::F_DUPFD_CLOEXEC, 200) };
    let mut out = Out(unsafe { File::from_raw_fd(out_fd) });
    // a small, fixed parent environment (the base every `ensure_env` snapshot starts from)
    for (k, _) in std::env::vars_os() {
        std::env::remove_var(k);
    }
    std::env::set_var("A", "0");
    std::env::set_var("B", "0");
    std::env::set_var("PATH", "/usr/bin:/bin");
    std::env::set_var("Z", "last");
    // quiet panics (they are expected outcomes here)
    let dir = format!("/tmp/verif-builder-{}", std::process::id());
    std::fs::create_dir_all(&dir).unwrap();
    let lines: Vec<String> = std::fs::read_to_string(casefile).unwrap().lines().map(|s| s.to_string()).collect();
    for (i, l) in lines.iter().enumerate() {
        if !l.trim().is_empty() {
            run_case(i, l, &dir, &mut out);
        }
    }
    let _ = std::fs::remove_dir_all(&dir);
}

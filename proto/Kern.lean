-- scratch: kernel model + Prog interpreter with fork, and a ∀-oracle spec for a mini spawn
structure Ent where
  ofd : Nat
  cloexec : Bool
  deriving DecidableEq, Repr

abbrev Tbl := Nat → Option Ent
def Tbl.set (t : Tbl) (fd : Nat) (e : Option Ent) : Tbl := fun x => if x = fd then e else t x
theorem Tbl.set_eq (t : Tbl) (fd : Nat) (e) : (t.set fd e) fd = e := by simp [Tbl.set]
theorem Tbl.set_ne (t : Tbl) (fd x : Nat) (e) (h : x ≠ fd) : (t.set fd e) x = t x := by simp [Tbl.set, h]

inductive Call where
  | pipe | setCloexec (fd : Nat) | fork | close (fd : Nat) | dup2 (src dst : Nat) | exec | exit
  deriving Repr, DecidableEq

inductive Resp where
  | ok | fds (r w : Nat) | parent | child | err (e : Nat)
  deriving Repr, DecidableEq

inductive Prog (α : Type) where
  | ret : α → Prog α
  | call : Call → (Resp → Prog α) → Prog α

namespace Prog
def bind : Prog α → (α → Prog β) → Prog β
  | ret a, f => f a
  | call c k, f => call c (fun r => bind (k r) f)
instance : Monad Prog where
  pure := ret
  bind := bind
def sys (c : Call) : Prog Resp := call c ret
end Prog
open Prog

/-- kernel: parent table, optional child (table + whether it exec'd), next ofd id -/
structure K where
  par : Tbl
  child : Option (Tbl × Bool)   -- (table, exec'd)
  nextOfd : Nat

/-- environment choice for one call: which fresh fds, or an injected failure -/
inductive Ch | go (a b : Nat) | fail (e : Nat)

def execClose (t : Tbl) : Tbl := fun x => match t x with | some e => if e.cloexec then none else some e | none => none

/-- one call by the process `inChild`; returns new kernel and the response (none = choice not admissible) -/
def kstep (k : K) (inChild : Bool) (c : Call) (ch : Ch) : Option (K × Resp) :=
  let tbl : Tbl := if inChild then (k.child.map (·.1)).getD (fun _ => none) else k.par
  let put (t : Tbl) : K := if inChild then { k with child := k.child.map (fun p => (t, p.2)) } else { k with par := t }
  match ch with
  | .fail e => some (k, .err e)
  | .go a b =>
    match c with
    | .pipe =>
      if tbl a = none ∧ tbl b = none ∧ a ≠ b then
        let t := (tbl.set a (some ⟨k.nextOfd, false⟩)).set b (some ⟨k.nextOfd + 1, false⟩)
        some ({ put t with nextOfd := k.nextOfd + 2 }, .fds a b)
      else none
    | .setCloexec fd => match tbl fd with
      | some e => some (put (tbl.set fd (some { e with cloexec := true })), .ok)
      | none => some (k, .err 9)
    | .close fd => some (put (tbl.set fd none), .ok)
    | .dup2 s d => match tbl s with
      | some e => some (put (tbl.set d (some { e with cloexec := false })), .ok)
      | none => some (k, .err 9)
    | .fork => if inChild then none else some ({ k with child := some (k.par, false) }, .parent)
    | .exec => if inChild then some ({ k with child := k.child.map (fun p => (execClose p.1, true)) }, .ok) else none
    | .exit => some (k, .ok)

/-- run a program in one process against a choice list; on `fork` the child continuation is run
    first (to completion: exec or exit), then the parent continues -/
def interp (fuel : Nat) (k : K) (inChild : Bool) : Prog α → List Ch → Option (K × Option α × List Ch)
  | .ret a, chs => some (k, some a, chs)
  | .call _ _, [] => none
  | .call c kont, ch :: chs =>
    match fuel with
    | 0 => none
    | fuel + 1 =>
      if c = .fork ∧ ¬ inChild then
        match ch with
        | .fail e => interp fuel k false (kont (.err e)) chs
        | .go _ _ =>
          let k1 : K := { k with child := some (k.par, false) }
          match interp fuel k1 true (kont .child) chs with
          | some (k2, _, chs2) => interp fuel k2 false (kont .parent) chs2
          | none => none
      else
        match kstep k inChild c ch with
        | none => none
        | some (k', r) =>
          if c = .exec ∧ r = .ok then some (k', none, chs)       -- image replaced: program ends
          else if c = .exit then some (k', none, chs)
          else interp fuel k' inChild (kont r) chs

/-- mini spawn: stdout := Pipe -/
def mini : Prog (Except Nat Nat) := do
  match ← sys .pipe with
  | .fds r w =>
    match ← sys (.setCloexec r) with
    | .ok =>
      match ← sys .fork with
      | .child =>
        match ← sys (.dup2 w 1) with
        | .ok =>
          let _ ← sys (.close w)
          let _ ← sys .exec
          let _ ← sys .exit
          return .error 0
        | _ => let _ ← sys .exit; return .error 0
      | .parent =>
        let _ ← sys (.close w)
        return .ok r
      | .err e => let _ ← sys (.close r); let _ ← sys (.close w); return .error e
      | _ => return .error 0
    | .err e => let _ ← sys (.close r); let _ ← sys (.close w); return .error e
    | _ => return .error 0
  | .err e => return .error e
  | _ => return .error 0

def t0 : Tbl := fun x => if x < 3 then some ⟨x, false⟩ else none
def k0 : K := { par := t0, child := none, nextOfd := 10 }

def showRes (o : Option (K × Option (Except Nat Nat) × List Ch)) : String :=
  match o with
  | none => "none"
  | some (k, r, _) =>
    let ct := match k.child with
      | some (t, ex) => s!"child(exec={ex}): " ++ toString ((List.range 8).map fun i => (t i).map (fun e => (e.ofd, e.cloexec)))
      | none => "no child"
    s!"{repr r} parent: " ++ toString ((List.range 8).map fun i => (k.par i).map (fun e => (e.ofd, e.cloexec))) ++ " " ++ ct

#eval showRes (interp 50 k0 false mini [.go 3 4, .go 0 0, .go 0 0, .go 0 0, .go 0 0, .go 0 0, .go 0 0])
#eval showRes (interp 50 k0 false mini [.go 3 4, .fail 24, .go 0 0, .go 0 0])

theorem mini_spec (t : Tbl) (n a b : Nat) (ha : t a = none) (hb : t b = none) (hab : a ≠ b)
    (ha3 : 3 ≤ a) (hb3 : 3 ≤ b) (c1 c2 c3 c4 c5 c6 : Nat × Nat) :
    ∃ k, interp 50 ⟨t, none, n⟩ false mini
        [.go a b, .go c1.1 c1.2, .go c2.1 c2.2, .go c3.1 c3.2, .go c4.1 c4.2, .go c5.1 c5.2, .go c6.1 c6.2]
      = some (k, some (.ok a), []) ∧
      k.par a = some ⟨n, true⟩ ∧ k.par b = none ∧
      (∃ ct, k.child = some (ct, true) ∧ ct 1 = some ⟨n + 1, false⟩ ∧ ct a = none ∧ ct b = none) := by
  have h1a : (1 : Nat) ≠ a := by omega
  have h1b : (1 : Nat) ≠ b := by omega
  have hba : b ≠ a := fun h => hab h.symm
  simp [mini, interp, kstep, Prog.sys, Bind.bind, Prog.bind, Pure.pure, Tbl.set, execClose, ha, hb, hab, hba, h1a, h1b, h1a.symm, h1b.symm]

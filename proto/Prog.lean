-- scratch: free monad of system calls, replay + interpretation
inductive Call where
  | pipe | fcntlSetCloexec (fd : Nat) | fork | close (fd : Nat) | dup2 (src dst : Nat)
  | exec (path : List UInt8) | readStatus (fd : Nat)
  deriving Repr, DecidableEq

inductive Resp where
  | ok | fds (r w : Nat) | pid (p : Nat) | child | err (e : Nat) | bytes (b : List UInt8)
  deriving Repr, DecidableEq

inductive Prog (α : Type) where
  | ret : α → Prog α
  | call : Call → (Resp → Prog α) → Prog α

namespace Prog
def bind : Prog α → (α → Prog β) → Prog β
  | ret a, f => f a
  | call c k, f => call c (fun r => bind (k r) f)
instance : Monad Prog where
  pure := ret
  bind := bind
def sys (c : Call) : Prog Resp := call c ret

-- replay against a logged answer list: returns the calls issued and the result
def replay : Prog α → List Resp → List Call × Option α
  | ret a, _ => ([], some a)
  | call c _, [] => ([c], none)
  | call c k, r :: rs => let (cs, a) := replay (k r) rs; (c :: cs, a)
end Prog
open Prog

def demo : Prog (Except Nat (Nat × Nat)) := do
  match ← sys .pipe with
  | .fds r w =>
    match ← sys (.fcntlSetCloexec r) with
    | .ok => return .ok (r, w)
    | .err e => let _ ← sys (.close r); let _ ← sys (.close w); return .error e
    | _ => return .error 0
  | .err e => return .error e
  | _ => return .error 0

#eval (replay demo [.fds 3 4, .err 9, .ok, .ok]).1
theorem demo_closes (r w e : Nat) :
    (replay demo [.fds r w, .err e, .ok, .ok]) = ([.pipe, .fcntlSetCloexec r, .close r, .close w], some (.error e)) := by
  rfl

example (len n inBuf x y b st : Nat) (hp1 : 1 ≤ len) (hb : b ≤ 1) (e1 : st = 1) :
  6 * (3 * (len - max 1 (min n (min 4096 len))) + b + x + 1 + (2 * (inBuf + min (max 1 (min n (min 4096 len))) len) + y)) + 5
  < 6 * (3 * len + st + x + 1 + (2 * inBuf + y)) + 1 := by
  omega

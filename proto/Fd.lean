-- scratch: symbolic descriptor tables and the dup2 sequence of do_exec
structure Ent where
  ofd : Nat        -- open file description id
  cloexec : Bool
  deriving DecidableEq, Repr

abbrev Tbl := Nat → Option Ent

def Tbl.set (t : Tbl) (fd : Nat) (e : Option Ent) : Tbl := fun x => if x = fd then e else t x

@[simp] theorem Tbl.set_same (t : Tbl) (fd : Nat) (e) : (t.set fd e) fd = e := by simp [Tbl.set]
@[simp] theorem Tbl.set_other (t : Tbl) (fd x : Nat) (e) (h : x ≠ fd) : (t.set fd e) x = t x := by simp [Tbl.set, h]

/-- dup2(src, dst) when src is open: dst refers to the same description, cloexec cleared -/
def dup2 (t : Tbl) (src dst : Nat) : Tbl :=
  match t src with
  | some e => t.set dst (some { e with cloexec := false })
  | none => t

/-- the three guarded dup2s of do_exec followed by closing the (sole-owner) sources -/
def wire (t : Tbl) (s0 s1 s2 : Option Nat) : Tbl :=
  let t := match s0 with | some s => if s ≠ 0 then dup2 t s 0 else t | none => t
  let t := match s1 with | some s => if s ≠ 1 then dup2 t s 1 else t | none => t
  let t := match s2 with | some s => if s ≠ 2 then dup2 t s 2 else t | none => t
  t

def ofdOf (t : Tbl) (fd : Nat) : Option Nat := (t fd).map (·.ofd)

/-- sources are "safe": ≥ 3, or the merge-onto-inherited patterns -/
def SafeSrc (s0 s1 s2 : Option Nat) : Prop :=
  (∀ s, s0 = some s → 3 ≤ s) ∧
  (((∀ s, s1 = some s → 3 ≤ s) ∧ (∀ s, s2 = some s → 3 ≤ s))
   ∨ (s1 = some 1 ∧ s2 = some 1)      -- 2>&1 onto inherited stdout
   ∨ (s1 = some 2 ∧ s2 = some 2))     -- 1>&2 onto inherited stderr

theorem wire_spec (t : Tbl) (s0 s1 s2 : Option Nat) (h : SafeSrc s0 s1 s2)
    (hopen : ∀ s, (s0 = some s ∨ s1 = some s ∨ s2 = some s) → (t s).isSome) :
    ofdOf (wire t s0 s1 s2) 0 = ofdOf t (s0.getD 0) ∧
    ofdOf (wire t s0 s1 s2) 1 = ofdOf t (s1.getD 1) ∧
    ofdOf (wire t s0 s1 s2) 2 = ofdOf t (s2.getD 2) := by
  unfold SafeSrc at h
  unfold wire dup2 ofdOf Tbl.set
  grind

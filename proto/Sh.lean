-- scratch prototype: display_escape and a POSIX-sh lexer for the fragment it can emit

def niceChar (c : Char) : Bool :=
  c == '-' || c == '_' || c == '.' || c == ',' || c == '/' ||
  ('a' ≤ c && c ≤ 'z') || ('A' ≤ c && c ≤ 'Z') || ('0' ≤ c && c ≤ '9')

/-- `s.replace("'", "'\\''")` on a char list -/
def escQuotes : List Char → List Char
  | [] => []
  | c :: cs => if c = '\'' then '\'' :: '\\' :: '\'' :: '\'' :: escQuotes cs else c :: escQuotes cs

/-- display_escape (with the planned fix: the empty string is quoted) -/
def displayEscape (s : List Char) : List Char :=
  if s.isEmpty || !s.all niceChar then '\'' :: escQuotes s ++ ['\''] else s

def joinSp : List (List Char) → List Char
  | [] => []
  | [a] => a
  | a :: rest => a ++ ' ' :: joinSp rest

def toCmdline (argv : List (List Char)) : List Char := joinSp (argv.map displayEscape)

/-- lexer state: mode, current word, whether a word is in progress, finished words -/
inductive Mode | plain | squote | bslash deriving DecidableEq, Repr
structure LS where
  mode : Mode
  cur : List Char
  inWord : Bool
  words : List (List Char)
  bad : Bool            -- met an unquoted character we refuse to interpret
  deriving Repr

def lstep (s : LS) (c : Char) : LS :=
  match s.mode with
  | .squote => if c = '\'' then { s with mode := .plain } else { s with cur := s.cur ++ [c] }
  | .bslash => { s with mode := .plain, cur := s.cur ++ [c] }
  | .plain =>
    if c = '\'' then { s with mode := .squote, inWord := true }
    else if c = '\\' then { s with mode := .bslash, inWord := true }
    else if c = ' ' || c = '\t' then
      if s.inWord then { s with cur := [], inWord := false, words := s.words ++ [s.cur] } else s
    else if niceChar c then { s with cur := s.cur ++ [c], inWord := true }
    else { s with bad := true }

def lfinish (s : LS) : Option (List (List Char)) :=
  if s.bad || s.mode ≠ .plain then none
  else some (if s.inWord then s.words ++ [s.cur] else s.words)

def ls0 : LS := { mode := .plain, cur := [], inWord := false, words := [], bad := false }
def shWords (l : List Char) : Option (List (List Char)) := lfinish (l.foldl lstep ls0)

def ex := ["printf", "%s|", "", "don't", "a b", "$HOME*", "x\ny"].map String.toList
#eval String.ofList (toCmdline ex)
#eval (shWords (toCmdline ex)).map (·.map String.ofList)
#eval shWords (toCmdline ex) == some ex


-- plain (unquoted) word: every nice char is appended
theorem fold_nice (w : List Char) (s : LS) (hm : s.mode = .plain) (hw : w.all niceChar = true) :
    w.foldl lstep s = { s with cur := s.cur ++ w, inWord := s.inWord || !w.isEmpty } := by
  induction w generalizing s with
  | nil => simp
  | cons c cs ih =>
    simp only [List.all_cons, Bool.and_eq_true] at hw
    have hc : niceChar c = true := hw.1
    have hq : c ≠ '\'' := by intro h; subst h; simp [niceChar] at hc
    have hb : c ≠ '\\' := by intro h; subst h; simp [niceChar] at hc
    have hs : ¬ (c = ' ' ∨ c = '\t') := by rintro (h | h) <;> subst h <;> simp [niceChar] at hc
    simp only [List.foldl_cons]
    have h1 : lstep s c = { s with cur := s.cur ++ [c], inWord := true } := by
      simp [lstep, hm, hq, hb, hc]; intro h; exact absurd h hs
    rw [h1, ih _ (by simp [hm]) hw.2]
    simp

-- inside single quotes: the escaped body appends w and stays in squote mode
theorem fold_esc (w : List Char) (s : LS) (hm : s.mode = .squote) :
    (escQuotes w).foldl lstep s = { s with cur := s.cur ++ w } := by
  induction w generalizing s with
  | nil => simp [escQuotes]
  | cons c cs ih =>
    by_cases hq : c = '\''
    · subst hq
      simp only [escQuotes, if_true, List.foldl_cons]
      have : lstep (lstep (lstep (lstep s '\'') '\\') '\'') '\'' = { s with cur := s.cur ++ ['\''], inWord := true } := by
        simp [lstep, hm]
      sorry
    · simp only [escQuotes, hq, if_false, List.foldl_cons]
      have h1 : lstep s c = { s with cur := s.cur ++ [c] } := by simp [lstep, hm, hq]
      rw [h1, ih _ (by simp [hm])]; simp

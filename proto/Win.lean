-- scratch prototype: Windows argv quoting round trip
abbrev U := Nat  -- UTF-16 code unit (bounds irrelevant to the argument)

def SP : U := 0x20
def TAB : U := 0x09
def NL : U := 0x0a
def VT : U := 0x0b
def QT : U := 0x22
def BS : U := 0x5c

def needsQuote (a : List U) : Bool :=
  a.isEmpty || a.any (fun c => c == SP || c == TAB || c == NL || c == VT || c == QT)

/-- body of append_quoted's loop, carrying the number of pending backslashes -/
def quoteBody : Nat → List U → List U
  | n, [] => List.replicate (2 * n) BS
  | n, c :: cs =>
    if c = BS then quoteBody (n + 1) cs
    else if c = QT then List.replicate (2 * n + 1) BS ++ QT :: quoteBody 0 cs
    else List.replicate n BS ++ c :: quoteBody 0 cs

def appendQuoted (a : List U) : List U :=
  if needsQuote a then QT :: quoteBody 0 a ++ [QT] else a

def assembleArgs : List (List U) → List U
  | [] => []
  | [a] => appendQuoted a
  | a :: rest => appendQuoted a ++ SP :: assembleArgs rest

/-- MS C runtime (2008+) parser for the arguments after the program name, one code unit at a time.
    `jc` = the previous unit was a quote that closed a quoted region (for the `""` rule). -/
structure PS where
  inQ : Bool
  jc : Bool
  bs : Nat
  cur : List U
  started : Bool
  acc : List (List U)

def flushBs (s : PS) : List U := s.cur ++ List.replicate s.bs BS

def pstep (s : PS) (c : U) : PS :=
  if c = BS then { s with bs := s.bs + 1, started := true, jc := false }
  else if c = QT then
    if s.bs % 2 = 1 then
      { s with cur := s.cur ++ List.replicate (s.bs / 2) BS ++ [QT], bs := 0, started := true, jc := false }
    else if s.jc then   -- "" : literal quote, back into quote mode
      { s with cur := s.cur ++ [QT], inQ := true, jc := false, started := true }
    else
      { s with cur := s.cur ++ List.replicate (s.bs / 2) BS, bs := 0, inQ := !s.inQ, jc := s.inQ, started := true }
  else if (c = SP ∨ c = TAB) ∧ s.inQ = false then
    if s.started then { inQ := false, jc := false, bs := 0, cur := [], started := false, acc := s.acc ++ [flushBs s] }
    else { s with jc := false }
  else { s with cur := flushBs s ++ [c], bs := 0, started := true, jc := false }

def pfinish (s : PS) : List (List U) := if s.started then s.acc ++ [flushBs s] else s.acc

def parseGo (s : PS) (l : List U) : List (List U) := pfinish (l.foldl pstep s)

def ps0 : PS := { inQ := false, jc := false, bs := 0, cur := [], started := false, acc := [] }
def msParseArgs (l : List U) : List (List U) := parseGo ps0 l

#eval msParseArgs (assembleArgs [[97, SP, 98], [], [BS, BS, QT, 97, BS], [97, BS, BS]])
#eval assembleArgs [[97, SP, 98], [], [BS, BS, QT, 97, BS], [97, BS, BS]]

-- folding over a run of backslashes
theorem fold_bs (s : PS) (k : Nat) :
    (List.replicate k BS).foldl pstep s = if k = 0 then s else { s with bs := s.bs + k, started := true, jc := false } := by
  induction k generalizing s with
  | zero => simp
  | succ k ih =>
    simp only [List.replicate_succ, List.foldl_cons]
    rw [ih]
    simp [pstep]
    split <;> simp_all <;> omega

/-- key lemma: inside quotes, the quoted body of `a` (with `n` pending source backslashes already
    emitted as state) parses to `a` appended to the current argument -/
theorem fold_body (a : List U) (n : Nat) (s : PS) (hq : s.inQ = true) (hbs : s.bs = 0) (hjc : s.jc = false)
    (hst : s.started = true) (ha : ∀ c ∈ a, c ≠ 0) :
    (quoteBody n a ++ [QT]).foldl pstep { s with bs := 2 * n } =
      { s with cur := s.cur ++ List.replicate n BS ++ a, bs := 0, inQ := false, jc := true } := by
  sorry
